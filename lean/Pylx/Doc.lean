/-
  Pylx.Doc — the document grammar of notes/doc-grammar.md on the model side (mirror of harness/docgen.py):

  * `Item` / `ArgVal`      derivations (documents are `List Item`)
  * `unparse`              the source text of a derivation                       (docgen.unparse)
  * `Shape` / `ArgShape`   position-free structure of a node tree, `shapeOf`     (docgen.project_node / project_list)
  * `treeOf ctx`           the structure a derivation was written with           (docgen.tree_of)
  * `WF ctx`               the separation discipline, decidable                  (what docgen.fixup / fix_args enforce)
  * `Core ctx`             the fragment for which `PylxProofs/C02.lean` proves the round trip
  * `handleDoc`            driver operation `DOC <ctx> <serialised derivation>`

  Normalisation of lists of shapes (`normList`, the same on both sides, = docgen.norm_list): adjacent chars
  nodes are merged into one, then chars nodes consisting of whitespace only (`isPySpace`, what `str.strip()`
  strips) are dropped.  It is applied to every *node list* (top level, bodies of groups / math / environments),
  never to the nodes of an argument slot (`ArgShape.one` / `ArgShape.list` are kept as they are).
-/
import Pylx.ParseDrv
namespace Pylx
namespace Doc

/-! ### derivations -/

inductive FKind where
  | dollar | ddollar | paren | brack
deriving Repr, BEq, DecidableEq, Inhabited

def FKind.opener : FKind → Str
  | .dollar => ['$'] | .ddollar => ['$', '$'] | .paren => ['\\', '('] | .brack => ['\\', '[']
def FKind.closer : FKind → Str
  | .dollar => ['$'] | .ddollar => ['$', '$'] | .paren => ['\\', ')'] | .brack => ['\\', ']']
def FKind.display : FKind → Bool
  | .dollar => false | .ddollar => true | .paren => false | .brack => true

mutual
inductive Item where
  | T (text : Str)
  | W (ws : Str)
  | P (ws : Str)
  | G (body : List Item)
  | M (name post : Str) (args : List ArgVal)
  | E (name : Str) (args : List ArgVal) (body : List Item)
  | F (kind : FKind) (body : List Item)
  | C (text tail : Str)
  | S (name : Str) (args : List ArgVal)
  | V (delim : Char) (text : Str)
  /-- verbatim environment; `hasOpt` = the bracket argument `[opt]` is written -/
  | VE (name : Str) (hasOpt : Bool) (opt : List Item) (text : Str)
inductive ArgVal where
  | absent
  | star
  | marker (c : Char)
  | br (body : List Item)
  | grp (body : List Item)
  | tok (c : Char)
  | del (o c : Char) (body : List Item)
  | verb (o c : Char) (text : Str)
end

instance : Inhabited Item := ⟨.T []⟩
instance : Inhabited ArgVal := ⟨.absent⟩

def beginStr (name : Str) : Str := "\\begin{".toList ++ name ++ ['}']
def endStr (name : Str) : Str := "\\end{".toList ++ name ++ ['}']

/-! ### `unparse` -/

mutual
def unparseItems : List Item → Str
  | [] => []
  | .T t :: tl => t ++ unparseItems tl
  | .W w :: tl => w ++ unparseItems tl
  | .P w :: tl => w ++ unparseItems tl
  | .G b :: tl => '{' :: (unparseItems b ++ '}' :: unparseItems tl)
  | .M name post args :: tl => '\\' :: (name ++ (post ++ (unparseArgs args ++ unparseItems tl)))
  | .E name args body :: tl =>
      beginStr name ++ (unparseArgs args ++ (unparseItems body ++ (endStr name ++ unparseItems tl)))
  | .F k b :: tl => k.opener ++ (unparseItems b ++ (k.closer ++ unparseItems tl))
  | .C text tail :: tl => '%' :: (text ++ (tail ++ unparseItems tl))
  | .S name args :: tl => name ++ (unparseArgs args ++ unparseItems tl)
  | .V d text :: tl => "\\verb".toList ++ (d :: (text ++ d :: unparseItems tl))
  | .VE name hasOpt opt text :: tl =>
      beginStr name ++ ((if hasOpt then '[' :: (unparseItems opt ++ [']']) else []) ++ (text ++ (endStr name ++ unparseItems tl)))
def unparseArgs : List ArgVal → Str
  | [] => []
  | .absent :: tl => unparseArgs tl
  | .star :: tl => '*' :: unparseArgs tl
  | .marker c :: tl => c :: unparseArgs tl
  | .br b :: tl => '[' :: (unparseItems b ++ ']' :: unparseArgs tl)
  | .grp b :: tl => '{' :: (unparseItems b ++ '}' :: unparseArgs tl)
  | .tok c :: tl => c :: unparseArgs tl
  | .del o c b :: tl => o :: (unparseItems b ++ c :: unparseArgs tl)
  | .verb o c t :: tl => o :: (t ++ c :: unparseArgs tl)
end

/-- the source text of a document -/
def unparse (d : List Item) : Str := unparseItems d

/-! ### shapes -/

mutual
inductive Shape where
  | chars (c : Str)
  | comment (c : Str)
  | group (dopen dclose : Str) (body : Option (List Shape))
  | mac (name : Str) (args : Option (List ArgShape))
  | env (name : Str) (args : Option (List ArgShape)) (body : Option (List Shape))
  /-- specials: a missing argument list and an empty one are not distinguished (docgen.project_node) -/
  | specials (c : Str) (args : List ArgShape)
  | math (display : Bool) (dopen dclose : Str) (body : Option (List Shape))
inductive ArgShape where
  | absent
  | one (s : Shape)
  | list (l : List Shape)
end

instance : Inhabited Shape := ⟨.chars []⟩
instance : Inhabited ArgShape := ⟨.absent⟩

/-- merge adjacent chars nodes -/
def mergeChars : List Shape → List Shape
  | [] => []
  | .chars a :: tl =>
    match mergeChars tl with
    | .chars b :: r => .chars (a ++ b) :: r
    | r => .chars a :: r
  | x :: tl => x :: mergeChars tl

def Shape.isBlank : Shape → Bool
  | .chars c => c.all isPySpace
  | _ => false

/-- docgen.norm_list: merge adjacent chars nodes, then drop whitespace-only chars nodes -/
def normList (l : List Shape) : List Shape := (mergeChars l).filter (fun x => !x.isBlank)

mutual
def shapeOf : Node → Shape
  | .chars _ _ _ c => .chars c
  | .comment _ _ _ c _ => .comment c
  | .group _ _ _ o c b => .group o c (shapeOfBody b)
  | .mac _ _ _ n _ a => .mac n (shapeOfArgs a)
  | .env _ _ _ n a b => .env n (shapeOfArgs a) (shapeOfBody b)
  | .specials _ _ _ c a => .specials c ((shapeOfArgs a).getD [])
  | .math _ _ _ d o c b => .math d o c (shapeOfBody b)
def shapeOfBody : Option (List Node) → Option (List Shape)
  | none => none
  | some ns => some (normList (shapeOfNodes ns))
/-- the shapes of a list of nodes, not normalised -/
def shapeOfNodes : List Node → List Shape
  | [] => []
  | n :: ns => shapeOf n :: shapeOfNodes ns
def shapeOfArgs : Option (List Arg) → Option (List ArgShape)
  | none => none
  | some l => some (shapeOfArgList l)
def shapeOfArgList : List Arg → List ArgShape
  | [] => []
  | a :: l => shapeOfArg a :: shapeOfArgList l
def shapeOfArg : Arg → ArgShape
  | .absent => .absent
  | .node n => .one (shapeOf n)
  | .list _ _ ns => .list (shapeOfNodes ns)
end

/-- docgen.project_list -/
def shapeOfList (ns : List Node) : List Shape := normList (shapeOfNodes ns)

/-- the structure of a successful top-level parse -/
def shapeTop : Ret → Option (List Shape)
  | .ok (.list _ _ ns) _ => some (shapeOfList ns)
  | _ => none

/-! ### `treeOf` -/

/-- the context declares the paragraph specials `\n\n` -/
def parSpec (ctx : Ctx) : Bool := (ctx.specials.map (·.1)).contains ['\n', '\n']

/-- a verbatim environment's declared optional bracket argument -/
def verbEnvOpt (ctx : Ctx) (name : Str) : Bool :=
  match ctx.envSpec name with
  | some (.legacyVerbEnv _ o, _) => o
  | _ => false

mutual
/-- docgen.tree_of before `norm_list`; `prev` = the tail of the preceding item when that was a comment -/
def treeRaw (ctx : Ctx) : Option Str → List Item → List Shape
  | _, [] => []
  | _, .T t :: tl => .chars t :: treeRaw ctx none tl
  | prev, .W w :: tl =>
    match prev with
    | some _ => treeRaw ctx none tl          -- whitespace after a comment's newline is the comment's post-space
    | none => .chars w :: treeRaw ctx none tl
  | prev, .P w :: tl =>
    (if parSpec ctx then Shape.specials ['\n', '\n'] [] else .chars (prev.getD [] ++ w)) :: treeRaw ctx none tl
  | _, .G b :: tl => .group ['{'] ['}'] (some (normList (treeRaw ctx none b))) :: treeRaw ctx none tl
  | _, .M name _ args :: tl => .mac name (some (treeArgs ctx args)) :: treeRaw ctx none tl
  | _, .E name args body :: tl =>
    .env name (some (treeArgs ctx args)) (some (normList (treeRaw ctx none body))) :: treeRaw ctx none tl
  | _, .F k b :: tl => .math k.display k.opener k.closer (some (normList (treeRaw ctx none b))) :: treeRaw ctx none tl
  | _, .C text tail :: tl => .comment text :: treeRaw ctx (some tail) tl
  | _, .S name args :: tl => .specials name (treeArgs ctx args) :: treeRaw ctx none tl
  | _, .V _ text :: tl => .mac "verb".toList (some [.one (.chars text)]) :: treeRaw ctx none tl
  | _, .VE name hasOpt opt text :: tl =>
    .env name
      (some ((if verbEnvOpt ctx name then
                [if hasOpt then ArgShape.one (.group ['['] [']'] (some (normList (treeRaw ctx none opt)))) else .absent]
              else []) ++ [.one (.chars text)]))
      (some []) :: treeRaw ctx none tl
def treeArgs (ctx : Ctx) : List ArgVal → List ArgShape
  | [] => []
  | .absent :: tl => .absent :: treeArgs ctx tl
  | .star :: tl => .one (.chars ['*']) :: treeArgs ctx tl
  | .marker c :: tl => .list [.chars [c]] :: treeArgs ctx tl
  | .br b :: tl => .one (.group ['['] [']'] (some (normList (treeRaw ctx none b)))) :: treeArgs ctx tl
  | .grp b :: tl => .one (.group ['{'] ['}'] (some (normList (treeRaw ctx none b)))) :: treeArgs ctx tl
  | .tok c :: tl => .one (.chars [c]) :: treeArgs ctx tl
  | .del o c b :: tl => .one (.group [o] [c] (some (normList (treeRaw ctx none b)))) :: treeArgs ctx tl
  | .verb o c t :: tl => .one (.group [o] [c] (some (normList [.chars t]))) :: treeArgs ctx tl
end

/-- the structure a document was written with (docgen.tree_of) -/
def treeOf (ctx : Ctx) (d : List Item) : List Shape := normList (treeRaw ctx none d)

/-- the walker's initial parsing state for a context -/
def startFields (ctx : Ctx) : PSFields := { specials := ctx.specials.map (·.1) }

/-- strict top-level parse of a source text under a context -/
def parseStrict (ctx : Ctx) (s : Str) : Ret := parseTop { tol := false, ctx := ctx, s := s } (startFields ctx)

/-! ### `WF`: the separation discipline -/

def isDigit (c : Char) : Bool := '0' ≤ c && c ≤ '9'

/-- characters of `T` items and single-token arguments: letters, digits, inert punctuation -/
def isTextChar (c : Char) : Bool := isAsciiAlpha c || isDigit c || c == '.' || c == ',' || c == ';' || c == ':'

def isWs (w : Str) : Bool := w.all isPySpace

def headIs (p : Char → Bool) (s : Str) : Bool :=
  match s with
  | [] => false
  | c :: _ => p c

/-- first character after leading whitespace -/
def nextNonSpace (s : Str) : Option Char := (s.dropWhile isPySpace).head?

/-- no specials string of the context starts inside `text` (read in front of `rest`) -/
def noSpecialsIn (keys : List Str) : Str → Str → Bool
  | [], _ => true
  | c :: t, rest => keys.all (fun k => k.isEmpty || !k.isPrefixOf (c :: (t ++ rest))) && noSpecialsIn keys t rest

def ctxKeys (ctx : Ctx) : List Str := ctx.specials.map (·.1)

def isSub (pat : Str) : Str → Bool
  | [] => pat.isEmpty
  | c :: s => pat.isPrefixOf (c :: s) || isSub pat s

/-- closing delimiter the verbatim parser derives from an opening one -/
def verbCloser (o : Char) : Char :=
  if o == '{' then '}' else if o == '[' then ']' else if o == '<' then '>' else if o == '(' then ')' else o

/-- the opener an optional slot looks for, and whether only the immediately following character counts -/
def slotOpener : ArgKind → Option (Char × Bool)
  | .o ap => some ('[', !ap)
  | .s => some ('*', false)
  | .t c => some (c, false)
  | .d o _ => some (o, false)
  | _ => none

/-- an absent optional slot must not see its opener in what follows -/
def absentOk (k : ArgKind) (follow : Str) : Bool :=
  match slotOpener k with
  | none => false                       -- mandatory slots are never absent
  | some (c, immediate) => if immediate then follow.head? != some c else nextNonSpace follow != some c

def deltaMath (inMath : Bool) : Delta → Bool
  | .none => inMath
  | .enterMath => true
  | .leaveMath => false

def isControlWord (name : Str) : Bool := !name.isEmpty && name.all isAsciiAlpha

/-- the name of a control symbol: one character that is not a letter, not whitespace, not a parenthesis or bracket -/
def isControlSymbol (name : Str) : Bool :=
  match name with
  | [c] => !isAsciiAlpha c && !isPySpace c && c != '(' && c != ')' && c != '[' && c != ']'
  | _ => false

/-- the source starts with a paragraph break (a whitespace run with at least two newlines that begins with a
    newline): the tokenizer then takes no post-space for a control word or a comment line in front of it -/
def parStart (s : Str) : Bool := s.head? == some '\n' && decide (countNl (s.takeWhile isPySpace) ≥ 2)

def macroNameOk (name : Str) : Bool :=
  (isControlWord name && name != "begin".toList && name != "end".toList) ||
  (match name with
   | [c] => !isAsciiAlpha c && !isPySpace c && c != '(' && c != ')' && c != '[' && c != ']'
   | _ => false)

/-- characters that can never start a specials token because the tokenizer tests something else first -/
def specialsHeadOk (c : Char) : Bool :=
  !isPySpace c && c != '\\' && c != '%' && c != '{' && c != '}' && c != '$' && c != '[' && c != ']' &&
  c != '<' && c != '>' && c != '(' && c != ')'

/-- delimiters of `r`/`d` slots: not whitespace, not one of the characters the tokenizer tests before groups -/
def delimCharOk (c : Char) : Bool := !isPySpace c && c != '\\' && c != '%' && c != '$' && !isTextChar c

mutual
/-- `wfItems ctx inMath after items`: `after` is the source text that follows the list inside the enclosing
    construct (its closing delimiter; empty at top level) -/
def wfItems (ctx : Ctx) (inMath : Bool) (after : Str) : List Item → Bool
  | [] => true
  | .T t :: tl =>
    let rest := unparseItems tl ++ after
    !t.isEmpty && t.all isTextChar && noSpecialsIn (ctxKeys ctx) t rest && wfItems ctx inMath after tl
  | .W w :: tl =>
    let rest := unparseItems tl ++ after
    !w.isEmpty && isWs w && decide (countNl w < 2) && !headIs isPySpace rest && wfItems ctx inMath after tl
  | .P w :: tl =>
    let rest := unparseItems tl ++ after
    !inMath && isWs w && decide (countNl w ≥ 2) && w.head? == some '\n' && w.getLast? == some '\n' &&
    !headIs isPySpace rest && wfItems ctx inMath after tl
  | .G b :: tl => wfItems ctx inMath ['}'] b && wfItems ctx inMath after tl
  | .M name post args :: tl =>
    let rest := unparseItems tl ++ after
    let written := unparseArgs args ++ rest
    macroNameOk name &&
    -- a control word owns the whitespace behind it: with an empty `post` what is written next must start neither with a
    -- letter nor with whitespace (the generator folds such whitespace into `post`), a paragraph break excepted
    (if isControlWord name then
       isWs post && decide (countNl post < 2) &&
       (if post.isEmpty then !headIs isAsciiAlpha written && (!headIs isPySpace written || parStart written)
        else !headIs isPySpace written)
     else post.isEmpty) &&
    (match ctx.macroSpec name with
     | some (.std sig) => wfArgs ctx inMath rest sig args
     | _ => false) &&
    wfItems ctx inMath after tl
  | .E name args body :: tl =>
    !name.isEmpty && name.all isEnvNameChar &&
    (match ctx.envSpec name with
     | some (.std sig, bm) =>
       wfArgs ctx inMath (unparseItems body ++ endStr name) sig args &&
       wfItems ctx (inMath || bm) (endStr name) body
     | _ => false) &&
    wfItems ctx inMath after tl
  | .F k b :: tl =>
    !inMath && wfItems ctx true k.closer b &&
    (k != .dollar || !isWs (unparseItems b)) &&
    wfItems ctx inMath after tl
  | .C text tail :: tl =>
    !text.contains '\n' && tail.head? == some '\n' && isWs tail && decide (countNl tail = 1) &&
    (match tl with
     | .W w :: _ => decide (countNl w = 0)
     | _ => true) &&
    wfItems ctx inMath after tl
  | .S name args :: tl =>
    let rest := unparseItems tl ++ after
    headIs specialsHeadOk name &&
    testSpecials (ctxKeys ctx) (name ++ (unparseArgs args ++ rest)) 0 == some name &&
    (match lookupFirst name ctx.specials with
     | some (.std sig) => wfArgs ctx inMath rest sig args
     | _ => false) &&
    wfItems ctx inMath after tl
  | .V d text :: tl =>
    (match ctx.macroSpec "verb".toList with
     | some .legacyVerb => true
     | _ => false) &&
    !isAsciiAlpha d && !isPySpace d && !text.contains d && wfItems ctx inMath after tl
  | .VE name hasOpt opt text :: tl =>
    !name.isEmpty && name.all isEnvNameChar &&
    (match ctx.envSpec name with
     | some (.legacyVerbEnv n o, _) =>
       n == name && (!hasOpt || o) &&
       (hasOpt || !o || (text.head? != some '[' && !("\\begin".toList).isPrefixOf text && !("\\end".toList).isPrefixOf text))
     | _ => false) &&
    (!hasOpt || wfItems ctx inMath [']'] opt) &&
    !isSub (endStr name) (text ++ (endStr name).dropLast) &&
    wfItems ctx inMath after tl
/-- one written value per declared slot, of a form the slot accepts; `rest` = the source after the call -/
def wfArgs (ctx : Ctx) (inMath : Bool) (rest : Str) : List ArgSpec → List ArgVal → Bool
  | [], [] => true
  | sp :: sig, .absent :: tl => absentOk sp.kind (unparseArgs tl ++ rest) && wfArgs ctx inMath rest sig tl
  | sp :: sig, .star :: tl => sp.kind == .s && wfArgs ctx inMath rest sig tl
  | sp :: sig, .marker c :: tl => sp.kind == .t c && wfArgs ctx inMath rest sig tl
  | sp :: sig, .br b :: tl =>
    (match sp.kind with | .o _ => true | _ => false) &&
    wfItems ctx (deltaMath inMath sp.delta) [']'] b && wfArgs ctx inMath rest sig tl
  | sp :: sig, .grp b :: tl =>
    sp.kind == .m && wfItems ctx (deltaMath inMath sp.delta) ['}'] b && wfArgs ctx inMath rest sig tl
  | sp :: sig, .tok c :: tl =>
    sp.kind == .m && isTextChar c && noSpecialsIn (ctxKeys ctx) [c] (unparseArgs tl ++ rest) &&
    wfArgs ctx inMath rest sig tl
  | sp :: sig, .del o c b :: tl =>
    (sp.kind == .r o c || sp.kind == .d o c) && delimCharOk o && delimCharOk c &&
    wfItems ctx (deltaMath inMath sp.delta) [c] b && wfArgs ctx inMath rest sig tl
  | sp :: sig, .verb o c t :: tl =>
    sp.kind == .v && c == verbCloser o && !isPySpace o && !t.contains o && !t.contains c &&
    wfArgs ctx inMath rest sig tl
  | _, _ => false
end

/-- **the separation discipline** (decidable): `d` is a well-formed document over `ctx` -/
def WF (ctx : Ctx) (d : List Item) : Bool := wfItems ctx false [] d

/-! ### the fragment covered by the proofs (see PylxProofs/C02.lean) -/

/-- characters no specials string of a covered context starts with: text characters, `*`, `[`, `]` -/
def isKeyFree (c : Char) : Bool := isTextChar c || c == '*' || c == '[' || c == ']'

/-- no specials string of the context starts with a text character (letter, digit, `.` `,` `;` `:`), `*`, `[` or `]` -/
def keysCore (keys : List Str) : Bool := keys.all (fun k => !headIs isKeyFree k)

/-- `\begin` / `\end` as the tokenizer sees them: the word followed by something that is not a letter -/
def isEnvWord (r : Str) : Bool :=
  (("begin".toList).isPrefixOf r && !headIs isAsciiAlpha (r.drop 5)) ||
  (("end".toList).isPrefixOf r && !headIs isAsciiAlpha (r.drop 3))

/-- what follows an absent optional argument (leading whitespace dropped) is something the tokenizer reads without
    an error: anything but a lone backslash, `\begin`, `\end` -/
def escSafe : Str → Bool
  | '\\' :: r => !r.isEmpty && !isEnvWord r
  | _ => true

def absentFollowOk (follow : Str) : Bool :=
  decide (countNl (follow.takeWhile isPySpace) < 2) && escSafe (follow.dropWhile isPySpace)

/-- the characters that may delimit a delimited argument (`r` / `d` slots) in the covered fragment -/
def isXDelim (c : Char) : Bool := c == '[' || c == ']' || c == '(' || c == ')' || c == '<' || c == '>'

/-- a character that can be written as a marker argument in front of `follow`: the tokenizer reads it as a `char` token
    or as the specials token of exactly that character -/
def markerOk (keys : List Str) (c : Char) (follow : Str) : Bool :=
  !isPySpace c && c != '\\' && c != '%' && c != '{' && c != '}' && c != '$' &&
  (match testSpecials keys (c :: follow) 0 with
   | none => true
   | some k => k == [c])

/-- the paragraph specials, when the context declares them, take no arguments -/
def parCore (ctx : Ctx) : Bool :=
  !parSpec ctx ||
  (match lookupFirst ['\n', '\n'] ctx.specials with
   | some (.std sig) => sig.isEmpty
   | _ => false)

mutual
/-- the covered fragment of derivations; `after` is the whole source text that follows the list (not only the closing
    delimiter of the enclosing construct as in `wfItems`; the conditions that look ahead only inspect its first
    characters): text (letters, digits, inert punctuation), whitespace with fewer than two newlines, paragraph breaks
    (outside math; a newline, …, a newline; the paragraph specials of the context, if declared, without arguments), brace
    groups, comments ending in a newline (plus indentation; also in front of a paragraph break), calls of control-word and
    control-symbol macros and environments (`\begin{name}` … `\end{name}`, normal or math body, unknown names through
    the context's fallbacks) whose signature is made of `m` / `o` / `s` / `t<c>` / `r<c1c2>` / `d<c1c2>` slots, the four
    kinds of math, specials without arguments, `\verb<d>text<d>`; arbitrary nesting -/
def coreItems (ctx : Ctx) (inMath : Bool) (after : Str) : List Item → Bool
  | [] => true
  | .T t :: tl => !t.isEmpty && t.all isTextChar && coreItems ctx inMath after tl
  | .W w :: tl =>
    !w.isEmpty && isWs w && decide (countNl w < 2) && !headIs isPySpace (unparseItems tl ++ after) &&
    coreItems ctx inMath after tl
  | .P w :: tl =>
    !inMath && isWs w && decide (countNl w ≥ 2) && w.head? == some '\n' && w.getLast? == some '\n' &&
    !headIs isPySpace (unparseItems tl ++ after) && parCore ctx && coreItems ctx inMath after tl
  | .G b :: tl => coreItems ctx inMath ('}' :: (unparseItems tl ++ after)) b && coreItems ctx inMath after tl
  | .C text tail :: tl =>
    !text.contains '\n' && tail.head? == some '\n' && isWs tail && decide (countNl tail < 2) &&
    (match tl with
     | .W w :: _ => decide (countNl w = 0)
     | .P _ :: _ => true
     | _ => !headIs isPySpace (unparseItems tl ++ after)) &&
    coreItems ctx inMath after tl
  | .M name post args :: tl =>
    let rest := unparseItems tl ++ after
    let written := unparseArgs args ++ rest
    (if isControlWord name then
       name != "begin".toList && name != "end".toList && isWs post && decide (countNl post < 2) &&
       !headIs isAsciiAlpha (post ++ written) && (!headIs isPySpace written || (post.isEmpty && parStart written))
     else
       -- a control symbol: one character that is not a letter; it takes no post-space
       post.isEmpty && isControlSymbol name) &&
    (match ctx.macroSpec name with
     | some (.std sig) => coreArgs ctx inMath rest sig args
     | _ => false) &&
    coreItems ctx inMath after tl
  | .E name args body :: tl =>
    let rest := unparseItems tl ++ after
    !name.isEmpty && name.all isEnvNameChar &&
    (match ctx.envSpec name with
     | some (.std sig, bm) =>
       coreArgs ctx inMath (unparseItems body ++ (endStr name ++ rest)) sig args &&
       coreItems ctx (inMath || bm) (endStr name ++ rest) body
     | _ => false) &&
    coreItems ctx inMath after tl
  | .F k b :: tl =>
    !inMath && coreItems ctx true (k.closer ++ (unparseItems tl ++ after)) b &&
    (k != .dollar || !isWs (unparseItems b)) &&
    coreItems ctx inMath after tl
  | .S name args :: tl =>
    args.isEmpty && headIs specialsHeadOk name &&
    testSpecials (ctxKeys ctx) (name ++ (unparseItems tl ++ after)) 0 == some name &&
    (match lookupFirst name ctx.specials with
     | some (.std sig) => sig.isEmpty
     | _ => false) &&
    coreItems ctx inMath after tl
  | .V d text :: tl =>
    (match ctx.macroSpec "verb".toList with
     | some .legacyVerb => true
     | _ => false) &&
    !isAsciiAlpha d && !isPySpace d && !text.contains d && coreItems ctx inMath after tl
  | _ :: _ => false
/-- one written value per declared slot: `m` as a brace group or a single text character, `o` as a bracket group or
    absent, `s` as a star or absent, `t<c>` as the marker or absent, `r<c1c2>` / `d<c1c2>` as a delimited group with
    delimiters among `[ ] ( ) < >` (`d` also absent); an absent slot is followed by text the tokenizer reads without an
    error (`absentFollowOk`: not a paragraph break, `\begin`, `\end`); `rest` = the whole source after the call -/
def coreArgs (ctx : Ctx) (inMath : Bool) (rest : Str) : List ArgSpec → List ArgVal → Bool
  | [], [] => true
  | sp :: sig, .absent :: tl =>
    (match sp.kind with | .o _ => true | .s => true | .t _ => true | .d o _ => isXDelim o | _ => false) &&
    absentOk sp.kind (unparseArgs tl ++ rest) && absentFollowOk (unparseArgs tl ++ rest) &&
    coreArgs ctx inMath rest sig tl
  | sp :: sig, .star :: tl => sp.kind == .s && coreArgs ctx inMath rest sig tl
  | sp :: sig, .br b :: tl =>
    (match sp.kind with | .o _ => true | _ => false) &&
    coreItems ctx (deltaMath inMath sp.delta) (']' :: (unparseArgs tl ++ rest)) b && coreArgs ctx inMath rest sig tl
  | sp :: sig, .grp b :: tl =>
    sp.kind == .m && coreItems ctx (deltaMath inMath sp.delta) ('}' :: (unparseArgs tl ++ rest)) b &&
    coreArgs ctx inMath rest sig tl
  | sp :: sig, .tok c :: tl => sp.kind == .m && isTextChar c && coreArgs ctx inMath rest sig tl
  | sp :: sig, .marker c :: tl =>
    sp.kind == .t c && markerOk (ctxKeys ctx) c (unparseArgs tl ++ rest) && coreArgs ctx inMath rest sig tl
  | sp :: sig, .del o c b :: tl =>
    (sp.kind == .r o c || sp.kind == .d o c) && isXDelim o && isXDelim c && o != c &&
    coreItems ctx (deltaMath inMath sp.delta) (c :: (unparseArgs tl ++ rest)) b && coreArgs ctx inMath rest sig tl
  | _, _ => false
end

/-- **the fragment for which the round trip is proved**: a condition on the context (no specials string starts
    with a text character, `*`, `[` or `]`) and on the derivation (`coreItems`) -/
def Core (ctx : Ctx) (d : List Item) : Bool := keysCore (ctxKeys ctx) && coreItems ctx false [] d

/-! ### canonical text of shapes (mirrored by harness/docwire.py: `canon`) -/

mutual
def showShape : Shape → String
  | .chars c => "(c " ++ showStr c ++ ")"
  | .comment c => "(% " ++ showStr c ++ ")"
  | .group o c b => "(g " ++ showStr o ++ " " ++ showStr c ++ " " ++ showShapeBody b ++ ")"
  | .mac n a => "(m " ++ showStr n ++ " " ++ showArgShapes a ++ ")"
  | .env n a b => "(e " ++ showStr n ++ " " ++ showArgShapes a ++ " " ++ showShapeBody b ++ ")"
  | .specials c a => "(s " ++ showStr c ++ " <" ++ showArgShapeList a ++ ">)"
  | .math d o c b => "(f " ++ (if d then "D" else "I") ++ " " ++ showStr o ++ " " ++ showStr c ++ " " ++ showShapeBody b ++ ")"
def showShapeBody : Option (List Shape) → String
  | none => "None"
  | some l => "[" ++ showShapeList l ++ "]"
def showShapeList : List Shape → String
  | [] => ""
  | [x] => showShape x
  | x :: l => showShape x ++ " " ++ showShapeList l
def showArgShapes : Option (List ArgShape) → String
  | none => "None"
  | some l => "<" ++ showArgShapeList l ++ ">"
def showArgShapeList : List ArgShape → String
  | [] => ""
  | [a] => showArgShape a
  | a :: l => showArgShape a ++ " " ++ showArgShapeList l
def showArgShape : ArgShape → String
  | .absent => "-"
  | .one s => showShape s
  | .list l => "(L [" ++ showShapeList l ++ "])"
end

/-! ### wire format of derivations (written by harness/docwire.py: `enc_doc`)

space-separated tokens; strings are `x` + hex code points (`x` alone = empty string);
`items = ( item* )`, `args = < arg* >`. -/

def decTok (t : String) : Option Str :=
  match t.toList with
  | 'x' :: r => decodeStr (String.ofList r)
  | _ => none

def decChar (t : String) : Option Char :=
  match decTok t with
  | some [c] => some c
  | _ => none

def decKind : String → Option FKind
  | "d" => some .dollar | "dd" => some .ddollar | "p" => some .paren | "b" => some .brack
  | _ => none

mutual
def pItems : Nat → List String → Option (List Item × List String)
  | n + 1, "(" :: r => pItemsTail n r
  | _, _ => none
def pItemsTail : Nat → List String → Option (List Item × List String)
  | 0, _ => none
  | _ + 1, ")" :: r => some ([], r)
  | n + 1, toks =>
    match pItem n toks with
    | some (it, r) =>
      match pItemsTail n r with
      | some (l, r2) => some (it :: l, r2)
      | none => none
    | none => none
def pItem : Nat → List String → Option (Item × List String)
  | 0, _ => none
  | _ + 1, "T" :: s :: r => (decTok s).map (fun s => (.T s, r))
  | _ + 1, "W" :: s :: r => (decTok s).map (fun s => (.W s, r))
  | _ + 1, "P" :: s :: r => (decTok s).map (fun s => (.P s, r))
  | n + 1, "G" :: r => (pItems n r).map (fun x => (.G x.1, x.2))
  | n + 1, "M" :: a :: b :: r =>
    match decTok a, decTok b, pArgs n r with
    | some a, some b, some (l, r2) => some (.M a b l, r2)
    | _, _, _ => none
  | n + 1, "E" :: a :: r =>
    match decTok a, pArgs n r with
    | some a, some (l, r2) => (pItems n r2).map (fun x => (.E a l x.1, x.2))
    | _, _ => none
  | n + 1, "F" :: k :: r =>
    match decKind k with
    | some k => (pItems n r).map (fun x => (.F k x.1, x.2))
    | none => none
  | _ + 1, "C" :: a :: b :: r =>
    match decTok a, decTok b with
    | some a, some b => some (.C a b, r)
    | _, _ => none
  | n + 1, "S" :: a :: r =>
    match decTok a, pArgs n r with
    | some a, some (l, r2) => some (.S a l, r2)
    | _, _ => none
  | _ + 1, "V" :: d :: s :: r =>
    match decChar d, decTok s with
    | some d, some s => some (.V d s, r)
    | _, _ => none
  | n + 1, "VE" :: a :: "-" :: s :: r =>
    match decTok a, decTok s with
    | some a, some s => some (.VE a false [] s, r)
    | _, _ => none
  | n + 1, "VE" :: a :: "+" :: r =>
    match decTok a, pItems n r with
    | some a, some (o, s :: r2) => (decTok s).map (fun s => (.VE a true o s, r2))
    | _, _ => none
  | _, _ => none
def pArgs : Nat → List String → Option (List ArgVal × List String)
  | n + 1, "<" :: r => pArgsTail n r
  | _, _ => none
def pArgsTail : Nat → List String → Option (List ArgVal × List String)
  | 0, _ => none
  | _ + 1, ">" :: r => some ([], r)
  | n + 1, toks =>
    match pArg n toks with
    | some (a, r) =>
      match pArgsTail n r with
      | some (l, r2) => some (a :: l, r2)
      | none => none
    | none => none
def pArg : Nat → List String → Option (ArgVal × List String)
  | 0, _ => none
  | _ + 1, "a" :: r => some (.absent, r)
  | _ + 1, "s" :: r => some (.star, r)
  | _ + 1, "k" :: c :: r => (decChar c).map (fun c => (.marker c, r))
  | n + 1, "b" :: r => (pItems n r).map (fun x => (.br x.1, x.2))
  | n + 1, "g" :: r => (pItems n r).map (fun x => (.grp x.1, x.2))
  | _ + 1, "t" :: c :: r => (decChar c).map (fun c => (.tok c, r))
  | n + 1, "d" :: o :: c :: r =>
    match decChar o, decChar c with
    | some o, some c => (pItems n r).map (fun x => (.del o c x.1, x.2))
    | _, _ => none
  | _ + 1, "v" :: o :: c :: s :: r =>
    match decChar o, decChar c, decTok s with
    | some o, some c, some s => some (.verb o c s, r)
    | _, _, _ => none
  | _, _ => none
end

def decodeDoc (w : String) : Option (List Item) :=
  let toks := w.splitOn " "
  match pItems (2 * toks.length + 4) toks with
  | some (d, []) => some d
  | _ => none

/-- driver operations
    `DOC <ctx> <derivation>` → `u=<unparse> t=[<treeOf>] wf=<T|F> p=<agree | the structure the model's parser returns>`
    `DOCINFO <ctx> <derivation>` → `wf=<T|F> core=<T|F>` -/
def handleDoc (fields : List String) : Option String :=
  match fields with
  | ["DOC", ctx, w] =>
    match parseCtx ctx, decodeDoc w with
    | some ctx, some d =>
      let s := unparse d
      let t := treeOf ctx d
      let exp := showShapeList t
      let got := match shapeTop (parseStrict ctx s) with
        | some l => showShapeList l
        | none => showRet s (parseStrict ctx s)
      some s!"u={showStr s} t=[{exp}] wf={showBool (WF ctx d)} p={if got == exp then "agree" else got}"
    | _, _ => some "bad-op"
  | ["DOCINFO", ctx, w] =>
    match parseCtx ctx, decodeDoc w with
    | some ctx, some d => some s!"wf={showBool (WF ctx d)} core={showBool (Core ctx d)}"
    | _, _ => some "bad-op"
  | _ => none

end Doc
end Pylx
