/-
  Pylx.Basic — strings as lists of characters, Python-style slicing and
  searching, the wire encoding used by the model driver.
  No Mathlib import (the driver is compiled from these files).
-/
namespace Pylx

abbrev Str := List Char

/-- Python `s[a:b]` for `0 ≤ a`, `0 ≤ b` (clamped like Python does). -/
def slice (s : Str) (a b : Nat) : Str := (s.drop a).take (b - a)

/-- Python `s.startswith(t, p)`. -/
def startsWithAt (s : Str) (t : Str) (p : Nat) : Bool := t.isPrefixOf (s.drop p)

/-- Python `s.find(c, p)` for a single character: index of the first `c` at or after `p`. -/
def findCharFrom (s : Str) (c : Char) (p : Nat) : Option Nat :=
  match (s.drop p).findIdx? (· == c) with
  | some i => some (p + i)
  | none => none

/-- index of first occurrence of `t` in `s` at or after `p` (Python `s.find(t, p)`), `t` non-empty or not. -/
def findStrFromAux (t : Str) : Str → Nat → Option Nat
  | [], p => if t.isEmpty then some p else none
  | c :: cs, p => if t.isPrefixOf (c :: cs) then some p else findStrFromAux t cs (p+1)

def findStrFrom (s t : Str) (p : Nat) : Option Nat :=
  if p > s.length then none else findStrFromAux t (s.drop p) p

/-- The 29 code points for which CPython 3.12 `str.isspace()` is true
    (validated exhaustively against the interpreter by the harness). -/
def isPySpace (c : Char) : Bool :=
  let n := c.toNat
  (9 ≤ n && n ≤ 13) || (28 ≤ n && n ≤ 32) || n == 0x85 || n == 0xA0 || n == 0x1680 ||
  (0x2000 ≤ n && n ≤ 0x200A) || n == 0x2028 || n == 0x2029 || n == 0x202F || n == 0x205F || n == 0x3000

def isAsciiAlpha (c : Char) : Bool :=
  ('a' ≤ c && c ≤ 'z') || ('A' ≤ c && c ≤ 'Z')

/-! ### Wire encoding (driver protocol)

A string travels as hex code points separated by `,`; the empty string is the
empty field.  Output strings are printed with `showStr`: printable ASCII other
than `%` and `"` literally, everything else as `%<hex>;`. -/

def hexDigit (n : Nat) : Char :=
  if n < 10 then Char.ofNat (48 + n) else Char.ofNat (87 + n)

def toHexAux : Nat → Nat → List Char → List Char
  | 0, _, acc => acc
  | fuel+1, n, acc => if n < 16 then hexDigit n :: acc else toHexAux fuel (n / 16) (hexDigit (n % 16) :: acc)

def toHex (n : Nat) : String := String.ofList (toHexAux 8 n [])

def hexVal (c : Char) : Option Nat :=
  if '0' ≤ c && c ≤ '9' then some (c.toNat - 48)
  else if 'a' ≤ c && c ≤ 'f' then some (c.toNat - 87)
  else if 'A' ≤ c && c ≤ 'F' then some (c.toNat - 55)
  else none

def parseHex (s : String) : Option Nat :=
  if s.isEmpty then none else
  s.toList.foldl (fun acc c => match acc, hexVal c with
    | some a, some v => some (a * 16 + v)
    | _, _ => none) (some 0)

def decodeStr (f : String) : Option Str :=
  if f.isEmpty then some [] else
  (f.splitOn ",").foldr (fun h acc => match parseHex h, acc with
    | some n, some l => some (Char.ofNat n :: l)
    | _, _ => none) (some [])

def showChar (c : Char) : String :=
  let n := c.toNat
  if 0x21 ≤ n && n ≤ 0x7e && c != '%' && c != '"' then String.singleton c
  else "%" ++ toHex n ++ ";"

def showStr (s : Str) : String := "\"" ++ String.join (s.map showChar) ++ "\""

def showOptStr : Option Str → String
  | none => "None"
  | some s => showStr s

def showOptNat : Option Nat → String
  | none => "None"
  | some n => toString n

def showBool (b : Bool) : String := if b then "T" else "F"

def parseBool (s : String) : Bool := s == "T" || s == "1"

end Pylx
