/-
  Pylx.World — the hidden mutable state that outlives one parse (C09).

  What exists in the source (regenerated on every run into `Pylx.Gen.StateInventory` by
  translate/stateinventory.py) and what this file does with it:

  * `latexnodes.parsers._stdarg._std_arg_parser_instances` — process-wide dict
      key (the `arg_spec` string, or the sorted tuple of `arg_spec` + keyword arguments) ↦
      `LatexStandardArgumentParser` instance; filled by `get_standard_argument_parser`, which
      `LatexArgumentsParser.parse` calls for every string-typed argument it is about to parse.
      Model: `World.cache : List (ArgKind × Inst)`.  In the closed world of the standard argument
      types the constructor arguments of an instance are an `ArgKind` (it carries `allow_pre_space` for
      the one type the default database uses without pre-space, `\\[..]`), and so is the key.
      Instances constructed explicitly by the author of a context and held by an argument
      specification (`LatexStandardArgumentParser('[', allow_pre_space=False)` in the default
      database) are the same kind of object with the same life time; the model keeps them in the same
      table under their constructor arguments.
  * `LatexStandardArgumentParser._arg_parser` — created by the first `parse` from the instance's
      own `arg_spec` / flags.  Model: `Inst.inner : Option ArgKind` (the parser object, named by the
      `ArgKind` it was built from); `Inst.parserKind` is what `parse` delegates to.
  * `LatexContextDb.frozen` — set by `LatexWalker.__init__` (`freeze()`).  Model: `DbObj.frozen`.
  * `LatexContextDb.d / category_list / lookup_chain_maps / unknown_*_spec` — written by the builder
      methods only (which raise once `frozen`); no parser calls them.  Model: `DbObj.ctx`, never
      written by `advance`.
  * (as it was before the repair 7bf8923) `LatexDelimitedVerbatimParser.depth_counter` on the parser
      instance held as `_arg_parser` by the cached `'v'` / `'v<o><c>'` instance.
      Model: `World.depths`, used only in `Mode.asIs`.

  `parseW mode w call` is the model of one
  `LatexWalker(s, latex_context=db, tolerant_parsing=tol).parse_content(LatexGeneralNodesParser())`
  executed in world `w`.  It *goes through* the world: every argument specification of the database
  is resolved to the parser the world's instance for it delegates to (`resolveCtx`), and the result
  is `Pylx.parseTop` under the resolved context.  That the world does not matter is a theorem about
  well-formed worlds (`PylxProofs.C09`), not a definition.

  Which instances one parse creates / initialises depends on which argument slots it reaches; that
  is not observable in the result.  `advance` therefore takes the list of touched kinds as a
  parameter (any sublist of the kinds the database declares); `Reachable` quantifies over all of
  them and `parseW` (used by the driver) takes the largest one.
-/
import Pylx.ParseDrv
import Pylx.Gen.StateInventory
namespace Pylx.World

/-- which code is modelled: the tree as it is (repaired), or the tree before commit 7bf8923 -/
inductive Mode where
  | repaired | asIs
deriving DecidableEq, Repr, Inhabited

/-- a `LatexStandardArgumentParser` instance that outlives a parse -/
structure Inst where
  /-- constructor arguments (`arg_spec`, `allow_pre_space`) -/
  kind : ArgKind
  /-- `_arg_parser`: `none` until the first `parse`, then the parser built by `get_arg_parser_instance` -/
  inner : Option ArgKind := none
deriving Repr, DecidableEq, Inhabited

/-- `LatexStandardArgumentParser(arg_spec, ...)` -/
def mkInst (k : ArgKind) : Inst := { kind := k }

/-- the parser `LatexStandardArgumentParser.parse` delegates to: `_arg_parser`, created from the instance's
    own constructor arguments if it does not exist yet -/
def Inst.parserKind (i : Inst) : ArgKind := i.inner.getD i.kind

/-- the instance after `parse` ran once -/
def Inst.initialised (i : Inst) : Inst := { i with inner := some i.parserKind }

/-- a context database object -/
structure DbObj where
  ctx : Ctx
  frozen : Bool := false
deriving Inhabited

structure World where
  cache : List (ArgKind × Inst) := []
  dbs : List DbObj := []
  /-- `Mode.asIs` only: `depth_counter` of the verbatim parser behind the cached `'v'` (`none`) or
      `'v<o><c>'` (`some (o, c)`) instance; absent = that parser does not exist yet (it starts at 1) -/
  depths : List (Option (Char × Char) × Int) := []
deriving Inhabited

/-- a fresh process in which the databases have been built and nothing has been parsed -/
def World.init (dbs : List Ctx) : World := { dbs := dbs.map (fun c => { ctx := c }) }

structure Call where
  db : Nat
  tol : Bool
  s : Str
  /-- keyword overrides of the walker's default parsing state (none in the histories of the harness) -/
  base : PSFields := {}
deriving Inhabited

/-! ### looking a parser up in the world -/

/-- dictionary lookup -/
def lookupK (k : ArgKind) : List (ArgKind × Inst) → Option Inst
  | [] => none
  | e :: l => if e.1 = k then some e.2 else lookupK k l

/-- `get_standard_argument_parser(k)`: the cached instance, or a new one -/
def instOf (cache : List (ArgKind × Inst)) (k : ArgKind) : Inst := (lookupK k cache).getD (mkInst k)

def World.inst (w : World) (k : ArgKind) : Inst := instOf w.cache k

def resolveSpec (w : World) (a : ArgSpec) : ArgSpec := { a with kind := (w.inst a.kind).parserKind }

def resolveArgsP (w : World) : ArgsP → ArgsP
  | .std l => .std (l.map (resolveSpec w))
  | a => a

/-- the context as the parser sees it in world `w`: every argument specification replaced by the parser that
    the world's instance for it delegates to -/
def resolveCtx (w : World) (c : Ctx) : Ctx :=
  { macros := c.macros.map (fun p => (p.1, resolveArgsP w p.2)),
    envs := c.envs.map (fun p => (p.1, (resolveArgsP w p.2.1, p.2.2))),
    specials := c.specials.map (fun p => (p.1, resolveArgsP w p.2)),
    unknownMacro := c.unknownMacro.map (resolveArgsP w),
    unknownEnv := c.unknownEnv.map (fun p => (resolveArgsP w p.1, p.2)) }

/-! ### which instances a parse may create -/

def argsPKinds : ArgsP → List ArgKind
  | .std l => l.map (·.kind)
  | _ => []

/-- every standard argument type a database declares, in declaration order, without repetitions -/
def declaredKinds (c : Ctx) : List ArgKind :=
  (c.macros.flatMap (fun p => argsPKinds p.2) ++ c.envs.flatMap (fun p => argsPKinds p.2.1)
    ++ c.specials.flatMap (fun p => argsPKinds p.2)
    ++ (match c.unknownMacro with | some a => argsPKinds a | none => [])
    ++ (match c.unknownEnv with | some a => argsPKinds a.1 | none => [])).eraseDups

/-- `get_standard_argument_parser(k)` followed by `.parse(..)`: the entry exists and its inner parser too -/
def touch (cache : List (ArgKind × Inst)) (k : ArgKind) : List (ArgKind × Inst) :=
  match lookupK k cache with
  | some i => cache.map (fun e => if e.1 = k then (e.1, i.initialised) else e)
  | none => cache ++ [(k, (mkInst k).initialised)]

def freezeAt : List DbObj → Nat → List DbObj
  | [], _ => []
  | d :: l, 0 => { d with frozen := true } :: l
  | d :: l, n + 1 => d :: freezeAt l n

/-- the world after a call that touched exactly the instances `ks` -/
def advance (w : World) (call : Call) (ks : List ArgKind) : World :=
  { w with cache := ks.foldl touch w.cache, dbs := freezeAt w.dbs call.db }

/-! ### the parse in a world -/

def topFieldsOf (c : Ctx) (base : PSFields) : PSFields :=
  ({ base with hasCtx := true, specials := c.specials.map (·.1) } : PSFields).normalize

def topTask' (f : PSFields) : Task := .pc (.general .none true .same) f 0

/-! #### the tree before the repair: the nesting counter of the delimited verbatim parser lives on the instance -/

/-- `LatexDelimitedVerbatimParser.new_char_check_stop_condition` with the counter on `self`: index of the closing
    delimiter that stops the scan (if any) and the counter left behind -/
def verbScanA (o c : Char) : Str → Int → Nat → Option Nat × Int
  | [], d, _ => (none, d)
  | ch :: rest, d, i =>
    if ch == c then
      if d - 1 ≤ 0 then (some i, d - 1) else verbScanA o c rest (d - 1) (i + 1)
    else if ch == o then verbScanA o c rest (d + 1) (i + 1)
    else verbScanA o c rest d (i + 1)

/-- `LatexDelimitedVerbatimParser.parse` started with the counter at `dIn`; also returns the counter afterwards -/
def rawVerbatimA (env : Env) (dIn : Int) (delims : Option (Char × Char)) (f : PSFields) (pos : Nat) : Raw × Int :=
  let p := pos + (spaceRun env.s pos).length
  match env.s[p]? with
  | none => (.eos p, dIn)
  | some first =>
    let oc : Option (Char × Char) :=
      match delims with
      | none =>
        let cl := if first == '{' then '}' else if first == '[' then ']' else if first == '<' then '>'
                  else if first == '(' then ')' else first
        some (first, cl)
      | some (o, c) => if first == o then some (o, c) else none
    match oc with
    | none => (.ret (.perr { what := .verbOpenNotFound, pos := some p, rpos := p + 1 }), dIn)
    | some (o, c) =>
      let start := p + 1
      match verbScanA o c (env.s.drop start) dIn start with
      | (some e, dOut) =>
        let cn := Node.chars start e (psInfo f) (slice env.s start e)
        (.ret (.ok (.node (Node.group p (e + 1) (psInfo f) [o] [c] (some [cn]))) (e + 1)), dOut)
      | (none, dOut) =>
        let cn := Node.chars start env.s.length (psInfo f) (slice env.s start env.s.length)
        (.ret (.perr { what := .verbEOS, pos := some env.s.length, rpos := env.s.length, recNodes := .node cn }), dOut)

/-- one verbatim-argument parse whose starting counter is already known -/
structure VEvent where
  delims : Option (Char × Char)
  pos : Nat
  dIn : Int
deriving Inhabited

/-- marker carried by the probe result: which verbatim parse is the first one whose starting counter is unknown -/
def probeMsg (d : Option (Char × Char)) (pos : Nat) : String :=
  String.ofList ('#' :: (List.replicate pos 'p' ++ (match d with | none => [] | some (o, c) => ['|', o, c])))

def probeDecode (k : String) : Option (Option (Char × Char) × Nat) :=
  match k.toList with
  | '#' :: rest =>
    let n := (rest.takeWhile (· == 'p')).length
    match rest.drop n with
    | [] => some (none, n)
    | ['|', o, c] => some (some (o, c), n)
    | _ => none
  | _ => none

/-- `step`, except that a delimited-verbatim parse starts from the counter recorded for it in `known`; a verbatim
    parse that is not in `known` answers with a probe marker (a `crash`, which every caller passes up unchanged) -/
def stepA (env : Env) (known : List VEvent) (rec : Task → Ret) : Task → Ret
  | .pc (.verbatim d) f pos =>
    match known.find? (fun e => e.delims == d && e.pos == pos) with
    | some e => parseContent env.tol (rawVerbatimA env e.dIn d f pos).1
    | none => .crash (probeMsg d pos)
  | t => step env rec t

def runA (env : Env) (known : List VEvent) : Nat → Task → Ret
  | 0, _ => .fuel
  | n + 1, t => stepA env known (runA env known n) t

def depthOf (ds : List (Option (Char × Char) × Int)) (d : Option (Char × Char)) : Int := (ds.lookup d).getD 1

def setDepth (ds : List (Option (Char × Char) × Int)) (d : Option (Char × Char)) (v : Int) :
    List (Option (Char × Char) × Int) :=
  if (ds.lookup d).isSome then ds.map (fun e => if e.1 == d then (e.1, v) else e) else ds ++ [(d, v)]

/-- The parse with the counters threaded through the verbatim parses in execution order.  The pure step function
    cannot carry the counter from one sub-parse to the next, so the execution is replayed: each round runs the
    parse with the verbatim parses discovered so far (their starting counters are known exactly); the first
    verbatim parse that is not known yet reports itself, its starting counter is the current one, its effect on
    the counter is computed, and the next round knows it.  (Exact as long as one parse does not run two verbatim
    parses of the same type at the same position.) -/
def asIsLoop (env : Env) (f : PSFields) :
    Nat → List VEvent → List (Option (Char × Char) × Int) → Ret × List (Option (Char × Char) × Int)
  | 0, _, ds => (.fuel, ds)
  | n + 1, known, ds =>
    match runA env known (fuelFor env.s) (topTask' f) with
    | .crash k =>
      match probeDecode k with
      | some (d, pos) =>
        let dIn := depthOf ds d
        asIsLoop env f n (known ++ [{ delims := d, pos := pos, dIn := dIn }]) (setDepth ds d (rawVerbatimA env dIn d f pos).2)
      | none => (.crash k, ds)
    | r => (r, ds)

/-! #### one call -/

/-- result when the call names a database that does not exist -/
def noDb : Ret := .crash "no such database object"

/-- the result of one parse in world `w` and the counters it leaves (only `Mode.asIs` has any) -/
def parseIn (m : Mode) (w : World) (call : Call) : Ret × List (Option (Char × Char) × Int) :=
  match w.dbs[call.db]? with
  | none => (noDb, w.depths)
  | some d =>
    let ctx := resolveCtx w d.ctx
    let env : Env := { tol := call.tol, ctx := ctx, s := call.s }
    let f := topFieldsOf ctx call.base
    match m with
    | .repaired => (parseTop env f, w.depths)
    | .asIs => asIsLoop env f (2 * call.s.length + 3) [] w.depths

def callKinds (w : World) (call : Call) : List ArgKind :=
  match w.dbs[call.db]? with
  | none => []
  | some d => declaredKinds d.ctx

/-- `parseW : World → Call → Ret × World` (the world afterwards is the one in which every declared argument type
    of the database has been used) -/
def parseW (m : Mode) (w : World) (call : Call) : Ret × World :=
  let r := parseIn m w call
  (r.1, { advance w call (callKinds w call) with depths := r.2 })

/-- a whole history: the results in order and the final world -/
def runHist (m : Mode) : World → List Call → List Ret × World
  | w, [] => ([], w)
  | w, c :: cs =>
    let r := parseW m w c
    let rest := runHist m r.2 cs
    (r.1 :: rest.1, rest.2)

/-! ### the allow-list: every store of the regenerated inventory, with the reason it cannot make a parse depend
    on history and the place where the model accounts for it -/

structure Allowed where
  cls : String
  attr : String
  method : String
  why : String

def allowedModuleState : List (String × String × String) := [
  ("latexnodes.parsers._stdarg", "_std_arg_parser_instances",
   "World.cache: key ↦ instance; entries are only added, and an entry is a function of its key (WF)")]

def allowedShared : List Allowed := [
  { cls := "LatexStandardArgumentParser", attr := "_arg_parser", method := "parse",
    why := "Inst.inner: created once, from the instance's own constructor arguments only (Inst.initialised); WF" },
  { cls := "LatexContextDb", attr := "frozen", method := "freeze",
    why := "DbObj.frozen: set by LatexWalker.__init__; monotone; read only by the builder methods" },
  { cls := "LatexContextDb", attr := "d", method := "add_context_category",
    why := "builder method, raises once frozen, no call site on the parse path (allowedCallSites); DbObj.ctx is never written" },
  { cls := "LatexContextDb", attr := "_autogen_category_counter", method := "add_context_category",
    why := "builder method (as above)" },
  { cls := "LatexContextDb", attr := "_autogen_category_counter", method := "_get_new_autogen_category",
    why := "called by add_context_category / extended_with only (allowedCallSites)" },
  { cls := "LatexContextDb", attr := "unknown_macro_spec", method := "set_unknown_macro_spec",
    why := "builder method, raises once frozen, no call site on the parse path" },
  { cls := "LatexContextDb", attr := "unknown_environment_spec", method := "set_unknown_environment_spec",
    why := "builder method, raises once frozen, no call site on the parse path" },
  { cls := "LatexContextDb", attr := "unknown_specials_spec", method := "set_unknown_specials_spec",
    why := "builder method, raises once frozen, no call site on the parse path" }]

/-- call sites of the state-changing methods: none of the callers is a parser, collector, token reader or spec
    method; `LatexWalker.__init__` only calls `freeze` -/
def allowedCallSites : List (String × String) := [
  ("LatexWalker.__init__", "freeze"),
  ("LatexContextDb.add_context_category", "_get_new_autogen_category"),
  ("LatexContextDb.extended_with", "_get_new_autogen_category"),
  ("LatexContextDb.filtered_context", "add_context_category"),
  ("get_default_latex_context_db", "add_context_category"),
  ("get_default_latex_context_db", "set_unknown_macro_spec"),
  ("get_default_latex_context_db", "set_unknown_environment_spec"),
  ("_legacy_pyltxenc1_LatexWalker_init_from_macro_dict", "add_context_category")]

/-- the walker object is created per call (one `LatexWalker` per input string) -/
def allowedWalker : List Allowed := [
  { cls := "LatexWalker", attr := "_line_no_calc", method := "pos_to_lineno_colno",
    why := "lazily created line-number table of this walker's own input string; a walker serves one call" }]

def inventoryAccounted : Bool :=
  Gen.StateInventory.moduleState.all (fun p => allowedModuleState.any (fun a => a.1.toList == p.1 && a.2.1.toList == p.2))
  && Gen.StateInventory.sharedStores.all (fun p =>
      allowedShared.any (fun a => a.cls.toList == p.1 && a.attr.toList == p.2.1 && a.method.toList == p.2.2))
  && Gen.StateInventory.storeMethodCallSites.all (fun p =>
      allowedCallSites.any (fun a => a.1.toList == p.1 && a.2.toList == p.2))
  && Gen.StateInventory.walkerStores.all (fun p =>
      allowedWalker.any (fun a => a.cls.toList == p.1 && a.attr.toList == p.2.1 && a.method.toList == p.2.2))

/-! ### driver -/

def showKind : ArgKind → String
  | .m => "m"
  | .o ap => if ap then "o1" else "o0"
  | .s => "s"
  | .t c => "t" ++ hexOf c.toNat
  | .r o c => "r" ++ hexOf o.toNat ++ "." ++ hexOf c.toNat
  | .d o c => "d" ++ hexOf o.toNat ++ "." ++ hexOf c.toNat
  | .v => "v"
  | .vd o c => "V" ++ hexOf o.toNat ++ "." ++ hexOf c.toNat
  | .m0 => "m0"
where
  hexOf (n : Nat) : String := String.ofList (Nat.toDigits 16 n)

def showWorld (w : World) : String :=
  "keys=[" ++ " ".intercalate (w.cache.map (fun e => showKind e.1)) ++ "] frozen=["
    ++ "".intercalate (w.dbs.map (fun d => if d.frozen then "T" else "F")) ++ "]"

def parseCalls (dbs : List Ctx) : List String → Option (List (Call × Str))
  | [] => some []
  | i :: tol :: desc :: s :: rest =>
    match i.toNat?, decodeStr s, parseFields desc, parseCalls dbs rest with
    | some i, some s, some base, some l => some (({ db := i, tol := parseBool tol, s := s, base := base }, s) :: l)
    | _, _, _, _ => none
  | _ => none

def parseCtxs : List String → Option (List Ctx)
  | [] => some []
  | c :: rest => match parseCtx c, parseCtxs rest with
    | some c, some l => some (c :: l)
    | _, _ => none

/-- `HIST <mode> <n> <ctx_1> … <ctx_n> (<db index> <T|F> <parsing-state overrides> <input>)*` -/
def handleHist (fields : List String) : Option String :=
  match fields with
  | "HIST" :: mode :: n :: rest =>
    match n.toNat? with
    | none => some "bad-op"
    | some n =>
      match parseCtxs (rest.take n) with
      | none => some "bad-op"
      | some dbs =>
        match parseCalls dbs (rest.drop n) with
        | none => some "bad-op"
        | some calls =>
          let m := if mode == "asis" then Mode.asIs else Mode.repaired
          let r := runHist m (World.init dbs) (calls.map (·.1))
          some (" ;; ".intercalate ((r.1.zip (calls.map (·.2))).map (fun p => showRet p.2 p.1)) ++ " || " ++ showWorld r.2)
  | _ => none

end Pylx.World
