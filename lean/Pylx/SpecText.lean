/-
  Pylx.SpecText — `specText`: the documented rules of latex2text for the core sublanguage, written over the *derivation*
  (`Doc.Item`), not over the tree (mirror of harness/spectext.py: `spec_text`); notes/doc-grammar.md "specText".

    text and whitespace are copied — a maximal run of `T`/`W` items is one segment, a whitespace-only segment is kept only
    under `between-latex-constructs`; `G` is transparent (delimiters kept under `keep_braced_groups` when the contents
    are long enough); macros by their entry in the text database: no entry → nothing, plain string → the string,
    transparent (no replacement, `discard=False`) → the arguments' contents, accent → NFC(base + combining) per
    character, %-format (`\frac`, `\sqrt`) → the format filled with the arguments' contents, `\item` → bullet / label;
    the post-space of a call without written arguments is put back in front of following text unless
    `between-macro-and-chars`; environments without replacement → body; formulas by `math_mode` with the body under the
    equation policy; comments → their whitespace (newline + indentation, nothing when the newline opens a paragraph
    break) unless `after-comment`, with `%text` under `keep_comments`; specials → their string; `P` → `\n\n`.

  Driver operation `SPEC\t<opts>\t<lib>\t<derivation>` → `ok "<text>"` (options and library oracles as for `L2T`,
  derivation in the wire format of `Pylx.Doc.decodeDoc`), with the generated default text database.
-/
import Pylx.L2TDrv
import Pylx.Doc
namespace Pylx.L2T.C03
open Pylx Pylx.L2T Pylx.Doc

def argWritten : ArgVal → Bool
  | .absent => false
  | _ => true

/-- a call without any written argument -/
def isBareArgs (args : List ArgVal) : Bool := !args.any argWritten

/-- the next item is text or whitespace -/
def nextIsRun : List Item → Bool
  | .T _ :: _ => true
  | .W _ :: _ => true
  | _ => false

/-- a group is transparent; its delimiters are kept under `keep_braced_groups` when the contents are long enough -/
def groupRule (o : Opts) (op cl t : Str) : Str :=
  if o.keepBraced && (t.length : Int) ≥ o.minLen then op ++ t ++ cl else t

/-- a segment of characters is copied, except that a whitespace-only segment is kept only under `between-latex-constructs` -/
def flushRun (c : Sls) : Option Str → Str
  | none => []
  | some r => if !c.lc && r.all isPySpace then [] else r

/-- the comment's own whitespace: its newline and the indentation of the next line — unless the newline opens a
    paragraph break -/
def commentPost (tail : Str) : List Item → Str
  | .W w :: _ => tail ++ w
  | .P _ :: _ => []
  | _ => tail

def commentText (o : Opts) (c : Sls) (text post : Str) : Str :=
  if o.keepComments then
    (if c.ac then '%' :: text ++ (if post.isEmpty then [] else ['\n']) else '%' :: text ++ post)
  else (if c.ac then [] else post)

def fillFormat (raw : Str) (segs : List Seg) (vals : List Str) : Str :=
  ((if segs.any Seg.isPos then fmtTuple segs vals else fmtDict (numberedFrom 1 vals) segs)).getD raw

def formulaText (o : Opts) (k : FKind) (content source : Str) : Str :=
  match o.mathMode with
  | .remove => []
  | .verbatim => if k.display then indentedBlock source [] else source
  | .withDelims => if k.display then k.opener ++ indentedBlock content [] ++ k.closer else k.opener ++ content ++ k.closer
  | .text => if k.display then indentedBlock content "    ".toList else content

/-- the text of a macro call from the contents of its arguments (`vals`) and its first argument rendered as a construct of
    its own (`first`; `none` when it is absent or there is none) -/
def macroText (lib : Lib) (db : TextDb) (name : Str) (vals : List Str) (first : Option Str) : Str :=
  match lookupFirst name db.macros with
  | none => []
  | some sp =>
    match sp.repl with
    | .lit s => s
    | .const s => s
    | .none => if sp.discard then [] else vals.flatten
    | .accent comb => (strip (first.getD [' '])).flatMap (accentChar lib (Char.ofNat comb))
    | .fmt raw segs => fillFormat raw segs vals
    | .item =>
      match first with
      | some t => "\n  ".toList ++ t
      | none => "\n  * ".toList
    | _ => []

mutual
/-- `skipW`: the previous item was a comment (a following whitespace item is part of its post-space);
    `run`: the segment of characters collected so far -/
def specItems (o : Opts) (lib : Lib) (db : TextDb) (c : Sls) : Bool → Option Str → List Item → Str
  | _, run, [] => flushRun c run
  | true, _, .W _ :: tl => specItems o lib db c false none tl
  | _, run, .T t :: tl => specItems o lib db c false (some (run.getD [] ++ t)) tl
  | false, run, .W w :: tl => specItems o lib db c false (some (run.getD [] ++ w)) tl
  | _, run, .P _ :: tl => flushRun c run ++ (['\n', '\n'] ++ specItems o lib db c false none tl)
  | _, run, .G b :: tl =>
    flushRun c run ++ (groupRule o ['{'] ['}'] (specItems o lib db c false none b) ++ specItems o lib db c false none tl)
  | _, run, .M name post args :: tl =>
    flushRun c run ++ (macroText lib db name (specArgs o lib db c args) (specFirst o lib db c args) ++
      ((if isBareArgs args && nextIsRun tl && !c.mc then post else []) ++ specItems o lib db c false none tl))
  | _, run, .E name _ body :: tl =>
    flushRun c run ++
      ((match lookupFirst name db.envs with
        | none => specItems o lib db c false none body
        | some sp => if sp.repl == .none && !sp.discard then specItems o lib db c false none body else []) ++
       specItems o lib db c false none tl)
  | _, run, .F k b :: tl =>
    flushRun c run ++
      (formulaText o k (strip (specItems o lib db c.enterEq false none b)) (k.opener ++ (unparseItems b ++ k.closer)) ++
       specItems o lib db c false none tl)
  | _, run, .C text tail :: tl =>
    flushRun c run ++ (commentText o c text (commentPost tail tl) ++ specItems o lib db c true none tl)
  | _, run, .S name _ :: tl =>
    flushRun c run ++
      ((match lookupFirst name db.specials with
        | some ⟨_, _, .lit s⟩ => s
        | some _ => []
        | none => name) ++ specItems o lib db c false none tl)
  | _, run, .V _ _ :: tl => flushRun c run ++ specItems o lib db c false none tl
  | _, run, .VE _ _ _ _ :: tl => flushRun c run ++ specItems o lib db c false none tl
/-- the contents of each argument, delimiters dropped -/
def specArgs (o : Opts) (lib : Lib) (db : TextDb) (c : Sls) : List ArgVal → List Str
  | [] => []
  | .grp b :: tl => specItems o lib db c false none b :: specArgs o lib db c tl
  | .br b :: tl => specItems o lib db c false none b :: specArgs o lib db c tl
  | .tok ch :: tl => [ch] :: specArgs o lib db c tl
  | _ :: tl => [] :: specArgs o lib db c tl
/-- the first argument as a construct of its own (a group is a group) -/
def specFirst (o : Opts) (lib : Lib) (db : TextDb) (c : Sls) : List ArgVal → Option Str
  | .grp b :: _ => some (groupRule o ['{'] ['}'] (specItems o lib db c false none b))
  | .br b :: _ => some (groupRule o ['['] [']'] (specItems o lib db c false none b))
  | .tok ch :: _ => some [ch]
  | _ => none
end

/-- **the documented rules**: the text of a core-sublanguage document under the given options -/
def specTextWith (o : Opts) (lib : Lib) (db : TextDb) (d : List Item) : Str :=
  specItems o lib db (parseSls o.sls) false none d

/-- with the generated default text database -/
def specText (o : Opts) (lib : Lib) (d : List Item) : Str := specTextWith o lib Gen.defaultTextDb d

/-! ### the core sublanguage (the constructs the property lists) -/

def isFormatRepl (sp : TSpec) : Bool := sp.repl == .none && sp.hasDiscard && !sp.discard

def isLitRepl : Repl → Bool
  | .lit _ => true
  | .const _ => true
  | _ => false

mutual
/-- text, whitespace, paragraph breaks, groups, calls of macros that the text database lists as a plain string (symbols),
    as transparent (formatting), as an accent, as `\frac` / `\sqrt` (%-format) or `\item`, or does not list at all
    (unknown), with arguments written as groups, bracket groups or single characters; environments without a
    replacement (lists) or not listed (unknown); formulas; comments; specials without arguments -/
def coreText (db : TextDb) : List Item → Bool
  | [] => true
  | .T _ :: tl => coreText db tl
  | .W _ :: tl => coreText db tl
  | .P _ :: tl => coreText db tl
  | .G b :: tl => coreText db b && coreText db tl
  | .M name _ args :: tl =>
    (match lookupFirst name db.macros with
     | none => args.isEmpty
     | some sp =>
       match sp.repl with
       | .lit _ => args.isEmpty
       | .const _ => args.isEmpty
       | .none => isFormatRepl sp
       | .accent _ => args.length == 1
       | .fmt _ _ => name == "frac".toList || name == "sqrt".toList
       | .item => true
       | _ => false) && coreTextArgs db args && coreText db tl
  | .E name args body :: tl =>
    (match lookupFirst name db.envs with
     | none => true
     | some sp => sp.repl == .none && !sp.discard) && coreTextArgs db args && coreText db body && coreText db tl
  | .F _ b :: tl => coreText db b && coreText db tl
  | .C _ _ :: tl => coreText db tl
  | .S name args :: tl =>
    args.isEmpty && (match lookupFirst name db.specials with
      | some sp => isLitRepl sp.repl
      | none => true) && coreText db tl
  | _ :: _ => false
def coreTextArgs (db : TextDb) : List ArgVal → Bool
  | [] => true
  | .absent :: tl => coreTextArgs db tl
  | .grp b :: tl => coreText db b && coreTextArgs db tl
  | .br b :: tl => coreText db b && coreTextArgs db tl
  | .tok _ :: tl => coreTextArgs db tl
  | _ :: _ => false
end

/-- the core sublanguage over the generated default text database -/
def CoreText (d : List Item) : Bool := coreText Gen.defaultTextDb d

/-- driver operation `SPEC` -/
def handleSpec (fields : List String) : Option String :=
  match fields with
  | ["SPEC", opts, lib, w] =>
    match parseOpts opts, parseLib lib, decodeDoc w with
    | some o, some l, some d => some ("ok " ++ showStr (specText o l d) ++ " core=" ++ showBool (CoreText d))
    | _, _, _ => some "bad-op"
  | _ => none

end Pylx.L2T.C03
