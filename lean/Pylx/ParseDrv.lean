/-
  Pylx.ParseDrv — driver operation `PARSE` and the context descriptor syntax.
-/
import Pylx.Parse
import Pylx.TokDrv
import Pylx.LineNo
import Pylx.Gen.WalkerDb
namespace Pylx

def parseCharHex (h : String) : Option Char := (parseHex h).map Char.ofNat

def parseDelta (s : String) : String × Delta :=
  if s.endsWith "+" then ((s.dropEnd 1).toString, .enterMath)
  else if s.endsWith "-" then ((s.dropEnd 1).toString, .leaveMath)
  else (s, .none)

def parseTwo (s : String) : Option (Char × Char) :=
  match s.splitOn "." with
  | [a, b] => match parseCharHex a, parseCharHex b with
    | some a, some b => some (a, b)
    | _, _ => none
  | _ => none

def parseSpec (s : String) : Option ArgSpec :=
  let (body, d) := parseDelta s
  let rest := (body.drop 1).toString
  match (body.take 1).toString with
  | "m" => if rest == "0" then some ⟨.m0, d⟩ else if rest.isEmpty then some ⟨.m, d⟩ else none
  | "o" => some ⟨.o (rest == "1"), d⟩
  | "s" => some ⟨.s, d⟩
  | "v" => some ⟨.v, d⟩
  | "t" => (parseCharHex rest).map (fun c => ⟨.t c, d⟩)
  | "r" => (parseTwo rest).map (fun p => ⟨.r p.1 p.2, d⟩)
  | "d" => (parseTwo rest).map (fun p => ⟨.d p.1 p.2, d⟩)
  | "V" => (parseTwo rest).map (fun p => ⟨.vd p.1 p.2, d⟩)
  | _ => none

def parseArgsP (s : String) : Option ArgsP :=
  match s.splitOn "/" with
  | "S" :: specs => (specs.foldr (fun x acc => match parseSpec x, acc with
      | some a, some l => some (a :: l)
      | _, _ => none) (some [])).map .std
  | ["LV"] => some .legacyVerb
  | ["LE", n, o] => (decodeStr n).map (fun n => .legacyVerbEnv n (o == "1"))
  | ["U"] => some .unknown
  | _ => none

def parseEntries {β : Type} (sec : String) (f : List String → Option β) : Option (List (Str × β)) :=
  if sec.isEmpty then some [] else
  (sec.splitOn ";").foldr (fun item acc =>
    match item.splitOn "=", acc with
    | n :: rest, some l => match decodeStr n, f rest with
      | some n, some b => some ((n, b) :: l)
      | _, _ => none
    | _, _ => none) (some [])

def parseCtx (s : String) : Option Ctx :=
  if s == "@default" then some Gen.defaultCtx else
  match s.splitOn "!" with
  | [m, e, sp, um, ue] =>
    let ms := parseEntries m (fun r => match r with | [a] => parseArgsP a | _ => none)
    let es := parseEntries e (fun r => match r with | [a, b] => (parseArgsP a).map (fun a => (a, b == "1")) | _ => none)
    let ss := parseEntries sp (fun r => match r with | [a] => parseArgsP a | _ => none)
    let umv : Option (Option ArgsP) := if um == "-" then some none else (parseArgsP um).map some
    let uev : Option (Option (ArgsP × Bool)) := if ue == "-" then some none else
      match ue.splitOn "=" with
      | [a, b] => (parseArgsP a).map (fun a => some (a, b == "1"))
      | _ => none
    match ms, es, ss, umv, uev with
    | some ms, some es, some ss, some umv, some uev =>
      some { macros := ms, envs := es, specials := ss, unknownMacro := umv, unknownEnv := uev }
    | _, _, _, _, _ => none
  | _ => none

def showRes : Res → String
  | .none => "None"
  | .node n => showNode n
  | .list p e ns => s!"ok (L {showOptNat p} {showOptNat e} [{showNodes ns}])"
  | .args _ _ l => showArgs (some l)

def showRet (s : Str) : Ret → String
  | .ok r _ => showRes r
  | .perr e =>
    match e.pos with
    | some p => let lc := posToLineCol {} s p; s!"ERR {e.what.show} {p} {lc.1} {lc.2}"
    | none => s!"ERR {e.what.show} None None None"
  | .loopEnd _ => "CRASH loopEnd"
  | .crash k => "CRASH " ++ k
  | .fuel => "FUEL"

/-- fields of the walker's default parsing state for a context, with optional overrides -/
def topFields (ctx : Ctx) (desc : String) : Option PSFields :=
  (parseFields desc).map (fun f => { f with hasCtx := true, specials := ctx.specials.map (·.1) })

def handleParse (fields : List String) : Option String :=
  match fields with
  | ["PARSE", tol, ctx, desc, s] =>
    match parseCtx ctx, decodeStr s with
    | some ctx, some s =>
      match topFields ctx desc with
      | some f => some (showRet s (parseTop { tol := parseBool tol, ctx := ctx, s := s } f.normalize))
      | none => some "bad-op"
    | _, _ => some "bad-op"
  | _ => none

end Pylx
