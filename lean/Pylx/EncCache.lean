/-
  Pylx.EncCache — the module-level shorthand `latexencode.unicode_to_latex(s, non_ascii_only,
  replacement_latex_protection, unknown_char_policy, unknown_char_warning)` with its process-wide
  dictionary `_u2l_obj_cache` of encoder objects, keyed by the four option values
  (latexencode/__init__.py, 143-182).  Driver operation `CACHE` (properties C04, C08, C13: the shorthand is
  a front door to the same encoder).

  An encoder object is its configuration (the encoder keeps no state between calls: theorem
  `C09_*` for the parser side, functional purity of `encodeChunks` here); the cache is an
  association list in insertion order.  `unknown_char_warning` only decides whether a warning is
  logged; it is part of the key and of nothing else.
-/
import Pylx.EncBuiltin
namespace Pylx.EncCache

/-- the tuple used as dictionary key -/
structure Key where
  nao : Bool
  prot : Prot
  pol : Policy
  warn : Bool
deriving DecidableEq, Repr

/-- `UnicodeToLatexEncoder(non_ascii_only=…, replacement_latex_protection=…, unknown_char_policy=…,
    unknown_char_warning=…)`: the default rule list `['defaults']` -/
def mkEnc (k : Key) : Cfg := EncB.builtinCfg .defaults k.prot k.pol k.nao

abbrev Cache := List (Key × Cfg)

/-- one call of the shorthand: look the key up, build and store the encoder when absent, encode -/
def call (c : Cache) (k : Key) (s : Str) : Cache × EncRes :=
  match c.lookup k with
  | some e => (c, encodeChunks e s)
  | none => ((k, mkEnc k) :: c, encodeChunks (mkEnc k) s)

/-- a history of calls from a given cache: the results, in order -/
def runHist : Cache → List (Key × Str) → List EncRes
  | _, [] => []
  | c, (k, s) :: h => let r := call c k s; r.2 :: runHist r.1 h

/-- the same shorthand with a cache key that forgets the policy (the shape of two seeded changes) -/
def callNoPol (c : Cache) (k : Key) (s : Str) : Cache × EncRes :=
  let k' : Key := { k with pol := .keep }
  match c.lookup k' with
  | some e => (c, encodeChunks e s)
  | none => ((k', mkEnc k) :: c, encodeChunks (mkEnc k) s)

/-! ## Driver -/

def decodeCall (f : String) : Option (Key × Str) :=
  match f.splitOn " " with
  | [prot, pol, nao, warn, s] =>
    match decodeProt prot, decodePolicy pol, decodeStr s with
    | some prot, some pol, some s => some ({ nao := parseBool nao, prot := prot, pol := pol, warn := parseBool warn }, s)
    | _, _, _ => none
  | _ => none

/-- the shorthand returns a string, not the list of chunks -/
def showJoined (r : EncRes) : String :=
  match r.joined with
  | some t => "ok " ++ showStr t
  | none => showEncRes r

/-- `CACHE <call>;<call>;…` with `<call>` = `<prot> <policy> <nao> <warn> <input>` →
    the results (`ok <joined text>` or as for `ENC`), joined by ` ; ` -/
def handleCache (fields : List String) : Option String :=
  match fields with
  | ["CACHE", calls] =>
    match allSome ((calls.splitOn ";").map decodeCall) with
    | some h => some (" ; ".intercalate ((runHist [] h).map showJoined))
    | none => some "bad-op"
  | _ => none

end Pylx.EncCache
