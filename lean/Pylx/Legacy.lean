/-
  Pylx.Legacy — model of the pylatexenc-2 compatible entry points
  (`latexwalker/_walker.py: _pyltxenc2_LatexWalker_*`, `macrospec/_spechelpers.py`,
  `_specclasses.py: _legacy_pyltxenc2_CallableSpec_init_from_args_parser`,
  `_argumentsparser.py: _LegacyPyltxenc2MacroArgsParserWrapper`,
  `_pyltxenc2_argparsers/_base.py: MacroStandardArgsParser.parse_args`).

  Each entry point is written the way the Python shim is: argument
  translation, construction of the pylatexenc-3 parser object, `parse_content`,
  post-processing of the result into the legacy tuple.

  The collector of `Pylx.Parse` has no `stop_nodelist_condition`; the extended
  collector `xloop` below adds it (used by `get_latex_nodes(read_max_nodes=…)`
  and by `LatexSingleNodeParser`), reusing `loopDispatch`, `LoopSt`, … of
  `Pylx.Parse`.  `PylxProofs.C16` proves it conservative.

  `Sw` selects the code as it is (`Sw.asIs`) or with the repairs proposed for
  the findings re-established by the C16 check (`Sw.repaired`).
-/
import Pylx.Parse
import Pylx.ParseDrv
namespace Pylx.Legacy
open Pylx

/-- which repairs are applied (`false` = the code as it is) -/
structure Sw where
  /-- F22: `MacroSpec(name, args_parser='<argspec>')` keeps the argument specification -/
  f22 : Bool
  /-- F23: the `'*'` branch of `MacroStandardArgsParser.parse_args` treats end of input as "no star" -/
  f23 : Bool
  /-- the nodes collector does not let `ReachedStoppingCondition` escape from `finalize()` -/
  stopEnd : Bool
  /-- `MacroStandardArgsParser.parse_args` reads mandatory arguments with `strict_braces=True` in strict mode
      (a closing brace where an argument is required is an error, as for the pylatexenc-3 parser) -/
  strictBrace : Bool
  /-- `get_latex_maybe_optional_arg` accepts whitespace before the bracket (`allow_pre_space=True`), as pylatexenc 2
      did and as the `'['` standard argument does -/
  optPre : Bool
deriving Repr, BEq, DecidableEq, Inhabited

def Sw.asIs : Sw := ⟨false, false, false, false, false⟩
def Sw.repaired : Sw := ⟨true, true, true, true, true⟩

/-! ### the nodes collector with `stop_nodelist_condition` -/

/-- a `LatexGeneralNodesParser` as the legacy shims and `LatexSingleNodeParser` construct it -/
structure XGen where
  /-- `stop_token_condition` -/
  stop : Token → Bool
  /-- `require_stop_condition_met and stop_token_condition is not None` -/
  mustMeet : Bool
  /-- `stop_nodelist_condition = len(nodelist) >= n` -/
  maxNodes : Option Nat := none
  child : ChildPS := .same

/-- `stop_nodelist_condition(nodelist)` -/
def nlStop (mx : Option Nat) (acc : List Node) : Bool :=
  match mx with
  | some m => decide (acc.length ≥ m)
  | none => false

/-- `finalize()` at the end of `process_tokens()`: flushing the pending characters pushes a node, and
    `push_to_nodelist` re-evaluates the node-list stop condition; in the code as it is the resulting
    `ReachedStoppingCondition` is raised from the `finally:` block and escapes every handler. -/
def xFinish (sw : Sw) (mx : Option Nat) (f : PSFields) (st : LoopSt) (stopTok : Option Token) (err : Option PErr) : Ret :=
  if !sw.stopEnd && !st.pend.isEmpty && nlStop mx (st.flush f).acc then .crash "ReachedStoppingCondition"
  else loopFinish f st stopTok err

def xloopRead (env : Env) (sw : Sw) (mx : Option Nat) (f : PSFields) (st : LoopSt) : Sum Token Ret :=
  match peekTok env.tol (mkPS f) env.s st.pos with
  | .tok t => .inl t
  | .eos fs =>
    if fs.isEmpty then .inr (xFinish sw mx f st none none)
    else .inl { kind := .char, arg := [], pos := st.pos + fs.length, posEnd := st.pos + fs.length, pre := fs }
  | .err w ep _ _ => .inr (xFinish sw mx f st none (some { what := tokErrWhat w, pos := some ep, rpos := st.pos }))

/-- the continuation handed to `loopDispatch`: a request to go on with the loop first checks whether the node
    just pushed satisfies the node-list stop condition -/
def xrec (rec : Task → Ret) (self : LoopSt → Ret) (mx : Option Nat) (base : Nat) : Task → Ret
  | .loop _ _ _ st' =>
    if decide (st'.acc.length > base) && nlStop mx st'.acc then .loopEnd { nodes := st'.acc, pos := st'.pos }
    else self st'
  | t => rec t

def xloopStep (env : Env) (sw : Sw) (rec : Task → Ret) (self : LoopSt → Ret) (g : XGen) (f : PSFields) (st : LoopSt) : Ret :=
  match xloopRead env sw g.maxNodes f st with
  | .inr r => r
  | .inl t =>
    if g.stop t then
      xFinish sw g.maxNodes f { (st.push t.pre (t.pos - t.pre.length)) with pos := t.pos } (some t) none
    else if t.kind == .char then
      self { (st.push (t.pre ++ t.arg) (t.pos - t.pre.length)) with pos := t.posEnd }
    else
      let st1 : LoopSt := { (st.flushBefore f t) with pos := t.posEnd }
      if decide (st1.acc.length > st.acc.length) && nlStop g.maxNodes st1.acc then
        -- stop condition reached (a)/(b): `move_to_token(tok, rewind_pre_space=False)`
        .loopEnd { nodes := st1.acc, pos := t.pos }
      else
        loopDispatch env (xrec rec self g.maxNodes st1.acc.length) f .none g.child st1 { t with pre := [] }

def xloop (env : Env) (sw : Sw) (g : XGen) (f : PSFields) : Nat → LoopSt → Ret
  | 0, _ => .fuel
  | n + 1, st => xloopStep env sw (run env n) (xloop env sw g f n) g f st

/-- `LatexGeneralNodesParser.parse` with the extended collector -/
def rawXGeneral (env : Env) (sw : Sw) (n : Nat) (g : XGen) (f : PSFields) (pos : Nat) : Raw :=
  retOfLoop (xloop env sw g f n { pos := pos }) fun e =>
    let nl := listOf e.nodes (some pos) (some pos)
    match e.err with
    | some pe => .ret (.perr { what := pe.what, pos := pe.pos, rpos := e.pos, recNodes := nl })
    | none =>
      if g.mustMeet && e.stopTok.isNone then
        let lpos := match nl with | .list p _ _ => p | _ => none
        .ret (.perr { what := .stopNotMet, pos := lpos, rpos := e.pos, recNodes := nl })
      else
        match e.stopTok with
        | some t => .ret (.ok nl (movePastToken t true))
        | none => .ret (.ok nl e.pos)

/-- `latex_walker.parse_content(LatexGeneralNodesParser(stop_token_condition=…, stop_nodelist_condition=…, …))` -/
def xparse (env : Env) (sw : Sw) (n : Nat) (g : XGen) (f : PSFields) (pos : Nat) : Ret :=
  parseContent env.tol (rawXGeneral env sw n g f pos)

/-- `LatexSingleNodeParser()` -/
def singleNode : XGen := { stop := fun _ => false, mustMeet := false, maxNodes := some 1 }

/-! ### results of the legacy calls -/

inductive LRes where
  /-- `(nodes, pos, len)` -/
  | tuple (r : Res) (pos : Option Nat) (len : Option Int)
  /-- plain `None` (`get_latex_maybe_optional_arg`) -/
  | noneRes
  | tok (t : Token)
  /-- `LatexWalkerEndOfStream` raised -/
  | eos
  /-- `LatexWalkerParseError` raised by the parser -/
  | perr (e : PErr)
  /-- `LatexWalkerParseError` raised by the shim itself -/
  | shimErr (what : String)
  | valueErr
  | crash (k : String)
  | fuel
deriving Inhabited

def nodeLen (n : Node) : Int := (n.posEnd : Int) - (n.pos : Int)

/-! ### `get_token` -/

structure TokArgs where
  includeBrace : Pairs := []
  /-- `brackets_are_chars=` if given -/
  bracketsAreChars : Option Bool := none
  /-- `environments=` (`True` by default; `None` leaves the parsing state alone) -/
  environments : Option Bool := some true

/-- the parsing state `get_token` derives -/
def tokFields (a : TokArgs) (f : PSFields) : PSFields :=
  let inc := match a.bracketsAreChars with
    | some false => a.includeBrace ++ [(['['], [']'])]
    | _ => a.includeBrace
  let f1 : PSFields := if inc.isEmpty then f else { f with groupDelims := f.groupDelims ++ inc }
  match a.environments with
  | some e => if f.enEnvs != e then { f1 with enEnvs := e } else f1
  | none => f1

/-- `make_token_reader(pos=pos).peek_token(parsing_state=ps)` -/
def peekAt (env : Env) (f : PSFields) (pos : Nat) : LRes :=
  match peekTok env.tol (mkPS f) env.s pos with
  | .tok t => .tok t
  | .eos _ => .eos
  | .err w ep _ _ => .perr { what := tokErrWhat w, pos := some ep, rpos := pos }

def getToken (env : Env) (f : PSFields) (a : TokArgs) (pos : Nat) : LRes :=
  peekAt env (tokFields a f).normalize pos

/-! ### `get_latex_nodes` -/

inductive BraceArg where
  /-- a single closing character -/
  | closer (c : Char)
  /-- a 2-item tuple `(open, close)` -/
  | pair (o c : Str)
deriving Repr, BEq, DecidableEq, Inhabited

structure NodesArgs where
  brace : Option BraceArg := none
  endEnv : Option Str := none
  math : Option Str := none
  maxNodes : Option Nat := none
deriving Repr, Inhabited

/-- `{ '}': '{', ']': '[', ')': '(', '>': '<' }.get(clbr)`; `none` = the key is missing (opener `None`, not modelled) -/
def openerOf (c : Char) : Option Char :=
  if c == '}' then some '{' else if c == ']' then some '[' else if c == ')' then some '(' else if c == '>' then some '<' else none

def bracePair : BraceArg → Option (Str × Str)
  | .closer c => (openerOf c).map (fun o => ([o], [c]))
  | .pair o c => some (o, c)

structure Stops where
  brace : Option Str := none
  endEnv : Option Str := none
  math : Option Str := none
deriving Repr, Inhabited

/-- the closure `stop_token_condition` -/
def Stops.test (l : Stops) (t : Token) : Bool :=
  (match l.brace with | some c => t.kind == .braceClose && t.arg == c | none => false) ||
  (match l.endEnv with | some n => t.kind == .endEnv && t.arg == n | none => false) ||
  (match l.math with | some d => (t.kind == .mathInline || t.kind == .mathDisplay) && t.arg == d | none => false)

def Stops.any (l : Stops) : Bool := l.brace.isSome || l.endEnv.isSome || l.math.isSome

/-- argument translation of `get_latex_nodes`: the parsing state and the parser; `none` = not modelled -/
def nodesSetup (a : NodesArgs) (f : PSFields) : Option (PSFields × XGen) :=
  match a.brace with
  | some b =>
    match bracePair b with
    | none => none
    | some (o, c) =>
      let f' : PSFields := if f.groupDelims.contains (o, c) then f else { f with groupDelims := f.groupDelims ++ [(o, c)] }
      let st : Stops := { brace := some c, endEnv := a.endEnv, math := a.math }
      some (f'.normalize, { stop := st.test, mustMeet := true, maxNodes := a.maxNodes })
  | none =>
    let st : Stops := { brace := none, endEnv := a.endEnv, math := a.math }
    some (f, { stop := st.test, mustMeet := st.any, maxNodes := a.maxNodes })

/-- `(nodes, nodes.pos, token_reader.cur_pos() - nodes.pos)` -/
def nodesTuple : Ret → LRes
  | .ok (.list p e ns) q =>
    match p with
    | some p' => .tuple (.list p e ns) p ((q : Int) - (p' : Int))
    | none => .crash "TypeError"
  | .ok .none _ => .tuple .none none none
  | .ok _ _ => .crash "AttributeError"
  | .perr e => .perr e
  | .loopEnd _ => .crash "loopEnd"
  | .crash k => .crash k
  | .fuel => .fuel

def getLatexNodes (env : Env) (sw : Sw) (n : Nat) (f : PSFields) (a : NodesArgs) (pos : Nat) : LRes :=
  match nodesSetup a f with
  | none => .crash "unmodelled closing brace"
  | some (f', g) => nodesTuple (xparse env sw n g f' pos)

/-! ### `get_latex_expression` -/

/-- `nodes.nodeargd = None` for macro / environment / specials nodes -/
def stripArgs : Node → Node
  | .mac p e ps n post _ => .mac p e ps n post none
  | .env p e ps n _ b => .env p e ps n none b
  | .specials p e ps c _ => .specials p e ps c none
  | n => n

/-- the part of `get_latex_expression` after `parse_content` returned `nodes` (a node or `None`) -/
def exprPost (tol : Bool) (strictBraces : Option Bool) (f : PSFields) (pos : Nat) (nodes : Option Node) : LRes :=
  match nodes with
  | some n => let n' := stripArgs n; .tuple (.node n') (some n'.pos) (some (nodeLen n'))
  | none =>
    if tol || strictBraces == some false then
      .tuple (.node (Node.chars pos pos (psInfo f) [])) (some pos) (some 0)
    else .tuple .none (some pos) (some 0)

/-- `getattr(e, '_error_was_unexpected_closing_brace_in_expression', False)`: the attribute is set only on the
    exception object that `LatexExpressionParser._parse_single_token` creates itself (it carries
    `recovery_at_token`).  The same kind of error raised by a NESTED expression parser (the argument of a macro
    inside the group being read) reaches the shim re-wrapped by `LatexGeneralNodesParser.parse` into a fresh
    `LatexWalkerNodesParseError` — `rawGeneral` keeps `what`/`pos` and drops `recAt` — without the attribute. -/
def closeBraceMarker (e : PErr) : Bool := e.what == .exprCloseBrace && e.recAt.isSome

def getLatexExpression (env : Env) (n : Nat) (f : PSFields) (strictBraces : Option Bool) (pos : Nat) : LRes :=
  match run env n (.pc (.expression true) f pos) with
  | .ok (.node nd) _ => exprPost env.tol strictBraces f pos (some nd)
  | .ok .none _ => exprPost env.tol strictBraces f pos none
  | .ok _ _ => .crash "AttributeError"
  | .perr e =>
    -- `_error_was_unexpected_closing_brace_in_expression and not strict_braces`
    if closeBraceMarker e && !(strictBraces == some true) then exprPost env.tol strictBraces f pos none
    else .perr e
  | .loopEnd _ => .crash "loopEnd"
  | .crash k => .crash k
  | .fuel => .fuel

/-! ### `get_latex_braced_group` -/

inductive BraceType where
  | str (s : Str)
  | pair (o c : Str)
deriving Repr, BEq, DecidableEq, Inhabited

def braceTypePair : BraceType → Option (Str × Str)
  | .str s =>
    if s == ['{'] then some (['{'], ['}']) else if s == ['['] then some (['['], [']'])
    else if s == ['('] then some (['('], [')']) else if s == ['<'] then some (['<'], ['>'])
    else match s with
      | [a, b] => some ([a], [b])
      | _ => none
  | .pair o c => some (o, c)

/-- `(nodes, nodes.pos, nodes.len)` or `(None, pos, 0)` -/
def nodeTuple (pos : Nat) : Ret → LRes
  | .ok (.node nd) _ => .tuple (.node nd) (some nd.pos) (some (nodeLen nd))
  | .ok (.list p e ns) _ =>
    -- a recovered (empty) node list: `.pos`, `.len` of a `LatexNodeList`
    match p, e with
    | some p', some e' => .tuple (.list p e ns) p (some ((e' : Int) - (p' : Int)))
    | _, _ => .tuple (.list p e ns) p none
  | .ok .none _ => .tuple .none (some pos) (some 0)
  | .ok _ _ => .crash "AttributeError"
  | .perr e => .perr e
  | .loopEnd _ => .crash "loopEnd"
  | .crash k => .crash k
  | .fuel => .fuel

def getLatexBracedGroup (env : Env) (n : Nat) (f : PSFields) (bt : BraceType) (pos : Nat) : LRes :=
  match braceTypePair bt with
  | none => .valueErr
  | some (o, c) => nodeTuple pos (run env n (.pc (.group (.pair o c) false true) f pos))

/-! ### `get_latex_environment` -/

def envTuple (name : Option Str) : Ret → LRes
  | .ok (.list _ _ [Node.env p e ps nm a b]) _ =>
    match name with
    | some want => if nm != want then .shimErr "environment-name" else
        .tuple (.node (Node.env p e ps nm a b)) (some p) (some ((e : Int) - (p : Int)))
    | none => .tuple (.node (Node.env p e ps nm a b)) (some p) (some ((e : Int) - (p : Int)))
  | .ok _ _ => .shimErr "expected-environment"
  | .perr e => .perr e
  | .loopEnd _ => .crash "loopEnd"
  | .crash k => .crash k
  | .fuel => .fuel

def getLatexEnvironment (env : Env) (sw : Sw) (n : Nat) (f : PSFields) (name : Option Str) (pos : Nat) : LRes :=
  envTuple name (xparse env sw n singleNode f pos)

/-! ### `get_latex_maybe_optional_arg` -/

def optTuple : Ret → LRes
  | .ok .none _ => .noneRes
  | r => nodeTuple 0 r

/-- `LatexOptionalSquareBracketsParser()`: `('[', ']')`, optional; `allow_pre_space` is `False` by default -/
def getLatexMaybeOptionalArg (env : Env) (sw : Sw) (n : Nat) (f : PSFields) (pos : Nat) : LRes :=
  optTuple (run env n (.pc (.group (.pair ['['] [']']) true sw.optPre) f pos))

/-! ### `MacroStandardArgsParser.parse_args` behind `_LegacyPyltxenc2MacroArgsParserWrapper` -/

inductive LArgT where
  | star | opt | mand
deriving Repr, BEq, DecidableEq, Inhabited

structure LArgs where
  spec : List LArgT
  optNoSpace : Bool := false
  /-- `args_math_mode` -/
  mathModes : Option (List (Option Bool)) := none
deriving Repr, BEq, DecidableEq, Inhabited

/-- `get_inner_parsing_state(j)` -/
def innerFields (f : PSFields) (mm : Option Bool) : PSFields :=
  match mm with
  | none => f
  | some b => if b == f.inMath then f else ({ f with inMath := b } : PSFields).normalize

def mathModeAt (la : LArgs) (j : Nat) : Option Bool :=
  match la.mathModes with
  | none => none
  | some l => (l[j]?).getD none

/-- one step of the `for j, argt in enumerate(self.argspec)` loop: the new argument and position,
    or the way the loop is left -/
inductive StepRes where
  | next (a : Arg) (p : Nat)
  | eos
  | stop (r : Ret)
deriving Inhabited

/-- `f0` is the walker's default parsing state (`w.get_token(p)` is called without a parsing state) -/
def legacyArgStep (env : Env) (sw : Sw) (n : Nat) (f0 f : PSFields) (la : LArgs) (j : Nat) (argt : LArgT) (p : Nat) : StepRes :=
  let fi := innerFields f (mathModeAt la j)
  match argt with
  | .mand =>
    match getLatexExpression env n fi (some (sw.strictBrace && !env.tol)) p with
    | .tuple (.node nd) (some np) (some nl) => .next (.node nd) (((np : Int) + nl).toNat)
    | .tuple .none (some np) (some nl) => .next .absent (((np : Int) + nl).toNat)
    | .perr e => .stop (.perr e)
    | .fuel => .stop .fuel
    | .crash k => .stop (.crash k)
    | _ => .stop (.crash "unexpected result of get_latex_expression")
  | .opt =>
    if la.optNoSpace && startsWithSpace env.s p then .next .absent p
    else
      match getLatexMaybeOptionalArg env sw n fi p with
      | .noneRes => .next .absent p
      | .tuple (.node nd) (some np) (some nl) => .next (.node nd) (((np : Int) + nl).toNat)
      | .tuple (.list lp le ns) (some np) (some nl) => .next (.list lp le ns) (((np : Int) + nl).toNat)
      | .perr e => .stop (.perr e)
      | .fuel => .stop .fuel
      | .crash k => .stop (.crash k)
      | _ => .stop (.crash "unexpected result of get_latex_maybe_optional_arg")
  | .star =>
    match getToken env f0 {} p with
    | .tok t =>
      if t.kind == .char && t.arg.head? == some '*' then
        .next (.node (Node.chars t.pos (t.pos + 1) (psInfo fi) ['*'])) (t.pos + 1)
      else .next .absent p
    | .eos => if sw.f23 then .next .absent p else .eos
    | .perr e => .stop (.perr e)
    | _ => .stop (.crash "unexpected result of get_token")

def legacyArgsLoop (env : Env) (sw : Sw) (n : Nat) (f0 f : PSFields) (la : LArgs) (pos0 : Nat) :
    List LArgT → Nat → List Arg → Nat → Raw
  | [], _, acc, p => .ret (.ok (.args (some pos0) (some p) acc) p)
  | argt :: rest, j, acc, p =>
    match legacyArgStep env sw n f0 f la j argt p with
    | .next a p' => legacyArgsLoop env sw n f0 f la pos0 rest (j + 1) (acc ++ [a]) p'
    | .eos => .eos pos0
    | .stop r => .ret r

/-- `_LegacyPyltxenc2MacroArgsParserWrapper.parse` (its own `parse()`, before `parse_content` wraps it) -/
def rawLegacyArgs (env : Env) (sw : Sw) (n : Nat) (f0 f : PSFields) (la : LArgs) (pos : Nat) : Raw :=
  match la.mathModes with
  | some l =>
    if l.length != la.spec.length then .ret (.crash "ValueError")
    else legacyArgsLoop env sw n f0 f la pos la.spec 0 [] pos
  | none => legacyArgsLoop env sw n f0 f la pos la.spec 0 [] pos

/-- `latex_walker.parse_content(spec.arguments_parser, token_reader@pos, parsing_state)` for a legacy parser -/
def legacyParseArgs (env : Env) (sw : Sw) (n : Nat) (f0 f : PSFields) (la : LArgs) (pos : Nat) : Ret :=
  parseContent env.tol (rawLegacyArgs env sw n f0 f la pos)

/-! ### the ways of spelling a macro's argument specification -/

inductive Spelling where
  /-- `MacroSpec(name, 'argspec')` -/
  | newStr (a : Str)
  /-- `std_macro(name, optarg, numargs)` -/
  | stdOptNum (optarg : Bool) (numargs : Nat)
  /-- `std_macro(name, argspec)` -/
  | stdStr (a : Str)
  /-- `std_macro(name, None, argspec)` -/
  | stdNoneStr (a : Str)
  /-- `MacroSpec(name, args_parser='argspec')` -/
  | argsParserStr (a : Str)
  /-- `MacroSpec(name, args_parser=MacroStandardArgsParser(argspec, optional_arg_no_space, args_math_mode))` -/
  | argsParserObj (a : Str) (optNoSpace : Bool) (mathModes : Option (List (Option Bool)))
  /-- `MacroSpec(name, MacroStandardArgsParser(argspec))` -/
  | posObj (a : Str)
deriving Repr, BEq, DecidableEq, Inhabited

/-- what `spec.arguments_parser` is after construction -/
inductive SpecP where
  | new (a : ArgsP)
  | legacy (la : LArgs)
  /-- the constructor raises `TypeError` -/
  | typeError
deriving Repr, BEq, DecidableEq, Inhabited

/-- `LatexArgumentSpec(c)` for one character of an argument string -/
def charSpec (c : Char) : Option ArgSpec :=
  if c == '{' then some ⟨.m, .none⟩ else if c == '[' then some ⟨.o true, .none⟩
  else if c == '*' then some ⟨.s, .none⟩ else none

def strSpecs : Str → Option (List ArgSpec)
  | [] => some []
  | c :: cs => match charSpec c, strSpecs cs with
    | some a, some l => some (a :: l)
    | _, _ => none

/-- `LatexArgumentsParser('argspec')` / `LatexNoArgumentsParser()` -/
def newOfStr (a : Str) : ArgsP :=
  match strSpecs a with
  | some l => .std l
  | none => .unknown

def charLArg (c : Char) : Option LArgT :=
  if c == '{' then some .mand else if c == '[' then some .opt else if c == '*' then some .star else none

def strLArgs : Str → Option (List LArgT)
  | [] => some []
  | c :: cs => match charLArg c, strLArgs cs with
    | some a, some l => some (a :: l)
    | _, _ => none

/-- `'[' if optarg else ''` followed by `'{' * numargs` -/
def optNumStr (optarg : Bool) (n : Nat) : Str := (if optarg then ['['] else []) ++ List.replicate n '{'

def legacyOf (a : Str) (ns : Bool) (mm : Option (List (Option Bool))) : SpecP :=
  match strLArgs a with
  | some l => .legacy { spec := l, optNoSpace := ns, mathModes := mm }
  | none => .typeError

def buildSpec (sw : Sw) : Spelling → SpecP
  | .newStr a => .new (newOfStr a)
  | .stdOptNum o n => .new (newOfStr (optNumStr o n))
  | .stdStr a => .new (newOfStr a)
  | .stdNoneStr a => .new (newOfStr a)
  | .argsParserStr a =>
    -- the shim sets `spec.arguments_parser = LatexArgumentsParser(args_parser)` and returns `False`;
    -- `CallableSpec.__init__` then builds the parser again from its own parameter `arguments_spec_list` (`None`)
    if sw.f22 then .new (newOfStr a) else .new (.std [])
  | .argsParserObj a ns mm => legacyOf a ns mm
  | .posObj a => legacyOf a false none

/-- the pylatexenc-3 specification equivalent to a legacy parser object -/
def deltaOfMode : Option Bool → Delta
  | none => .none
  | some true => .enterMath
  | some false => .leaveMath

def newOfLegacy (la : LArgs) : ArgsP :=
  .std (la.spec.zipIdx.map (fun (t, j) =>
    let d := deltaOfMode (mathModeAt la j)
    match t with
    | .mand => (⟨.m, d⟩ : ArgSpec)
    | .opt => ⟨.o (!la.optNoSpace), d⟩
    | .star => ⟨.s, d⟩))

/-- `parse_content(spec.arguments_parser, …)` for a specification built through `sp` -/
def parseArgsVia (env : Env) (sw : Sw) (n : Nat) (f0 f : PSFields) (sp : Spelling) (pos : Nat) : Ret :=
  match buildSpec sw sp with
  | .new a => run env n (.pc (.arguments a) f pos)
  | .legacy la => legacyParseArgs env sw n f0 f la pos
  | .typeError => .crash "TypeError"

/-- the reference: the same specification written for pylatexenc 3 -/
def refArgsP (sp : Spelling) : Option ArgsP :=
  match sp with
  | .newStr a | .stdStr a | .stdNoneStr a | .argsParserStr a | .posObj a => some (newOfStr a)
  | .stdOptNum o n => some (newOfStr (optNumStr o n))
  | .argsParserObj a ns mm =>
    match strLArgs a with
    | some l => some (newOfLegacy { spec := l, optNoSpace := ns, mathModes := mm })
    | none => none

/-! ### driver operation `LEG` -/

def showOptInt : Option Int → String
  | none => "None"
  | some i => toString i

/-- errors raised outside `parse_content` carry no line/column: only kind and position are compared -/
def showErr (_s : Str) (e : PErr) : String := s!"ERR {e.what.show} {showOptNat e.pos}"

def showLRes (s : Str) : LRes → String
  | .tuple r p l => s!"TUP {showRes r} {showOptNat p} {showOptInt l}"
  | .noneRes => "NONE"
  | .tok t => "TOK " ++ showTok t
  | .eos => "EOS"
  | .perr e => showErr s e
  | .shimErr k => "SHIMERR " ++ k
  | .valueErr => "VALUEERR"
  | .crash k => "CRASH " ++ k
  | .fuel => "FUEL"

/-- result of a pylatexenc-3 parser object run directly, with the reader position afterwards -/
def showNew (s : Str) : Ret → String
  | .ok r p => s!"{showRes r} @{p}"
  | .perr e => showErr s e
  | r => showRet s r

def parseSw (x : String) : Option Sw :=
  match x.toList with
  | [a, b, c, d, e] => some ⟨a == '1', b == '1', c == '1', d == '1', e == '1'⟩
  | _ => none

def parseOptBool (x : String) : Option (Option Bool) :=
  if x == "-" then some none else if x == "T" then some (some true) else if x == "F" then some (some false) else none

/-- `-` or `=<hex string>` -/
def parseOptEq (x : String) : Option (Option Str) :=
  if x == "-" then some none
  else if x.startsWith "=" then (decodeStr (x.drop 1).toString).map some
  else none

def parseOptNat (x : String) : Option (Option Nat) :=
  if x == "-" then some none else x.toNat?.map some

def parseBraceArg (x : String) : Option (Option BraceArg) :=
  if x == "-" then some none
  else if x.startsWith "c" then
    match decodeStr (x.drop 1).toString with
    | some [c] => some (some (.closer c))
    | _ => none
  else if x.startsWith "p" then
    match (x.drop 1).toString.splitOn ":" with
    | [a, b] => match decodeStr a, decodeStr b with
      | some a, some b => some (some (.pair a b))
      | _, _ => none
    | _ => none
  else none

def parseBraceType (x : String) : Option BraceType :=
  if x.startsWith "c" then (decodeStr (x.drop 1).toString).map .str
  else if x.startsWith "p" then
    match (x.drop 1).toString.splitOn ":" with
    | [a, b] => match decodeStr a, decodeStr b with
      | some a, some b => some (.pair a b)
      | _, _ => none
    | _ => none
  else none

def parseModes (x : String) : Option (Option (List (Option Bool))) :=
  if x == "-" then some none
  else some (some ((x.drop 1).toString.toList.map (fun c => if c == 'T' then some true else if c == 'F' then some false else none)))

/-- spelling descriptor: code, argument string (or `T:3` for `std_macro(name, optarg, numargs)`), options `<ns>/<modes>` -/
def parseSpelling (code a opts : String) : Option Spelling :=
  match code with
  | "O" =>
    match a.splitOn ":" with
    | [o, n] => n.toNat?.map (fun n => .stdOptNum (o == "T") n)
    | _ => none
  | _ =>
    match decodeStr a with
    | none => none
    | some a =>
      match code with
      | "N" => some (.newStr a)
      | "S" => some (.stdStr a)
      | "Z" => some (.stdNoneStr a)
      | "P" => some (.argsParserStr a)
      | "Q" => some (.posObj a)
      | "L" =>
        match opts.splitOn "/" with
        | [ns, mm] => (parseModes mm).map (fun mm => .argsParserObj a (ns == "T") mm)
        | _ => none
      | _ => none

/-- fuel for the calls of this file (each performs at most one extra unfolding above `parse_content`) -/
def fuel (s : Str) : Nat := fuelFor s + 8

/-- the pylatexenc-3 call equivalent to `get_latex_nodes(…)` -/
def newNodes (env : Env) (sw : Sw) (n : Nat) (f : PSFields) (a : NodesArgs) (pos : Nat) : Option Ret :=
  (nodesSetup a f).map (fun (f', g) => xparse env sw n g f' pos)

def handleCall (env : Env) (sw : Sw) (f : PSFields) (pos : Nat) (call : List String) : Option String :=
  let s := env.s
  let n := fuel s
  match call with
  | ["tok", inc, bac, envs] =>
    match parsePairs inc, parseOptBool bac, parseOptBool envs with
    | some inc, some bac, some envs =>
      let a : TokArgs := { includeBrace := inc, bracketsAreChars := bac, environments := envs }
      some (showLRes s (getToken env f a pos) ++ " || " ++ showLRes s (peekAt env (tokFields a f).normalize pos))
    | _, _, _ => none
  | ["nodes", br, ee, mm, mx] =>
    match parseBraceArg br, parseOptEq ee, parseOptEq mm, parseOptNat mx with
    | some br, some ee, some mm, some mx =>
      let a : NodesArgs := { brace := br, endEnv := ee, math := mm, maxNodes := mx }
      match newNodes env sw n f a pos with
      | some r => some (showLRes s (getLatexNodes env sw n f a pos) ++ " || " ++ showNew s r)
      | none => some "unmodelled"
    | _, _, _, _ => none
  | ["expr", sb] =>
    match parseOptBool sb with
    | some sb =>
      some (showLRes s (getLatexExpression env n f sb pos) ++ " || " ++ showNew s (run env n (.pc (.expression true) f pos)))
    | none => none
  | ["group", bt] =>
    match parseBraceType bt with
    | some bt =>
      let nw := match braceTypePair bt with
        | some (o, c) => showNew s (run env n (.pc (.group (.pair o c) false true) f pos))
        | none => "VALUEERR"
      some (showLRes s (getLatexBracedGroup env n f bt pos) ++ " || " ++ nw)
    | none => none
  | ["env", nm] =>
    match parseOptEq nm with
    | some nm =>
      some (showLRes s (getLatexEnvironment env sw n f nm pos) ++ " || " ++ showNew s (xparse env sw n singleNode f pos))
    | none => none
  | ["opt"] =>
    some (showLRes s (getLatexMaybeOptionalArg env sw n f pos) ++ " || " ++
          showNew s (run env n (.pc (.group (.pair ['['] [']']) true sw.optPre) f pos)))
  | ["args", code, a, opts] =>
    match parseSpelling code a opts with
    | some sp =>
      let r := match refArgsP sp with
        | some ap => showNew s (run env n (.pc (.arguments ap) f pos))
        | none => "TYPEERR"
      some (showNew s (parseArgsVia env sw n f f sp pos) ++ " || " ++ r)
    | none => none
  | _ => none

/-- `LEG <sw> <tol> <ctx> <psdesc> <s> <pos> <call…>` -/
def handleLeg (fields : List String) : Option String :=
  match fields with
  | "LEG" :: sw :: tol :: ctx :: desc :: s :: pos :: call =>
    match parseSw sw, parseCtx ctx, decodeStr s, pos.toNat? with
    | some sw, some ctx, some s, some pos =>
      match topFields ctx desc with
      | some f =>
        match handleCall { tol := parseBool tol, ctx := ctx, s := s } sw f.normalize pos call with
        | some r => some r
        | none => some "bad-op"
      | none => some "bad-op"
    | _, _, _, _ => some "bad-op"
  | _ => none

end Pylx.Legacy
