/-
  Pylx.CtxDb — heap model of `pylatexenc.macrospec.LatexContextDb`
  (`macrospec/_latexcontextdb.py`) and of the part of `collections.ChainMap`
  it uses (`maps` list, `__getitem__` = first map that has the key,
  `new_child(m)` = `ChainMap(m, *maps)`, `ChainMap(*ms)` = `list(ms) or [{}]`).

  What is a cell and what is a value.
  * `category_list` is a Python list that is mutated in place by
    `add_context_category` and becomes *shared* between parent and child in
    the merge branch of `extended_with` (`new_context.category_list =
    self.category_list`).  It is a heap cell (`Heap.lists`), databases hold a
    reference (`Db.catRef`).
  * `self.d`, the three `ChainMap.maps` lists, `frozen`, the unknown specs and
    `_autogen_category_counter` are owned by exactly one database object
    (`dict(self.d)` / `ChainMap(...)` / `new_child` always build a new
    top-level container); they are fields of the database record `Db`, and the
    records are the cells of `Heap.dbs` (a database is addressed by its index,
    creation order).
  * The per-category dictionaries (`d[cat]['macros']` …) are shared between
    `d`, the chain maps, and parent/child databases, but no method of the file
    ever mutates one after it was built (`extended_with` copies before
    `update`), so they are modelled by value: a `Dict` is the insertion-ordered
    list of `(name, spec-id)`; an entry stands for "key `name` ↦ the spec object
    with identity `spec-id`, whose name attribute is `name`".

  Two variants of the code are described by `Variant`:
  `asIs` is /repo as found (F11: `ChainMap({})` leaves a stray first map; F26:
  `filtered_context` re-adds categories through the public
  `add_context_category`, which refuses automatically named categories);
  `repaired` is the code after the two minimal repairs.
-/
import Pylx.Basic
namespace Pylx
namespace CtxDb

inductive Kind | mac | env | spc
deriving DecidableEq, Repr

abbrev Spec := Nat
abbrev Dict := List (Str × Spec)

/-- `d[k] = v` on an insertion-ordered dict: an existing key keeps its place. -/
def assocSet {β : Type} : List (Str × β) → Str → β → List (Str × β)
  | [], k, v => [(k, v)]
  | (k', v') :: t, k, v => if k = k' then (k', v) :: t else (k', v') :: assocSet t k v

/-- `dict((x.name, x) for x in l)` -/
def dictFromList (l : List (Str × Spec)) : Dict := l.foldl (fun d kv => assocSet d kv.1 kv.2) []

/-- `d.update(e)` (on a copy) -/
def dictUpdate (d e : Dict) : Dict := e.foldl (fun d kv => assocSet d kv.1 kv.2) d

structure Dicts where
  mac : Dict
  env : Dict
  spc : Dict
deriving DecidableEq, Repr

def Dicts.get (ds : Dicts) : Kind → Dict
  | .mac => ds.mac
  | .env => ds.env
  | .spc => ds.spc

abbrev DMap := List (Str × Dicts)

def dmGet (d : DMap) (c : Str) : Option Dicts := d.lookup c

structure Variant where
  /-- `__init__` builds `ChainMap({})`, whose `maps` is `[{}]` -/
  stray : Bool
  /-- `filtered_context` goes through the reserved-prefix check of `add_context_category` -/
  filterChecksReserved : Bool
deriving DecidableEq, Repr

def asIs : Variant := ⟨true, true⟩
def repaired : Variant := ⟨false, false⟩

structure Db where
  catRef : Nat
  d : DMap
  mapsM : List Dict
  mapsE : List Dict
  mapsS : List Dict
  frozen : Bool
  unkM : Option Spec
  unkE : Option Spec
  unkS : Option Spec
  counter : Nat
deriving DecidableEq, Repr

def Db.maps (db : Db) : Kind → List Dict
  | .mac => db.mapsM
  | .env => db.mapsE
  | .spc => db.mapsS

structure Heap where
  lists : List (List Str)
  dbs : List Db
deriving DecidableEq, Repr

inductive Err | runtimeError | valueError | typeError | keyError | fuel
deriving DecidableEq, Repr

inductive Result
  | done
  | created (i : Nat)
  | raised (e : Err)
  /-- the history names a database that does not exist (harness artefact, not a Python outcome) -/
  | badRef
deriving DecidableEq, Repr

/-- `LatexContextDb()` with its category list at address `ref` -/
def newDb (v : Variant) (ref : Nat) : Db :=
  let m : List Dict := if v.stray then [[]] else []
  { catRef := ref, d := [], mapsM := m, mapsE := m, mapsS := m, frozen := false,
    unkM := none, unkE := none, unkS := none, counter := 0 }

def init (v : Variant) : Heap := ⟨[[]], [newDb v 0]⟩

def Heap.cats (h : Heap) (db : Db) : List Str := h.lists.getD db.catRef []

def autoPrefix : Str := "__lctxdb_cat_".toList
def autoName (n : Nat) : Str := autoPrefix ++ (Nat.repr n).toList

/-- the loop of `_get_new_autogen_category` (`fuel` iterations at most; it needs at most
    `cats.length + 1`): the first counter value `≥ c` whose name is not a category. -/
def autogenLoop (cats : List Str) : Nat → Nat → Option Nat
  | 0, _ => none
  | f+1, c => if autoName c ∈ cats then autogenLoop cats f (c+1) else some c

/-- the `insert_fn` closures of `add_context_category` -/
inductive Ins | app | at (i : Nat)
deriving DecidableEq, Repr

def Ins.apply {α : Type} : Ins → α → List α → List α
  | .app, x, l => l ++ [x]
  | .at i, x, l => l.take i ++ x :: l.drop i

/-- Python truthiness of `insert_before` / `insert_after` (`None` and `''` are false) -/
def truthy : Option Str → Bool
  | none => false
  | some [] => false
  | some _ => true

def chooseIns (cats : List Str) (prepend : Bool) (before after : Option Str) : Ins :=
  if prepend then .at 0
  else if truthy before then
    match before with
    | some b => if b ∈ cats then .at (cats.idxOf b) else .at 0
    | none => .at 0
  else if truthy after then
    match after with
    | some a => if a ∈ cats then .at (cats.idxOf a + 1) else .at cats.length
    | none => .at cats.length
  else .app

def nTruthy (prepend : Bool) (before after : Option Str) : Nat :=
  (if prepend then 1 else 0) + (if truthy before then 1 else 0) + (if truthy after then 1 else 0)

/-- `category is not None and category.startswith(_autogen_category_prefix)` -/
def isReserved : Option Str → Bool
  | some c => autoPrefix.isPrefixOf c
  | none => false

/-- `category in self.category_list` for an optional name (`None` is never a member) -/
def optIn : Option Str → List Str → Bool
  | some c, cats => decide (c ∈ cats)
  | none, _ => false

def setDb (h : Heap) (i : Nat) (db : Db) : Heap := { h with dbs := h.dbs.set i db }

/-- the automatic name: the loop of `_get_new_autogen_category` advances the counter, then
    `counter = found + 1`; result: the category name and the counter afterwards -/
def pickName (cats : List Str) (cat : Option Str) (counter : Nat) : Option (Str × Nat) :=
  match cat with
  | some c => some (c, counter)
  | none => (autogenLoop cats (cats.length + 1) counter).map fun a => (autoName a, a + 1)

/-- the mutation at the end of `add_context_category`: the same `insert_fn` on the category list
    and on the three `maps` lists, `d[category] = category_dicts` -/
def addCommit (h : Heap) (i : Nat) (db : Db) (cnt : Nat) (c : Str) (ds : Dicts) (ins : Ins) : Heap :=
  { lists := h.lists.set db.catRef (ins.apply c (h.cats db)),
    dbs := h.dbs.set i { db with
      counter := cnt,
      d := assocSet db.d c ds,
      mapsM := ins.apply ds.mac db.mapsM,
      mapsE := ins.apply ds.env db.mapsE,
      mapsS := ins.apply ds.spc db.mapsS } }

/-- `add_context_category`.  `checkReserved = false` only for the call made by the repaired
    `filtered_context`. -/
def addCat (checkReserved : Bool) (h : Heap) (i : Nat) (cat : Option Str)
    (ms es ss : List (Str × Spec)) (prepend : Bool) (before after : Option Str) : Heap × Result :=
  match h.dbs[i]? with
  | none => (h, .badRef)
  | some db =>
    if db.frozen then (h, .raised .runtimeError)
    else if checkReserved && isReserved cat then (h, .raised .valueError)
    else
      match pickName (h.cats db) cat db.counter with
      | none => (h, .raised .fuel)
      | some (c, cnt) =>
        -- the counter was already advanced when the next two checks raise
        if c ∈ h.cats db then (setDb h i { db with counter := cnt }, .raised .valueError)
        else if nTruthy prepend before after > 1 then (setDb h i { db with counter := cnt }, .raised .typeError)
        else
          (addCommit h i db cnt c ⟨dictFromList ms, dictFromList es, dictFromList ss⟩
            (chooseIns (h.cats db) prepend before after), .done)

def setUnk (h : Heap) (i : Nat) (k : Kind) (s : Option Spec) : Heap × Result :=
  match h.dbs[i]? with
  | none => (h, .badRef)
  | some db =>
    if db.frozen then (h, .raised .runtimeError) else
    match k with
    | .mac => (setDb h i { db with unkM := s }, .done)
    | .env => (setDb h i { db with unkE := s }, .done)
    | .spc => (setDb h i { db with unkS := s }, .done)

def freeze (h : Heap) (i : Nat) : Heap × Result :=
  match h.dbs[i]? with
  | none => (h, .badRef)
  | some db => (setDb h i { db with frozen := true }, .done)

/-- the loop of `filtered_context` over the parent's categories `cs` (parent's `d`),
    adding to the new database `j` -/
def filtLoop (chk : Bool) (d : DMap) (keep excl : List Str) (kM kE kS : Bool) (j : Nat) :
    List Str → Heap → Except Err Heap
  | [], h => .ok h
  | c :: cs, h =>
    if keep ≠ [] ∧ c ∉ keep then filtLoop chk d keep excl kM kE kS j cs h
    else if excl ≠ [] ∧ c ∈ excl then filtLoop chk d keep excl kM kE kS j cs h
    else
      match dmGet d c with
      | none => .error .keyError
      | some ds =>
        match addCat chk h j (some c) (if kM then ds.mac else []) (if kE then ds.env else [])
                (if kS then ds.spc else []) false none none with
        | (h', .done) => filtLoop chk d keep excl kM kE kS j cs h'
        | (_, .raised e) => .error e
        | (_, _) => .error .keyError

def filtered (v : Variant) (h : Heap) (i : Nat) (keep excl : List Str) (which : List Kind) : Heap × Result :=
  match h.dbs[i]? with
  | none => (h, .badRef)
  | some db =>
    let j := h.dbs.length
    let nd := { newDb v h.lists.length with unkM := db.unkM, unkE := db.unkE, unkS := db.unkS }
    let h0 : Heap := ⟨h.lists ++ [[]], h.dbs ++ [nd]⟩
    let kM := which.isEmpty || which.contains .mac
    let kE := which.isEmpty || which.contains .env
    let kS := which.isEmpty || which.contains .spc
    match filtLoop v.filterChecksReserved db.d keep excl kM kE kS j (h.cats db) h0 with
    | .ok h1 => (h1, .created j)
    | .error e => (h, .raised e)   -- the half-built object is unreachable

def ovr (o : Option (Option Spec)) (dflt : Option Spec) : Option Spec :=
  match o with
  | none => dflt
  | some x => x

/-- merge branch of `extended_with`: the child shares the parent's category list object -/
def extMerge (h : Heap) (db : Db) (c0 : Str) (dc nd : Dicts) (um ue us : Option (Option Spec)) : Heap :=
  let dc' : Dicts := ⟨dictUpdate dc.mac nd.mac, dictUpdate dc.env nd.env, dictUpdate dc.spc nd.spc⟩
  { h with dbs := h.dbs ++ [
    { catRef := db.catRef,
      d := assocSet db.d c0 dc',
      mapsM := dc'.mac :: db.mapsM.drop 1,      -- `ChainMap(d_cat['macros'], *maps[1:])`
      mapsE := dc'.env :: db.mapsE.drop 1,
      mapsS := dc'.spc :: db.mapsS.drop 1,
      frozen := true,
      unkM := ovr um db.unkM, unkE := ovr ue db.unkE, unkS := ovr us db.unkS,
      counter := db.counter }] }

/-- new-category branch of `extended_with`: `[category] + self.category_list` is a new list,
    the chain maps are `new_child`ren; `pc` is the parent's counter after the naming loop -/
def extNew (h : Heap) (i : Nat) (db : Db) (c : Str) (pc cc : Nat) (nd : Dicts) (um ue us : Option (Option Spec)) : Heap :=
  { lists := h.lists ++ [c :: h.cats db],
    dbs := h.dbs.set i { db with counter := pc } ++ [
    { catRef := h.lists.length,
      d := assocSet db.d c nd,
      mapsM := nd.mac :: db.mapsM,
      mapsE := nd.env :: db.mapsE,
      mapsS := nd.spc :: db.mapsS,
      frozen := true,
      unkM := ovr um db.unkM, unkE := ovr ue db.unkE, unkS := ovr us db.unkS,
      counter := cc }] }

/-- which category the merge branch merges into -/
def mergeTarget (cat : Option Str) (cats : List Str) : Option Str :=
  match cat, cats with
  | none, c0 :: _ => if autoPrefix.isPrefixOf c0 then some c0 else none
  | _, _ => none

/-- name, parent's counter afterwards, child's counter -/
def pickNameExt (cats : List Str) (cat : Option Str) (counter : Nat) : Option (Str × Nat × Nat) :=
  match cat with
  | some c => some (c, counter, counter)
  | none => (autogenLoop cats (cats.length + 1) counter).map fun a => (autoName a, a, a + 1)

def extended (h : Heap) (i : Nat) (cat : Option Str) (ms es ss : List (Str × Spec))
    (um ue us : Option (Option Spec)) : Heap × Result :=
  match h.dbs[i]? with
  | none => (h, .badRef)
  | some db =>
    if optIn cat (h.cats db) then (h, .raised .valueError)
    else if !db.frozen then (h, .raised .runtimeError)
    else
      match mergeTarget cat (h.cats db) with
      | some c0 =>
        match dmGet db.d c0 with
        | none => (h, .raised .keyError)
        | some dc =>
          (extMerge h db c0 dc ⟨dictFromList ms, dictFromList es, dictFromList ss⟩ um ue us, .created h.dbs.length)
      | none =>
        match pickNameExt (h.cats db) cat db.counter with
        | none => (h, .raised .fuel)
        | some (c, pc, cc) =>
          (extNew h i db c pc cc ⟨dictFromList ms, dictFromList es, dictFromList ss⟩ um ue us, .created h.dbs.length)

inductive Op
  | add (i : Nat) (cat : Option Str) (ms es ss : List (Str × Spec)) (prepend : Bool) (before after : Option Str)
  | setUnk (i : Nat) (k : Kind) (s : Option Spec)
  | freeze (i : Nat)
  | filt (i : Nat) (keep excl : List Str) (which : List Kind)
  | ext (i : Nat) (cat : Option Str) (ms es ss : List (Str × Spec)) (um ue us : Option (Option Spec))
deriving Repr

def step (v : Variant) (h : Heap) : Op → Heap × Result
  | .add i cat ms es ss p b a => addCat true h i cat ms es ss p b a
  | .setUnk i k s => setUnk h i k s
  | .freeze i => freeze h i
  | .filt i keep excl which => filtered v h i keep excl which
  | .ext i cat ms es ss um ue us => extended h i cat ms es ss um ue us

def run (v : Variant) (h : Heap) : List Op → Heap
  | [] => h
  | op :: ops => run v (step v h op).1 ops

/-! ### What a database answers: its view and the query methods -/

structure View where
  cats : List Str
  d : DMap
  mapsM : List Dict
  mapsE : List Dict
  mapsS : List Dict
  frozen : Bool
  unkM : Option Spec
  unkE : Option Spec
  unkS : Option Spec
deriving DecidableEq, Repr

def View.maps (w : View) : Kind → List Dict
  | .mac => w.mapsM
  | .env => w.mapsE
  | .spc => w.mapsS

def View.unk (w : View) : Kind → Option Spec
  | .mac => w.unkM
  | .env => w.unkE
  | .spc => w.unkS

def viewOfDb (h : Heap) (db : Db) : View :=
  { cats := h.cats db, d := db.d, mapsM := db.mapsM, mapsE := db.mapsE, mapsS := db.mapsS,
    frozen := db.frozen, unkM := db.unkM, unkE := db.unkE, unkS := db.unkS }

def viewOf (h : Heap) (i : Nat) : Option View := (h.dbs[i]?).map (viewOfDb h)

/-- `ChainMap.__getitem__`: first map that has the key -/
def chainLookup (maps : List Dict) (name : Str) : Option Spec := maps.findSome? (fun m => m.lookup name)

/-- `get_macro_spec` / `get_environment_spec` / `get_specials_spec` -/
def View.getSpec (w : View) (k : Kind) (name : Str) : Option Spec :=
  match chainLookup (w.maps k) name with
  | some s => some s
  | none => w.unk k

/-- all `(specials_chars, spec)` in the order `test_for_specials` visits them -/
def candsOf (d : DMap) : List Str → Except Err (List (Str × Spec))
  | [] => .ok []
  | c :: cs =>
    match dmGet d c with
    | none => .error .keyError
    | some ds =>
      match candsOf d cs with
      | .ok r => .ok (ds.spc ++ r)
      | .error e => .error e

def bestStep (s : Str) (pos : Nat) (acc : Nat × Option Spec) (kv : Str × Spec) : Nat × Option Spec :=
  if kv.1.length > acc.1 ∧ startsWithAt s kv.1 pos = true then (kv.1.length, some kv.2) else acc

def View.testForSpecials (w : View) (s : Str) (pos : Nat) : Except Err (Option Spec) :=
  match candsOf w.d w.cats with
  | .error e => .error e
  | .ok cs => .ok (cs.foldl (bestStep s pos) (0, none)).2

/-- `list(iter_*_specs(categories))` -/
def iterLoop (w : View) (k : Kind) : List Str → Except Err (List Spec)
  | [] => .ok []
  | c :: cs =>
    if c ∉ w.cats then .error .valueError else
    match dmGet w.d c with
    | none => .error .keyError
    | some ds =>
      match iterLoop w k cs with
      | .ok r => .ok ((ds.get k).map (·.2) ++ r)
      | .error e => .error e

def View.iterSpecs (w : View) (k : Kind) (sel : Option (List Str)) : Except Err (List Spec) :=
  iterLoop w k (sel.getD w.cats)

/-! ### Driver operation `DB`

`DB <variant A|R> <query names> <specials probe strings> <op> <op> …` (tab separated; inside an
op the tokens are space separated).  Output: for every op its result followed by the dump of
every database that exists afterwards. -/

def decOptStr (t : String) : Option (Option Str) :=
  if t == "-" then some none
  else if t.startsWith "=" then (decodeStr (t.drop 1).toString).map some
  else none

def decNames (t : String) : Option (List Str) :=
  -- "K" or "K=hex;=hex"
  if !t.startsWith "K" then none else
  let r := (t.drop 1).toString
  if r.isEmpty then some [] else
  (r.splitOn ";").foldr (fun x acc => match decOptStr x, acc with
    | some (some s), some l => some (s :: l)
    | _, _ => none) (some [])

def decSpecs (t : String) : Option (List (Str × Spec)) :=
  -- "L" or "Lhex:id;hex:id"
  if !t.startsWith "L" then none else
  let r := (t.drop 1).toString
  if r.isEmpty then some [] else
  (r.splitOn ";").foldr (fun x acc =>
    match x.splitOn ":", acc with
    | [n, i], some l => match decodeStr n, i.toNat? with
      | some n, some i => some ((n, i) :: l)
      | _, _ => none
    | _, _ => none) (some [])

def decOptSpec (t : String) : Option (Option Spec) :=
  if t == "-" then some none else t.toNat?.map some

def decOvr (t : String) : Option (Option (Option Spec)) :=
  if t == "." then some none else (decOptSpec t).map some

def decKind (t : String) : Option Kind :=
  if t == "m" then some .mac else if t == "e" then some .env else if t == "s" then some .spc else none

def decKinds (t : String) : Option (List Kind) :=
  if !t.startsWith "W" then none else
  (t.drop 1).toString.toList.foldr (fun c acc => match decKind (String.singleton c), acc with
    | some k, some l => some (k :: l)
    | _, _ => none) (some [])

def decOp (t : String) : Option Op :=
  match t.splitOn " " with
  | ["A", i, cat, ms, es, ss, p, b, a] =>
    match i.toNat?, decOptStr cat, decSpecs ms, decSpecs es, decSpecs ss, decOptStr b, decOptStr a with
    | some i, some cat, some ms, some es, some ss, some b, some a => some (.add i cat ms es ss (parseBool p) b a)
    | _, _, _, _, _, _, _ => none
  | ["U", i, k, s] =>
    match i.toNat?, decKind k, decOptSpec s with
    | some i, some k, some s => some (.setUnk i k s)
    | _, _, _ => none
  | ["F", i] => i.toNat?.map .freeze
  | ["X", i, keep, excl, which] =>
    match i.toNat?, decNames keep, decNames excl, decKinds which with
    | some i, some keep, some excl, some which => some (.filt i keep excl which)
    | _, _, _, _ => none
  | ["E", i, cat, ms, es, ss, um, ue, us] =>
    match i.toNat?, decOptStr cat, decSpecs ms, decSpecs es, decSpecs ss, decOvr um, decOvr ue, decOvr us with
    | some i, some cat, some ms, some es, some ss, some um, some ue, some us => some (.ext i cat ms es ss um ue us)
    | _, _, _, _, _, _, _, _ => none
  | _ => none

def showErr : Err → String
  | .runtimeError => "RuntimeError"
  | .valueError => "ValueError"
  | .typeError => "TypeError"
  | .keyError => "KeyError"
  | .fuel => "Fuel"

def showResult : Result → String
  | .done => "ok"
  | .created i => s!"new{i}"
  | .raised e => showErr e
  | .badRef => "badref"

def showAns : Option Spec → String
  | none => "N"
  | some n => toString n

def showExAns : Except Err (Option Spec) → String
  | .ok a => showAns a
  | .error e => "!" ++ showErr e

def showExList : Except Err (List Spec) → String
  | .ok l => ",".intercalate (l.map toString)
  | .error e => "!" ++ showErr e

def dumpView (qn qs : List Str) (w : View) : String :=
  let g (k : Kind) := ",".intercalate (qn.map fun n => showAns (w.getSpec k n))
  let t := ",".intercalate (qs.flatMap fun s => (List.range (s.length + 1)).map fun p => showExAns (w.testForSpecials s p))
  let it (k : Kind) := showExList (w.iterSpecs k none)
  s!"{showBool w.frozen} c[{",".intercalate (w.cats.map showStr)}] m[{g .mac}] e[{g .env}] s[{g .spc}] t[{t}] im[{it .mac}] ie[{it .env}] is[{it .spc}]"

def dumpHeap (qn qs : List Str) (h : Heap) : String :=
  " ".intercalate ((List.range h.dbs.length).map fun i =>
    match viewOf h i with
    | some w => s!"#{i} {dumpView qn qs w}"
    | none => s!"#{i} ?")

def runDump (v : Variant) (qn qs : List Str) : Heap → List Op → List String
  | _, [] => []
  | h, op :: ops =>
    let (h', r) := step v h op
    (showResult r ++ " " ++ dumpHeap qn qs h') :: runDump v qn qs h' ops

def decAll {α : Type} (f : String → Option α) (l : List String) : Option (List α) :=
  l.foldr (fun x acc => match f x, acc with
    | some a, some r => some (a :: r)
    | _, _ => none) (some [])

def handleDb (fields : List String) : Option String :=
  match fields with
  | "DB" :: var :: qn :: qs :: ops =>
    match decNames qn, decNames qs, decAll decOp ops with
    | some qn, some qs, some ops =>
      let v := if var == "A" then asIs else repaired
      some (" ;; ".intercalate (("init " ++ dumpHeap qn qs (init v)) :: runDump v qn qs (init v) ops))
    | _, _, _ => some "bad-op"
  | _ => none

end CtxDb
end Pylx
