/-
  Pylx.Node — the node tree (mirror of pylatexenc.latexnodes.nodes) and its
  canonical S-expression dump (mirrored by harness/dump.py).
-/
import Pylx.Basic
namespace Pylx

/-- What a node's `parsing_state` exposes to the properties. -/
structure PSInfo where
  inMath : Bool := false
  mathDelim : Option Str := none
deriving Repr, BEq, DecidableEq, Inhabited

mutual
inductive Node where
  | chars    (pos posEnd : Nat) (ps : PSInfo) (chars : Str)
  | comment  (pos posEnd : Nat) (ps : PSInfo) (comment postSpace : Str)
  | group    (pos posEnd : Nat) (ps : PSInfo) (dopen dclose : Str) (body : Option (List Node))
  | mac      (pos posEnd : Nat) (ps : PSInfo) (name postSpace : Str) (args : Option (List Arg))
  | env      (pos posEnd : Nat) (ps : PSInfo) (name : Str) (args : Option (List Arg)) (body : Option (List Node))
  | specials (pos posEnd : Nat) (ps : PSInfo) (chars : Str) (args : Option (List Arg))
  | math     (pos posEnd : Nat) (ps : PSInfo) (display : Bool) (dopen dclose : Str) (body : Option (List Node))
inductive Arg where
  | absent
  | node (n : Node)
  | list (pos posEnd : Option Nat) (ns : List Node)
end

instance : Inhabited Node := ⟨.chars 0 0 {} []⟩
instance : Inhabited Arg := ⟨.absent⟩

def Node.pos : Node → Nat
  | .chars p .. | .comment p .. | .group p .. | .mac p .. | .env p .. | .specials p .. | .math p .. => p

def Node.posEnd : Node → Nat
  | .chars _ e .. | .comment _ e .. | .group _ e .. | .mac _ e .. | .env _ e .. | .specials _ e .. | .math _ e .. => e

def Node.ps : Node → PSInfo
  | .chars _ _ ps .. | .comment _ _ ps .. | .group _ _ ps .. | .mac _ _ ps .. | .env _ _ ps ..
  | .specials _ _ ps .. | .math _ _ ps .. => ps

/-- the nodes an argument slot holds -/
def Arg.nodes : Arg → List Node
  | .absent => []
  | .node n => [n]
  | .list _ _ ns => ns

def argNodes (a : Option (List Arg)) : List Node := (a.getD []).flatMap Arg.nodes

/-- direct children in document order: arguments first, then the body -/
def Node.children : Node → List Node
  | .chars .. => []
  | .comment .. => []
  | .group _ _ _ _ _ b => b.getD []
  | .mac _ _ _ _ _ a => argNodes a
  | .env _ _ _ _ a b => argNodes a ++ b.getD []
  | .specials _ _ _ _ a => argNodes a
  | .math _ _ _ _ _ _ b => b.getD []

mutual
/-- every node of the tree rooted at `n` (pre-order) -/
def Node.subnodes : Node → List Node
  | n@(.chars ..) => [n]
  | n@(.comment ..) => [n]
  | n@(.group _ _ _ _ _ b) => n :: subnodesBody b
  | n@(.mac _ _ _ _ _ a) => n :: subnodesArgs a
  | n@(.env _ _ _ _ a b) => n :: (subnodesArgs a ++ subnodesBody b)
  | n@(.specials _ _ _ _ a) => n :: subnodesArgs a
  | n@(.math _ _ _ _ _ _ b) => n :: subnodesBody b
def subnodesBody : Option (List Node) → List Node
  | none => []
  | some ns => subnodesList ns
def subnodesList : List Node → List Node
  | [] => []
  | n :: ns => n.subnodes ++ subnodesList ns
def subnodesArgs : Option (List Arg) → List Node
  | none => []
  | some l => subnodesArgList l
def subnodesArgList : List Arg → List Node
  | [] => []
  | a :: l => subnodesArg a ++ subnodesArgList l
def subnodesArg : Arg → List Node
  | .absent => []
  | .node n => n.subnodes
  | .list _ _ ns => subnodesList ns
end

def showPS (ps : PSInfo) : String :=
  if ps.inMath then "m" ++ showOptStr ps.mathDelim else "t"

mutual
def showNode : Node → String
  | .chars p e ps c => s!"(C {p} {e} {showPS ps} {showStr c})"
  | .comment p e ps c post => s!"(% {p} {e} {showPS ps} {showStr c} {showStr post})"
  | .group p e ps o c body => s!"(G {p} {e} {showPS ps} {showStr o} {showStr c} {showBody body})"
  | .mac p e ps n post args => s!"(M {p} {e} {showPS ps} {showStr n} {showStr post} {showArgs args})"
  | .env p e ps n args body => s!"(E {p} {e} {showPS ps} {showStr n} {showArgs args} {showBody body})"
  | .specials p e ps c args => s!"(S {p} {e} {showPS ps} {showStr c} {showArgs args})"
  | .math p e ps d o c body => s!"(F {p} {e} {showPS ps} {if d then "D" else "I"} {showStr o} {showStr c} {showBody body})"
def showBody : Option (List Node) → String
  | none => "None"
  | some ns => "[" ++ showNodes ns ++ "]"
def showNodes : List Node → String
  | [] => ""
  | [n] => showNode n
  | n :: ns => showNode n ++ " " ++ showNodes ns
def showArgs : Option (List Arg) → String
  | none => "None"
  | some l => "<" ++ showArgList l ++ ">"
def showArgList : List Arg → String
  | [] => ""
  | [a] => showArg a
  | a :: l => showArg a ++ " " ++ showArgList l
def showArg : Arg → String
  | .absent => "-"
  | .node n => showNode n
  | .list p e ns => s!"(L {showOptNat p} {showOptNat e} [{showNodes ns}])"
end

end Pylx
