/-
  Pylx.TokDrv — driver operations `TOK` (token reader operation sequences) and
  `PS` (chains of sub_context), and the parsing-state descriptor syntax shared
  with the parser driver.
-/
import Pylx.Tok
namespace Pylx

/-! descriptor: `k=v;k=v;…`; strings hex-encoded; pairs `a:b|c:d`; lists `a|b` -/

def parsePairs (v : String) : Option Pairs :=
  if v.isEmpty then some [] else
  (v.splitOn "|").foldr (fun item acc =>
    match item.splitOn ":", acc with
    | [a, b], some l => match decodeStr a, decodeStr b with
      | some a, some b => some ((a, b) :: l)
      | _, _ => none
    | _, _ => none) (some [])

def parseStrList (v : String) : Option (List Str) :=
  if v.isEmpty then some [] else
  (v.splitOn "|").foldr (fun item acc =>
    match decodeStr item, acc with
    | some a, some l => some (a :: l)
    | _, _ => none) (some [])

def parseOptStr (v : String) : Option (Option Str) :=
  if v == "-" then some none else (decodeStr v).map some

def parseChange (k v : String) : Option Change :=
  match k with
  | "im" => some (.inMath (parseBool v))
  | "md" => (parseOptStr v).map .mathDelim
  | "gd" => (parsePairs v).map .groupDelims
  | "il" => (parsePairs v).map .inlineDelims
  | "dl" => (parsePairs v).map .displayDelims
  | "nl" => some (.enDblNl (parseBool v))
  | "ma" => some (.enMacros (parseBool v))
  | "en" => some (.enEnvs (parseBool v))
  | "co" => some (.enComments (parseBool v))
  | "gr" => some (.enGroups (parseBool v))
  | "sp" => some (.enSpecials (parseBool v))
  | "mm" => some (.enMath (parseBool v))
  | "al" => (decodeStr v).map .macroAlpha
  | "ec" => match decodeStr v with | some [c] => some (.escapeChar c) | _ => none
  | "cs" => (decodeStr v).map .commentStart
  | "fb" => (decodeStr v).map .forbidden
  | _ => none

def splitKV (item : String) : Option (String × String) :=
  match item.splitOn "=" with
  | [k, v] => some (k, v)
  | _ => none

def parseChanges (desc : String) : Option (List Change) :=
  if desc.isEmpty then some [] else
  (desc.splitOn ";").foldr (fun item acc =>
    match splitKV item, acc with
    | some (k, v), some l => (parseChange k v).map (· :: l)
    | _, _ => none) (some [])

/-- full descriptor of a fresh state: the change keywords plus `cx` (has a context) and `sk` (specials keys) -/
def parseFields (desc : String) : Option PSFields :=
  if desc.isEmpty then some {} else
  (desc.splitOn ";").foldl (fun acc item =>
    match acc, splitKV item with
    | some f, some ("cx", v) => some { f with hasCtx := parseBool v }
    | some f, some ("sk", v) => (parseStrList v).map (fun l => { f with specials := l })
    | some f, some (k, v) => (parseChange k v).map (fun c => c.apply f)
    | _, _ => none) (some {})

/-! ### TOK -/

structure RState where
  pos : Nat
  toks : List Token := []

def tokOp (tolerant : Bool) (ps : PState) (s : Str) (st : RState) (op : String) : RState × String :=
  let code := op.take 1
  let arg := (op.drop 1).toNat?
  match code.toString, arg with
  | "P", _ =>
    match peekTok tolerant ps s st.pos with
    | .tok t => ({ st with toks := st.toks ++ [t] }, showTok t)
    | r => (st, showPeek r)
  | "N", _ =>
    match peekTok tolerant ps s st.pos with
    | .tok t => ({ pos := movePastToken t true, toks := st.toks ++ [t] }, showTok t)
    | r => (st, showPeek r)
  | "R", some i => match st.toks[i]? with
    | some t => ({ st with pos := moveToToken t true }, "ok")
    | none => (st, "no-token")
  | "r", some i => match st.toks[i]? with
    | some t => ({ st with pos := moveToToken t false }, "ok")
    | none => (st, "no-token")
  | "M", some i => match st.toks[i]? with
    | some t => ({ st with pos := movePastToken t true }, "ok")
    | none => (st, "no-token")
  | "m", some i => match st.toks[i]? with
    | some t => ({ st with pos := movePastToken t false }, "ok")
    | none => (st, "no-token")
  | "S", _ =>
    let sp := spaceRun s st.pos
    ({ st with pos := st.pos + sp.length }, s!"{showStr sp} {st.pos} {st.pos + sp.length}")
  | "C", _ => (st, toString st.pos)
  -- `peek_token_or_none`: `None` instead of the end-of-stream exception
  | "O", _ =>
    match peekTok tolerant ps s st.pos with
    | .tok t => ({ st with toks := st.toks ++ [t] }, showTok t)
    | .eos _ => (st, "None")
    | r => (st, showPeek r)
  -- `peek_space_chars`: what `skip_space_chars` would report, without moving
  | "W", _ =>
    let sp := spaceRun s st.pos
    (st, s!"{showStr sp} {st.pos} {st.pos + sp.length}")
  -- `move_to_pos_chars(n)`
  | "J", some n => ({ st with pos := n }, "ok")
  | "K", some n => if st.pos ≥ s.length then (st, "EOS") else (st, showStr (slice s st.pos (st.pos + n)))
  | "X", some n => if st.pos ≥ s.length then (st, "EOS") else
      ({ st with pos := min (st.pos + n) s.length }, showStr (slice s st.pos (st.pos + n)))
  | _, _ => (st, "bad-op")

def runTokOps (tolerant : Bool) (ps : PState) (s : Str) (ops : List String) : String :=
  let r := ops.foldl (fun (acc : RState × List String) op =>
    let (st', o) := tokOp tolerant ps s acc.1 op
    (st', o :: acc.2)) ({ pos := 0 }, [])
  " ".intercalate r.2.reverse

/-! ### PS -/

def showPairs (l : Pairs) : String := "[" ++ " ".intercalate (l.map (fun p => showStr p.1 ++ ":" ++ showStr p.2)) ++ "]"

def showFields (f : PSFields) : String :=
  s!"im={showBool f.inMath} md={showOptStr f.mathDelim} gd={showPairs f.groupDelims} il={showPairs f.inlineDelims} dl={showPairs f.displayDelims} fl={showBool f.enDblNl}{showBool f.enMacros}{showBool f.enEnvs}{showBool f.enComments}{showBool f.enGroups}{showBool f.enSpecials}{showBool f.enMath} al={showStr f.macroAlpha} ec={showStr [f.escapeChar]} cs={showStr f.commentStart} fb={showStr f.forbidden}"

/-- lexicographic order on code points (Python `str` comparison) -/
def strLe : Str → Str → Bool
  | [], _ => true
  | _ :: _, [] => false
  | a :: l, b :: m => if a.toNat < b.toNat then true else if a.toNat > b.toNat then false else strLe l m

/-- stable insertion sort -/
def isortBy {α : Type} (le : α → α → Bool) (l : List α) : List α :=
  let ins (x : α) : List α → List α := fun acc =>
    let (a, b) := acc.span (fun y => le y x)
    a ++ x :: b
  l.foldl (fun acc x => ins x acc) []

def dedupKeys {β : Type} (l : List (Str × β)) : List Str := dedup (l.map (·.1))

/-- canonical dump of the cached tables: dicts in Python's iteration order (first insertion of the key, last
    value), sets sorted, the by-length list ordered by (length desc, text) keeping inline before display -/
def showTables (t : PSTables) : String :=
  let sd (d : Str × Bool) := showStr d.1 ++ (if d.2 then "D" else "I")
  let ec := match t.expectClose with
    | none => "None"
    | some d => sd d
  let go := (dedupKeys t.groupByOpen).map (fun k => (k, (lookupLast k t.groupByOpen).getD []))
  let gc := isortBy strLe (dedup t.groupClose)
  let all := isortBy (fun (a b : Str × Bool) => a.1.length > b.1.length || (a.1.length == b.1.length && strLe a.1 b.1)) t.mathAll
  let bo := (dedupKeys t.mathByOpen).map (fun k => (k, (lookupLast k t.mathByOpen).getD ([], false)))
  let byOpen := " ".intercalate (bo.map (fun d => showStr d.1 ++ ":" ++ sd d.2))
  s!"go={showPairs go} gc=[{" ".intercalate (gc.map showStr)}] ms={showStr t.mathStart} all=[{" ".intercalate (all.map sd)}] bo=[{byOpen}] ec={ec}"

def handleTok (fields : List String) : Option String :=
  match fields with
  | ["TOK", tol, desc, s, ops] =>
    match parseFields desc, decodeStr s with
    | some f, some s => some (runTokOps (parseBool tol) (mkPS f) s (ops.splitOn " "))
    | _, _ => some "bad-op"
  | ["PS", bug, root, chain] =>
    match parseFields root with
    | none => some "bad-op"
    | some f =>
      let sets := if chain.isEmpty then some [] else
        (chain.splitOn "/").foldr (fun d acc => match parseChanges d, acc with
          | some c, some l => some (c :: l)
          | _, _ => none) (some [])
      match sets with
      | none => some "bad-op"
      | some sets =>
        let p := PState.chain (parseBool bug) (PState.fresh f) sets
        some (showFields p.f ++ " || " ++ showTables p.t)
  | _ => none

end Pylx
