/-
  Pylx.PState — model of pylatexenc.latexnodes._parsingstate.ParsingState:
  fields, the derived lookup tables cached on each instance, and
  `sub_context` with its inheritance of the parent's cached tables.
-/
import Pylx.Basic
namespace Pylx

abbrev Pairs := List (Str × Str)

/-- The fields of a `ParsingState` that parsing reads (the latex context is
    represented by what the tokenizer asks of it: the specials keys in lookup
    order). -/
structure PSFields where
  inMath : Bool := false
  mathDelim : Option Str := none
  groupDelims : Pairs := [(['{'], ['}'])]
  inlineDelims : Pairs := [(['$'], ['$']), (['\\', '('], ['\\', ')'])]
  displayDelims : Pairs := [(['$', '$'], ['$', '$']), (['\\', '['], ['\\', ']'])]
  enDblNl : Bool := true
  enMacros : Bool := true
  enEnvs : Bool := true
  enComments : Bool := true
  enGroups : Bool := true
  enSpecials : Bool := true
  enMath : Bool := true
  macroAlpha : Str := "abcdefghijklmnopqrstuvwxyzABCDEFGHIJKLMNOPQRSTUVWXYZ".toList
  escapeChar : Char := '\\'
  commentStart : Str := ['%']
  forbidden : Str := []
  hasCtx : Bool := true
  specials : List Str := []
deriving Repr, BEq, DecidableEq, Inhabited

/-- `set_fields`: the delimiter is dropped when not in math mode. -/
def PSFields.normalize (f : PSFields) : PSFields :=
  if f.inMath then f else { f with mathDelim := none }

/-- Python `dict(pairs)[k]`: the last pair with that key. -/
def lookupLast {β : Type} (k : Str) : List (Str × β) → Option β
  | [] => none
  | (a, b) :: l => match lookupLast k l with
    | some r => some r
    | none => if a == k then some b else none

/-- first-occurrence de-duplication (`set(...)`, iteration order irrelevant for what is looked up) -/
def dedup : List Str → List Str
  | [] => []
  | a :: l => a :: (dedup l).filter (· != a)

/-- insert keeping the list sorted by length, descending, after all entries at least as long (stable) -/
def insertDesc (x : Str × Bool) : List (Str × Bool) → List (Str × Bool)
  | [] => [x]
  | y :: l => if y.1.length ≥ x.1.length then y :: insertDesc x l else x :: y :: l

/-- `sorted(l, key=len, reverse=True)` (stable) -/
def sortDesc (l : List (Str × Bool)) : List (Str × Bool) :=
  l.foldl (fun acc x => insertDesc x acc) []

def flattenPairs (l : Pairs) : List Str := l.flatMap (fun p => [p.1, p.2])

/-- cached lookup tables (`_latex_group_delimchars_*`, `_math_*`).  `Bool` = display. -/
structure PSTables where
  groupByOpen : Pairs
  groupClose : List Str
  mathStart : Str
  mathAll : List (Str × Bool)
  mathByOpen : List (Str × (Str × Bool))
  expectClose : Option (Str × Bool)
deriving Repr, BEq, DecidableEq, Inhabited

def groupTables (f : PSFields) : Pairs × List Str :=
  (f.groupDelims, f.groupDelims.map (·.2))

def mathTables (f : PSFields) : Str × List (Str × Bool) × List (Str × (Str × Bool)) :=
  let start := (flattenPairs (f.inlineDelims ++ f.displayDelims)).flatMap (fun x => x.take 1)
  let all := sortDesc ((dedup (flattenPairs f.inlineDelims)).map (fun d => (d, false))
                       ++ (dedup (flattenPairs f.displayDelims)).map (fun d => (d, true)))
  let byOpen := f.inlineDelims.map (fun p => (p.1, (p.2, false)))
                ++ f.displayDelims.map (fun p => (p.1, (p.2, true)))
  (start, all, byOpen)

def expectCloseOf (f : PSFields) (byOpen : List (Str × (Str × Bool))) : Option (Str × Bool) :=
  if !f.inMath then none else
  match f.mathDelim with
  | none => none
  | some d => lookupLast d byOpen

/-- the tables of a freshly constructed state -/
def computeTables (f : PSFields) : PSTables :=
  let g := groupTables f
  let m := mathTables f
  { groupByOpen := g.1, groupClose := g.2, mathStart := m.1, mathAll := m.2.1, mathByOpen := m.2.2,
    expectClose := expectCloseOf f m.2.2 }

structure PState where
  f : PSFields
  t : PSTables
deriving Repr, BEq, DecidableEq, Inhabited

/-- `ParsingState(**fields)` -/
def PState.fresh (f : PSFields) : PState :=
  let f := f.normalize
  { f := f, t := computeTables f }

/-- keyword arguments of `sub_context` -/
inductive Change where
  | inMath (b : Bool) | mathDelim (d : Option Str)
  | groupDelims (l : Pairs) | inlineDelims (l : Pairs) | displayDelims (l : Pairs)
  | enDblNl (b : Bool) | enMacros (b : Bool) | enEnvs (b : Bool) | enComments (b : Bool)
  | enGroups (b : Bool) | enSpecials (b : Bool) | enMath (b : Bool)
  | macroAlpha (s : Str) | escapeChar (c : Char) | commentStart (s : Str) | forbidden (s : Str)
deriving Repr, BEq, DecidableEq

/-- does the keyword differ from the current value (`_safe_eq`)? -/
def Change.differs (f : PSFields) : Change → Bool
  | .inMath b => b != f.inMath | .mathDelim d => d != f.mathDelim
  | .groupDelims l => l != f.groupDelims | .inlineDelims l => l != f.inlineDelims
  | .displayDelims l => l != f.displayDelims
  | .enDblNl b => b != f.enDblNl | .enMacros b => b != f.enMacros | .enEnvs b => b != f.enEnvs
  | .enComments b => b != f.enComments | .enGroups b => b != f.enGroups
  | .enSpecials b => b != f.enSpecials | .enMath b => b != f.enMath
  | .macroAlpha s => s != f.macroAlpha | .escapeChar c => c != f.escapeChar
  | .commentStart s => s != f.commentStart | .forbidden s => s != f.forbidden

def Change.apply (f : PSFields) : Change → PSFields
  | .inMath b => { f with inMath := b } | .mathDelim d => { f with mathDelim := d }
  | .groupDelims l => { f with groupDelims := l } | .inlineDelims l => { f with inlineDelims := l }
  | .displayDelims l => { f with displayDelims := l }
  | .enDblNl b => { f with enDblNl := b } | .enMacros b => { f with enMacros := b }
  | .enEnvs b => { f with enEnvs := b } | .enComments b => { f with enComments := b }
  | .enGroups b => { f with enGroups := b } | .enSpecials b => { f with enSpecials := b }
  | .enMath b => { f with enMath := b }
  | .macroAlpha s => { f with macroAlpha := s } | .escapeChar c => { f with escapeChar := c }
  | .commentStart s => { f with commentStart := s } | .forbidden s => { f with forbidden := s }

def Change.isGroup : Change → Bool | .groupDelims _ => true | _ => false
def Change.isMathList : Change → Bool | .inlineDelims _ => true | .displayDelims _ => true | _ => false
def Change.isMode : Change → Bool | .inMath _ => true | .mathDelim _ => true | _ => false

/-- `sub_context(**kwargs)`.  Keywords equal to the current value are dropped;
    each group of cached tables is inherited from the parent unless one of
    "its" keywords changed.  `inheritBug = true` reproduces the pinned tree
    (finding F10): the expected-closing-delimiter cache ignores changes of the
    delimiter lists. -/
def PState.subContext (inheritBug : Bool) (p : PState) (kw : List Change) : PState :=
  let kw2 := kw.filter (·.differs p.f)
  let f := (kw2.foldl (fun f c => c.apply f) p.f).normalize
  let g := if kw2.any (·.isGroup) then groupTables f else (p.t.groupByOpen, p.t.groupClose)
  let m := if kw2.any (·.isMathList) then mathTables f else (p.t.mathStart, p.t.mathAll, p.t.mathByOpen)
  let ec := if kw2.any (·.isMode) || (!inheritBug && kw2.any (·.isMathList))
            then expectCloseOf f m.2.2 else p.t.expectClose
  { f := f, t := { groupByOpen := g.1, groupClose := g.2, mathStart := m.1, mathAll := m.2.1,
                   mathByOpen := m.2.2, expectClose := ec } }

def PState.chain (inheritBug : Bool) (p : PState) : List (List Change) → PState
  | [] => p
  | kw :: rest => PState.chain inheritBug (p.subContext inheritBug kw) rest

/-- the parser model always works with freshly computed tables (justified by C17) -/
def mkPS (f : PSFields) : PState := PState.fresh f

end Pylx
