/-
  Pylx.Split — model of `LatexNodeList.split_at_chars`, `split_at_node` and
  `parse_keyval_content` (pylatexenc/latexnodes/nodes.py).  Everything lives in
  `namespace Pylx.Split` (driver handler: `Pylx.Split.handleSplit`).

  The node list is flattened to a list of `Item`s: a chars node is transparent
  (`pos`, `text`; its `pos_end` is `pos + |text|`), every other node is opaque
  (span, verbatim text, and the little that `get_content_as_chars` needs to know
  about it), a Python `None` entry is `Item.none`.

  A separator is an abstract *matcher* `Str → Nat → Ans` ("first match in this
  string at or after this offset": found / no match / a callable's "strictly
  negative start index").  On the driver line it is one of a few concrete
  combinators (`SepD`) that the harness interprets as a literal string, a
  compiled regular expression or a Python callable.

  `stepMatch`/`stepTail`/`charLoop`/`outer` mirror the loop of `split_at_chars`
  branch by branch.  One switch, `Variant`, selects between
    * `Variant.fixed` — the code with the five repairs (findings/c18-*.diff):
        F15  `max_split` is compared with the number of separators consumed (`nsplit`);
        F-b  `parse_keyval_content` splits each part with `keep_empty=True`;
        F-c  policy `'first'` keeps the stored `LatexNodeList`;
        F-d  a callable's strictly negative start index means "no more separators";
        F-e  a separator match that does not advance (`end <= prev_sep_end`) raises ValueError;
    * `Variant.asIs` — the code before the repairs: `max_split` compared with the
      number of parts kept (`kept` = `len(split_node_lists)`), `keep_empty=False` in
      the equals split, `'first'` stores a plain list, and the two situations in
      which the old code does not return normally (negative start index other
      than -1, non-advancing match) are the outcome `Err.noProgress`
      (Python: endless loop / TypeError / repeated empty parts — not modelled further).
  The result is a *trace* (`List Seg`): the parts in order, interleaved with the
  separators that were consumed (ghost information: Python returns the parts only).

  `Err.contract` marks a matcher answer outside `prev ≤ start ≤ end ≤ |text|` (no `str.find`
  or `re` search gives one); `Err.fuel` is the unreachable end of the recursion fuel.
-/
import Pylx.Basic
namespace Pylx
namespace Split

/-- a child of a group node, flattened: `(isChars, pos, posEnd, text)` -/
abbrev Kid := Bool × Nat × Nat × Str

/-- what `_get_content_as_chars` needs to know about a non-chars node -/
inductive OKind where
  | comment                      -- skipped
  /-- `inner`: recursion result of `_get_content_as_chars` on the group's node list (`none`: it raises);
      `ipos`, `iend`, `kids`: the group's own `nodelist` (its `pos`, `pos_end`, flattened children) -/
  | group (inner : Option Str) (ipos iend : Option Nat) (kids : List Kid)
  | other                        -- raises LatexWalkerParseError
deriving DecidableEq, Repr, Inhabited

inductive Item where
  | chars (pos : Nat) (text : Str)
  | opq (pos posEnd : Nat) (text : Str) (kind : OKind)
  | none
deriving DecidableEq, Repr, Inhabited

def Item.isChars : Item → Bool | .chars .. => true | _ => false
def Item.isNone : Item → Bool | .none => true | _ => false
def Item.isOpq : Item → Bool | .opq .. => true | _ => false

/-- `latex_verbatim()` of one entry (`None` entries contribute nothing) -/
def Item.text : Item → Str
  | .chars _ t => t
  | .opq _ _ t _ => t
  | .none => []

def verb : List Item → Str
  | [] => []
  | it :: r => it.text ++ verb r

/-- `_update_posposend_from_nodelist`: `pos` of the first non-`None` node -/
def firstPos : List Item → Option Nat
  | [] => none
  | .none :: r => firstPos r
  | .chars p _ :: _ => some p
  | .opq p _ _ _ :: _ => some p

def lastEndAux : List Item → Option Nat → Option Nat
  | [], acc => acc
  | .none :: r, acc => lastEndAux r acc
  | .chars p t :: r, _ => lastEndAux r (some (p + t.length))
  | .opq _ e _ _ :: r, _ => lastEndAux r (some e)

/-- `pos_end` of the last non-`None` node -/
def lastEnd (l : List Item) : Option Nat := lastEndAux l none

structure Part where
  pos : Option Nat
  posEnd : Option Nat
  items : List Item
deriving DecidableEq, Repr, Inhabited

/-- `flush_nodes(nodes, pos_end)` = `LatexNodeList(nodes, pos=None if len(nodes) else pos_end, pos_end=pos_end)` -/
def mkPart (nodes : List Item) (posEnd : Option Nat) : Part :=
  { pos := match (if nodes.isEmpty then posEnd else none) with
           | some p => some p
           | none => firstPos nodes,
    posEnd := match posEnd with
              | some e => some e
              | none => lastEnd nodes,
    items := nodes }

inductive Seg where
  | part (p : Part)
  | sep (start : Nat) (text : Str)     -- ghost: a consumed separator (absolute start, matched text)
deriving DecidableEq, Repr, Inhabited

def Seg.text : Seg → Str
  | .part p => verb p.items
  | .sep _ t => t

def segsText : List Seg → Str
  | [] => []
  | s :: r => s.text ++ segsText r

def partsOf : List Seg → List Part
  | [] => []
  | .part p :: r => p :: partsOf r
  | .sep _ _ :: r => partsOf r

def sepsOf : List Seg → List (Nat × Str)
  | [] => []
  | .part _ :: r => sepsOf r
  | .sep s t :: r => (s, t) :: sepsOf r

def segItems : List Seg → List Item
  | [] => []
  | .part p :: r => p.items ++ segItems r
  | .sep _ _ :: r => segItems r

/-- answer of a separator search -/
inductive Ans where
  | found (s e : Nat)
  | noMatch
  | negStart        -- a callable returned a start index < -1 (documented as "no more separators")
deriving DecidableEq, Repr, Inhabited

abbrev Matcher := Str → Nat → Ans

inductive Variant where
  | asIs | fixed
deriving DecidableEq, Repr, Inhabited

inductive Err where
  | valueError     -- repaired code: ValueError("separator matched an empty string")
  | noProgress     -- code before the repairs: does not return normally (see the file header)
  | contract       -- matcher answer outside `prev ≤ start ≤ end ≤ |text|`
  | fuel           -- unreachable
deriving DecidableEq, Repr, Inhabited

structure Cfg where
  v : Variant
  m : Matcher
  maxSplit : Option Nat
  keepEmpty : Bool
  skipNone : Bool

structure St where
  pending : List Item
  kept : Nat       -- len(split_node_lists)
  nsplit : Nat     -- separators consumed (`num_splits[0]`)
deriving Repr, Inhabited

/-- the `max_split` test at the top of `get_next_split` -/
def limitReached (c : Cfg) (kept nsplit : Nat) : Bool :=
  match c.maxSplit with
  | none => false
  | some n =>
    match c.v with
    | .asIs => decide (n ≤ kept)
    | .fixed => decide (n ≤ nsplit)

/-- `get_next_split(chars, prev)`; `ok none` = `(-1, …)` -/
def nextSplit (c : Cfg) (st : St) (text : Str) (prev : Nat) : Except Err (Option (Nat × Nat)) :=
  if limitReached c st.kept st.nsplit then .ok none else
  match c.m text prev with
  | .found s e => .ok (some (s, e))
  | .noMatch => .ok none
  | .negStart =>
    match c.v with
    | .fixed => .ok none
    | .asIs => .error .noProgress

/-- a match the loop can go on with: inside the string, at or after `prev`, and ending after `prev` -/
def goodMatch (text : Str) (prev s e : Nat) : Bool :=
  decide (prev ≤ s) && decide (s ≤ e) && decide (prev < e) && decide (e ≤ text.length)

/-- what happens with a match that is not `goodMatch` -/
def badMatchErr (v : Variant) (text : Str) (prev s e : Nat) : Err :=
  if decide (prev ≤ s) && decide (s ≤ e) && decide (e ≤ text.length) then
    -- `next_sep_end <= prev_sep_end`
    (match v with
     | .fixed => Err.valueError
     | .asIs => Err.noProgress)
  else Err.contract

/-- one iteration of the `while True` loop in which a separator `s..e` was found (`next_sep_idx != -1`):
    the segments emitted and the new state.  Four branches as in the code:
    first match in this chars node (`prev_sep_end == 0`) or a later one, part flushed or dropped. -/
def stepMatch (keepEmpty : Bool) (pos : Nat) (text : Str) (prev s e : Nat) (st : St) : List Seg × St :=
  let p := slice text prev s
  let sepSeg := Seg.sep (pos + s) (slice text s e)
  if prev = 0 then
    -- first match in this chars node: merge the first chunk with the pending nodes, flush them
    let pend := if p.isEmpty then st.pending else st.pending ++ [Item.chars (pos + prev) p]
    if !pend.isEmpty || keepEmpty then
      ([Seg.part (mkPart pend (some (pos + s))), sepSeg], { pending := [], kept := st.kept + 1, nsplit := st.nsplit + 1 })
    else
      ([sepSeg], { pending := [], kept := st.kept, nsplit := st.nsplit + 1 })
  else
    -- later match: the chunk between two separators is a part by itself (`pending_nodes` is not touched)
    let thenodes := if p.isEmpty then [] else [Item.chars (pos + prev) p]
    if !thenodes.isEmpty || keepEmpty then
      ([Seg.part (mkPart thenodes (some (pos + s))), sepSeg], { pending := st.pending, kept := st.kept + 1, nsplit := st.nsplit + 1 })
    else
      ([sepSeg], { pending := st.pending, kept := st.kept, nsplit := st.nsplit + 1 })

/-- the iteration in which no (further) separator is found (`next_sep_idx == -1`): the loop ends -/
def stepTail (pos : Nat) (text : Str) (prev : Nat) (st : St) : St :=
  if prev = 0 then
    -- no separator at all in this node: the node itself joins the pending nodes
    { st with pending := st.pending ++ [Item.chars pos text] }
  else
    -- the rest of the string starts a new part
    let p := text.drop prev
    { st with pending := if p.isEmpty then st.pending else st.pending ++ [Item.chars (pos + prev) p] }

/-- the `while True` loop over one chars node `(pos, text)`; `prev` is `prev_sep_end`.
    Returns the segments emitted while scanning this node and the new state. -/
def charLoop (c : Cfg) (pos : Nat) (text : Str) : Nat → Nat → St → Except Err (List Seg × St)
  | 0, _, _ => .error .fuel
  | fuel+1, prev, st =>
    match nextSplit c st text prev with
    | .error err => .error err
    | .ok (some (s, e)) =>
      if goodMatch text prev s e then
        let r := stepMatch c.keepEmpty pos text prev s e st
        match charLoop c pos text fuel e r.2 with
        | .ok (segs, st') => .ok (r.1 ++ segs, st')
        | .error err => .error err
      else .error (badMatchErr c.v text prev s e)
    | .ok none => .ok ([], stepTail pos text prev st)

/-- the `for n in self.nodelist` loop and the final flush; `listEnd` is `self.pos_end` -/
def outer (c : Cfg) (listEnd : Option Nat) : List Item → St → Except Err (List Seg)
  | [], st =>
    .ok (if !st.pending.isEmpty || c.keepEmpty then [Seg.part (mkPart st.pending listEnd)] else [])
  | .none :: r, st =>
    outer c listEnd r (if c.skipNone then st else { st with pending := st.pending ++ [Item.none] })
  | .chars pos text :: r, st =>
    match charLoop c pos text (text.length + 1) 0 st with
    | .error err => .error err
    | .ok (segs, st') =>
      match outer c listEnd r st' with
      | .error err => .error err
      | .ok t => .ok (segs ++ t)
  | .opq p e t k :: r, st =>
    outer c listEnd r { st with pending := st.pending ++ [Item.opq p e t k] }

/-- trace of `split_at_chars` -/
def splitTrace (c : Cfg) (listEnd : Option Nat) (items : List Item) : Except Err (List Seg) :=
  outer c listEnd items { pending := [], kept := 0, nsplit := 0 }

/-- `self.split_at_chars(sep, max_split, keep_empty, skip_none)` — what Python returns -/
def splitChars (c : Cfg) (listEnd : Option Nat) (items : List Item) : Except Err (List Part) :=
  match splitTrace c listEnd items with
  | .ok tr => .ok (partsOf tr)
  | .error err => .error err

/-- the code before the repairs -/
def splitCharsAsIs (m : Matcher) (maxSplit : Option Nat) (keepEmpty skipNone : Bool)
    (listEnd : Option Nat) (items : List Item) : Except Err (List Part) :=
  splitChars { v := .asIs, m := m, maxSplit := maxSplit, keepEmpty := keepEmpty, skipNone := skipNone } listEnd items

/-- the repaired code -/
def splitCharsFixed (m : Matcher) (maxSplit : Option Nat) (keepEmpty skipNone : Bool)
    (listEnd : Option Nat) (items : List Item) : Except Err (List Part) :=
  splitChars { v := .fixed, m := m, maxSplit := maxSplit, keepEmpty := keepEmpty, skipNone := skipNone } listEnd items

/-! ### Specification-side notions -/

/-- all successive matches of `m` in `text` from `prev` on (stops at the first answer that is not a good match) -/
def matchesFrom (m : Matcher) (text : Str) : Nat → Nat → List (Nat × Nat)
  | 0, _ => []
  | fuel+1, prev =>
    match m text prev with
    | .found s e => if goodMatch text prev s e then (s, e) :: matchesFrom m text fuel e else []
    | _ => []

/-- the separators of one top-level entry: only chars nodes have any -/
def itemSeps (m : Matcher) : Item → List (Nat × Str)
  | .chars pos text => (matchesFrom m text (text.length + 1) 0).map (fun se => (pos + se.1, slice text se.1 se.2))
  | _ => []

def allSeps (m : Matcher) : List Item → List (Nat × Str)
  | [] => []
  | it :: r => itemSeps m it ++ allSeps m r

def takeOpt {α} : Option Nat → List α → List α
  | none, l => l
  | some n, l => l.take n

/-! ### `split_at_node` -/

structure NCfg where
  pred : Item → Bool
  skipNone : Bool
  keepSeparators : Bool
  maxSplit : Option Nat

/-- `if max_split is not None and len(nodelists_list) > max_split: no_more_splits = True` (the repaired test: there
    is one list more than splits made; the code as it was compared with `>=` and stopped one split early for
    `max_split ≥ 2`, see `noMoreAfterAsIs`) -/
def noMoreAfter : Option Nat → Nat → Bool → Bool
  | some k, nl, _ => decide (k < nl)
  | none, _, nm => nm

/-- the test before the repair (F35) -/
def noMoreAfterAsIs : Option Nat → Nat → Bool → Bool
  | some k, nl, _ => decide (k ≤ nl)
  | none, _, nm => nm

/-- `no_more_splits = (max_split is not None and max_split == 0)` -/
def noMoreInit : Option Nat → Bool
  | some 0 => true
  | _ => false

/-- state: the lists built so far, the last one open (`cur`), `nlists = len(nodelists_list)` -/
def nodeLoop (c : NCfg) : List Item → (cur : List Item) → (nlists : Nat) → (noMore : Bool) → List (List Item)
  | [], cur, _, _ => [cur]
  | n :: r, cur, nlists, noMore =>
    if c.skipNone && n.isNone then nodeLoop c r cur nlists noMore
    else if !noMore && c.pred n then
      cur :: nodeLoop c r (if c.keepSeparators then [n] else []) (nlists + 1) (noMoreAfter c.maxSplit (nlists + 1) noMore)
    else nodeLoop c r (cur ++ [n]) nlists noMore

def splitNodeLists (c : NCfg) (items : List Item) : List (List Item) :=
  nodeLoop c items [] 1 (noMoreInit c.maxSplit)

/-- `self.split_at_node(pred, skip_none, keep_separators, max_split)` -/
def splitNode (c : NCfg) (items : List Item) : List Part :=
  (splitNodeLists c items).map (fun l => mkPart l none)

/-! ### `parse_keyval_content` -/

inductive Policy where
  | first | last | concatenate | error
deriving DecidableEq, Repr, Inhabited

/-- a value stored in the result dictionary -/
inductive Val where
  | nl (p : Part)                  -- a `LatexNodeList`
  | raw (items : List Item)        -- a plain Python list (what the `'first'` branch stores)
deriving DecidableEq, Repr, Inhabited

inductive KvRes where
  | ok (d : List (Str × Val))       -- insertion-ordered dictionary
  | parseError (pos : Nat)          -- LatexWalkerParseError from get_content_as_chars (key is not simple characters)
  | repeatedKey (k : Str)           -- ValueError (policy 'error')
  | attrError                       -- AttributeError: 'list' object has no attribute 'nodelist'
  | runtimeError                    -- RuntimeError("unexpected split length past max_split?")
  | splitError (e : Err)            -- split_at_chars did not return (`Err.valueError`: its ValueError propagates)
deriving DecidableEq, Repr, Inhabited

/-- `_get_content_as_chars(nodelist)`: `Except pos text` -/
def contentAsChars : List Item → Except Nat Str
  | [] => .ok []
  | .none :: r => contentAsChars r
  | .chars _ t :: r => match contentAsChars r with | .ok s => .ok (t ++ s) | .error p => .error p
  | .opq _ _ _ .comment :: r => contentAsChars r
  | .opq _ _ _ (.group (some s) _ _ _) :: r => match contentAsChars r with | .ok s' => .ok (s ++ s') | .error q => .error q
  | .opq p _ _ (.group none _ _ _) :: _ => .error p      -- position reported by the harness is the inner failing node; not compared
  | .opq p _ _ .other :: _ => .error p

def dictGet (d : List (Str × Val)) (k : Str) : Option Val :=
  match d.find? (fun kv => kv.1 == k) with
  | some kv => some kv.2
  | none => none

/-- `d[k] = v` on an insertion-ordered dict -/
def dictSet : List (Str × Val) → Str → Val → List (Str × Val)
  | [], k, v => [(k, v)]
  | (k', v') :: r, k, v => if k' == k then (k', v) :: r else (k', v') :: dictSet r k v

/-- `.nodelist` of a stored value (`none`: AttributeError, a plain list has no such attribute) -/
def Val.nodelist? : Val → Option (List Item)
  | .nl p => some p.items
  | .raw _ => none

def Val.pos? : Val → Option Nat
  | .nl p => p.pos
  | .raw _ => none

def kidItem (k : Kid) : Item :=
  if k.1 then Item.chars k.2.1 k.2.2.2 else Item.opq k.2.1 k.2.2.1 k.2.2.2 .other

structure KCfg where
  v : Variant
  comma : Matcher
  eq : Matcher
  policy : Policy
  extractGroup : Bool

/-- value of one part after the `=` split: `(key items, value)`; `none` = part vanished;
    the default value is `None` wrapped as `LatexNodeList([None])` -/
inductive EqRes where
  | splitError (e : Err)
  | vanished                                 -- `len(eq_sep_parts) == 0`: `continue`
  | tooMany                                  -- `len(eq_sep_parts) > 2`: RuntimeError
  | kv (key : List Item) (val : Val)
deriving DecidableEq, Repr, Inhabited

/-- the value part: unwrap a single group node if asked to -/
def valueOf (extractGroup : Bool) (v : Part) : Val :=
  match v.items with
  | [Item.opq _ _ _ (.group _ ip ie kids)] =>
    if extractGroup then Val.nl { pos := ip, posEnd := ie, items := kids.map kidItem } else Val.nl v
  | _ => Val.nl v

/-- the `split_at_chars` call for one comma part: `max_split=1`; `keep_empty=True` in the repaired code (F-b) -/
def eqCfg (c : KCfg) : Cfg :=
  { v := c.v, m := c.eq, maxSplit := some 1, keepEmpty := (match c.v with | .fixed => true | .asIs => false), skipNone := true }

def eqSplit (c : KCfg) (part : Part) : EqRes :=
  match splitChars (eqCfg c) part.posEnd part.items with
  | .error e => .splitError e
  | .ok [] => .vanished
  | .ok [k] => .kv k.items (Val.nl (mkPart [Item.none] none))
  | .ok [k, v] => .kv k.items (valueOf c.extractGroup v)
  | .ok (_ :: _ :: _ :: _) => .tooMany

def kvLoop (c : KCfg) : List Part → List (Str × Val) → KvRes
  | [], d => .ok d
  | part :: r, d =>
    match eqSplit c part with
    | .splitError e => .splitError e
    | .tooMany => .runtimeError
    | .vanished => kvLoop c r d
    | .kv kitems val =>
      match contentAsChars kitems with
      | .error p => .parseError p
      | .ok key =>
        match dictGet d key with
        | none => kvLoop c r (dictSet d key val)
        | some old =>
          match c.policy with
          | .concatenate =>
            match old.nodelist?, val.nodelist? with
            | some a, some b =>
              let l := a ++ b
              -- make_nodelist(l, pos=old.pos): pos given, pos_end auto-detected
              let p : Part := { pos := (match old.pos? with | some q => some q | none => firstPos l), posEnd := lastEnd l, items := l }
              kvLoop c r (dictSet d key (Val.nl p))
            | _, _ => .attrError
          | .error => .repeatedKey key
          | .first =>
            match c.v with
            | .fixed => kvLoop c r (dictSet d key old)     -- `value_nl = result_keyvals[key_s]` (F-c)
            | .asIs =>
              match old.nodelist? with                      -- `value_nl = result_keyvals[key_s].nodelist`
              | some a => kvLoop c r (dictSet d key (Val.raw a))
              | none => .attrError
          | .last => kvLoop c r (dictSet d key val)

/-- `self.parse_keyval_content(comma, eq, policy, None, extract_value_group_contents)` -/
def commaCfg (c : KCfg) : Cfg :=
  { v := c.v, m := c.comma, maxSplit := none, keepEmpty := false, skipNone := true }

def parseKeyval (c : KCfg) (listEnd : Option Nat) (items : List Item) : KvRes :=
  match splitChars (commaCfg c) listEnd items with
  | .error e => .splitError e
  | .ok parts => kvLoop c parts []

/-! ### Concrete separators for the driver -/

inductive SepD where
  | lit (s : Str)            -- Python `str`: `chars.find(s, pos)` (also the regex `re.escape(s)`; `s` may be empty)
  | alts (l : List Str)      -- regex `(l1|l2|…)` / callable: leftmost position, first alternative that fits
  | cls (cs : List Char)     -- regex `[cs]+` / callable: leftmost longest run of characters of the class
  | star (cs : List Char)    -- regex `[cs]*`: matches (possibly the empty string) right at the offset
  | eos                      -- regex `\Z`: the empty match at the end of the string
  | notAfter (c : Char)      -- regex `(?<!c)c`: the character `c` not preceded (in the WHOLE string) by `c`
  | atStartOr (c d : Char)   -- regex `d|^c`: `d` anywhere, `c` only at offset 0 of the string (not of the search)
deriving Repr, Inhabited

/-- leftmost `i ≥ p` with `ok text i` (scan over the whole string: what precedes `p` stays visible) -/
def scanFrom (ok : Str → Nat → Bool) (text : Str) (p : Nat) : Nat → Option Nat
  | 0 => none
  | f+1 => if p ≥ text.length then none else if ok text p then some p else scanFrom ok text (p + 1) f

def altsAtAux (l : List Str) : Str → Nat → Ans
  | [], _ => .noMatch
  | c :: cs, p =>
    match l.find? (fun a => a.isPrefixOf (c :: cs)) with
    | some a => .found p (p + a.length)
    | none => altsAtAux l cs (p + 1)

def clsAtAux (k : List Char) : Str → Nat → Ans
  | [], _ => .noMatch
  | c :: cs, p =>
    if k.contains c then .found p (p + ((c :: cs).takeWhile (fun x => k.contains x)).length)
    else clsAtAux k cs (p + 1)

def SepD.matcher : SepD → Matcher
  | .lit s => fun text p => match findStrFrom text s p with
      | some i => .found i (i + s.length)
      | none => .noMatch
  | .alts l => fun text p => if p > text.length then .noMatch else altsAtAux l (text.drop p) p
  | .cls k => fun text p => if p > text.length then .noMatch else clsAtAux k (text.drop p) p
  | .star k => fun text p => if p > text.length then .noMatch else
      .found p (p + ((text.drop p).takeWhile (fun x => k.contains x)).length)
  | .eos => fun text p => if p > text.length then .noMatch else .found text.length text.length
  | .notAfter c => fun text p =>
      match scanFrom (fun t i => t[i]? == some c && (i == 0 || t[i-1]? != some c)) text p (text.length + 1) with
      | some i => .found i (i + 1)
      | none => .noMatch
  | .atStartOr c d => fun text p =>
      match scanFrom (fun t i => t[i]? == some d || (i == 0 && t[i]? == some c)) text p (text.length + 1) with
      | some i => .found i (i + 1)
      | none => .noMatch

/-- a callable that signals "no more separators" with a start index < -1 -/
def withNeg (m : Matcher) : Matcher := fun t p =>
  match m t p with
  | .noMatch => .negStart
  | a => a

/-! ### Wire format

items: `;`-separated, each `C:pos:hex` | `O:pos:posEnd:hex:o` | `O:…:c` | `O:pos:posEnd:hex:g:<N|Shex>:ipos:iend:kids` | `N`;
kids: `~`-separated `c.pos.hex` | `o.pos.posEnd.hex`;
separator: `L:hex` | `A:hex|hex|…` | `K:hex` | `S:hex` | `E:`, prefixed with `N` for the negative-start protocol;
optional numbers: `-` for `None`. -/

def parseOptNat (s : String) : Option (Option Nat) :=
  if s == "-" then some none else match s.toNat? with | some n => some (some n) | none => none

def parseKid (s : String) : Option Kid :=
  match s.splitOn "." with
  | ["c", p, h] => match p.toNat?, decodeStr h with
    | some p, some t => some (true, p, p + t.length, t)
    | _, _ => none
  | ["o", p, e, h] => match p.toNat?, e.toNat?, decodeStr h with
    | some p, some e, some t => some (false, p, e, t)
    | _, _, _ => none
  | _ => none

def parseKids (s : String) : Option (List Kid) :=
  if s.isEmpty then some [] else
  (s.splitOn "~").foldr (fun f acc => match parseKid f, acc with
    | some k, some l => some (k :: l)
    | _, _ => none) (some [])

def parseInner (s : String) : Option (Option Str) :=
  if s == "N" then some none
  else if s.startsWith "S" then (decodeStr (s.drop 1).toString).map some
  else none

def parseItem (s : String) : Option Item :=
  match s.splitOn ":" with
  | ["N"] => some .none
  | ["C", p, h] => match p.toNat?, decodeStr h with
    | some p, some t => some (.chars p t)
    | _, _ => none
  | ["O", p, e, h, "o"] => match p.toNat?, e.toNat?, decodeStr h with
    | some p, some e, some t => some (.opq p e t .other)
    | _, _, _ => none
  | ["O", p, e, h, "c"] => match p.toNat?, e.toNat?, decodeStr h with
    | some p, some e, some t => some (.opq p e t .comment)
    | _, _, _ => none
  | ["O", p, e, h, "g", inner, ip, ie, kids] =>
    match p.toNat?, e.toNat?, decodeStr h, parseInner inner, parseOptNat ip, parseOptNat ie, parseKids kids with
    | some p, some e, some t, some inner, some ip, some ie, some kids => some (.opq p e t (.group inner ip ie kids))
    | _, _, _, _, _, _, _ => none
  | _ => none

def parseItems (s : String) : Option (List Item) :=
  if s.isEmpty then some [] else
  (s.splitOn ";").foldr (fun f acc => match parseItem f, acc with
    | some it, some l => some (it :: l)
    | _, _ => none) (some [])

def parseSepD (s : String) : Option SepD :=
  if s.startsWith "L:" then (decodeStr (s.drop 2).toString).map SepD.lit
  else if s.startsWith "K:" then (decodeStr (s.drop 2).toString).map SepD.cls
  else if s.startsWith "S:" then (decodeStr (s.drop 2).toString).map SepD.star
  else if s == "E:" then some SepD.eos
  else if s.startsWith "B:" then (match decodeStr (s.drop 2).toString with | some [c] => some (SepD.notAfter c) | _ => none)
  else if s.startsWith "H:" then (match decodeStr (s.drop 2).toString with | some [c, d] => some (SepD.atStartOr c d) | _ => none)
  else if s.startsWith "A:" then
    (((s.drop 2).toString.splitOn "|").foldr (fun f acc => match decodeStr f, acc with
      | some t, some l => some (t :: l)
      | _, _ => none) (some [])).map SepD.alts
  else none

def parseSep (s : String) : Option Matcher :=
  if s.startsWith "N" then (parseSepD (s.drop 1).toString).map (fun d => withNeg d.matcher)
  else (parseSepD s).map SepD.matcher

def showErr : Err → String
  | .valueError => "ValueError-empty-match"
  | .noProgress => "no-progress"
  | .contract => "bad-match"
  | .fuel => "fuel"

def showItem : Item → String
  | .chars p t => s!"(C {p} {p + t.length} {showStr t})"
  | .opq p e t _ => s!"(O {p} {e} {showStr t})"
  | .none => "None"

def showItems (l : List Item) : String := " ".intercalate (l.map showItem)

def showPart (p : Part) : String :=
  s!"[{showOptNat p.pos} {showOptNat p.posEnd}: {showItems p.items}]"

def showParts (l : List Part) : String := " ".intercalate (l.map showPart)

def showVal : Val → String
  | .nl p => showPart p
  | .raw l => s!"raw[{showItems l}]"

def showKv : KvRes → String
  | .ok d => "ok " ++ " ".intercalate (d.map (fun kv => showStr kv.1 ++ "=" ++ showVal kv.2))
  | .parseError _ => "LatexWalkerParseError"
  | .repeatedKey k => "ValueError " ++ showStr k
  | .attrError => "AttributeError"
  | .runtimeError => "RuntimeError"
  | .splitError e => showErr e

def parseVariant (s : String) : Option Variant :=
  if s == "A" then some .asIs else if s == "X" then some .fixed else none

def parsePolicy (s : String) : Option Policy :=
  if s == "first" then some .first else if s == "last" then some .last
  else if s == "concatenate" then some .concatenate else if s == "error" then some .error else none

/-- node predicate descriptor for `split_at_node`: letters `c` comment, `g` group, `o` other opaque node,
    `w` chars node consisting of white space only, `a` any chars node, `n` the `None` entry -/
def predOf (d : String) : Item → Bool
  | .none => d.contains 'n'
  | .chars _ t => d.contains 'a' || (d.contains 'w' && t.all isPySpace)
  | .opq _ _ _ .comment => d.contains 'c'
  | .opq _ _ _ (.group ..) => d.contains 'g'
  | .opq _ _ _ .other => d.contains 'o'

/-- driver operations
    `SPLIT chars <A|X> <sep> <maxsplit|-> <keepEmpty> <skipNone> <listEnd|-> <items>`
    `SPLIT node <pred> <maxsplit|-> <keepSeparators> <skipNone> <items>`
    `KEYVAL <A|X> <commaSep> <eqSep> <policy> <extractGroup> <listEnd|-> <items>` -/
def handleSplit (fields : List String) : Option String :=
  match fields with
  | ["SPLIT", "chars", v, sep, ms, ke, sn, le, its] =>
    match parseVariant v, parseSep sep, parseOptNat ms, parseOptNat le, parseItems its with
    | some v, some sep, some ms, some le, some its =>
      match splitChars { v := v, m := sep, maxSplit := ms, keepEmpty := parseBool ke, skipNone := parseBool sn } le its with
      | .ok parts => some ("ok " ++ showParts parts)
      | .error e => some (showErr e)
    | _, _, _, _, _ => some "bad-op"
  | ["SPLIT", "node", pd, ms, ks, sn, its] =>
    match parseOptNat ms, parseItems its with
    | some ms, some its =>
      some ("ok " ++ showParts (splitNode { pred := predOf pd, skipNone := parseBool sn, keepSeparators := parseBool ks, maxSplit := ms } its))
    | _, _ => some "bad-op"
  | ["KEYVAL", v, csep, esep, pol, eg, le, its] =>
    match parseVariant v, parseSep csep, parseSep esep, parsePolicy pol, parseOptNat le, parseItems its with
    | some v, some cs, some es, some pol, some le, some its =>
      some (showKv (parseKeyval { v := v, comma := cs, eq := es, policy := pol, extractGroup := parseBool eg } le its))
    | _, _, _, _, _, _ => some "bad-op"
  | "SPLIT" :: _ => some "bad-op"
  | "KEYVAL" :: _ => some "bad-op"
  | _ => none

end Split
end Pylx
