/-
  Pylx.Parse — model of the pylatexenc-3 parser: `LatexWalker.parse_content`
  with tolerant recovery, the nodes collector, and the parsers it dispatches
  to (general nodes, delimited group, math, environment body, macro /
  environment / specials call, arguments, expression, optional marker,
  delimited verbatim, and the legacy verbatim argument parsers of the default
  context).

  Open recursion: `step rec task` is not recursive; every sub-parse goes
  through `rec`.  `run (n+1) t = step (run n) t`.
-/
import Pylx.Tok
import Pylx.Node
namespace Pylx

/-! ### contexts (closed world: the standard argument types) -/

inductive ArgKind where
  | m                          -- 'm' / '{' : expression
  | o (allowPre : Bool)        -- 'o' / '[' : optional bracket group
  | s                          -- 's' / '*'
  | t (c : Char)
  | r (o c : Char)
  | d (o c : Char)
  | v
  | vd (o c : Char)
  /-- `LatexStandardArgumentParser('{', allow_pre_space=False)`: an expression that accepts neither leading
      whitespace nor leading comments (`allow_pre_comments` follows `allow_pre_space`) -/
  | m0
deriving Repr, BEq, DecidableEq, Inhabited

inductive Delta where
  | none | enterMath | leaveMath
deriving Repr, BEq, DecidableEq, Inhabited

structure ArgSpec where
  kind : ArgKind
  delta : Delta := .none
deriving Repr, BEq, DecidableEq, Inhabited

/-- the argument parser attached to a macro / environment / specials specification -/
inductive ArgsP where
  | std (l : List ArgSpec)
  | legacyVerb
  | legacyVerbEnv (name : Str) (optArg : Bool)
  /-- a specification the translator did not recognise (fail closed) -/
  | unknown
deriving Repr, BEq, DecidableEq, Inhabited

structure Ctx where
  macros : List (Str × ArgsP) := []
  envs : List (Str × (ArgsP × Bool)) := []          -- Bool: body in math mode
  specials : List (Str × ArgsP) := []
  unknownMacro : Option ArgsP := none
  unknownEnv : Option (ArgsP × Bool) := none
deriving Repr, Inhabited

def lookupFirst {β : Type} (k : Str) : List (Str × β) → Option β
  | [] => none
  | (a, b) :: l => if a == k then some b else lookupFirst k l

def Ctx.macroSpec (c : Ctx) (name : Str) : Option ArgsP :=
  match lookupFirst name c.macros with
  | some a => some a
  | none => c.unknownMacro

def Ctx.envSpec (c : Ctx) (name : Str) : Option (ArgsP × Bool) :=
  match lookupFirst name c.envs with
  | some a => some a
  | none => c.unknownEnv

def psInfo (f : PSFields) : PSInfo := { inMath := f.inMath, mathDelim := f.mathDelim }

def applyDelta (f : PSFields) : Delta → PSFields
  | .none => f
  | .enterMath => ({ f with inMath := true, mathDelim := none } : PSFields).normalize
  | .leaveMath => ({ f with inMath := false, mathDelim := none } : PSFields).normalize

/-! ### results -/

inductive Res where
  | none
  | node (n : Node)
  | list (pos posEnd : Option Nat) (ns : List Node)
  | args (pos posEnd : Option Nat) (a : List Arg)
deriving Inhabited

inductive ErrWhat where
  | unexpectedCloseBrace | unexpectedEndEnv | unexpectedCloseMath | unknownMacro | unknownEnv
  | stopNotMet | openDelimNotFound
  | exprEOS | exprBeginEnd | exprWhitespace | exprComment | exprCloseBrace | exprMath
  | verbEOS | verbOpenNotFound
  | tokBadEnv | tokEscapeEnd | tokForbidden
  | legacyVerbMissing | legacyVerbEOS | legacyEndNotFound
deriving Repr, BEq, DecidableEq, Inhabited

def ErrWhat.show : ErrWhat → String
  | .unexpectedCloseBrace => "nodes_unexpected_closing_group_delimiter"
  | .unexpectedEndEnv => "nodes_unexpected_end_environment"
  | .unexpectedCloseMath => "nodes_unexpected_closing_math_delimiter"
  | .unknownMacro => "nodes_unknown_macro_name"
  | .unknownEnv => "nodes_unknown_environment_name"
  | .stopNotMet => "nodes_generalnodes_required_stop_condition_not_met"
  | .openDelimNotFound => "nodes_delimited_expected_opening_delimiter_not_found"
  | .exprEOS => "expression_required_got_unexpected:end_of_stream"
  | .exprBeginEnd => "expression_required_got_unexpected:beginend"
  | .exprWhitespace => "expression_required_got_unexpected:whitespace"
  | .exprComment => "expression_required_got_unexpected:comment"
  | .exprCloseBrace => "expression_required_got_unexpected:closing_latex_group"
  | .exprMath => "expression_required_got_unexpected:math_mode_delimiter"
  | .verbEOS => "verbatim_unexpected_end_of_stream"
  | .verbOpenNotFound => "verbatim_expected_opening_delimiter_not_found"
  | .tokBadEnv => "token_error_parse_beginend_environment_name"
  | .tokEscapeEnd => "token_end_of_stream_immediately_after_escape_character"
  | .tokForbidden => "token_forbidden_character"
  | .legacyVerbMissing => "legacy_verb_missing_argument"
  | .legacyVerbEOS => "legacy_verb_end_of_stream"
  | .legacyEndNotFound => "legacy_verbatim_end_not_found"

def tokErrWhat : TokErr → ErrWhat
  | .badEnvName => .tokBadEnv | .escapeAtEnd => .tokEscapeEnd | .forbiddenChar => .tokForbidden

/-- a `LatexWalkerParseError` in flight -/
structure PErr where
  what : ErrWhat
  pos : Option Nat
  /-- reader position at the moment the exception was raised -/
  rpos : Nat
  recNodes : Res := .none
  recAt : Option Token := none
  recPast : Option Token := none
deriving Inhabited

/-- what `process_tokens()` leaves behind -/
structure LoopEnd where
  nodes : List Node
  pos : Nat
  stopTok : Option Token := none
  err : Option PErr := none
deriving Inhabited

/-- result of a task -/
inductive Ret where
  | ok (r : Res) (pos : Nat)
  | perr (e : PErr)
  | loopEnd (e : LoopEnd)
  | crash (k : String)
  | fuel
deriving Inhabited

/-- result of a parser's own `parse()` before `parse_content` wraps it -/
inductive Raw where
  | ret (r : Ret)
  | eos (pos : Nat)            -- `LatexWalkerEndOfStream` escaped with the reader at `pos`
deriving Inhabited

/-! ### parsers as first-order data -/

inductive StopTok where
  | none
  | braceClose (c : Str)
  | mathClose (disp : Bool) (c : Str)
  | endEnv (name : Str)
deriving Repr, BEq, DecidableEq, Inhabited

def StopTok.test : StopTok → Token → Bool
  | .none, _ => false
  | .braceClose c, t => t.kind == .braceClose && t.arg == c
  | .mathClose d c, t => t.kind == (if d then TokKind.mathDisplay else TokKind.mathInline) && t.arg == c
  | .endEnv n, t => t.kind == .endEnv && t.arg == n

def StopTok.isSome : StopTok → Bool
  | .none => false
  | _ => true

/-- `make_child_parsing_state` -/
inductive ChildPS where
  | same
  | group (opener : Str) (contents outer : PSFields)
deriving Repr, Inhabited

def ChildPS.get (c : ChildPS) (cur : PSFields) (tok : Token) : PSFields :=
  match c with
  | .same => cur
  | .group o contents outer => if tok.kind == .braceOpen && tok.arg == o then contents else outer

inductive GroupDelims where
  | auto (opener : Str)        -- `delimiters=tok.arg`
  | pair (o c : Str)           -- `delimiters=(o, c)`
deriving Repr, BEq, DecidableEq, Inhabited

inductive Parser where
  | general (stop : StopTok) (require : Bool) (child : ChildPS)
  | group (delims : GroupDelims) (optional allowPre : Bool)
  | math (delim : Str)
  | envBody (name : Str)
  | macroCall (tok : Token) (args : ArgsP)
  | envCall (tok : Token) (args : ArgsP) (bodyMath : Bool)
  | specialsCall (tok : Token) (args : ArgsP)
  | arguments (a : ArgsP)
  | expression (allowPre : Bool)
  | marker (c : Char) (fullList : Bool) (allowPre : Bool)
  | verbatim (delims : Option (Char × Char))
deriving Inhabited

/-- the parser a standard argument type stands for -/
def argParser : ArgKind → Parser
  | .m => .expression true
  | .o ap => .group (.pair ['['] [']']) true ap
  | .s => .marker '*' false true
  | .t c => .marker c true true
  | .r o c => .group (.pair [o] [c]) false true
  | .d o c => .group (.pair [o] [c]) true true
  | .v => .verbatim none
  | .vd o c => .verbatim (some (o, c))
  | .m0 => .expression false

structure Env where
  tol : Bool
  ctx : Ctx
  s : Str
deriving Inhabited

structure LoopSt where
  pos : Nat
  acc : List Node := []
  pend : Str := []
  pendPos : Option Nat := none
deriving Inhabited

inductive Task where
  /-- `latex_walker.parse_content(parser, token_reader@pos, parsing_state)` -/
  | pc (p : Parser) (f : PSFields) (pos : Nat)
  /-- the rest of `LatexNodesCollector.process_tokens()` -/
  | loop (f : PSFields) (stop : StopTok) (child : ChildPS) (st : LoopSt)
  /-- `LatexExpressionParser.parse` after some whitespace / comment nodes were skipped -/
  | expr (allowPre : Bool) (skipped : List Node) (f : PSFields) (pos : Nat)
deriving Inhabited

/-! ### `parse_content` -/

def resToArg : Res → Arg
  | .none => .absent
  | .node n => .node n
  | .list p e ns => .list p e ns
  | .args _ _ _ => .absent

def listOf (ns : List Node) (dpos dposEnd : Option Nat) : Res :=
  .list (match ns.head? with | some n => some n.pos | none => dpos)
        (match ns.getLast? with | some n => some n.posEnd | none => dposEnd) ns

/-- `_ParsingContext` + `perform_recovery_nodes_and_parsing_state_delta` -/
def parseContent (tol : Bool) : Raw → Ret
  | .eos p => .ok .none p
  | .ret (.perr e) =>
    if tol then
      let pos := match e.recAt with
        | some t => moveToToken t true
        | none => match e.recPast with
          | some t => movePastToken t true
          | none => e.rpos
      .ok e.recNodes pos
    else .perr e
  | .ret r => r

/-! ### nodes collector -/

def LoopSt.push (st : LoopSt) (chars : Str) (pos : Nat) : LoopSt :=
  { st with pend := st.pend ++ chars, pendPos := match st.pendPos with | some p => some p | none => some pos }

def LoopSt.flush (f : PSFields) (st : LoopSt) : LoopSt :=
  if st.pend.isEmpty then st else
  let p := st.pendPos.getD 0
  { st with acc := st.acc ++ [Node.chars p (p + st.pend.length) (psInfo f) st.pend], pend := [], pendPos := none }

def loopFinish (f : PSFields) (st : LoopSt) (stopTok : Option Token) (err : Option PErr) : Ret :=
  let st := st.flush f
  .loopEnd { nodes := st.acc, pos := st.pos, stopTok := stopTok, err := err }

/-- a sub-parse from the collector: push the node (if any) and go on, or stop with the error -/
def afterChild (rec : Task → Ret) (f : PSFields) (stop : StopTok) (child : ChildPS) (st : LoopSt)
    (noneOk : Bool) (r : Ret) : Ret :=
  match r with
  | .ok (.node n) p => rec (.loop f stop child { st with pos := p, acc := st.acc ++ [n] })
  | .ok .none p => if noneOk then rec (.loop f stop child { st with pos := p }) else .crash "None pushed to the node list"
  | .ok _ _ => .crash "non-node result in collector"
  | .perr e => loopFinish f st none (some e)
  | .loopEnd _ => .crash "loopEnd from pc"
  | .crash k => .crash k
  | .fuel => .fuel

/-- read a token (or synthesise the final-whitespace token); `inr` = the loop ends here -/
def loopRead (env : Env) (f : PSFields) (st : LoopSt) : Sum Token Ret :=
  match peekTok env.tol (mkPS f) env.s st.pos with
  | .tok t => .inl t
  | .eos fs =>
    if fs.isEmpty then .inr (loopFinish f st none none)
    else .inl { kind := .char, arg := [], pos := st.pos + fs.length, posEnd := st.pos + fs.length, pre := fs }
  | .err w ep _ _ => .inr (loopFinish f st none (some { what := tokErrWhat w, pos := some ep, rpos := st.pos }))

/-- flush pending characters together with a non-char token's leading whitespace -/
def LoopSt.flushBefore (f : PSFields) (st : LoopSt) (t : Token) : LoopSt :=
  if !st.pend.isEmpty then ({ st with pend := st.pend ++ t.pre } : LoopSt).flush f
  else if !t.pre.isEmpty then
    { st with acc := st.acc ++ [Node.chars (t.pos - t.pre.length) t.pos (psInfo f) t.pre] }
  else st

def errAt (what : ErrWhat) (t : Token) (rpos : Nat) (past : Bool) : PErr :=
  { what := what, pos := some t.pos, rpos := rpos, recPast := if past then some t else none }

/-- the part of `process_one_token()` that deals with a non-char, non-stop token `t` (leading whitespace
    already flushed and stripped); the reader is at `st.pos = t.posEnd` -/
def loopDispatch (env : Env) (rec : Task → Ret) (f : PSFields) (stop : StopTok) (child : ChildPS)
    (st : LoopSt) (t : Token) : Ret :=
  match t.kind with
  | .braceClose => loopFinish f st none (some (errAt .unexpectedCloseBrace t st.pos true))
  | .endEnv => loopFinish f st none (some (errAt .unexpectedEndEnv t st.pos true))
  | .comment =>
    rec (.loop f stop child { st with acc := st.acc ++ [Node.comment t.pos t.posEnd (psInfo f) t.arg t.post] })
  | .braceOpen =>
    afterChild rec f stop child st false (rec (.pc (.group (.auto t.arg) false false) (child.get f t) t.pos))
  | .macro =>
    match env.ctx.macroSpec t.arg with
    | none =>
      if env.tol then rec (.loop f stop child st)
      else loopFinish f st none (some (errAt .unknownMacro t st.pos false))
    | some a => afterChild rec f stop child st true (rec (.pc (.macroCall t a) (child.get f t) st.pos))
  | .beginEnv =>
    match env.ctx.envSpec t.arg with
    | none =>
      if env.tol then rec (.loop f stop child st)
      else loopFinish f st none (some (errAt .unknownEnv t st.pos false))
    | some ab => afterChild rec f stop child st true (rec (.pc (.envCall t ab.1 ab.2) (child.get f t) st.pos))
  | .specials =>
    match lookupFirst t.arg env.ctx.specials with
    | none => .crash "specials token without spec"
    | some a => afterChild rec f stop child st true (rec (.pc (.specialsCall t a) (child.get f t) st.pos))
  | .mathInline | .mathDisplay =>
    if (mkPS f).t.mathByOpen.any (fun d => d.1 == t.arg) then
      afterChild rec f stop child st true (rec (.pc (.math t.arg) (child.get f t) t.pos))
    else
      loopFinish f st none (some (errAt .unexpectedCloseMath t st.pos true))
  | .char => .crash "unreachable"

/-- `process_one_token()` and, through `rec`, the iterations after it -/
def loopStep (env : Env) (rec : Task → Ret) (f : PSFields) (stop : StopTok) (child : ChildPS) (st : LoopSt) : Ret :=
  match loopRead env f st with
  | .inr r => r
  | .inl t =>
    if stop.test t then
      loopFinish f { (st.push t.pre (t.pos - t.pre.length)) with pos := t.pos } (some t) none
    else if t.kind == .char then
      rec (.loop f stop child { (st.push (t.pre ++ t.arg) (t.pos - t.pre.length)) with pos := t.posEnd })
    else
      loopDispatch env rec f stop child { (st.flushBefore f t) with pos := t.posEnd } { t with pre := [] }

/-! ### the parsers' own `parse()` -/

def retOfLoop (r : Ret) (k : LoopEnd → Raw) : Raw :=
  match r with
  | .loopEnd e => k e
  | .crash c => .ret (.crash c)
  | .fuel => .ret .fuel
  | _ => .ret (.crash "expected loopEnd")

/-- `LatexGeneralNodesParser.parse` -/
def rawGeneral (rec : Task → Ret) (stop : StopTok) (require : Bool) (child : ChildPS) (f : PSFields) (pos : Nat) : Raw :=
  retOfLoop (rec (.loop f stop child { pos := pos })) fun e =>
    let nl := listOf e.nodes (some pos) (some pos)
    match e.err with
    | some pe =>
      .ret (.perr { what := pe.what, pos := pe.pos, rpos := e.pos, recNodes := nl })
    | none =>
      if require && stop.isSome && e.stopTok.isNone then
        let lpos := match nl with | .list p _ _ => p | _ => none
        .ret (.perr { what := .stopNotMet, pos := lpos, rpos := e.pos, recNodes := nl })
      else
        match e.stopTok with
        | some t => .ret (.ok nl (if stop.isSome then movePastToken t true else e.pos))
        | none => .ret (.ok nl e.pos)

def bodyOf : Res → Option (List Node)
  | .list _ _ ns => some ns
  | _ => none

/-- pass a sub-result through: errors and crashes propagate, `ok` continues -/
def bindOk (r : Ret) (k : Res → Nat → Raw) : Raw :=
  match r with
  | .ok res p => k res p
  | other => .ret other

/-- `get_group_parsing_state`: `none` = `ValueError` -/
def groupState (delims : GroupDelims) (f : PSFields) : Option PSFields :=
  match delims with
  | .auto o => if (mkPS f).t.groupByOpen.any (fun d => d.1 == o) then some f else none
  | .pair o c => if f.groupDelims.contains (o, c) then some f else some { f with groupDelims := f.groupDelims ++ [(o, c)] }

def GroupDelims.opener : GroupDelims → Str
  | .auto o => o
  | .pair o _ => o

/-- `get_parsed_delimiters()[1]` -/
def groupCloser (delims : GroupDelims) (g : PSFields) : Option Str :=
  match delims with
  | .auto o => lookupLast o (mkPS g).t.groupByOpen
  | .pair _ c => some c

def notFoundErr (t : Token) : PErr :=
  { what := .openDelimNotFound, pos := some t.pos, rpos := t.posEnd,
    recNodes := .list (some t.pos) (some t.pos) [], recAt := some t }

/-- `LatexDelimitedGroupParser.parse` once the first token `t` has been read with the group state `g` -/
def rawGroupTok (rec : Task → Ret) (delims : GroupDelims) (optional allowPre : Bool) (f g : PSFields) (t : Token) : Raw :=
  if !(!allowPre && !t.pre.isEmpty) && t.kind == .braceOpen && t.arg == delims.opener then
    match groupCloser delims g with
    | none => .ret (.crash "KeyError: closing delimiter")
    | some c =>
      bindOk (rec (.pc (.general (.braceClose c) true (.group delims.opener g f)) g t.posEnd)) fun res p =>
        .ret (.ok (.node (Node.group t.pos p (psInfo g) delims.opener c (bodyOf res))) p)
  else if optional then .ret (.ok .none (moveToToken t true))
  else .ret (.perr (notFoundErr t))

/-- `LatexDelimitedGroupParser.parse` -/
def rawGroup (env : Env) (rec : Task → Ret) (delims : GroupDelims) (optional allowPre : Bool) (f : PSFields) (pos : Nat) : Raw :=
  match groupState delims f with
  | none => .ret (.crash "ValueError: not a valid latex group delimiter")
  | some g =>
    match peekTok env.tol (mkPS g) env.s pos with
    | .eos _ => .eos pos
    | .err w ep _ _ => .ret (.perr { what := tokErrWhat w, pos := some ep, rpos := pos })
    | .tok t => rawGroupTok rec delims optional allowPre f g t

def mathFields (f : PSFields) (delim : Str) : PSFields :=
  ({ f with inMath := true, mathDelim := some delim } : PSFields).normalize

/-- `LatexMathParser.parse` once the first token has been read -/
def rawMathTok (rec : Task → Ret) (delim : Str) (f : PSFields) (t : Token) : Raw :=
  if t.pre.isEmpty && (t.kind == .mathInline || t.kind == .mathDisplay) && t.arg == delim then
    match (mkPS (mathFields f t.arg)).t.expectClose with
    | none => .ret (.crash "TypeError: no closing math delimiter info")
    | some cd =>
      bindOk (rec (.pc (.general (.mathClose (t.kind == .mathDisplay) cd.1) true .same) (mathFields f t.arg) t.posEnd)) fun res p =>
        .ret (.ok (.node (Node.math t.pos p (psInfo f) (t.kind == .mathDisplay) t.arg cd.1 (bodyOf res))) p)
  else .ret (.perr (notFoundErr t))

/-- `LatexMathParser.parse` -/
def rawMath (env : Env) (rec : Task → Ret) (delim : Str) (f : PSFields) (pos : Nat) : Raw :=
  match peekTok env.tol (mkPS f) env.s pos with
  | .eos _ => .eos pos
  | .err w ep _ _ => .ret (.perr { what := tokErrWhat w, pos := some ep, rpos := pos })
  | .tok t => rawMathTok rec delim f t

/-- `LatexEnvironmentBodyContentsParser.parse` -/
def rawEnvBody (rec : Task → Ret) (name : Str) (f : PSFields) (pos : Nat) : Raw :=
  bindOk (rec (.pc (.general (.endEnv name) true .same) f pos)) fun res p =>
    match res with
    | .none => .ret (.ok (.list none none []) p)
    | r => .ret (.ok r p)

def argsOf : Res → Option (List Arg)
  | .args _ _ l => some l
  | _ => none

/-- `_LatexCallableParserBase.parse` for macros and specials -/
def rawCall (rec : Task → Ret) (mk : Nat → Option (List Arg) → Node) (a : ArgsP) (f : PSFields) (pos : Nat) : Raw :=
  bindOk (rec (.pc (.arguments a) f pos)) fun res p =>
    .ret (.ok (.node (mk p (argsOf res))) p)

/-- `LatexEnvironmentCallParser.parse` -/
def rawEnvCall (rec : Task → Ret) (t : Token) (a : ArgsP) (bodyMath : Bool) (f : PSFields) (pos : Nat) : Raw :=
  bindOk (rec (.pc (.arguments a) f pos)) fun ares p =>
    let bf := if bodyMath then applyDelta f .enterMath else f
    bindOk (rec (.pc (.envBody t.arg) bf p)) fun bres p2 =>
      .ret (.ok (.node (Node.env t.pos p2 (psInfo f) t.arg (argsOf ares) (bodyOf bres))) p2)

/-- legacy `\verb` argument (`VerbatimArgsParser('verb-macro')` behind `_LegacyPyltxenc2MacroArgsParserWrapper`) -/
def rawLegacyVerb (env : Env) (f : PSFields) (pos : Nat) : Raw :=
  let p := pos + (spaceRun env.s pos).length
  match env.s[p]? with
  | none => .ret (.perr { what := .legacyVerbMissing, pos := some p, rpos := pos })
  | some d =>
    match findCharFrom env.s d (p + 1) with
    | none => .ret (.perr { what := .legacyVerbEOS, pos := some p, rpos := pos })
    | some e =>
      .ret (.ok (.args (some (p + 1)) (some (e + 1))
                  [.node (Node.chars (p + 1) e (psInfo f) (slice env.s (p + 1) e))]) (e + 1))

/-- the verbatim text up to `\\end{name}` -/
def legacyVerbEnvFinish (env : Env) (name : Str) (f : PSFields) (pos : Nat) (pre : List Arg) (p : Nat) : Raw :=
  match findStrFrom env.s ("\\end{".toList ++ name ++ ['}']) p with
  | none => .ret (.perr { what := .legacyEndNotFound, pos := some p, rpos := pos })
  | some e =>
    .ret (.ok (.args (some pos) (some e) (pre ++ [.node (Node.chars p e (psInfo f) (slice env.s p e))])) e)

def startsWithSpace (s : Str) (pos : Nat) : Bool :=
  match s[pos]? with
  | some c => isPySpace c
  | none => false

/-- legacy verbatim / lstlisting environment argument -/
def rawLegacyVerbEnv (env : Env) (rec : Task → Ret) (name : Str) (optArg : Bool) (f : PSFields) (pos : Nat) : Raw :=
  if !optArg then legacyVerbEnvFinish env name f pos [] pos
  else if startsWithSpace env.s pos then legacyVerbEnvFinish env name f pos [.absent] pos
  else
    bindOk (rec (.pc (.group (.pair ['['] [']']) true false) f pos)) fun res _ =>
      match res with
      | .node n => legacyVerbEnvFinish env name f pos [.node n] n.posEnd
      | _ => legacyVerbEnvFinish env name f pos [.absent] pos

/-- `LatexArgumentsParser.parse`: one `parse_content` per declared argument slot, left to right -/
def argsLoop (env : Env) (rec : Task → Ret) (f : PSFields) : List ArgSpec → List Arg → Nat → Ret
  | [], acc, pos => .ok (.args none none acc) pos
  | a :: rest, acc, pos =>
    -- `peek_token_or_none` (only used for messages) raises token errors in strict mode
    match peekTok env.tol (mkPS f) env.s pos with
    | .err w ep _ _ => .perr { what := tokErrWhat w, pos := some ep, rpos := pos }
    | _ =>
      match rec (.pc (argParser a.kind) (applyDelta f a.delta) pos) with
      | .ok res p => argsLoop env rec f rest (acc ++ [resToArg res]) p
      | other => other

/-- `LatexArgumentsParser.parse` / `LatexNoArgumentsParser.parse` / the legacy wrapper -/
def rawArguments (env : Env) (rec : Task → Ret) (a : ArgsP) (f : PSFields) (pos : Nat) : Raw :=
  match a with
  | .std l => .ret (argsLoop env rec f l [] pos)
  | .legacyVerb => rawLegacyVerb env f pos
  | .legacyVerbEnv name optArg => rawLegacyVerbEnv env rec name optArg f pos
  | .unknown => .ret (.crash "unmodelled arguments parser")

/-- `LatexExpressionParser.parse` (`return_full_node_list=False`) -/
def exprFinish (f : PSFields) (nodes : List Node) (pos : Nat) : Ret :=
  match nodes.getLast? with
  | some n => .ok (.node n) pos
  | none => .ok (.node (Node.group pos pos (psInfo f) [] [] (some []))) pos

/-- `_parse_single_token` for a token `t` that is neither macro nor specials and has no leading whitespace -/
def exprOnTok (env : Env) (rec : Task → Ret) (allowPre : Bool) (skipped : List Node) (f : PSFields) (t : Token) : Ret :=
  let pi := psInfo f
  match t.kind with
  | .comment =>
    if allowPre then rec (.expr allowPre (skipped ++ [Node.comment t.pos t.posEnd pi t.arg t.post]) f t.posEnd)
    else if env.tol then rec (.expr allowPre skipped f t.posEnd)
    else .perr { what := .exprComment, pos := some t.pos, rpos := t.posEnd }
  | .braceOpen =>
    match rec (.pc (.group (.auto t.arg) false false) f t.pos) with
    | .ok (.node n) p => exprFinish f (skipped ++ [n]) p
    | .ok _ _ => .crash "expression: group parser returned None"
    | other => other
  | .braceClose =>
    .perr { what := .exprCloseBrace, pos := some t.pos, rpos := t.pos,
            recNodes := .node (Node.chars t.pos t.pos pi []), recAt := some t }
  | .char => exprFinish f (skipped ++ [Node.chars t.pos t.posEnd pi t.arg]) t.posEnd
  | .mathInline | .mathDisplay =>
    let rn := if t.arg.head? == some '\\' then Node.mac t.pos t.posEnd pi t.arg t.post (some [])
              else Node.chars t.pos t.posEnd pi t.arg
    .perr { what := .exprMath, pos := some t.pos, rpos := t.posEnd, recNodes := .node rn, recPast := some t }
  | _ => .crash "expression: unknown token type"

/-- `_parse_single_token` once a token has been read -/
def exprTok (env : Env) (rec : Task → Ret) (allowPre : Bool) (skipped : List Node) (f : PSFields) (t : Token) : Ret :=
  let pi := psInfo f
  if t.kind == .macro then
    if t.arg == "begin".toList || t.arg == "end".toList then
      if env.tol then exprFinish f (skipped ++ [Node.mac t.pos t.posEnd pi t.arg t.post none]) t.posEnd
      else .perr { what := .exprBeginEnd, pos := some t.pos, rpos := t.posEnd }
    else
      exprFinish f (skipped ++ [Node.mac t.pos t.posEnd pi t.arg t.post (some [])]) t.posEnd
  else if t.kind == .specials then
    exprFinish f (skipped ++ [Node.specials t.pos t.posEnd pi t.arg (some [])]) t.posEnd
  else if !t.pre.isEmpty then
    if allowPre then
      rec (.expr allowPre (skipped ++ [Node.chars (t.pos - t.pre.length) t.pos pi t.pre]) f t.pos)
    else if env.tol then rec (.expr allowPre skipped f t.posEnd)
    else .perr { what := .exprWhitespace, pos := some (t.pos - t.pre.length), rpos := t.posEnd }
  else exprOnTok env rec allowPre skipped f t

def exprStep (env : Env) (rec : Task → Ret) (allowPre : Bool) (skipped : List Node) (f : PSFields) (pos : Nat) : Ret :=
  let ef : PSFields := ({ f with enEnvs := false } : PSFields).normalize
  match peekTok env.tol (mkPS ef) env.s pos with
  | .err w ep _ _ => .perr { what := tokErrWhat w, pos := some ep, rpos := pos }
  | .eos _ =>
    if env.tol then exprFinish f skipped pos
    else .perr { what := .exprEOS, pos := some pos, rpos := pos }
  | .tok t => exprTok env rec allowPre skipped f t

/-- `LatexOptionalCharsMarkerParser.parse` for a single marker character -/
def rawMarker (env : Env) (c : Char) (fullList allowPre : Bool) (f : PSFields) (pos : Nat) : Raw :=
  match peekTok env.tol (mkPS f) env.s pos with
  | .eos _ => .ret (.ok .none pos)
  | .err w ep _ _ => .ret (.perr { what := tokErrWhat w, pos := some ep, rpos := pos })
  | .tok t =>
    if !t.pre.isEmpty && !allowPre then .ret (.ok .none pos)
    else if (t.kind == .char || t.kind == .specials) && t.arg == [c] then
      let n := Node.chars t.pos t.posEnd (psInfo f) [c]
      .ret (.ok (if fullList then .list (some t.pos) (some t.posEnd) [n] else .node n) t.posEnd)
    else if t.kind == .char && t.arg.isEmpty then
      -- an empty placeholder token (escape character at the very end, tolerant mode): the loop reads on and hits the end
      .eos pos
    else .ret (.ok .none pos)

/-- scan verbatim content: returns the index of the closing delimiter that brings the depth to zero -/
def verbScan (o c : Char) : Str → Nat → Nat → Option Nat
  | [], _, _ => none
  | ch :: rest, depth, i =>
    if ch == c then
      if depth ≤ 1 then some i else verbScan o c rest (depth - 1) (i + 1)
    else if ch == o then verbScan o c rest (depth + 1) (i + 1)
    else verbScan o c rest depth (i + 1)

/-- `LatexDelimitedVerbatimParser.parse` -/
def rawVerbatim (env : Env) (delims : Option (Char × Char)) (f : PSFields) (pos : Nat) : Raw :=
  let p := pos + (spaceRun env.s pos).length
  match env.s[p]? with
  | none => .eos p
  | some first =>
    let oc : Option (Char × Char) :=
      match delims with
      | none =>
        let cl := if first == '{' then '}' else if first == '[' then ']' else if first == '<' then '>'
                  else if first == '(' then ')' else first
        some (first, cl)
      | some (o, c) => if first == o then some (o, c) else none
    match oc with
    | none => .ret (.perr { what := .verbOpenNotFound, pos := some p, rpos := p + 1 })
    | some (o, c) =>
      let start := p + 1
      match verbScan o c (env.s.drop start) 1 start with
      | some e =>
        let cn := Node.chars start e (psInfo f) (slice env.s start e)
        .ret (.ok (.node (Node.group p (e + 1) (psInfo f) [o] [c] (some [cn]))) (e + 1))
      | none =>
        let cn := Node.chars start env.s.length (psInfo f) (slice env.s start env.s.length)
        .ret (.perr { what := .verbEOS, pos := some env.s.length, rpos := env.s.length, recNodes := .node cn })

/-! ### the step function and the knot -/

def rawParse (env : Env) (rec : Task → Ret) (p : Parser) (f : PSFields) (pos : Nat) : Raw :=
  match p with
  | .general stop require child => rawGeneral rec stop require child f pos
  | .group d o a => rawGroup env rec d o a f pos
  | .math d => rawMath env rec d f pos
  | .envBody n => rawEnvBody rec n f pos
  | .macroCall t a => rawCall rec (fun e args => Node.mac t.pos e (psInfo f) t.arg t.post args) a f pos
  | .specialsCall t a => rawCall rec (fun e args => Node.specials t.pos e (psInfo f) t.arg args) a f pos
  | .envCall t a bm => rawEnvCall rec t a bm f pos
  | .arguments a => rawArguments env rec a f pos
  | .expression ap => .ret (rec (.expr ap [] f pos))
  | .marker c fl ap => rawMarker env c fl ap f pos
  | .verbatim d => rawVerbatim env d f pos

def step (env : Env) (rec : Task → Ret) : Task → Ret
  | .pc p f pos => parseContent env.tol (rawParse env rec p f pos)
  | .loop f stop child st => loopStep env rec f stop child st
  | .expr ap skipped f pos => exprStep env rec ap skipped f pos

def run (env : Env) : Nat → Task → Ret
  | 0, _ => .fuel
  | n + 1, t => step env (run env n) t

/-- fuel that suffices for every input of this length (proved in C06) -/
def fuelFor (s : Str) : Nat := 8 * s.length + 40

/-- `LatexWalker(s, latex_context=ctx, tolerant_parsing=tol).parse_content(LatexGeneralNodesParser())` -/
def parseTop (env : Env) (f : PSFields) : Ret :=
  run env (fuelFor env.s) (.pc (.general .none true .same) f 0)

end Pylx
