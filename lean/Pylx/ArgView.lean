/-
  Pylx.ArgView — `SingleParsedArgumentInfo` (pylatexenc/latexnodes/_parsedargsinfo.py, 83-167): the content
  view of one parsed argument and the shorthands that delegate to the node-list operations of `Pylx.Split`
  (`get_content_nodelist`, `parse_content_as_keyval`).  Driver operation `ARGV` (property C18).

  An argument is `None` (absent optional argument), a node list (arguments parsed with
  `return_full_node_list`), a group node, or any other single node.  For a group node the harness sends the
  flattened node list of the group and, when that list consists of exactly one node which is itself a group,
  that inner group's opening delimiter and flattened node list (`solo`).
-/
import Pylx.Split
namespace Pylx
namespace Split

inductive ArgV where
  | absent
  | list (items : List Item)
  | group (openD : Str) (items : List Item) (solo : Option (Str × List Item))
  | single (it : Item)
deriving Repr

/-- `get_content_nodelist(unwrap_double_group)`: the group's node list; the node list of the sole inner group
    when that group has DIFFERENT delimiters (so that `[{[}]` passes a raw bracket); `[None]` for an absent
    argument; the node itself for a single-token argument -/
def ArgV.content (unwrap : Bool) : ArgV → List Item
  | .absent => [.none]
  | .list l => l
  | .group o items (some (o', inner)) => if unwrap && o' != o then inner else items
  | .group _ items none => items
  | .single it => [it]

/-- `parse_content_as_keyval(**kw)` = `get_content_nodelist().parse_keyval_content(**kw)` -/
def ArgV.keyval (c : KCfg) (listEnd : Option Nat) (a : ArgV) : KvRes :=
  parseKeyval c listEnd (a.content true)

/-! ## Driver -/

def parseSolo (o its : String) : Option (Option (Str × List Item)) :=
  if o == "-" then some none else
  match decodeStr o, parseItems its with
  | some o, some its => some (some (o, its))
  | _, _ => none

/-- `ARGV <absent|list|group|single> <unwrap> <open|-> <items> <soloOpen|-> <soloItems>` → the content items -/
def handleArgV (fields : List String) : Option String :=
  match fields with
  | ["ARGV", kind, uw, o, its, so, sits] =>
    match decodeStr o, parseItems its, parseSolo so sits with
    | some o, some its, some solo =>
      let a : Option ArgV :=
        if kind == "absent" then some .absent
        else if kind == "list" then some (.list its)
        else if kind == "group" then some (.group o its solo)
        else if kind == "single" then (match its with | [it] => some (.single it) | _ => none)
        else none
      match a with
      | some a => some ("ok " ++ showItems (a.content (parseBool uw)))
      | none => some "bad-op"
    | _, _, _ => some "bad-op"
  | "ARGV" :: _ => some "bad-op"
  | _ => none

end Split
end Pylx
