/-
  Pylx.Visitor — model of `pylatexenc.latexnodes.nodes.LatexNodesVisitor`
  (`start`, `accept_node_visitor`, `node_standard_process_*`,
  `descend_into_nodelist`, `descend_into_parsed_arguments`) running a
  *recording* visitor: every `visit_*` callback appends one entry
  `(callback kind, pos, pos_end, keyword results received)` to a log and
  returns the term built from exactly that information, so the way child
  results are threaded to the parent is observable in the parent's entry.

  What the code does for `None`s (modelled as it is):
    * `descend_into_nodelist(None)`            → `[]`   (group, environment body, node list)
    * `descend_into_nodelist(None, default=None)` → `None` (math body, `argnlist`)
    * `descend_into_parsed_arguments(None)`    → `''`   and no `visit_parsed_arguments` call
    * a `None` slot in `argnlist`              → `None` placeholder, no callback
  `Node.args = none` is `nodeargd is None` (`ParsedArguments.__init__` replaces
  a missing `argnlist` by `[]`, so `argnlist is None` does not occur in a
  constructed `ParsedArguments`; the harness reports it as unrepresentable if it
  ever does).
-/
import Pylx.Basic
import Pylx.Node
import Pylx.NodeParse
namespace Pylx

/-- which `visit_*` callback -/
inductive CbKind where
  | chars | comment | group | mac | env | specials | math
  | nodelist   -- `visit_node_list`
  | pargs      -- `visit_parsed_arguments`
deriving Repr, BEq, DecidableEq, Inhabited

/-- identity of a visited object as far as the canonical log shows it: callback kind, `pos`, `pos_end`
    (`ParsedArguments` has no position; a `LatexNodeList` may have `None`s) -/
structure Ident where
  kind : CbKind
  pos : Option Nat
  posEnd : Option Nat
deriving Repr, BEq, DecidableEq, Inhabited

/-- Python values flowing through `visited_results_*`. -/
inductive VRes where
  | none                                  -- `None`: absent argument slot; default for a `None` math body
  | emptyStr                              -- `''`: what `descend_into_parsed_arguments(None)` returns
  | lst (l : List VRes)                    -- list built by `descend_into_nodelist`
  | ret (id : Ident) (kw : List VRes)      -- value returned by the recording callback for object `id` that received `kw`
deriving Repr, Inhabited

/-- one callback: who was visited and which keyword results it received (in the order of the call) -/
structure Entry where
  id : Ident
  kw : List VRes
deriving Repr, Inhabited

abbrev Log := List Entry

/-- the recording callback: log the call, return the term -/
def callback (id : Ident) (before : Log) (kw : List VRes) : Log × VRes :=
  (before ++ [⟨id, kw⟩], .ret id kw)

def pargsId : Ident := ⟨.pargs, none, none⟩

mutual
/-- `node.accept_node_visitor(v)` = `v.node_standard_process_<kind>(node)` -/
def visitNode : Node → Log × VRes
  | .chars p e _ _ => callback ⟨.chars, some p, some e⟩ [] []
  | .comment p e _ _ _ => callback ⟨.comment, some p, some e⟩ [] []
  | .group p e _ _ _ body =>
    let b := descendBody body
    callback ⟨.group, some p, some e⟩ b.1 [b.2.getD (.lst [])]
  | .mac p e _ _ _ args =>
    let a := descendArgs args
    callback ⟨.mac, some p, some e⟩ a.1 [a.2]
  | .env p e _ _ args body =>
    let a := descendArgs args
    let b := descendBody body
    callback ⟨.env, some p, some e⟩ (a.1 ++ b.1) [a.2, b.2.getD (.lst [])]
  | .specials p e _ _ args =>
    let a := descendArgs args
    callback ⟨.specials, some p, some e⟩ a.1 [a.2]
  | .math p e _ _ _ _ body =>
    let b := descendBody body
    callback ⟨.math, some p, some e⟩ b.1 [b.2.getD .none]
/-- `descend_into_nodelist(nodelist, default)`: `none` stands for "the default is returned" -/
def descendBody : Option (List Node) → Log × Option VRes
  | none => ([], none)
  | some ns => let r := visitNodes ns; (r.1, some (.lst r.2))
/-- the loop of `descend_into_nodelist` over node entries -/
def visitNodes : List Node → Log × List VRes
  | [] => ([], [])
  | n :: ns =>
    let r := visitNode n
    let rs := visitNodes ns
    (r.1 ++ rs.1, r.2 :: rs.2)
/-- `descend_into_parsed_arguments(node.nodeargd)` -/
def descendArgs : Option (List Arg) → Log × VRes
  | none => ([], .emptyStr)
  | some l => visitPArgs l
/-- `ParsedArguments.accept_node_visitor` = `node_standard_process_parsed_arguments` -/
def visitPArgs : List Arg → Log × VRes
  | l => let r := visitArgList l; callback pargsId r.1 [.lst r.2]
/-- the loop of `descend_into_nodelist` over `argnlist` (entries may be `None`) -/
def visitArgList : List Arg → Log × List VRes
  | [] => ([], [])
  | a :: l =>
    let r := visitArg a
    let rs := visitArgList l
    (r.1 ++ rs.1, r.2 :: rs.2)
def visitArg : Arg → Log × VRes
  | .absent => ([], .none)
  | .node n => visitNode n
  | .list p e ns => let r := visitNodes ns; callback ⟨.nodelist, p, e⟩ r.1 [.lst r.2]
end

/-- things `LatexNodesVisitor.start` can be called on -/
inductive Obj where
  | node (n : Node)
  | nlist (pos posEnd : Option Nat) (ns : List Node)
  | pargs (l : List Arg)
deriving Inhabited

/-- `LatexNodesVisitor.start(obj)` with the recording visitor -/
def visitStart : Obj → Log × VRes
  | .node n => visitNode n
  | .nlist p e ns => visitArg (.list p e ns)
  | .pargs l => visitPArgs l

/-! ### canonical output -/

def showCb : CbKind → String
  | .chars => "C" | .comment => "%" | .group => "G" | .mac => "M" | .env => "E"
  | .specials => "S" | .math => "F" | .nodelist => "L" | .pargs => "A"

/-- keyword names of the `visited_results_*` arguments, in call order -/
def kwNames : CbKind → List String
  | .group | .math | .nodelist => ["nodelist"]
  | .mac | .specials => ["arguments"]
  | .env => ["arguments", "body"]
  | .pargs => ["argnlist"]
  | .chars | .comment => []

mutual
def showVRes : VRes → String
  | .none => "None"
  | .emptyStr => "''"
  | .lst l => "[" ++ showResList l ++ "]"
  | .ret id kw => "(" ++ showCb id.kind ++ " " ++ showOptNat id.pos ++ " " ++ showOptNat id.posEnd
                    ++ showKw (kwNames id.kind) kw ++ ")"
def showResList : List VRes → String
  | [] => ""
  | [r] => showVRes r
  | r :: l => showVRes r ++ " " ++ showResList l
def showKw : List String → List VRes → String
  | _, [] => ""
  | [], r :: l => " ?=" ++ showVRes r ++ showKw [] l
  | k :: ks, r :: l => " " ++ k ++ "=" ++ showVRes r ++ showKw ks l
end

def showEntry (e : Entry) : String := showVRes (.ret e.id e.kw)

def showLog (l : Log) : String := " ".intercalate (l.map showEntry)

/-- parse the top-level object of a `VISIT` line: a node, `(L p e [..])` or `<..>` -/
def parseObj (s : String) : Option Obj :=
  match parseArgs s with
  | some (some l) => some (.pargs l)
  | _ =>
    match parseArg s with
    | some (.node n) => some (.node n)
    | some (.list p e ns) => some (.nlist p e ns)
    | _ => none

def showObj : Obj → String
  | .node n => showNode n
  | .nlist p e ns => showArg (.list p e ns)
  | .pargs l => showArgs (some l)

/-- driver operation `VISIT <tree in the canonical form of harness/dump.py>`; answers
    `<number of callbacks> | <log> | <result of start()>`; `bad-tree` when the text is not the
    canonical form of a tree (checked by printing the parsed tree back). -/
def handleVisit (fields : List String) : Option String :=
  match fields with
  | ["VISIT", t] =>
    match parseObj t with
    | some o =>
      if showObj o != t then some "bad-tree" else
      let r := visitStart o
      some s!"{r.1.length} | {showLog r.1} | {showVRes r.2}"
    | none => some "bad-tree"
  | _ => none

end Pylx
