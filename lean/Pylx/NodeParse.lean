/-
  Pylx.NodeParse — reader for the canonical S-expression form of a node tree
  (the text produced by `Pylx.showNode` / harness/dump.py):

    parseNode : String → Option Node        one node  `(C 0 1 t "a")`
    parseArg  : String → Option Arg         `-`, a node, or `(L p e [nodes])`
    parseArgs : String → Option (Option (List Arg))   `None` or `<arg arg ...>`
    parseBody : String → Option (Option (List Node))  `None` or `[node node ...]`

  Drivers that take a tree as input should check `showNode (parsed) == input`
  (see `Pylx.handleVisit`), which makes the reader self-validating.
-/
import Pylx.Basic
import Pylx.Node
namespace Pylx
namespace NodeParse

inductive Tok where
  | lp | rp | lb | rb | lt | gt
  | atom (s : String)
  | str (s : Str)
deriving Repr, BEq, Inhabited

/-- tokenizer state -/
inductive Mode where
  | idle
  | atom (acc : List Char)                    -- reversed
  | str (acc : List Char)                     -- reversed, inside "..."
  | esc (acc : List Char) (hex : List Char)   -- inside "...", after `%`, before `;`
  | bad

def punct? (c : Char) : Option Tok :=
  if c == '(' then some .lp else if c == ')' then some .rp
  else if c == '[' then some .lb else if c == ']' then some .rb
  else if c == '<' then some .lt else if c == '>' then some .gt
  else none

def mkAtom (acc : List Char) : Tok := .atom (String.ofList acc.reverse)

/-- one character; tokens are accumulated in reverse -/
def tokStep (st : List Tok × Mode) (c : Char) : List Tok × Mode :=
  match st with
  | (ts, .idle) =>
    if c == ' ' then (ts, .idle)
    else if c == '"' then (ts, .str [])
    else match punct? c with
      | some t => (t :: ts, .idle)
      | none => (ts, .atom [c])
  | (ts, .atom acc) =>
    if c == ' ' then (mkAtom acc :: ts, .idle)
    else if c == '"' then (mkAtom acc :: ts, .str [])
    else match punct? c with
      | some t => (t :: mkAtom acc :: ts, .idle)
      | none => (ts, .atom (c :: acc))
  | (ts, .str acc) =>
    if c == '"' then (.str acc.reverse :: ts, .idle)
    else if c == '%' then (ts, .esc acc [])
    else (ts, .str (c :: acc))
  | (ts, .esc acc hex) =>
    if c == ';' then
      match parseHex (String.ofList hex.reverse) with
      | some n => (ts, .str (Char.ofNat n :: acc))
      | none => (ts, .bad)
    else (ts, .esc acc (c :: hex))
  | (ts, .bad) => (ts, .bad)

def tokenize (s : String) : Option (List Tok) :=
  match s.toList.foldl tokStep ([], .idle) with
  | (ts, .idle) => some ts.reverse
  | (ts, .atom acc) => some (mkAtom acc :: ts).reverse
  | _ => none

def natOf (s : String) : Option Nat := s.toNat?

def optNatOf (s : String) : Option (Option Nat) :=
  if s == "None" then some none else (s.toNat?).map some

/-- the `parsing_state` field: `t`, `mNone`, `m"<delim>"` -/
def pPS : List Tok → Option (PSInfo × List Tok)
  | .atom "t" :: r => some ({}, r)
  | .atom "mNone" :: r => some ({ inMath := true, mathDelim := none }, r)
  | .atom "m" :: .str d :: r => some ({ inMath := true, mathDelim := some d }, r)
  | _ => none

/-- `pos pos_end parsing_state` -/
def pHead : List Tok → Option (Nat × Nat × PSInfo × List Tok)
  | .atom p :: .atom e :: r =>
    match natOf p, natOf e, pPS r with
    | some p, some e, some (ps, r) => some (p, e, ps, r)
    | _, _, _ => none
  | _ => none

mutual
def pNode : Nat → List Tok → Option (Node × List Tok)
  | 0, _ => none
  | f+1, .lp :: .atom k :: r =>
    match pHead r with
    | none => none
    | some (p, e, ps, r) =>
      if k == "C" then
        match r with
        | .str c :: .rp :: r => some (.chars p e ps c, r)
        | _ => none
      else if k == "%" then
        match r with
        | .str c :: .str post :: .rp :: r => some (.comment p e ps c post, r)
        | _ => none
      else if k == "G" then
        match r with
        | .str o :: .str c :: r =>
          match pBody f r with
          | some (b, .rp :: r) => some (.group p e ps o c b, r)
          | _ => none
        | _ => none
      else if k == "M" then
        match r with
        | .str n :: .str post :: r =>
          match pArgs f r with
          | some (a, .rp :: r) => some (.mac p e ps n post a, r)
          | _ => none
        | _ => none
      else if k == "E" then
        match r with
        | .str n :: r =>
          match pArgs f r with
          | some (a, r) =>
            match pBody f r with
            | some (b, .rp :: r) => some (.env p e ps n a b, r)
            | _ => none
          | none => none
        | _ => none
      else if k == "S" then
        match r with
        | .str c :: r =>
          match pArgs f r with
          | some (a, .rp :: r) => some (.specials p e ps c a, r)
          | _ => none
        | _ => none
      else if k == "F" then
        match r with
        | .atom d :: .str o :: .str c :: r =>
          if d == "D" || d == "I" then
            match pBody f r with
            | some (b, .rp :: r) => some (.math p e ps (d == "D") o c b, r)
            | _ => none
          else none
        | _ => none
      else none
  | _+1, _ => none
/-- `None` or `[nodes]` -/
def pBody : Nat → List Tok → Option (Option (List Node) × List Tok)
  | 0, _ => none
  | _+1, .atom "None" :: r => some (none, r)
  | f+1, .lb :: r =>
    match pNodes f r with
    | some (ns, .rb :: r) => some (some ns, r)
    | _ => none
  | _+1, _ => none
/-- nodes up to (not including) the closing `]` -/
def pNodes : Nat → List Tok → Option (List Node × List Tok)
  | 0, _ => none
  | _+1, .rb :: r => some ([], .rb :: r)
  | f+1, ts =>
    match pNode f ts with
    | some (n, r) =>
      match pNodes f r with
      | some (ns, r) => some (n :: ns, r)
      | none => none
    | none => none
/-- `None` or `<args>` -/
def pArgs : Nat → List Tok → Option (Option (List Arg) × List Tok)
  | 0, _ => none
  | _+1, .atom "None" :: r => some (none, r)
  | f+1, .lt :: r =>
    match pArgList f r with
    | some (l, .gt :: r) => some (some l, r)
    | _ => none
  | _+1, _ => none
def pArgList : Nat → List Tok → Option (List Arg × List Tok)
  | 0, _ => none
  | _+1, .gt :: r => some ([], .gt :: r)
  | f+1, ts =>
    match pArg f ts with
    | some (a, r) =>
      match pArgList f r with
      | some (l, r) => some (a :: l, r)
      | none => none
    | none => none
def pArg : Nat → List Tok → Option (Arg × List Tok)
  | 0, _ => none
  | _+1, .atom "-" :: r => some (.absent, r)
  | f+1, .lp :: .atom "L" :: .atom p :: .atom e :: .lb :: r =>
    match optNatOf p, optNatOf e, pNodes f r with
    | some p, some e, some (ns, .rb :: .rp :: r) => some (.list p e ns, r)
    | _, _, _ => none
  | f+1, ts =>
    match pNode f ts with
    | some (n, r) => some (.node n, r)
    | none => none
end

/-- run a token parser on the whole input -/
def whole {α : Type} (p : Nat → List Tok → Option (α × List Tok)) (s : String) : Option α :=
  match tokenize s with
  | none => none
  | some ts =>
    match p (2 * ts.length + 2) ts with
    | some (a, []) => some a
    | _ => none

end NodeParse

def parseNode (s : String) : Option Node := NodeParse.whole NodeParse.pNode s
def parseArg (s : String) : Option Arg := NodeParse.whole NodeParse.pArg s
def parseArgs (s : String) : Option (Option (List Arg)) := NodeParse.whole NodeParse.pArgs s
def parseBody (s : String) : Option (Option (List Node)) := NodeParse.whole NodeParse.pBody s

end Pylx
