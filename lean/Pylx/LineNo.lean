/-
  Pylx.LineNo — model of `pylatexenc._util.LineNumbersCalculator`.
  `bisect_right` on the (sorted) list of line starts is modelled by its
  specification: the number of entries `≤ pos`.
-/
import Pylx.Basic
namespace Pylx

structure LineCfg where
  lineOffset : Int := 1
  firstLineColOffset : Int := 0
  colOffset : Int := 0
deriving Repr

/-- `find_all_new_lines`: `0`, then `k+1` for every `k` with `s[k] = '\n'`, scanning from offset `base`. -/
def lineStartsFrom : Str → Nat → List Nat
  | [], _ => []
  | c :: cs, k => if c == '\n' then (k+1) :: lineStartsFrom cs (k+1) else lineStartsFrom cs (k+1)

def lineStarts (s : Str) : List Nat := 0 :: lineStartsFrom s 0

/-- `bisect_right(l, p)` for sorted `l`: number of entries `≤ p`. -/
def countLE (l : List Nat) (p : Nat) : Nat := (l.filter (· ≤ p)).length

/-- `pos_to_lineno_colno(pos)` → `(lineno, colno)`. -/
def posToLineCol (cfg : LineCfg) (s : Str) (p : Nat) : Int × Int :=
  let starts := lineStarts s
  let ln := countLE starts p - 1
  let st := starts.getD ln 0
  let col : Int := (p : Int) - (st : Int) + (if ln = 0 then cfg.firstLineColOffset else cfg.colOffset)
  ((ln : Int) + cfg.lineOffset, col)

/-- driver operation `LINE lineOffset firstLineColOffset colOffset <s> pos` -/
def handleLine (fields : List String) : Option String :=
  match fields with
  | ["LINE", lo, fo, co, s, p] =>
    match lo.toInt?, fo.toInt?, co.toInt?, decodeStr s, p.toNat? with
    | some lo, some fo, some co, some s, some p =>
      let r := posToLineCol { lineOffset := lo, firstLineColOffset := fo, colOffset := co } s p
      some s!"{r.1} {r.2}"
    | _, _, _, _, _ => some "bad-op"
  | _ => none

end Pylx
