/-
  Pylx.L2TDrv — `latexToText` with the default databases and the driver operation
  `L2T\t<opts>\t<lib>\t<s>` → `ok "<text>"` | `CRASH <ExceptionClass>`.

  <opts> = `<mathmode T|D|V|R>;<sls>;<keep_comments 0|1>;<keep_braced_groups 0|1>;<minlen>;<repaired 0|1>`
  <sls>  = `N` | `B0` | `B1` | `S` (based-on-source) | `M` (macros) | `E` (except-in-equations) | `D<a><b><c><sls>`
  <lib>  = `<today>|<c>=<upper(c)>;…|<c>.<comb>=<NFC(c+comb)>;…` (strings as hex code points; pairs not listed: identity)
-/
import Pylx.L2T
import Pylx.Gen.WalkerDb
import Pylx.Gen.TextDb
namespace Pylx.L2T

def parseSlsAux : Nat → List Char → Option (SlsSpec × List Char)
  | 0, _ => none
  | _ + 1, 'N' :: r => some (.none, r)
  | _ + 1, 'B' :: '0' :: r => some (.bool false, r)
  | _ + 1, 'B' :: '1' :: r => some (.bool true, r)
  | _ + 1, 'S' :: r => some (.basedOnSource, r)
  | _ + 1, 'M' :: r => some (.macros, r)
  | _ + 1, 'E' :: r => some (.exceptInEq, r)
  | n + 1, 'D' :: a :: b :: c :: r =>
    match parseSlsAux n r with
    | some (e, r') => some (.dict (a == '1') (b == '1') (c == '1') e, r')
    | none => none
  | _ + 1, _ => none

def parseSlsSpec (s : String) : Option SlsSpec :=
  match parseSlsAux (s.length + 1) s.toList with
  | some (e, []) => some e
  | _ => none

def parseMathMode : String → Option MathMode
  | "T" => some .text | "D" => some .withDelims | "V" => some .verbatim | "R" => some .remove
  | _ => none

def parseOpts (s : String) : Option Opts :=
  match s.splitOn ";" with
  | [mm, sls, kc, kb, ml, rep] =>
    match parseMathMode mm, parseSlsSpec sls, ml.toInt? with
    | some mm, some sls, some ml =>
      some { mathMode := mm, sls := sls, keepComments := kc == "1", keepBraced := kb == "1", minLen := ml, repaired := rep == "1" }
    | _, _, _ => none
  | _ => none

def parseTable (sec : String) : Option (List (String × Str)) :=
  if sec.isEmpty then some [] else
  (sec.splitOn ";").foldr (fun item acc =>
    match item.splitOn "=", acc with
    | [k, v], some l => (decodeStr v).map (fun v => (k, v) :: l)
    | _, _ => none) (some [])

def parseLib (s : String) : Option Lib :=
  match s.splitOn "|" with
  | [today, up, nfc] =>
    match decodeStr today, parseTable up, parseTable nfc with
    | some today, some up, some nfc =>
      some { today := today,
             upper := fun c => match up.find? (fun p => p.1 == toHex c.toNat) with
               | some p => p.2
               | none => [c],
             nfc2 := fun c d => match nfc.find? (fun p => p.1 == toHex c.toNat ++ "." ++ toHex d.toNat) with
               | some p => p.2
               | none => [c, d] }
    | _, _, _ => none
  | _ => none

/-- `LatexNodes2Text(**opts).latex_to_text(s)` with the default walker and text databases -/
def latexToText (opts : Opts) (lib : Lib) (s : Str) : Out Str :=
  latexToTextWith opts Gen.defaultTextDb Gen.defaultCtx lib s

def showOut : Out Str → String
  | .ok t => "ok " ++ showStr t
  | .crash k => "CRASH " ++ k

def handleL2T (fields : List String) : Option String :=
  match fields with
  | ["L2T", opts, lib, s] =>
    match parseOpts opts, parseLib lib, decodeStr s with
    | some o, some l, some s => some (showOut (latexToText o l s))
    | _, _, _ => some "bad-op"
  | _ => none

end Pylx.L2T
