/-
  Pylx.InputFile — model of the decision logic of
  `pylatexenc.latex2text._inputlatexfile.read_latex_file` and of
  `LatexNodes2Text.read_input_file` (the `\input` / `\include` guard).

  The file system is an oracle parameter `FS`: the answers of `os.path.join`,
  `os.path.realpath`, `os.path.exists`, `os.path.isfile` and of
  `open(f).read()` (`none` = `IOError`).  The model contains only what the
  Python code itself decides: the order of the calls, the containment test,
  the implicit `.tex` / `.latex` completion.

  Two definitions:
  * `readLatexFileAsIs` — the code as it is on the unrepaired tree
    (containment by plain string prefix, tested *before* the completion);
  * `readLatexFile`     — the repaired code (completion first, containment of
    the real path of the *final* name, separator-aware test, run-time check
    that this real path is canonical, and the path that was checked is the
    path that is opened);
  * `readLatexFileNoCanon` — the repair without the canonicity check (kept to
    show why that check is needed).
  The driver (operation `INPUT`) runs the repaired one; `INPUT0` the as-is one,
  `INPUT1` the intermediate one.
-/
import Pylx.Basic
namespace Pylx

/-- the file system as seen through `os.path` and `open` -/
structure FS where
  join     : Str → Str → Str
  realpath : Str → Str
  exists_  : Str → Bool
  isfile   : Str → Bool
  /-- `open(f).read()`; `none` is an `IOError` -/
  read     : Str → Option Str

/-- what `read_input_file` did.  Python returns `''` for everything but `content`;
    the logged warning tells the three refusals apart. -/
inductive InRes
  | nodir                 -- `tex_input_directory is None`: nothing looked up
  | denied                -- "Can't access path … leading outside of mandated directory"
  | missing               -- "Error, file doesn't exist"
  | ioerr                 -- "Error, can't access …" (`IOError` while reading)
  | content (s : Str)
deriving DecidableEq, Repr

/-- the value Python returns -/
def InRes.toPy : InRes → Str
  | .content s => s
  | _ => []

def extTex : Str := ['.', 't', 'e', 'x']
def extLatex : Str := ['.', 'l', 'a', 't', 'e', 'x']

/-- the two `if not exists(fnfull) and exists(fnfull + ext): fnfull += ext` statements -/
def complete (fs : FS) (f0 : Str) : Str :=
  let f1 := if !fs.exists_ f0 && fs.exists_ (f0 ++ extTex) then f0 ++ extTex else f0
  if !fs.exists_ f1 && fs.exists_ (f1 ++ extLatex) then f1 ++ extLatex else f1

/-- `if not isfile(fnfull): return ''` … `open(fnfull).read()` -/
def finish (fs : FS) (f : Str) : InRes :=
  if fs.isfile f then
    match fs.read f with
    | some c => .content c
    | none => .ioerr
  else .missing

/-- `os.path.join(d, '')`: `d` with exactly one separator appended unless it is
    empty or already ends in one (so the root `/` stays `/`). -/
def dirSlash (d : Str) : Str :=
  if d = [] ∨ d.getLast? = some '/' then d else d ++ ['/']

/-- **The code as it is** (`read_latex_file` on the unrepaired tree). -/
def readLatexFileAsIs (fs : FS) (dir : Str) (strict : Bool) (fn : Str) : InRes :=
  let f0 := fs.realpath (fs.join dir fn)
  if strict && !(fs.realpath dir).isPrefixOf f0 then .denied
  else finish fs (complete fs f0)

/-- Intermediate repair (completion first, separator-aware containment of the
    real path of the final name).  Correct only if `realpath` is idempotent —
    which CPython's non-strict `os.path.realpath` is *not* on layouts with
    symbolic-link loops (it gives up, returns the rest unresolved, and
    `abspath` then cancels `loop/..` lexically). -/
def readLatexFileNoCanon (fs : FS) (dir : Str) (strict : Bool) (fn : Str) : InRes :=
  let f := complete fs (fs.realpath (fs.join dir fn))
  if strict then
    let r := fs.realpath f
    if (dirSlash (fs.realpath dir)).isPrefixOf r then finish fs r else .denied
  else finish fs f

/-- **The repaired code**: completion first; in strict mode the real path `r` of
    the final name must be canonical (`realpath(r) == r`, checked at run time)
    and start with `join(realpath(dir), '')`; `r` is the path that is opened. -/
def readLatexFile (fs : FS) (dir : Str) (strict : Bool) (fn : Str) : InRes :=
  let f := complete fs (fs.realpath (fs.join dir fn))
  if strict then
    let r := fs.realpath f
    if fs.realpath r == r && (dirSlash (fs.realpath dir)).isPrefixOf r then finish fs r else .denied
  else finish fs f

/-- `LatexNodes2Text.read_input_file` (`dir = none`: `set_tex_input_directory`
    never called, or called with `None`). -/
def readInputFile (fs : FS) (dir : Option Str) (strict : Bool) (fn : Str) : InRes :=
  match dir with
  | none => .nodir
  | some d => readLatexFile fs d strict fn

def readInputFileAsIs (fs : FS) (dir : Option Str) (strict : Bool) (fn : Str) : InRes :=
  match dir with
  | none => .nodir
  | some d => readLatexFileAsIs fs d strict fn

/-! ### The converter object over a history of calls

`LatexNodes2Text` keeps two attributes for `\input`: `tex_input_directory` and `strict_input`;
`set_tex_input_directory` overwrites both, `read_input_file` reads them and writes nothing. -/

structure Conv where
  dir : Option Str := none
  strict : Bool := true

inductive ConvOp
  | setDir (d : Option Str) (strict : Bool)
  | read (fn : Str)

def Conv.step (fs : FS) (c : Conv) : ConvOp → Conv × Option InRes
  | .setDir d s => ({ dir := d, strict := s }, none)
  | .read fn => (c, some (readInputFile fs c.dir c.strict fn))

/-- the object after a history of calls, and everything the calls returned -/
def Conv.run (fs : FS) : Conv → List ConvOp → Conv × List (Option InRes)
  | c, [] => (c, [])
  | c, op :: ops =>
    let r := c.step fs op
    let rest := Conv.run fs r.1 ops
    (rest.1, r.2 :: rest.2)

/-! ### File system given by finite tables (what the harness records) -/

structure FSTab where
  join : List ((Str × Str) × Str) := []
  real : List (Str × Str) := []
  ex   : List (Str × Bool) := []
  isf  : List (Str × Bool) := []
  rd   : List (Str × Option Str) := []

/-- Unlisted questions get a fixed default (the harness lists every question the
    model can ask; an omission shows up as a disagreement). -/
def FSTab.toFS (t : FSTab) : FS where
  join a b   := (t.join.lookup (a, b)).getD (a ++ ['/'] ++ b)
  realpath p := (t.real.lookup p).getD p
  exists_ p  := (t.ex.lookup p).getD false
  isfile p   := (t.isf.lookup p).getD false
  read p     := (t.rd.lookup p).getD none

/-! ### Driver

`INPUT <dir|-> <strict T/F> <name> <join> <realpath> <exists> <isfile> <read>`
Tables: entries separated by `;`, parts of an entry by `=`, strings hex-encoded;
`join`: `a=b=v`; `realpath`: `p=v`; `exists`/`isfile`: `p=T|F`;
`read`: `p=n` (IOError) or `p=s<hex>`.  The directory field is `-` for "not set",
otherwise `d<hex>`. -/

def optAll {α : Type} : List (Option α) → Option (List α)
  | [] => some []
  | none :: _ => none
  | some a :: r => match optAll r with
    | some l => some (a :: l)
    | none => none

def parseFsEntries {α : Type} (f : String) (g : List String → Option α) : Option (List α) :=
  if f.isEmpty then some [] else optAll ((f.splitOn ";").map (fun e => g (e.splitOn "=")))

def parseRead (v : String) : Option (Option Str) :=
  if v == "n" then some none
  else if v.startsWith "s" then (decodeStr (v.drop 1).toString).map some
  else none

def parseFSTab (j r e i d : String) : Option FSTab :=
  let pj := parseFsEntries j (fun
    | [a, b, v] => match decodeStr a, decodeStr b, decodeStr v with
      | some a, some b, some v => some ((a, b), v)
      | _, _, _ => none
    | _ => none)
  let pr := parseFsEntries r (fun
    | [p, v] => match decodeStr p, decodeStr v with
      | some p, some v => some (p, v)
      | _, _ => none
    | _ => none)
  let pb := fun (f : String) => parseFsEntries f (fun
    | [p, v] => match decodeStr p with
      | some p => some (p, parseBool v)
      | none => none
    | _ => none)
  let pd := parseFsEntries d (fun
    | [p, v] => match decodeStr p, parseRead v with
      | some p, some v => some (p, v)
      | _, _ => none
    | _ => none)
  match pj, pr, pb e, pb i, pd with
  | some j, some r, some e, some i, some d => some { join := j, real := r, ex := e, isf := i, rd := d }
  | _, _, _, _, _ => none

def parseDir (f : String) : Option (Option Str) :=
  if f == "-" then some none
  else if f.startsWith "d" then (decodeStr (f.drop 1).toString).map some
  else none

def showInRes : InRes → String
  | .nodir => "nodir " ++ showStr []
  | .denied => "denied " ++ showStr []
  | .missing => "missing " ++ showStr []
  | .ioerr => "ioerr " ++ showStr []
  | .content s => "content " ++ showStr s

def handleInput (fields : List String) : Option String :=
  match fields with
  | [op, dir, strict, fn, j, r, e, i, d] =>
    if op == "INPUT" || op == "INPUT0" || op == "INPUT1" then
      match parseDir dir, decodeStr fn, parseFSTab j r e i d with
      | some dir, some fn, some t =>
        let fs := t.toFS
        let res := if op == "INPUT" then readInputFile fs dir (parseBool strict) fn
                   else if op == "INPUT0" then readInputFileAsIs fs dir (parseBool strict) fn
                   else match dir with
                     | none => .nodir
                     | some d => readLatexFileNoCanon fs d (parseBool strict) fn
        some (showInRes res)
      | _, _, _ => some "bad-op"
    else none
  | _ => none

end Pylx
