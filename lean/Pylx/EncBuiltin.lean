/-
  Pylx.EncBuiltin — the encoder configured with one of the two built-in rule sets
  (`conversion_rules=['defaults']` / `['unicode-xml']`), on top of `Pylx.Enc` and the generated
  tables `Pylx.Gen.uni2latex`, `Pylx.Gen.uni2latexXml`; and the strict parse of its output with the
  default walker context (driver operation `ENCP`, property C13).
-/
import Pylx.Enc
import Pylx.ParseDrv
import Pylx.Gen.Uni2Latex
import Pylx.Gen.Uni2LatexXml
namespace Pylx.EncB

inductive Table
  | defaults | xml
deriving DecidableEq, Repr

/-- code points → characters -/
def S (l : List Nat) : Str := l.map Char.ofNat

def rawTable : Table → List (Nat × List Nat)
  | .defaults => Gen.uni2latex
  | .xml => Gen.uni2latexXml

def ruleProt : Table → Option Prot
  | .defaults => Gen.uni2latexRuleProt
  | .xml => Gen.uni2latexXmlRuleProt

/-- the dictionary of the built-in rule: `ord(c) -> replacement` -/
def tableOf (tb : Table) : List (Nat × Str) := (rawTable tb).map (fun e => (e.1, S e.2))

/-- `get_builtin_conversion_rules(name)`: a single `RULE_DICT` rule -/
def builtinRule (tb : Table) : Rule := dictRule (tableOf tb) (ruleProt tb)

/-- `UnicodeToLatexEncoder(conversion_rules=[name], replacement_latex_protection=pr,
    unknown_char_policy=pol, non_ascii_only=nao)`.  `str.isalpha` is only applied to replacement
    texts; these are ASCII (theorem `C13_table_ascii`), where it is `isAsciiAlpha`. -/
def builtinCfg (tb : Table) (pr : Prot) (pol : Policy) (nao : Bool) : Cfg :=
  { rules := [builtinRule tb], prot := pr, policy := pol, nonAsciiOnly := nao,
    isAlpha := isAsciiAlpha, asciiLimit := 128 }

/-- parsing-state fields of `LatexWalker(s, tolerant_parsing=False)` with the default context -/
def f₀ : PSFields := { specials := Gen.defaultCtx.specials.map (·.1) }

/-- strict parse of `t` with the default context database -/
def parseStrict (t : Str) : Ret := parseTop { tol := false, ctx := Gen.defaultCtx, s := t } f₀

def decodeTable (f : String) : Option Table :=
  if f == "defaults" then some .defaults else if f == "unicode-xml" then some .xml else none

/-- `ENCP <table> <prot> <policy> <non_ascii_only> <input>` →
    `<chunks as for ENC> | <strict parse of the joined output as for PARSE>` (only the first part when
    the encoder raises) -/
def handleEncP (fields : List String) : Option String :=
  match fields with
  | ["ENCP", tb, prot, pol, nao, s] =>
    match decodeTable tb, decodeProt prot, decodePolicy pol, decodeStr s with
    | some tb, some prot, some pol, some s =>
      let r := encodeChunks (builtinCfg tb prot pol (parseBool nao)) s
      match r.joined with
      | some t => some (showEncRes r ++ " | " ++ showRet t (parseStrict t))
      | none => some (showEncRes r)
    | _, _, _, _ => some "bad-op"
  | _ => none

end Pylx.EncB
