/-
  Pylx.L2T — model of pylatexenc.latex2text.LatexNodes2Text (layer L4): `nodelist_to_text` and every
  `*_node_to_text`, `apply_simplify_repl` with its %-formatting, the equation-context override of
  `strict_latex_spaces`, indented blocks, and the recognised replacement callables of
  `latex2text/_defaultspecs.py` (closed world: `Repl`).

  * Python exceptions are explicit: `Out.crash "<ExceptionClass>"`.
  * `fill_text` is not modelled (`textwrap` is a library oracle): the model covers `fill_text=None`.
  * `Opts.repaired` selects the behaviour of the code as found in the tree (`false`: findings F7, F8, F9)
    or with the repairs of `findings/F7-F9` applied (`true`).
  * Library functions are oracle parameters (`Lib`): `unicodedata.normalize('NFC', ch+comb)`, `str.upper()`
    per character, today's date.
  * The renderer is a state transformer: `\title`, `\author`, `\date` store text on the converter object,
    `\maketitle` reads it.
-/
import Pylx.Parse
namespace Pylx.L2T

inductive Out (α : Type) where
  | ok (a : α)
  | crash (k : String)
deriving Repr, Inhabited

/-! ### options -/

inductive MathMode where
  | text | withDelims | verbatim | remove
deriving Repr, BEq, DecidableEq, Inhabited

/-- the value given for `strict_latex_spaces=` (or for the key `'in-equations'`) -/
inductive SlsSpec where
  | none | bool (b : Bool) | basedOnSource | macros | exceptInEq
  | dict (mc lc ac : Bool) (inEq : SlsSpec)
deriving Repr, Inhabited

/-- the dictionary `self.strict_latex_spaces` -/
structure Sls where
  mc : Bool        -- 'between-macro-and-chars'
  lc : Bool        -- 'between-latex-constructs'
  ac : Bool        -- 'after-comment'
  inEq : SlsSpec   -- 'in-equations' (parsed when an equation is entered)
deriving Repr, Inhabited

/-- `_parse_strict_latex_spaces_dict` -/
def parseSls : SlsSpec → Sls
  | .none => ⟨false, false, false, .none⟩
  | .bool false => ⟨true, true, false, .basedOnSource⟩
  | .bool true => ⟨true, true, true, .bool true⟩
  | .basedOnSource => ⟨false, false, false, .none⟩
  | .macros => ⟨true, true, false, .basedOnSource⟩
  | .exceptInEq => ⟨true, true, true, .basedOnSource⟩
  | .dict a b c e => ⟨a, b, c, e⟩

/-- `_PushEquationContext` -/
def Sls.enterEq (c : Sls) : Sls :=
  match c.inEq with
  | .none => c
  | e => parseSls e

structure Opts where
  mathMode : MathMode := .text
  sls : SlsSpec := .bool false
  keepComments : Bool := false
  keepBraced : Bool := false
  minLen : Int := 2
  /-- `false`: the code as found (F7, F8, F9); `true`: with the repairs applied -/
  repaired : Bool := true
deriving Inhabited

/-- library oracles -/
structure Lib where
  /-- `unicodedata.normalize('NFC', ch + comb)` -/
  nfc2 : Char → Char → Str
  /-- `ch.upper()` (CPython's `str.upper` is context-free) -/
  upper : Char → Str
  /-- `_latex_today()` -/
  today : Str

/-! ### the text database (closed world) -/

inductive Seg where
  | lit (s : Str) | pct | pos | key (k : Str)
deriving Repr, BEq, DecidableEq, Inhabited

inductive DocField where
  | title | author | date
deriving Repr, BEq, DecidableEq, Inhabited

inductive Repl where
  | none
  | lit (s : Str)
  | fmt (raw : Str) (segs : List Seg)
  | badFmt (raw : Str)
  | eqEnv
  | input
  | placeholder (text : Str) (block : Bool)
  | matrix
  | mathAlpha (up lo : Nat) (exc : List (Nat × Nat))
  | accent (comb : Nat)
  | uebung
  | setDoc (f : DocField)
  | maketitle (noTitle noAuthor : Str)
  | item
  | href
  | sectioning (pre post : Str) (idx : Nat) (upper : Bool)
  | texorpdf
  | const (s : Str)
  | today
  | unknownCallable
deriving Repr, BEq, DecidableEq, Inhabited

structure TSpec where
  /-- the spec object has a `discard` attribute (`SpecialsTextSpec` has none) -/
  hasDiscard : Bool
  discard : Bool
  repl : Repl
deriving Repr, BEq, DecidableEq, Inhabited

structure TextDb where
  macros : List (Str × TSpec) := []
  envs : List (Str × TSpec) := []
  specials : List (Str × TSpec) := []
  /-- side conditions checked by the translator (no unknown-spec fallbacks, canonical walker argspecs) -/
  shapeOk : Bool := true
deriving Inhabited

/-! ### small string functions -/

def strip (s : Str) : Str :=
  ((s.dropWhile isPySpace).reverse.dropWhile isPySpace).reverse

/-- `s.replace("\n", "\n" + indent)` -/
def indentLines (indent : Str) : Str → Str
  | [] => []
  | c :: r => if c == '\n' then '\n' :: (indent ++ indentLines indent r) else c :: indentLines indent r

/-- `_fmt_indented_block` (no `fill_text`) -/
def indentedBlock (contents indent : Str) : Str :=
  '\n' :: (indent ++ indentLines indent contents ++ ['\n'])

def joinWith (sep : Str) : List Str → Str
  | [] => []
  | [x] => x
  | x :: r => x ++ sep ++ joinWith sep r

def rjust (w : Nat) (x : Str) : Str := List.replicate (w - x.length) ' ' ++ x

def maxList : List Nat → Nat
  | [] => 0
  | a :: l => max a (maxList l)

def decDigits : Nat → Nat → Str → Str
  | 0, _, acc => acc
  | fuel + 1, n, acc =>
    let acc' := Char.ofNat (48 + n % 10) :: acc
    if n < 10 then acc' else decDigits fuel (n / 10) acc'

/-- `str(n)` -/
def decStr (n : Nat) : Str := decDigits (n + 1) n []

/-! ### %-formatting (`simplify_repl % x` for the directives `%s`, `%(key)s`, `%%`) -/

/-- with a tuple; `none` = `TypeError` -/
def fmtTuple : List Seg → List Str → Option Str
  | [], [] => some []
  | [], _ :: _ => none
  | .lit s :: r, xs => (fmtTuple r xs).map (s ++ ·)
  | .pct :: r, xs => (fmtTuple r xs).map ('%' :: ·)
  | .pos :: r, x :: xs => (fmtTuple r xs).map (x ++ ·)
  | .pos :: _, [] => none
  | .key _ :: _, _ => none

/-- with a dictionary; `none` = `KeyError` (a `%s` cannot occur: the tuple form is chosen whenever one is present) -/
def fmtDict (d : List (Str × Str)) : List Seg → Option Str
  | [] => some []
  | .lit s :: r => (fmtDict d r).map (s ++ ·)
  | .pct :: r => (fmtDict d r).map ('%' :: ·)
  | .pos :: _ => none
  | .key k :: r =>
    match lookupFirst k d with
    | some v => (fmtDict d r).map (v ++ ·)
    | none => none

def Seg.isPos : Seg → Bool
  | .pos => true
  | _ => false

def numberedFrom : Nat → List Str → List (Str × Str)
  | _, [] => []
  | j, t :: r => (decStr j, t) :: numberedFrom (j + 1) r

/-! ### walker signatures -/

def argKindSpec : ArgKind → Str
  | .m => ['{'] | .o _ => ['['] | .s => ['*']
  | .t c => ['t', c] | .r o c => ['r', o, c] | .d o c => ['d', o, c]
  | .v => ['v'] | .vd o c => ['v', o, c]
  | .m0 => ['{']

/-- `nodeargd.argspec` of a node whose arguments were parsed with this specification -/
def argspecOf : ArgsP → Str
  | .std l => l.flatMap (fun a => argKindSpec a.kind)
  | .legacyVerb => ['{']
  | .legacyVerbEnv _ opt => if opt then ['[', '{'] else ['{']
  | .unknown => []

/-- `len(spec.arguments_spec_list)` -/
def sigLen : ArgsP → Nat
  | .std l => l.length
  | .legacyVerb => 1
  | .legacyVerbEnv _ opt => if opt then 2 else 1
  | .unknown => 0

/-- the pylatexenc-1 view `(nodeoptarg, nodeargs)` of an argument list, as positions into `argnlist`:
    `optIdx` = index of the optional argument (if the signature is `*…[{…`), `off` = index of `nodeargs[0]` -/
structure Legacy where
  optIdx : Option Nat
  off : Nat
deriving Repr, BEq, DecidableEq, Inhabited

def starCount : Str → Nat
  | '*' :: r => starCount r + 1
  | _ => 0

/-- `ParsedArguments.legacy_nodeoptarg_nodeargs` for a non-empty argument list -/
def legacyOf (argspec : Str) : Legacy :=
  let k := starCount argspec
  let rest := argspec.drop k
  if rest.head? == some '[' && (rest.drop 1).all (· == '{') then { optIdx := some k, off := k + 1 }
  else { optIdx := none, off := 0 }

/-! ### rendering -/

structure St where
  title : Option Str := none
  author : Option Str := none
  date : Option Str := none
deriving Repr, Inhabited

abbrev R (α : Type) := St → Out (α × St)

def R.pure {α : Type} (a : α) : R α := fun st => .ok (a, st)
def R.crash {α : Type} (k : String) : R α := fun _ => .crash k
def R.bind {α β : Type} (x : R α) (f : α → R β) : R β := fun st =>
  match x st with
  | .ok (a, st') => f a st'
  | .crash k => .crash k
def R.ofOut {α : Type} : Out α → R α
  | .ok a => R.pure a
  | .crash k => R.crash k

structure Env where
  opts : Opts
  db : TextDb
  ctx : Ctx
  lib : Lib
  src : Str

inductive Kind where
  | mac | env | specials
deriving Repr, BEq, DecidableEq, Inhabited

def walkerSpec (E : Env) : Kind → Str → Option ArgsP
  | .mac, n => E.ctx.macroSpec n
  | .env, n => (E.ctx.envSpec n).map (·.1)
  | .specials, n => lookupFirst n E.ctx.specials

def isAbsent : Arg → Bool
  | .absent => true
  | _ => false

/-- `_is_bare_macro_node(prev)` -/
def isBare (E : Env) : Option Node → Out Bool
  | some (.mac _ _ _ name _ args) =>
    match args with
    | none => if E.opts.repaired then .ok true else .crash "TypeError"     -- len(None)
    | some [] => .ok true
    | some l =>
      let lg := legacyOf (((walkerSpec E .mac name).map argspecOf).getD [])
      match lg.optIdx with
      | none => .ok false
      | some k =>
        match l[k]? with
        | none => .crash "IndexError"
        | some a => .ok (isAbsent a && (l.drop lg.off).isEmpty)
  | _ => .ok false

def isCharsNode : Node → Bool
  | .chars .. => true
  | _ => false

def postSpaceOf : Option Node → Str
  | some (.mac _ _ _ _ post _) => post
  | _ => []

/-- what `nodelist_to_text` emits between `prev` and `n` -/
def preOf (E : Env) (c : Sls) (prev : Option Node) (n : Node) : Out Str :=
  match isBare E prev with
  | .crash k => .crash k
  | .ok b => .ok (if b && isCharsNode n && !c.mc then postSpaceOf prev else [])

/-- what the replacement callables can ask of the node they are applied to -/
structure Thunks where
  /-- `nodeargd is None` -/
  noArgd : Bool
  /-- `len(argnlist)` -/
  n : Nat
  /-- `argnlist[k] is None` -/
  absent : Nat → Bool
  /-- `[_groupnodecontents_to_text(a) for a in argnlist]` -/
  each : R (List Str)
  /-- `nodelist_to_text([argnlist[k]])` (`IndexError` when out of range) -/
  single : Nat → R Str
  /-- `_groupnodecontents_to_text(argnlist[k])` -/
  contents : Nat → R Str
  /-- `nodelist_to_text(node.nodelist)` -/
  body : R Str
  /-- the same inside `_PushEquationContext` -/
  bodyEq : R Str
  /-- `node.nodelist is None` -/
  bodyNone : Bool
  /-- the cells of `fmt_matrix_environment_node`, row by row -/
  matrix : R (List (List Str))

structure NodeInfo where
  kind : Kind
  name : Str
  pos : Nat
  posEnd : Nat
deriving Inhabited

/-- `math_node_to_text` for a math node (`delims = some …`) or an environment node -/
def mathText (E : Env) (isEnv display : Bool) (d0 d1 : Str) (pos posEnd : Nat) (bodyEq : R Str) : R Str :=
  let blockish := isEnv || display
  match E.opts.mathMode with
  | .verbatim =>
    let v := slice E.src pos posEnd
    R.pure (if blockish then indentedBlock v [] else v)
  | .remove => R.pure []
  | .withDelims =>
    R.bind bodyEq fun t =>
      let content := strip t
      R.pure (if blockish then d0 ++ indentedBlock content [] ++ d1 else d0 ++ content ++ d1)
  | .text =>
    R.bind bodyEq fun t =>
      let content := strip t
      R.pure (if blockish then indentedBlock content "    ".toList else content)

def mathStyleChar (up lo : Nat) (exc : List (Nat × Nat)) (ch : Char) : Char :=
  let oc := ch.toNat
  match exc.find? (fun p => p.1 == oc) with
  | some p => Char.ofNat p.2
  | none =>
    if 65 ≤ oc && oc ≤ 90 then Char.ofNat (up + oc - 65)
    else if 97 ≤ oc && oc ≤ 122 then Char.ofNat (lo + oc - 97)
    else ch

def accentChar (lib : Lib) (comb : Char) (ch : Char) : Str :=
  let ch := if ch == Char.ofNat 0x131 then 'i' else if ch == Char.ofNat 0x237 then 'j' else ch
  lib.nfc2 ch comb

def formatMaketitle (title author date : Str) : Str :=
  title ++ ['\n'] ++ "    ".toList ++ author ++ ['\n'] ++ "    ".toList ++ date ++ ['\n'] ++
  List.replicate (max title.length (max (4 + author.length) (4 + date.length))) '=' ++ ['\n', '\n']

def setField (f : DocField) (t : Str) : R Unit := fun st =>
  match f with
  | .title => .ok ((), { st with title := some t })
  | .author => .ok ((), { st with author := some t })
  | .date => .ok ((), { st with date := some t })

def formatMatrix (rows : List (List Str)) : Str :=
  let w := maxList (rows.flatMap (fun r => r.map List.length))
  "[ ".toList ++ joinWith "; ".toList (rows.map (fun r => joinWith [' '] (r.map (rjust w)))) ++ " ]".toList

/-- the legacy view of the node's arguments (only meaningful when `nodeargd` is not `None`) -/
def legacyView (E : Env) (info : NodeInfo) (th : Thunks) : Legacy :=
  if th.n == 0 then { optIdx := none, off := 0 }
  else legacyOf (((walkerSpec E info.kind info.name).map argspecOf).getD [])

/-- `nodeargs[i]`-style access through the legacy view: index into `argnlist`, `IndexError` if the view
    itself cannot be built (`argnlist[nskip]` out of range) -/
def legacyCheck (lg : Legacy) (th : Thunks) : Out Unit :=
  match lg.optIdx with
  | some k => if k < th.n then .ok () else .crash "IndexError"
  | none => .ok ()

/-- a callable `simplify_repl` applied to a node (`r or ''` included) -/
def applyCallable (E : Env) (info : NodeInfo) (th : Thunks) : Repl → R Str
  | .eqEnv =>
    if info.kind == .env then
      mathText E true false ("\\begin{".toList ++ info.name ++ ['}']) ("\\end{".toList ++ info.name ++ ['}'])
        info.pos info.posEnd th.bodyEq
    else R.crash "unmodelled"
  | .input =>
    -- fmt_input_macro → _input_node_simplify_repl with no input directory: the argument is rendered, the result is ''
    let lg := legacyView E info th
    if th.noArgd then (if E.opts.repaired then R.pure [] else R.crash "TypeError")
    else R.bind (R.ofOut (legacyCheck lg th)) fun _ =>
      if th.n ≤ lg.off then (if E.opts.repaired then R.pure [] else R.crash "IndexError")
      else R.bind (th.single lg.off) fun _ => R.pure []
  | .placeholder text block =>
    let txt := "< ".toList ++ joinWith [' '] (text.map (fun c => [c])) ++ " >".toList
    R.pure (if block then indentedBlock txt "    ".toList else [' '] ++ txt ++ [' '])
  | .matrix =>
    if info.kind != .env then R.crash "unmodelled"
    else if th.bodyNone && !E.opts.repaired then R.crash "TypeError"
    else R.bind th.matrix fun rows =>
      if (rows.flatMap id).isEmpty && !E.opts.repaired then R.crash "ValueError"
      else R.pure (formatMatrix rows)
  | .mathAlpha up lo exc =>
    R.bind (if th.noArgd || th.n == 0 then R.pure [] else th.contents 0) fun t =>
      R.pure (t.map (mathStyleChar up lo exc))
  | .accent comb =>
    let lg := legacyView E info th
    R.bind (if th.noArgd then R.pure [' ']
            else R.bind (R.ofOut (legacyCheck lg th)) fun _ =>
              if th.n ≤ lg.off then R.pure [' '] else R.bind (th.single lg.off) fun t => R.pure (strip t)) fun c =>
      R.pure (c.flatMap (accentChar E.lib (Char.ofNat comb)))
  | .uebung =>
    let lg := legacyView E info th
    if th.noArgd then
      (if E.opts.repaired then R.pure ['\n', '\n'] else R.crash "TypeError")
    else R.bind (R.ofOut (legacyCheck lg th)) fun _ =>
      let have0 := lg.off < th.n
      let have1 := lg.off + 1 < th.n
      if !have0 && !E.opts.repaired then R.crash "IndexError"
      else R.bind (if have0 then th.single lg.off else R.pure []) fun t0 =>
        if !have1 && !E.opts.repaired then R.crash "IndexError"
        else if !have1 || th.absent (lg.off + 1) then R.pure (['\n'] ++ t0 ++ ['\n'])
        else R.bind (th.single (lg.off + 1)) fun t1 =>
          R.pure (['\n'] ++ t0 ++ ['\n'] ++ ['['] ++ t1 ++ [']', '\n'])
  | .setDoc f =>
    if th.noArgd then R.crash "AttributeError"
    else R.bind (if th.n == 0 then R.pure [] else th.single 0) fun t =>
      R.bind (setField f t) fun _ => R.pure []
  | .maketitle noTitle noAuthor => fun st =>
    .ok (formatMaketitle (st.title.getD noTitle) (st.author.getD noAuthor) (st.date.getD E.lib.today), st)
  | .item =>
    let lg := legacyView E info th
    if th.noArgd then R.pure "\n  * ".toList
    else R.bind (R.ofOut (legacyCheck lg th)) fun _ =>
      match lg.optIdx with
      | none => R.pure "\n  * ".toList
      | some k =>
        if th.absent k then R.pure "\n  * ".toList
        else R.bind (th.single k) fun t => R.pure ("\n  ".toList ++ t)
  | .href =>
    if th.noArgd then (if E.opts.repaired then R.pure " <>".toList else R.crash "AttributeError")
    else if th.n < 2 && !E.opts.repaired then R.crash "IndexError"
    else R.bind (if 1 < th.n then th.single 1 else R.pure []) fun t1 =>
      R.bind (if 0 < th.n then th.single 0 else R.pure []) fun t0 =>
        R.pure (t1 ++ " <".toList ++ t0 ++ ['>'])
  | .sectioning pre post idx upper =>
    R.bind (if th.noArgd || th.n == 0 then R.pure [] else th.contents idx) fun t =>
      R.pure (pre ++ (if upper then t.flatMap E.lib.upper else t) ++ post)
  | .texorpdf =>
    let lg := legacyView E info th
    if th.noArgd then R.crash "TypeError"
    else R.bind (R.ofOut (legacyCheck lg th)) fun _ =>
      if lg.off + 1 < th.n then th.single (lg.off + 1) else R.pure []
  | .const s => R.pure s
  | _ => R.crash "unmodelled"

def isCallable : Repl → Bool
  | .none | .lit _ | .fmt .. | .badFmt _ | .today => false
  | _ => true

/-- `apply_simplify_repl` for a string -/
def applyString (E : Env) (info : NodeInfo) (th : Thunks) (raw : Str) (segs : List Seg) : R Str :=
  let pad := ((walkerSpec E info.kind info.name).map sigLen).getD 0
  let padded (ts : List Str) : List Str := ts ++ List.replicate (pad - ts.length) []
  let hasPos := segs.any Seg.isPos
  let fin (r : Option Str) : R Str := R.pure (r.getD raw)
  if info.kind == .env then
    if hasPos then R.bind th.body fun b => fin (fmtTuple segs [b])
    else R.bind (if th.noArgd then R.pure [] else th.each) fun ts =>
      R.bind th.body fun b => fin (fmtDict (numberedFrom 1 (padded ts) ++ [("body".toList, b)]) segs)
  else
    R.bind (if th.noArgd then R.pure [] else th.each) fun ts =>
      if hasPos then fin (fmtTuple segs (padded ts)) else fin (fmtDict (numberedFrom 1 (padded ts)) segs)

/-- truthiness of `spec.simplify_repl` -/
def replTruthy (lib : Lib) : Repl → Bool
  | .none => false
  | .lit s => !s.isEmpty
  | .today => !lib.today.isEmpty
  | _ => true

/-- `macro_node_to_text` / `environment_node_to_text` / `specials_node_to_text` once the text spec is known -/
def applySpec (E : Env) (info : NodeInfo) (th : Thunks) (sp : TSpec) (dflt : R Str) : R Str :=
  if replTruthy E.lib sp.repl then
    match sp.repl with
    | .lit s => R.pure s
    | .today => R.pure E.lib.today
    | .fmt raw segs => applyString E info th raw segs
    | .badFmt _ => R.crash "unmodelled"
    | .unknownCallable => R.crash "unmodelled"
    | r => applyCallable E info th r
  else if !sp.hasDiscard then R.crash "AttributeError"
  else if sp.discard then R.pure []
  else dflt

def isSpecialsNamed (s : Str) : Node → Bool
  | .specials _ _ _ c _ => c == s
  | _ => false

def isMacroNamed (s : Str) : Node → Bool
  | .mac _ _ _ n _ _ => n == s
  | _ => false

def closeCell (cell : Option Str) (row : List Str) : List Str :=
  match cell with
  | some t => row ++ [strip t]
  | none => row

def absentAt (l : List Arg) (k : Nat) : Bool :=
  match l[k]? with
  | some a => isAbsent a
  | none => false

mutual
/-- `node_to_text` -/
def renderNode (E : Env) (c : Sls) : Node → R Str
  | .chars _ _ _ ch => R.pure (if !c.lc && (strip ch).isEmpty then [] else ch)
  | .comment _ _ _ cm post =>
    R.pure (
      if E.opts.keepComments then
        (if c.ac then '%' :: cm ++ (if post.isEmpty then [] else ['\n']) else '%' :: cm ++ post)
      else (if c.ac then [] else post))
  | .group _ _ _ o cl body =>
    R.bind (renderBody E c body) fun t =>
      R.pure (if E.opts.keepBraced && (t.length : Int) ≥ E.opts.minLen then o ++ t ++ cl else t)
  | .mac p e _ name _ args =>
    let l := args.getD []
    let th : Thunks := {
      noArgd := args.isNone, n := l.length, absent := absentAt l,
      each := argsEachO E c args, single := fun k => singleAtO E c k args, contents := fun k => contentsAtO E c k args,
      body := R.pure [], bodyEq := R.pure [], bodyNone := true, matrix := R.pure [] }
    let sp := (lookupFirst name E.db.macros).getD ⟨true, true, .none⟩
    applySpec E ⟨.mac, name, p, e⟩ th sp (argsCatO E c args)
  | .env p e _ name args body =>
    let l := args.getD []
    let th : Thunks := {
      noArgd := args.isNone, n := l.length, absent := absentAt l,
      each := argsEachO E c args, single := fun k => singleAtO E c k args, contents := fun k => contentsAtO E c k args,
      body := renderBody E c body, bodyEq := renderBody E c.enterEq body, bodyNone := body.isNone,
      matrix := matrixBody E c body }
    let sp := (lookupFirst name E.db.envs).getD ⟨true, false, .none⟩
    applySpec E ⟨.env, name, p, e⟩ th sp (renderBody E c body)
  | .specials p e _ ch args =>
    match lookupFirst ch E.db.specials with
    | none => R.pure ch
    | some sp =>
      let l := args.getD []
      let th : Thunks := {
        noArgd := args.isNone, n := l.length, absent := absentAt l,
        each := argsEachO E c args, single := fun k => singleAtO E c k args, contents := fun k => contentsAtO E c k args,
        body := R.pure [], bodyEq := R.pure [], bodyNone := true, matrix := R.pure [] }
      applySpec E ⟨.specials, ch, p, e⟩ th sp (argsCatO E c args)
  | .math p e _ display o cl body =>
    mathText E false display o cl p e (renderBody E c.enterEq body)
/-- `nodelist_to_text(node.nodelist)` (`None` → `''`) -/
def renderBody (E : Env) (c : Sls) : Option (List Node) → R Str
  | none => R.pure []
  | some ns => renderList E c none [] ns
/-- the loop of `nodelist_to_text`: `prev` = previous node, `acc` = text so far -/
def renderList (E : Env) (c : Sls) (prev : Option Node) (acc : Str) : List Node → R Str
  | [] => R.pure acc
  | n :: ns =>
    R.bind (R.ofOut (preOf E c prev n)) fun pre =>
      R.bind (renderNode E c n) fun t =>
        renderList E c (some n) (acc ++ pre ++ t) ns
/-- `_groupnodecontents_to_text` -/
def groupContents (E : Env) (c : Sls) : Arg → R Str
  | .absent => R.pure []
  | .list _ _ ns => renderList E c none [] ns
  | .node (.group _ _ _ _ _ body) => renderBody E c body
  | .node n => renderNode E c n
/-- `nodelist_to_text([x])` -/
def singleArg (E : Env) (c : Sls) : Arg → R Str
  | .absent => R.pure []
  | .list _ _ _ => R.crash "AttributeError"          -- LatexNodeList has no isNodeType
  | .node n => renderNode E c n
def argsCat (E : Env) (c : Sls) : List Arg → R Str
  | [] => R.pure []
  | a :: l => R.bind (groupContents E c a) fun t => R.bind (argsCat E c l) fun r => R.pure (t ++ r)
def argsEach (E : Env) (c : Sls) : List Arg → R (List Str)
  | [] => R.pure []
  | a :: l => R.bind (groupContents E c a) fun t => R.bind (argsEach E c l) fun r => R.pure (t :: r)
def singleAt (E : Env) (c : Sls) : Nat → List Arg → R Str
  | _, [] => R.crash "IndexError"
  | 0, a :: _ => singleArg E c a
  | k + 1, _ :: l => singleAt E c k l
def contentsAt (E : Env) (c : Sls) : Nat → List Arg → R Str
  | _, [] => R.crash "IndexError"
  | 0, a :: _ => groupContents E c a
  | k + 1, _ :: l => contentsAt E c k l
def argsCatO (E : Env) (c : Sls) : Option (List Arg) → R Str
  | none => R.pure []
  | some l => argsCat E c l
def argsEachO (E : Env) (c : Sls) : Option (List Arg) → R (List Str)
  | none => R.pure []
  | some l => argsEach E c l
def singleAtO (E : Env) (c : Sls) (k : Nat) : Option (List Arg) → R Str
  | none => R.crash "IndexError"
  | some l => singleAt E c k l
def contentsAtO (E : Env) (c : Sls) (k : Nat) : Option (List Arg) → R Str
  | none => R.crash "IndexError"
  | some l => contentsAt E c k l
def matrixBody (E : Env) (c : Sls) : Option (List Node) → R (List (List Str))
  | none => R.pure [[]]
  | some ns => matrixLoop E c none none [] [] ns
/-- the loop of `fmt_matrix_environment_node`: `cell` = text of the buffered nodes (none: empty buffer) -/
def matrixLoop (E : Env) (c : Sls) (prev : Option Node) (cell : Option Str) (row : List Str) (rows : List (List Str)) :
    List Node → R (List (List Str))
  | [] => R.pure (rows ++ [closeCell cell row])
  | n :: ns =>
    if isSpecialsNamed ['&'] n then matrixLoop E c none none (closeCell cell row) rows ns
    else if isMacroNamed ['\\'] n then matrixLoop E c none none [] (rows ++ [closeCell cell row]) ns
    else
      R.bind (R.ofOut (preOf E c prev n)) fun pre =>
        R.bind (renderNode E c n) fun t =>
          matrixLoop E c (some n) (some (cell.getD [] ++ pre ++ t)) row rows ns
end

/-- `LatexNodes2Text(**opts).nodelist_to_text(nodes)` on a fresh converter object -/
def render (opts : Opts) (db : TextDb) (ctx : Ctx) (lib : Lib) (src : Str) (nodes : List Node) : Out Str :=
  if !db.shapeOk then .crash "unmodelled" else
  match renderList { opts := opts, db := db, ctx := ctx, lib := lib, src := src } (parseSls opts.sls) none [] nodes {} with
  | .ok (t, _) => .ok t
  | .crash k => .crash k

/-- the walker's start state for a context -/
def startFields (ctx : Ctx) : PSFields := { specials := ctx.specials.map (·.1) }

/-- `LatexNodes2Text(latex_context=db, **opts).latex_to_text(s)` with the walker context `ctx` (tolerant parsing) -/
def latexToTextWith (opts : Opts) (db : TextDb) (ctx : Ctx) (lib : Lib) (s : Str) : Out Str :=
  match parseTop { tol := true, ctx := ctx, s := s } (startFields ctx) with
  | .ok (.list _ _ ns) _ => render opts db ctx lib s ns
  | .ok .none _ => if !db.shapeOk then .crash "unmodelled" else .ok []
  | .crash k => .crash k
  | _ => .crash "parse"

end Pylx.L2T
