/-
  Pylx.Tok — model of pylatexenc.latexnodes._tokenreader.LatexTokenReader
  (`impl_peek_token` and the readers it dispatches to) and of the reader's
  position-moving methods.
-/
import Pylx.PState
namespace Pylx

inductive TokKind where
  | char | macro | beginEnv | endEnv | comment | braceOpen | braceClose
  | mathInline | mathDisplay | specials
deriving Repr, BEq, DecidableEq, Inhabited

def TokKind.show : TokKind → String
  | .char => "char" | .macro => "macro" | .beginEnv => "begin_environment" | .endEnv => "end_environment"
  | .comment => "comment" | .braceOpen => "brace_open" | .braceClose => "brace_close"
  | .mathInline => "mathmode_inline" | .mathDisplay => "mathmode_display" | .specials => "specials"

structure Token where
  kind : TokKind
  arg : Str
  pos : Nat
  posEnd : Nat
  pre : Str := []
  post : Str := []
deriving Repr, BEq, DecidableEq, Inhabited

inductive TokErr where
  | badEnvName | escapeAtEnd | forbiddenChar
deriving Repr, BEq, DecidableEq, Inhabited

/-- outcome of `impl_peek_token` -/
inductive PeekRes where
  | tok (t : Token)
  | eos (finalSpace : Str)
  /-- `LatexWalkerTokenParseError` with its position, placeholder token and recovery position -/
  | err (what : TokErr) (pos : Nat) (placeholder : Token) (recoverAt : Nat)
deriving Repr, BEq, DecidableEq, Inhabited

/-- `impl_peek_space_chars`: the maximal run of `isspace()` characters from `p` -/
def spaceRun (s : Str) (p : Nat) : Str := (s.drop p).takeWhile isPySpace

def countNl (l : Str) : Nat := l.count '\n'

/-- index of the last `'\n'` in `l`, plus one (`rfind + 1`); 0 if none -/
def lastNlEnd : Str → Nat
  | [] => 0
  | c :: l => if lastNlEnd l > 0 then lastNlEnd l + 1 else if c == '\n' then 1 else 0

def firstNl (l : Str) : Nat := l.findIdx (· == '\n')

/-- whitespace after a control word / comment, cut before a paragraph break -/
def postSpaceAt (s : Str) (p : Nat) : Str :=
  let sp := spaceRun s p
  if countNl sp ≥ 2 then sp.take (firstNl sp) else sp

def envWordLen (b : Bool) : Nat := if b then 5 else 3
def envWordStr (b : Bool) : Str := if b then "begin".toList else "end".toList

def isEnvNameChar (c : Char) : Bool :=
  isAsciiAlpha c || ('0' ≤ c && c ≤ '9') ||
  c == '*' || c == '.' || c == '_' || c == ' ' || c == ':' || c == '/' || c == '!' || c == '^' ||
  c == '(' || c == ')' || c == '[' || c == ']' || c == '-'

/-- `rx_environment_name.match(s[p:])`: `\s*\{[…]+\}` → `(name, end position)` -/
def readEnvName (s : Str) (p : Nat) : Option (Str × Nat) :=
  let sp := spaceRun s p
  let q := p + sp.length
  match s[q]? with
  | some '{' =>
    let name := (s.drop (q+1)).takeWhile isEnvNameChar
    if name.isEmpty then none else
    match s[q + 1 + name.length]? with
    | some '}' => some (name, q + 1 + name.length + 1)
    | _ => none
  | _ => none

def readEnvironment (ps : PState) (s : Str) (p : Nat) (isBegin : Bool) (pre : Str) : PeekRes :=
  match readEnvName s (p + 1 + envWordLen isBegin) with
  | none =>
    .err .badEnvName p { kind := .char, arg := ps.f.escapeChar :: envWordStr isBegin, pos := p,
                         posEnd := p + (1 + envWordLen isBegin), pre := pre } (p + (1 + envWordLen isBegin))
  | some (name, e) =>
    .tok { kind := if isBegin then .beginEnv else .endEnv, arg := name, pos := p, posEnd := e, pre := pre }

def readMacro (ps : PState) (s : Str) (p : Nat) (pre : Str) : PeekRes :=
  match s[p+1]? with
  | none => .err .escapeAtEnd (p+1) { kind := .char, arg := [], pos := p, posEnd := p + 1, pre := pre } s.length
  | some c =>
    if ps.f.macroAlpha.contains c then
      let rest := (s.drop (p+2)).takeWhile (fun x => ps.f.macroAlpha.contains x)
      let e := p + 2 + rest.length
      let post := postSpaceAt s e
      .tok { kind := .macro, arg := c :: rest, pos := p, posEnd := e + post.length, pre := pre, post := post }
    else
      .tok { kind := .macro, arg := [c], pos := p, posEnd := p + 2, pre := pre }

def readComment (ps : PState) (s : Str) (p : Nat) (pre : Str) : PeekRes :=
  let inner := p + ps.f.commentStart.length
  match findCharFrom s '\n' inner with
  | none => .tok { kind := .comment, arg := slice s inner s.length, pos := p, posEnd := s.length, pre := pre }
  | some nl =>
    let post := postSpaceAt s nl
    .tok { kind := .comment, arg := slice s inner nl, pos := p, posEnd := nl + post.length, pre := pre, post := post }

def mathTok (p : Nat) (pre : Str) (d : Str) (disp : Bool) : Token :=
  { kind := if disp then .mathDisplay else .mathInline, arg := d, pos := p, posEnd := p + d.length, pre := pre }

def readMathGeneral (ps : PState) (s : Str) (p : Nat) (pre : Str) : Option Token :=
  (ps.t.mathAll.find? (fun d => startsWithAt s d.1 p)).map (fun d => mathTok p pre d.1 d.2)

/-- `impl_maybe_read_math_mode_delimiter` -/
def readMath (ps : PState) (s : Str) (p : Nat) (pre : Str) : Option Token :=
  if ps.f.inMath then
    match ps.t.expectClose with
    | some cd => if startsWithAt s cd.1 p then some (mathTok p pre cd.1 cd.2) else readMathGeneral ps s p pre
    | none => readMathGeneral ps s p pre
  else readMathGeneral ps s p pre

def bestLen : Option Str → Nat
  | some b => b.length
  | none => 0

def specialsStep (s : Str) (p : Nat) (best : Option Str) (k : Str) : Option Str :=
  if k.length > bestLen best && startsWithAt s k p then some k else best

/-- `LatexContextDb.test_for_specials`: the longest key that matches, the first among equally long ones -/
def testSpecials (keys : List Str) (s : Str) (p : Nat) : Option Str :=
  keys.foldl (specialsStep s p) none

def charToken (ps : PState) (c : Char) (p : Nat) (pre : Str) : PeekRes :=
  let t : Token := { kind := .char, arg := [c], pos := p, posEnd := p + 1, pre := pre }
  if ps.f.forbidden.contains c then .err .forbiddenChar p t (p + 1) else .tok t

def parSpecials (ps : PState) : Bool := ps.f.hasCtx && ps.f.specials.contains ['\n', '\n']

def peekSpecialsOrChar (ps : PState) (s : Str) (p : Nat) (c : Char) (pre : Str) : PeekRes :=
  match (if ps.f.hasCtx && ps.f.enSpecials then testSpecials ps.f.specials s p else none) with
  | some k => .tok { kind := .specials, arg := k, pos := p, posEnd := p + k.length, pre := pre }
  | none => charToken ps c p pre

def peekGroups (ps : PState) (s : Str) (p : Nat) (c : Char) (pre : Str) : PeekRes :=
  if ps.f.enGroups then
    if ps.t.groupByOpen.any (fun d => d.1 == [c]) then
      .tok { kind := .braceOpen, arg := [c], pos := p, posEnd := p + 1, pre := pre }
    else if ps.t.groupClose.any (fun d => d == [c]) then
      .tok { kind := .braceClose, arg := [c], pos := p, posEnd := p + 1, pre := pre }
    else peekSpecialsOrChar ps s p c pre
  else peekSpecialsOrChar ps s p c pre

def peekComment (ps : PState) (s : Str) (p : Nat) (c : Char) (pre : Str) : PeekRes :=
  if ps.f.enComments && startsWithAt s ps.f.commentStart p && !ps.f.commentStart.isEmpty then
    readComment ps s p pre
  else peekGroups ps s p c pre

def envWord (ps : PState) (s : Str) (p : Nat) : Option Bool :=
  if ps.f.enEnvs then
    if startsWithAt s "begin".toList (p+1) then some true
    else if startsWithAt s "end".toList (p+1) then some false else none
  else none

def notFollowedByAlpha (ps : PState) (s : Str) (q : Nat) : Bool :=
  match s[q]? with
  | none => true
  | some d => !ps.f.macroAlpha.contains d

/-- `\begin` / `\end` not followed by a macro-name character: `some isBegin` -/
def envWordAt (ps : PState) (s : Str) (p : Nat) : Option Bool :=
  match envWord ps s p with
  | some b => if notFollowedByAlpha ps s (p + 1 + envWordLen b) then some b else none
  | none => none

def peekEscape (ps : PState) (s : Str) (p : Nat) (c : Char) (pre : Str) : PeekRes :=
  if c == ps.f.escapeChar then
    match envWordAt ps s p with
    | some b => readEnvironment ps s p b pre
    | none => if ps.f.enMacros then readMacro ps s p pre else peekComment ps s p c pre
  else peekComment ps s p c pre

def peekAtChar (ps : PState) (s : Str) (p : Nat) (c : Char) (pre : Str) : PeekRes :=
  if ps.t.mathStart.contains c && ps.f.enMath then
    match readMath ps s p pre with
    | some t => .tok t
    | none => peekEscape ps s p c pre
  else peekEscape ps s p c pre

/-- paragraph token: whitespace with at least two newlines -/
def peekPar (ps : PState) (s : Str) (pos : Nat) (pre : Str) : PeekRes :=
  let a := pos + firstNl pre
  let b := pos + lastNlEnd pre
  let pre' := pre.take (firstNl pre)
  if parSpecials ps then
    .tok { kind := .specials, arg := ['\n', '\n'], pos := a, posEnd := b, pre := pre' }
  else
    .tok { kind := .char, arg := slice s a b, pos := a, posEnd := b, pre := pre' }

/-- `impl_peek_token(parsing_state)` with the reader at `pos`. -/
def peekImpl (ps : PState) (s : Str) (pos : Nat) : PeekRes :=
  let pre := spaceRun s pos
  if ps.f.enDblNl && countNl pre ≥ 2 then peekPar ps s pos pre
  else
    match s[pos + pre.length]? with
    | none => .eos pre
    | some c => peekAtChar ps s (pos + pre.length) c pre

/-- `peek_token`: in tolerant mode a token error becomes its placeholder token. -/
def peekTok (tolerant : Bool) (ps : PState) (s : Str) (pos : Nat) : PeekRes :=
  match peekImpl ps s pos with
  | .err w p t r => if tolerant then .tok t else .err w p t r
  | r => r

/-! ### reader position moves -/

def moveToToken (t : Token) (rewindPre : Bool) : Nat := if rewindPre then t.pos - t.pre.length else t.pos
def movePastToken (t : Token) (ffPost : Bool) : Nat := if ffPost then t.posEnd else t.posEnd - t.post.length

/-! ### dumps -/

def showTok (t : Token) : String :=
  s!"({t.kind.show} {showStr t.arg} {t.pos} {t.posEnd} {showStr t.pre} {showStr t.post})"

def TokErr.show : TokErr → String
  | .badEnvName => "bad-env-name" | .escapeAtEnd => "escape-at-end" | .forbiddenChar => "forbidden-char"

def showPeek : PeekRes → String
  | .tok t => showTok t
  | .eos f => s!"(EOS {showStr f})"
  | .err w p t r => s!"(ERR {w.show} {p} {showTok t} {r})"

end Pylx
