/-
  Pylx.C08Drv — the round trip of property C08 through the two models: the encoder with the built-in `defaults`
  rules (`EncB.builtinCfg`) followed by `LatexNodes2Text(strict_latex_spaces=…).latex_to_text` (`L2T.latexToText`),
  with the NFC composition oracle fixed to the generated table `Gen.c08Nfc`.

  Driver operation  `C08 <prot> <sls> <NFC input>`  →  `<chunks as for ENC> | ok "<text>"` (or `| CRASH <class>`),
  only the first part when the encoder raises.  `<prot>` as for `ENC`, `<sls>` as for `L2T` (`B0` default, `B1` strict).
-/
import Pylx.EncBuiltin
import Pylx.L2TDrv
import Pylx.Gen.C08Alphabet
namespace Pylx.C08
open Pylx Pylx.EncB Pylx.L2T

/-- `unicodedata.normalize('NFC', c + d)` as far as the accent macros of latex2text need it (generated table,
    the two characters unchanged elsewhere) -/
def nfc2 (c d : Char) : Str :=
  match Gen.c08Nfc.find? (fun p => p.1 == c.toNat && p.2.1 == d.toNat) with
  | some p => p.2.2.map Char.ofNat
  | none => [c, d]

/-- library oracles of the renderer model: NFC from the generated table; `str.upper` and today's date are not
    reached by the text of any table replacement (sectioning commands and `\today` do not occur) -/
def lib : Lib := { nfc2 := nfc2, upper := fun c => [c], today := [] }

/-- `UnicodeToLatexEncoder(replacement_latex_protection=pr)` (default rules, policy `keep`) -/
def cfg (pr : Prot) : Cfg := builtinCfg .defaults pr .keep false

/-- `LatexNodes2Text(strict_latex_spaces=pol).latex_to_text(t)` -/
def toText (pol : SlsSpec) (t : Str) : Out Str := latexToText { sls := pol } lib t

/-- encode, then convert back -/
def roundTrip (pr : Prot) (pol : SlsSpec) (s : Str) : Option (Out Str) :=
  (encode (cfg pr) s).map (toText pol)

def handleC08 (fields : List String) : Option String :=
  match fields with
  | ["C08", prot, sls, s] =>
    match decodeProt prot, parseSlsSpec sls, decodeStr s with
    | some pr, some pol, some s =>
      let r := encodeChunks (cfg pr) s
      match r.joined with
      | some t => some (showEncRes r ++ " | " ++ showOut (toText pol t))
      | none => some (showEncRes r)
    | _, _, _ => some "bad-op"
  | _ => none

end Pylx.C08
