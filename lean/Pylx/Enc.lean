/-
  Pylx.Enc — model of `pylatexenc.latexencode`:
  `UnicodeToLatexEncoder.unicode_to_latex` (`_unicode_to_latex_encoder.py`),
  `UnicodeToLatexConversionRule` (`_rule.py`) and `PartialLatexToLatexEncoder`
  (`_partial_latex_encoder.py`).

  The input of the model is the NFC-normalised string (`unicodedata.normalize`
  is trusted).  A conversion rule is abstractly a function
  `Str → Nat → RuleRes` (miss / hit consumed replacement / raise) with an
  optional protection of its own; dictionary rules, regular-expression rules
  over a small combinator language and a fixed family of callables are concrete
  instances used by the driver.  Python exceptions are explicit outcomes.

  Two places of the code are parametrised so that both the code *as it is* and
  the *repaired* code are instances of the same model:
  * `Cfg.asciiLimit` — `_check_do_skip_ascii` tests `ord(c) < 127` (as is) or
    `< 128` (repaired: U+007F is ASCII);
  * `partialRule … (catchErr := false/true)` — the keep-character rule of the
    partial encoder lets the tokenizer's `LatexWalkerTokenParseError` /
    `LatexWalkerEndOfStream` escape (as is) or keeps the single character
    (repaired).
  The driver runs the repaired instance.
-/
import Pylx.Basic
namespace Pylx

/-! ## Outcomes -/

/-- Python exceptions that can leave `unicode_to_latex`. -/
inductive EncExc
  | valueError (c : Char)   -- `_do_unknown_char_fail`
  | tokenParseError         -- `LatexWalkerTokenParseError` escaping from a rule
  | endOfStream             -- `LatexWalkerEndOfStream` escaping from a rule
deriving DecidableEq, Repr

/-- Result of an encoder call: the list of chunks appended with `+=` (their
    concatenation is the returned string when `latex_string_class` is `str`),
    an exception, or non-termination of the `while` loop. -/
inductive EncRes
  | ok (chunks : List Str)
  | raise (e : EncExc)
  | diverge
deriving DecidableEq, Repr

def EncRes.cons (t : Str) : EncRes → EncRes
  | .ok l => .ok (t :: l)
  | r => r

/-- sequential composition: the first error (or divergence) wins -/
def EncRes.append : EncRes → EncRes → EncRes
  | .ok l, .ok m => .ok (l ++ m)
  | .ok _, r => r
  | r, _ => r

/-- the returned `str` -/
def EncRes.joined : EncRes → Option Str
  | .ok l => some l.flatten
  | _ => none

/-! ## Protection schemes (`_apply_protection_*`) -/

inductive Prot
  | none | braces | bracesAll | bracesAlmostAll | bracesAfterMacro
  | wrap (pre post : Str)      -- callable protection `lambda r: pre + r + post`
deriving DecidableEq, Repr

/-- `repl[repl.rfind(c)+1:]` when `c` occurs in `repl` -/
def afterLast (c : Char) : Str → Option Str
  | [] => none
  | x :: xs =>
    match afterLast c xs with
    | some t => some t
    | none => if x == c then some xs else none

/-- `k = repl.rfind('\\'); k >= 0 and repl[k+1:].isalpha()` -/
def danglingMacro (isAlpha : Char → Bool) (repl : Str) : Bool :=
  match afterLast '\\' repl with
  | some t => !t.isEmpty && t.all isAlpha
  | none => false

def protect (isAlpha : Char → Bool) : Prot → Str → Str
  | .none, r => r
  | .braces, r => if danglingMacro isAlpha r then '{' :: r ++ ['}'] else r
  | .bracesAll, r => '{' :: r ++ ['}']
  | .bracesAlmostAll, r =>
    match r with
    | '\\' :: _ => '{' :: r ++ ['}']
    | _ => r
  | .bracesAfterMacro, r => if danglingMacro isAlpha r then r ++ ['{', '}'] else r
  | .wrap a b, r => a ++ r ++ b

/-! ## Unknown-character policies (`_do_unknown_char_*`) -/

inductive Policy
  | keep | replace | ignore | fail | unihex
  | wrap (pre post : Str)      -- callable policy `lambda ch: pre + ch + post`
deriving DecidableEq, Repr

/-- `('%X' % n).zfill(4)` -/
def hexUpper4 (n : Nat) : Str :=
  let d := (Nat.toDigits 16 n).map Char.toUpper
  List.replicate (4 - d.length) '0' ++ d

/-! ## Rules and configuration -/

inductive RuleRes
  | miss
  | hit (consumed : Nat) (repl : Str)
  | raise (e : EncExc)
deriving DecidableEq, Repr

structure Rule where
  app : Str → Nat → RuleRes
  prot : Option Prot := none

structure Cfg where
  rules : List Rule
  prot : Prot := .braces
  policy : Policy := .keep
  nonAsciiOnly : Bool := false
  /-- `str.isalpha` on one character (trusted; the driver gets it as a table) -/
  isAlpha : Char → Bool := isAsciiAlpha
  /-- `_check_do_skip_ascii`: `ord(c) < asciiLimit`; 127 in the code as it is, 128 repaired -/
  asciiLimit : Nat := 128

/-! ## One iteration of the `while p.pos < len(s)` loop -/

inductive StepRes
  | emit (chunk : Str) (adv : Nat)
  | raise (e : EncExc)
deriving DecidableEq, Repr

inductive Found
  | none
  | hit (r : Rule) (n : Nat) (t : Str)
  | raise (e : EncExc)

/-- `for compiledrule in self._compiled_rules: if compiledrule(s, p): break` -/
def firstRule (s : Str) (p : Nat) : List Rule → Found
  | [] => .none
  | r :: rs =>
    match r.app s p with
    | .miss => firstRule s p rs
    | .hit n t => .hit r n t
    | .raise e => .raise e

/-- `(o >= 32 and o <= 127) or ch in "\n\r\t"` -/
def isCopyChar (c : Char) : Bool :=
  (32 ≤ c.toNat && c.toNat ≤ 127) || c == '\n' || c == '\r' || c == '\t'

def unknownChar : Policy → Char → StepRes
  | .keep, c => .emit [c] 1
  | .replace, _ => .emit "{\\bfseries ?}".toList 1
  | .ignore, _ => .emit [] 1
  | .fail, c => .raise (.valueError c)
  | .unihex, c => .emit ("\\ensuremath{\\langle}\\texttt{U+".toList ++ hexUpper4 c.toNat
                        ++ "}\\ensuremath{\\rangle}".toList) 1
  | .wrap a b, c => .emit (a ++ [c] ++ b) 1

def skipsAscii (cfg : Cfg) (c : Char) : Bool := cfg.nonAsciiOnly && decide (c.toNat < cfg.asciiLimit)

/-- what happens at character `c` = `s[p]` -/
def stepAt (cfg : Cfg) (s : Str) (p : Nat) (c : Char) : StepRes :=
  if skipsAscii cfg c then .emit [c] 1
  else
    match firstRule s p cfg.rules with
    | .hit r n t => .emit (protect cfg.isAlpha (r.prot.getD cfg.prot) t) n
    | .raise e => .raise e
    | .none => if isCopyChar c then .emit [c] 1 else unknownChar cfg.policy c

def encStep (cfg : Cfg) (s : Str) (p : Nat) : StepRes :=
  match s[p]? with
  | some c => stepAt cfg s p c
  | none => .emit [] 0        -- never evaluated by `loop`

/-- the `while` loop; `fuel` bounds the number of iterations -/
def loop (cfg : Cfg) (s : Str) : Nat → Nat → EncRes
  | 0, p => if p < s.length then .diverge else .ok []
  | f+1, p =>
    if p < s.length then
      match encStep cfg s p with
      | .emit t n => (loop cfg s f (p + n)).cons t
      | .raise e => .raise e
    else .ok []

/-- `UnicodeToLatexEncoder(**cfg).unicode_to_latex(s)` for NFC-normalised `s`,
    as the list of appended chunks.  Fuel `|s|` suffices exactly when no reached
    encStep consumes zero characters (then the Python loop does not terminate either). -/
def encodeChunks (cfg : Cfg) (s : Str) : EncRes := loop cfg s s.length 0

def encode (cfg : Cfg) (s : Str) : Option Str := (encodeChunks cfg s).joined

/-! ## Concrete rules -/

/-- `RULE_DICT` -/
def dictRule (d : List (Nat × Str)) (prot : Option Prot := none) : Rule :=
  { app := fun s p =>
      match s[p]? with
      | some c => match d.lookup c.toNat with
        | some t => .hit 1 t
        | none => .miss
      | none => .miss
    prot := prot }

/-- regular expressions: a sequence of atoms, each optionally under `+` -/
inductive Atom
  | lit (t : Str)                              -- `(?:literal)`
  | cls (neg : Bool) (ranges : List (Nat × Nat))   -- `[a-bc-d]` / `[^…]`
deriving Repr

structure Item where
  atom : Atom
  plus : Bool
deriving Repr

abbrev Rx := List Item

def Atom.matchLen : Atom → Str → Option Nat
  | .lit t, s => if t.isPrefixOf s then some t.length else none
  | .cls neg rs, c :: _ =>
    if (rs.any (fun r => r.1 ≤ c.toNat && c.toNat ≤ r.2)) != neg then some 1 else none
  | .cls _ _, [] => none

/-- cumulative lengths of 1, 2, … greedy repetitions of `a`, longest first -/
def repEnds (a : Atom) : Nat → Str → Nat → List Nat → List Nat
  | 0, _, _, out => out
  | f+1, s, acc, out =>
    match a.matchLen s with
    | some n => if n = 0 then out else repEnds a f (s.drop n) (acc + n) ((acc + n) :: out)
    | none => out

/-- length of the match `re` finds at the head of `s` (greedy, backtracking) -/
def rxMatchLen : Rx → Str → Option Nat
  | [], _ => some 0
  | it :: rest, s =>
    if it.plus then
      (repEnds it.atom s.length s 0 []).findSome? (fun n => (rxMatchLen rest (s.drop n)).map (· + n))
    else
      match it.atom.matchLen s with
      | some n => (rxMatchLen rest (s.drop n)).map (· + n)
      | none => none

/-- replacement templates: literal text and `\g<0>` -/
inductive Piece
  | text (t : Str)
  | whole
deriving Repr

def expandRepl (ps : List Piece) (m : Str) : Str :=
  ps.flatMap (fun | .text t => t | .whole => m)

def regexApp (s : Str) (p : Nat) : List (Rx × List Piece) → RuleRes
  | [] => .miss
  | (rx, repl) :: es =>
    match rxMatchLen rx (s.drop p) with
    | some n => .hit n (expandRepl repl ((s.drop p).take n))
    | none => regexApp s p es

/-- `RULE_REGEX` -/
def regexRule (es : List (Rx × List Piece)) (prot : Option Prot := none) : Rule :=
  { app := fun s p => regexApp s p es, prot := prot }

/-- zero-width assertions at the start of a pattern that look at what precedes the current position: `^` (the
    pattern object is matched with `regex.match(s, pos)`, so `^` holds at position 0 only) and a one-character
    look-behind `(?<=[…])` / `(?<![…])` -/
inductive Guard
  | none
  | start
  | behind (neg : Bool) (ranges : List (Nat × Nat))
deriving Repr

def Guard.ok : Guard → Str → Nat → Bool
  | .none, _, _ => true
  | .start, _, p => p == 0
  | .behind neg rs, s, p =>
    match p with
    | 0 => neg
    | q + 1 =>
      match s[q]? with
      | some c => (rs.any (fun r => r.1 ≤ c.toNat && c.toNat ≤ r.2)) != neg
      | Option.none => neg

def regexAppG (s : Str) (p : Nat) : List (Guard × Rx × List Piece) → RuleRes
  | [] => .miss
  | (g, rx, repl) :: es =>
    if g.ok s p then
      match rxMatchLen rx (s.drop p) with
      | some n => .hit n (expandRepl repl ((s.drop p).take n))
      | Option.none => regexAppG s p es
    else regexAppG s p es

def regexRuleG (es : List (Guard × Rx × List Piece)) (prot : Option Prot := none) : Rule :=
  { app := fun s p => regexAppG s p es, prot := prot }

/-- the family of `RULE_CALLABLE` rules that harness and model both implement -/
inductive Fam
  | upperRun (k : Nat)                 -- `≥ k` ASCII capitals → `(len, '{' + run + '}')`
  | startsWith (lit repl : Str)        -- `s.startswith(lit, pos)` → `(len(lit), repl)`
  | range (lo hi : Nat)                -- `lo <= ord(s[pos]) <= hi` → `(1, '\\symbol{' + str(ord) + '}')`
  | pairWith (lo hi : Nat)             -- next char in range → `(2, '\\acc{' + s[pos] + '}')`
  | overrun (c : Char) (n : Nat) (repl : Str)   -- `s[pos] == c` → `(n, repl)` whatever remains
deriving Repr

def isAsciiUpper (c : Char) : Bool := 'A' ≤ c && c ≤ 'Z'

def famApp : Fam → Str → Nat → RuleRes
  | .upperRun k, s, p =>
    let run := (s.drop p).takeWhile isAsciiUpper
    if k ≤ run.length && 0 < run.length then .hit run.length ('{' :: run ++ ['}']) else .miss
  | .startsWith l r, s, p => if startsWithAt s l p then .hit l.length r else .miss
  | .range lo hi, s, p =>
    match s[p]? with
    | some c => if lo ≤ c.toNat && c.toNat ≤ hi
                then .hit 1 ("\\symbol{".toList ++ (toString c.toNat).toList ++ ['}']) else .miss
    | none => .miss
  | .pairWith lo hi, s, p =>
    match s[p]?, s[p+1]? with
    | some c, some d => if lo ≤ d.toNat && d.toNat ≤ hi
                        then .hit 2 ("\\acc{".toList ++ [c] ++ ['}']) else .miss
    | _, _ => .miss
  | .overrun c n r, s, p => if s[p]? = some c then .hit n r else .miss

def famRule (f : Fam) (prot : Option Prot := none) : Rule := { app := famApp f, prot := prot }

/-! ## PartialLatexToLatexEncoder -/

/-- answer of `LatexWalker(s, tolerant_parsing=False).make_token_reader(pos=p).peek_token(ps)` -/
inductive Peek
  | tok (preSpace : Str) (tokStart tokEnd : Nat)
  | eos          -- LatexWalkerEndOfStream
  | err          -- LatexWalkerTokenParseError
deriving DecidableEq, Repr

/-- `_do_partial_latex_encode_step` (protection `'none'`).  `catchErr = false` is the code
    as it is (the tokenizer's exception escapes), `true` the repaired code (the keep-character
    is kept as it is). -/
def partialRule (keep : Char → Bool) (peek : Str → Nat → Peek) (catchErr : Bool) : Rule :=
  { app := fun s p =>
      match s[p]? with
      | none => .miss
      | some c =>
        if keep c then
          match peek s p with
          | .tok pre a b => .hit (b - p) (pre ++ slice s a b)
          | .eos => if catchErr then .hit 1 [c] else .raise .endOfStream
          | .err => if catchErr then .hit 1 [c] else .raise .tokenParseError
        else .miss
    prot := some .none }

/-- configuration a `PartialLatexToLatexEncoder` passes to its base class -/
def partialCfg (keep : Char → Bool) (peek : Str → Nat → Peek) (catchErr : Bool) (base : Cfg) : Cfg :=
  { base with rules := partialRule keep peek catchErr :: base.rules }

/-! ## Driver operation `ENC`

`ENC <prot> <policy> <non_ascii_only> <alpha> <rules> <partial> <input>`; see
`harness/props/c04.py` for the field syntax. -/

def decodeProt (f : String) : Option Prot :=
  match f.splitOn ":" with
  | ["none"] => some .none
  | ["braces"] => some .braces
  | ["braces-all"] => some .bracesAll
  | ["braces-almost-all"] => some .bracesAlmostAll
  | ["braces-after-macro"] => some .bracesAfterMacro
  | ["wrap", a, b] => match decodeStr a, decodeStr b with
    | some a, some b => some (.wrap a b)
    | _, _ => none
  | _ => none

def decodeOptProt (f : String) : Option (Option Prot) :=
  if f == "-" then some none else (decodeProt f).map some

def decodePolicy (f : String) : Option Policy :=
  match f.splitOn ":" with
  | ["keep"] => some .keep
  | ["replace"] => some .replace
  | ["ignore"] => some .ignore
  | ["fail"] => some .fail
  | ["unihex"] => some .unihex
  | ["wrap", a, b] => match decodeStr a, decodeStr b with
    | some a, some b => some (.wrap a b)
    | _, _ => none
  | _ => none

def allSome {α : Type} : List (Option α) → Option (List α)
  | [] => some []
  | none :: _ => none
  | some a :: r => (allSome r).map (a :: ·)

def splitTokens (sep : String) (l : List String) : List (List String) :=
  l.foldr (fun t acc =>
    if t == sep then [] :: acc else
      match acc with
      | [] => [[t]]
      | g :: gs => (t :: g) :: gs) [[]]

def decodeRange (f : String) : Option (Nat × Nat) :=
  match f.splitOn "-" with
  | [a, b] => match parseHex a, parseHex b with
    | some a, some b => some (a, b)
    | _, _ => none
  | _ => none

def decodeItem (f : String) : Option Item :=
  match f.splitOn ":" with
  | ["l", t] => (decodeStr t).map (fun t => ⟨.lit t, false⟩)
  | ["L", t] => (decodeStr t).map (fun t => ⟨.lit t, true⟩)
  | [k, neg, rs] =>
    if k == "c" || k == "C" then
      (allSome ((if rs.isEmpty then [] else rs.splitOn ".").map decodeRange)).map
        (fun rs => ⟨.cls (neg == "1") rs, k == "C"⟩)
    else none
  | _ => none

def decodePiece (f : String) : Option Piece :=
  match f.splitOn ":" with
  | ["m"] => some .whole
  | ["t", t] => (decodeStr t).map .text
  | _ => none

def decodeEntry (toks : List String) : Option (Rx × List Piece) :=
  match splitTokens ">" toks with
  | [items, pieces] =>
    match allSome (items.map decodeItem), allSome (pieces.map decodePiece) with
    | some i, some p => some (i, p)
    | _, _ => none
  | _ => none

def decodeGuard (f : String) : Option Guard :=
  match f.splitOn ":" with
  | ["g", "-"] => some .none
  | ["g", "A"] => some .start
  | ["g", "P", neg, rs] =>
    (allSome ((if rs.isEmpty then [] else rs.splitOn ".").map decodeRange)).map (fun rs => .behind (neg == "1") rs)
  | _ => Option.none

def decodeEntryG (toks : List String) : Option (Guard × Rx × List Piece) :=
  match toks with
  | g :: rest =>
    match decodeGuard g, decodeEntry rest with
    | some g, some (i, p) => some (g, i, p)
    | _, _ => Option.none
  | [] => Option.none

def decodeDictEntry (f : String) : Option (Nat × Str) :=
  match f.splitOn "=" with
  | [k, v] => match parseHex k, decodeStr v with
    | some k, some v => some (k, v)
    | _, _ => none
  | _ => none

def decodeFam (toks : List String) : Option Fam :=
  match toks with
  | ["upperRun", k] => k.toNat?.map .upperRun
  | ["startsWith", l, r] => match decodeStr l, decodeStr r with
    | some l, some r => some (.startsWith l r)
    | _, _ => none
  | ["range", lo, hi] => match parseHex lo, parseHex hi with
    | some lo, some hi => some (.range lo hi)
    | _, _ => none
  | ["pairWith", lo, hi] => match parseHex lo, parseHex hi with
    | some lo, some hi => some (.pairWith lo hi)
    | _, _ => none
  | ["overrun", c, n, r] => match parseHex c, n.toNat?, decodeStr r with
    | some c, some n, some r => some (.overrun (Char.ofNat c) n r)
    | _, _, _ => none
  | _ => none

def decodeRule (f : String) : Option Rule :=
  match f.splitOn " " with
  | "D" :: pr :: es =>
    match decodeOptProt pr, allSome (es.map decodeDictEntry) with
    | some pr, some d => some (dictRule d pr)
    | _, _ => none
  | "R" :: pr :: toks =>
    match decodeOptProt pr, allSome (((splitTokens "/" toks).filter (fun g => !g.isEmpty)).map decodeEntry) with
    | some pr, some es => some (regexRule es pr)
    | _, _ => none
  | "RG" :: pr :: toks =>
    match decodeOptProt pr, allSome (((splitTokens "/" toks).filter (fun g => !g.isEmpty)).map decodeEntryG) with
    | some pr, some es => some (regexRuleG es pr)
    | _, _ => none
  | "F" :: pr :: toks =>
    match decodeOptProt pr, decodeFam toks with
    | some pr, some fam => some (famRule fam pr)
    | _, _ => none
  | _ => none

def decodeRules (f : String) : Option (List Rule) :=
  if f.isEmpty then some [] else allSome ((f.splitOn ";").map decodeRule)

def decodePeekEntry (f : String) : Option (Nat × Peek) :=
  match f.splitOn "=" with
  | [p, v] =>
    match p.toNat?, v.splitOn ":" with
    | some p, ["E"] => some (p, .eos)
    | some p, ["X"] => some (p, .err)
    | some p, ["T", pre, a, b] =>
      match decodeStr pre, a.toNat?, b.toNat? with
      | some pre, some a, some b => some (p, .tok pre a b)
      | _, _, _ => none
    | _, _ => none
  | _ => none

/-- `-` (base encoder) or `<keep chars> <pos>=<answer> …` -/
def decodePartial (f : String) : Option (Option (Str × List (Nat × Peek))) :=
  if f == "-" then some none else
  match f.splitOn " " with
  | k :: ans =>
    match decodeStr k, allSome (ans.map decodePeekEntry) with
    | some k, some ans => some (some (k, ans))
    | _, _ => none
  | [] => none

def showExc : EncExc → String
  | .valueError c => "raise ValueError " ++ toHex c.toNat
  | .tokenParseError => "raise LatexWalkerTokenParseError"
  | .endOfStream => "raise LatexWalkerEndOfStream"

def showEncRes : EncRes → String
  | .ok l => " ".intercalate ("ok" :: l.map showStr)
  | .raise e => showExc e
  | .diverge => "diverge"

def handleEnc (fields : List String) : Option String :=
  match fields with
  | ["ENC", prot, pol, nao, alpha, rules, part, s] =>
    match decodeProt prot, decodePolicy pol, decodeStr alpha, decodeRules rules, decodePartial part, decodeStr s with
    | some prot, some pol, some alpha, some rules, some part, some s =>
      let base : Cfg := { rules := rules, prot := prot, policy := pol, nonAsciiOnly := parseBool nao,
                          isAlpha := fun c => isAsciiAlpha c || alpha.contains c, asciiLimit := 128 }
      let cfg := match part with
        | none => base
        | some (keep, ans) =>
          partialCfg (fun c => keep.contains c) (fun _ p => (ans.lookup p).getD .err) true base
      some (showEncRes (encodeChunks cfg s))
    | _, _, _, _, _, _ => some "bad-op"
  | _ => none

end Pylx
