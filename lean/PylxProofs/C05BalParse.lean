/-
  C05BalParse — acceptance implies balance.  A contract over the strict parser model: whenever a task that starts
  at `pos` succeeds and leaves the reader at `pos'`, the counts of `C05BalScan` at `pos` and `pos'` agree (up to the
  closing token a general-nodes parser consumes).  Consequence (`accepted_balanced`): a source without calls of
  verbatim constructs that the strict parser accepts has as many `{` as `}`, an even number of `$`, as many `\(` as
  `\)`, `\[` as `\]`, `\begin` as `\end`.
-/
import PylxProofs.C05BalTok
import PylxProofs.C05
namespace Pylx
namespace C05Bal
open Doc

/-! ### the parsing states of a strict run started by the walker -/

def stdInline : Pairs := [(['$'], ['$']), (['\\', '('], ['\\', ')'])]
def stdDisplay : Pairs := [(['$', '$'], ['$', '$']), (['\\', '['], ['\\', ']'])]

/-- everything but `enable_environments`, which the expression parser switches off for its own read -/
structure FInv0 (f : PSFields) : Prop where
  inl : f.inlineDelims = stdInline
  disp : f.displayDelims = stdDisplay
  esc : f.escapeChar = '\\'
  em : f.enMacros = true
  cs : f.commentStart = ['%']
  ec : f.enComments = true
  eg : f.enGroups = true
  emath : f.enMath = true
  fb : f.forbidden = []
  alpha : f.macroAlpha = C02.alphaStr
  groups : ∀ pr ∈ f.groupDelims, PairOk pr
  brace : (['{'], ['}']) ∈ f.groupDelims
  keys : ∀ key ∈ f.specials, ∀ c ∈ key, plainCh c = true

structure FInv (f : PSFields) : Prop extends FInv0 f where
  ee : f.enEnvs = true

theorem FInv0.normalize {f : PSFields} (h : FInv0 f) : FInv0 f.normalize := by
  unfold PSFields.normalize
  split
  · exact h
  · exact ⟨h.inl, h.disp, h.esc, h.em, h.cs, h.ec, h.eg, h.emath, h.fb, h.alpha, h.groups, h.brace, h.keys⟩

theorem normalize_enEnvs (f : PSFields) : f.normalize.enEnvs = f.enEnvs := by
  unfold PSFields.normalize; split <;> rfl

theorem FInv.normalize {f : PSFields} (h : FInv f) : FInv f.normalize :=
  { toFInv0 := h.toFInv0.normalize, ee := by rw [normalize_enEnvs]; exact h.ee }

theorem FInv.applyDelta {f : PSFields} (h : FInv f) (d : Delta) : FInv (applyDelta f d) := by
  cases d
  · exact h
  · exact FInv.normalize (f := { f with inMath := true, mathDelim := none })
      ⟨⟨h.inl, h.disp, h.esc, h.em, h.cs, h.ec, h.eg, h.emath, h.fb, h.alpha, h.groups, h.brace, h.keys⟩, h.ee⟩
  · exact FInv.normalize (f := { f with inMath := false, mathDelim := none })
      ⟨⟨h.inl, h.disp, h.esc, h.em, h.cs, h.ec, h.eg, h.emath, h.fb, h.alpha, h.groups, h.brace, h.keys⟩, h.ee⟩

theorem FInv.mathFields {f : PSFields} (h : FInv f) (d : Str) : FInv (mathFields f d) :=
  FInv.normalize (f := { f with inMath := true, mathDelim := some d })
    ⟨⟨h.inl, h.disp, h.esc, h.em, h.cs, h.ec, h.eg, h.emath, h.fb, h.alpha, h.groups, h.brace, h.keys⟩, h.ee⟩

theorem FInv.noEnvs {f : PSFields} (h : FInv f) : FInv0 ({ f with enEnvs := false } : PSFields).normalize :=
  FInv0.normalize (f := { f with enEnvs := false })
    ⟨h.inl, h.disp, h.esc, h.em, h.cs, h.ec, h.eg, h.emath, h.fb, h.alpha, h.groups, h.brace, h.keys⟩

def GDOk : GroupDelims → Prop
  | .auto _ => True
  | .pair o c => PairOk (o, c)

theorem FInv.groupState {f g : PSFields} (h : FInv f) {d : GroupDelims} (hd : GDOk d) (hg : groupState d f = some g) :
    FInv g := by
  unfold Pylx.groupState at hg
  cases d with
  | auto o =>
    dsimp only at hg
    split at hg
    · cases hg; exact h
    · cases hg
  | pair o c =>
    dsimp only at hg
    split at hg
    · cases hg; exact h
    · cases hg
      refine ⟨⟨h.inl, h.disp, h.esc, h.em, h.cs, h.ec, h.eg, h.emath, h.fb, h.alpha, ?_, ?_, h.keys⟩, h.ee⟩
      · intro pr hpr
        rcases List.mem_append.mp hpr with h1 | h1
        · exact h.groups pr h1
        · have : pr = (o, c) := by simpa using h1
          rw [this]; exact hd
      · exact List.mem_append_left _ h.brace

/-! ### the tokenizer facts of such a state -/

theorem mathTables_std {f : PSFields} (h1 : f.inlineDelims = stdInline) (h2 : f.displayDelims = stdDisplay) :
    mathTables f = (C02.stdMathStart, C02.stdMathAll, C02.stdMathByOpen) := by
  rw [mathTables_congr f {} h1 h2]
  decide

theorem stdByOpen_six : ∀ d ∈ C02.stdMathByOpen, d.2.1 ∈ sixD := by decide

theorem tokF_of {f : PSFields} (h : FInv0 f) : TokF (mkPS f) := by
  have hn := h.normalize
  have hmt := mathTables_std hn.inl hn.disp
  have hps : mkPS f = { f := f.normalize, t := computeTables f.normalize } := rfl
  rw [hps]
  refine { esc := hn.esc, em := hn.em, cs := hn.cs, ec := hn.ec, eg := hn.eg, emath := hn.emath, fb := hn.fb,
           alpha := hn.alpha, ms := ?_, all := ?_, expect := ?_, gopen := ?_, gclose := ?_, gbrace := ?_, gclose2 := ?_,
           keys := hn.keys }
  · show (mathTables f.normalize).1 = _; rw [hmt]
  · show (mathTables f.normalize).2.1 = _; rw [hmt]
  · intro cd hcd
    have hcd : expectCloseOf f.normalize (mathTables f.normalize).2.2 = some cd := hcd
    rw [hmt] at hcd
    unfold expectCloseOf at hcd
    split at hcd
    · cases hcd
    · split at hcd
      · cases hcd
      · exact stdByOpen_six _ (lookupLast_mem _ _ _ hcd)
  · intro d hd; exact hn.groups d hd
  · intro c hc
    have hc : c ∈ f.normalize.groupDelims.map (·.2) := hc
    obtain ⟨d, hd, rfl⟩ := List.mem_map.mp hc
    exact ⟨d, hn.groups d hd, rfl⟩
  · exact hn.brace
  · show ['}'] ∈ f.normalize.groupDelims.map (·.2)
    exact List.mem_map.mpr ⟨_, hn.brace, rfl⟩

theorem mkPS_enEnvs (f : PSFields) : (mkPS f).f.enEnvs = f.enEnvs := normalize_enEnvs f

theorem delimsOk_of {f : PSFields} (h : FInv0 f) : DelimsOk f := by
  unfold DelimsOk
  rw [h.inl, h.disp]
  decide

/-! ### the count of verbatim constructs is never negative -/

theorem verbW_nonneg (ctx : Ctx) (r : Str) : 0 ≤ verbW ctx r := by
  unfold verbW
  split
  · exact Int.le_refl _
  · split
    · split
      · split
        · split <;> decide
        · decide
      · split
        · decide
        · split <;> decide
    · split
      · decide
      · split <;> decide

theorem cnt_verb_nonneg (ctx : Ctx) : ∀ (r : Str) (m : Mode), 0 ≤ cnt ctx .verb m r := by
  intro r
  induction r with
  | nil => intro m; cases m <;> exact Int.le_refl _
  | cons c r ih =>
    intro m
    cases m with
    | n =>
      rw [cnt]
      split
      · have := verbW_nonneg ctx r
        have := ih .esc
        rw [escW_verb]; omega
      · split
        · exact ih .com
        · have : plainW .verb c = 0 := rfl
          rw [this, Int.zero_add]; exact ih .n
    | esc => rw [cnt]; exact ih .n
    | com =>
      rw [cnt]
      split
      · exact ih .n
      · exact ih .com

theorem kindW_verb_nonneg (ctx : Ctx) (kind : TokKind) (a : Str) : 0 ≤ kindW ctx .verb kind a := by
  match kind with
  | .macro => show 0 ≤ (if macroBad ctx a then (1 : Int) else 0); split <;> decide
  | .beginEnv => show 0 ≤ (if envBad ctx a then (1 : Int) else 0); split <;> decide
  | .braceOpen =>
    show 0 ≤ (if Sym.verb = Sym.brace ∧ a = ['{'] then (1 : Int) else 0)
    rw [if_neg (fun h => nomatch h.1)]; decide
  | .braceClose =>
    show 0 ≤ (if Sym.verb = Sym.brace ∧ a = ['}'] then (-1 : Int) else 0)
    rw [if_neg (fun h => nomatch h.1)]; decide
  | .char | .endEnv | .comment | .mathInline | .mathDisplay | .specials => exact Int.le_refl _

/-! ### weights that cancel -/

/-- weight of the token a stop condition accepts -/
def stopW (ctx : Ctx) (k : Sym) : StopTok → Int
  | .none => 0
  | .braceClose c => kindW ctx k .braceClose c
  | .mathClose _ c => mathW k c
  | .endEnv n => kindW ctx k .endEnv n

theorem kind_eq_of_beq {a b : TokKind} (h : (a == b) = true) : a = b := by
  cases a <;> cases b <;> first | rfl | cases h

theorem stopW_of_test (ctx : Ctx) (k : Sym) {stop : StopTok} {t : Token} (h : stop.test t = true) :
    kindW ctx k t.kind t.arg = stopW ctx k stop := by
  cases stop with
  | none => cases h
  | braceClose c =>
    simp only [StopTok.test, Bool.and_eq_true, beq_iff_eq] at h
    rw [kind_eq_of_beq h.1, h.2]; rfl
  | mathClose d c =>
    cases d
    · simp only [StopTok.test, Bool.and_eq_true, beq_iff_eq, Bool.false_eq_true, if_false] at h
      rw [kind_eq_of_beq h.1, h.2]; rfl
    · simp only [StopTok.test, Bool.and_eq_true, beq_iff_eq, if_true] at h
      rw [kind_eq_of_beq h.1, h.2]; rfl
  | endEnv n =>
    simp only [StopTok.test, Bool.and_eq_true, beq_iff_eq] at h
    rw [kind_eq_of_beq h.1, h.2]; rfl

theorem stop_isSome_of_test {stop : StopTok} {t : Token} (h : stop.test t = true) : stop.isSome = true := by
  cases stop <;> first | rfl | cases h

/-- opening and closing math delimiter cancel (the `$` count modulo 2) -/
theorem math_pair (k : Sym) {o : Str} {cd : Str × Bool} (h : lookupLast o C02.stdMathByOpen = some cd) :
    Rel k (mathW k o + mathW k cd.1) 0 := by
  have hm := lookupLast_mem _ _ _ h
  simp only [C02.stdMathByOpen, List.mem_cons, List.not_mem_nil, or_false, Prod.mk.injEq] at hm
  rcases hm with ⟨h1, h2⟩ | ⟨h1, h2⟩ | ⟨h1, h2⟩ | ⟨h1, h2⟩ <;> subst h1 <;> subst h2
  · cases k <;> first | exact Rel.refl _ _ | (show (2 : Int) ∣ _; exact ⟨1, by simp [mathW]⟩)
  · cases k <;> first | exact Rel.refl _ _ | exact Rel.of_eq (by simp [mathW])
  · cases k <;> first | exact Rel.refl _ _ | (show (2 : Int) ∣ _; exact ⟨2, by simp [mathW]⟩)
  · cases k <;> first | exact Rel.refl _ _ | exact Rel.of_eq (by simp [mathW])

theorem kindW_macro_zero (ctx : Ctx) (k : Sym) {a : Str} (h : macroBad ctx a = false) : kindW ctx k .macro a = 0 := by
  cases k <;> simp [kindW, h]

theorem kindW_env_pair (ctx : Ctx) (k : Sym) {a : Str} (h : envBad ctx a = false) :
    kindW ctx k .beginEnv a + kindW ctx k .endEnv a = 0 := by
  cases k <;> simp [kindW, h]

/-! ### the contract -/

section contract
variable (ctx : Ctx) (s : Str)

/-- the closing token a parser consumes beyond its balanced content -/
def parserW (k : Sym) : Parser → Int
  | .general stop _ _ => stopW ctx k stop
  | .envBody n => kindW ctx k .endEnv n
  | .envCall t _ _ => kindW ctx k .endEnv t.arg
  | _ => 0

def ChildOk : ChildPS → Prop
  | .same => True
  | .group _ c o => FInv c ∧ FInv o

/-- what a parser's own parameters must satisfy -/
def PInv : Parser → Prop
  | .general _ req child => req = true ∧ ChildOk child
  | .group d _ _ => GDOk d
  | .macroCall _ a => argsOk a = true
  | .specialsCall _ a => argsOk a = true
  | .envCall _ a _ => argsOk a = true
  | .arguments a => argsOk a = true
  | .verbatim _ => False
  | _ => True

/-- result `(res, pos')` of a task started at `pos`: no verbatim construct from `pos'` on, counts agree up to `w` -/
def PosOk (w : Sym → Int) (pos pos' : Nat) : Prop :=
  C ctx .verb s pos' = 0 ∧ ∀ k, Rel k (C ctx k s pos) (w k + C ctx k s pos')

def Post (p : Parser) (pos : Nat) : Ret → Prop
  | .ok _ pos' => PosOk ctx s (fun k => parserW ctx k p) pos pos'
  | _ => True

def ExprPost (pos : Nat) : Ret → Prop
  | .ok _ pos' => PosOk ctx s (fun _ => 0) pos pos'
  | _ => True

def EndOk (stop : StopTok) (e : LoopEnd) : Prop :=
  match e.stopTok with
  | some t => stop.test t = true ∧ ∀ k, C ctx k s e.pos = kindW ctx k t.kind t.arg + C ctx k s t.posEnd
  | none => ∀ k, C ctx k s e.pos = 0

def LoopPost (stop : StopTok) (pos : Nat) : Ret → Prop
  | .loopEnd e => e.err = none → PosOk ctx s (fun _ => 0) pos e.pos ∧ EndOk ctx s stop e
  | _ => True

def Good : Task → Ret → Prop
  | .pc p f pos, r => FInv f → PInv p → C ctx .verb s pos = 0 → Post ctx s p pos r
  | .loop f stop child st, r => FInv f → ChildOk child → C ctx .verb s st.pos = 0 → LoopPost ctx s stop st.pos r
  | .expr _ _ f pos, r => FInv f → C ctx .verb s pos = 0 → ExprPost ctx s pos r

end contract

section basics
variable {ctx : Ctx} {s : Str}

theorem PosOk.refl {p : Nat} (h : C ctx .verb s p = 0) : PosOk ctx s (fun _ => 0) p p :=
  ⟨h, fun k => by rw [Int.zero_add]; exact Rel.refl _ _⟩

/-- prepend a step `a → b` with weight `u` -/
theorem PosOk.shift {w : Sym → Int} {a b c : Nat} {u : Sym → Int} (h1 : ∀ k, Rel k (C ctx k s a) (u k + C ctx k s b))
    (h2 : PosOk ctx s w b c) : PosOk ctx s (fun k => u k + w k) a c := by
  refine ⟨h2.1, fun k => ?_⟩
  have := Rel.trans (h1 k) (Rel.add_left (u k) (h2.2 k))
  rw [Int.add_assoc]; exact this

theorem PosOk.congr {w w' : Sym → Int} {a b : Nat} (h : PosOk ctx s w a b) (hw : ∀ k, Rel k (w k) (w' k)) :
    PosOk ctx s w' a b :=
  ⟨h.1, fun k => Rel.trans (h.2 k) (Rel.add (hw k) (Rel.refl _ _))⟩

theorem PosOk.shift0 {w : Sym → Int} {a b c : Nat} (h1 : ∀ k, C ctx k s a = C ctx k s b)
    (h2 : PosOk ctx s w b c) : PosOk ctx s w a c :=
  ⟨h2.1, fun k => by rw [h1 k]; exact h2.2 k⟩

theorem verb_split {p q : Nat} {w : Int} (h0 : C ctx .verb s p = 0) (h : C ctx .verb s p = w + C ctx .verb s q)
    (hw : 0 ≤ w) : w = 0 ∧ C ctx .verb s q = 0 := by
  have : 0 ≤ C ctx .verb s q := cnt_verb_nonneg ctx _ _
  omega

theorem ChildOk.get {child : ChildPS} (hc : ChildOk child) {f : PSFields} (hf : FInv f) (t : Token) :
    FInv (child.get f t) := by
  cases child with
  | same => exact hf
  | group o c outer =>
    unfold ChildPS.get
    dsimp only
    split
    · exact hc.1
    · exact hc.2

/-- the facts about a token read in strict mode under a state of the run -/
structure TokFacts (ctx : Ctx) (s : Str) (p0 : Nat) (t : Token) : Prop where
  skip : ∀ k, C ctx k s p0 = C ctx k s t.pos
  weight : ∀ k, C ctx k s t.pos = kindW ctx k t.kind t.arg + C ctx k s t.posEnd
  pos_eq : t.pos = p0 + t.pre.length

theorem tokFacts_of_peek {f : PSFields} (hf : FInv f) {p : Nat} {t : Token}
    (h : peekTok false (mkPS f) s p = .tok t) : TokFacts ctx s p t := by
  rw [peekTok_false] at h
  have hs := C11_span (mkPS f) (tablesOk_of_fields f (delimsOk_of hf.toFInv0)) s p t h
  have := peekImpl_cnt ctx (tokF_of hf.toFInv0) s p
  rw [h] at this
  obtain ⟨h1, h2⟩ := this
  rcases h2 with h2 | h2
  · rw [mkPS_enEnvs, hf.ee] at h2
    exact absurd h2.1 (by decide)
  · exact ⟨h1, h2, hs.pos_eq⟩

/-- the same for the expression parser's read (environments switched off): `\begin` / `\end` come as macros -/
theorem tokFacts_of_peek0 {f : PSFields} (hf : FInv0 f) {p : Nat} {t : Token}
    (h : peekTok false (mkPS f) s p = .tok t) :
    (t.kind = .macro ∧ (t.arg = beginW ∨ t.arg = endW)) ∨ TokFacts ctx s p t := by
  rw [peekTok_false] at h
  have hs := C11_span (mkPS f) (tablesOk_of_fields f (delimsOk_of hf)) s p t h
  have := peekImpl_cnt ctx (tokF_of hf) s p
  rw [h] at this
  obtain ⟨h1, h2⟩ := this
  rcases h2 with h2 | h2
  · exact Or.inl h2.2
  · exact Or.inr ⟨h1, h2, hs.pos_eq⟩

theorem eos_of_peek {f : PSFields} (hf : FInv0 f) {p : Nat} {fs : Str}
    (h : peekTok false (mkPS f) s p = .eos fs) : ∀ k, C ctx k s p = 0 ∧ C ctx k s (p + fs.length) = 0 := by
  rw [peekTok_false] at h
  have := peekImpl_cnt ctx (tokF_of hf) s p
  rw [h] at this
  exact this

/-- after a token whose weight for the class `verb` is non-negative, no verbatim construct follows either -/
theorem TokFacts.verb {p0 : Nat} {t : Token} (h : TokFacts ctx s p0 t) (h0 : C ctx .verb s p0 = 0) :
    C ctx .verb s t.pos = 0 ∧ kindW ctx .verb t.kind t.arg = 0 ∧ C ctx .verb s t.posEnd = 0 := by
  have h1 : C ctx .verb s t.pos = 0 := by rw [← h.skip]; exact h0
  have := verb_split h1 (h.weight .verb) (kindW_verb_nonneg ctx _ _)
  exact ⟨h1, this.1, this.2⟩

end basics

/-! ### the nodes collector -/

section loop
variable {ctx : Ctx} {env : Env} {rec : Task → Ret}

theorem flush_pos (f : PSFields) (st : LoopSt) : (st.flush f).pos = st.pos := by
  unfold LoopSt.flush
  split <;> rfl

theorem loopFinish_err (f : PSFields) (st : LoopSt) (stopTok : Option Token) (e : PErr) (stop : StopTok) (pos : Nat) :
    LoopPost ctx env.s stop pos (loopFinish f st stopTok (some e)) := by
  unfold loopFinish LoopPost
  intro h; cases h

theorem loopFinish_ok (f : PSFields) (st : LoopSt) (stopTok : Option Token) (stop : StopTok) (pos : Nat)
    (h1 : PosOk ctx env.s (fun _ => 0) pos st.pos)
    (h2 : match stopTok with
      | some t => stop.test t = true ∧ ∀ k, C ctx k env.s st.pos = kindW ctx k t.kind t.arg + C ctx k env.s t.posEnd
      | none => ∀ k, C ctx k env.s st.pos = 0) :
    LoopPost ctx env.s stop pos (loopFinish f st stopTok none) := by
  unfold loopFinish LoopPost
  intro _
  dsimp only
  rw [flush_pos]
  refine ⟨h1, ?_⟩
  unfold EndOk
  dsimp only
  exact h2

theorem LoopPost.shift {stop : StopTok} {a b : Nat} {r : Ret} (h1 : ∀ k, Rel k (C ctx k env.s a) (C ctx k env.s b))
    (h2 : LoopPost ctx env.s stop b r) : LoopPost ctx env.s stop a r := by
  cases r with
  | loopEnd e =>
    intro he
    obtain ⟨g1, g2⟩ := h2 he
    refine ⟨?_, g2⟩
    have := PosOk.shift (u := fun _ => 0) (fun k => by rw [Int.zero_add]; exact h1 k) g1
    exact this.congr (fun k => Rel.of_eq (by simp))
  | _ => trivial

/-- what the collector needs from a sub-parse started for the token at `tpos` -/
def ChildPost (ctx : Ctx) (s : Str) (tpos : Nat) : Ret → Prop
  | .ok _ p => PosOk ctx s (fun _ => 0) tpos p
  | _ => True

theorem afterChild_post (ih : ∀ t, Good ctx env.s t (rec t)) {f : PSFields} {stop : StopTok} {child : ChildPS}
    (hf : FInv f) (hc : ChildOk child) (st : LoopSt) (tpos : Nat) (noneOk : Bool) (r : Ret)
    (hr : ChildPost ctx env.s tpos r) :
    LoopPost ctx env.s stop tpos (afterChild rec f stop child st noneOk r) := by
  unfold afterChild
  cases r with
  | ok res p =>
    have hr : PosOk ctx env.s (fun _ => 0) tpos p := hr
    have hsh : ∀ k, Rel k (C ctx k env.s tpos) (C ctx k env.s p) := fun k => by
      have := hr.2 k; rw [Int.zero_add] at this; exact this
    cases res with
    | none =>
      dsimp only
      cases noneOk with
      | false => simp only [Bool.false_eq_true, if_false]; trivial
      | true =>
        simp only [if_true]
        exact LoopPost.shift hsh (ih (.loop f stop child { st with pos := p }) hf hc hr.1)
    | node n =>
      dsimp only
      exact LoopPost.shift hsh (ih (.loop f stop child { st with pos := p, acc := st.acc ++ [n] }) hf hc hr.1)
    | list _ _ _ => trivial
    | args _ _ _ => trivial
  | perr e => exact loopFinish_err _ _ _ _ _ _
  | loopEnd _ => trivial
  | crash _ => trivial
  | fuel => trivial

theorem loopRead_cases (htol : env.tol = false) {f : PSFields} (hf : FInv f) (st : LoopSt) (stop : StopTok)
    (h0 : C ctx .verb env.s st.pos = 0) :
    match loopRead env f st with
    | .inr r => LoopPost ctx env.s stop st.pos r
    | .inl t => (∀ k, C ctx k env.s st.pos = C ctx k env.s t.pos) ∧
        (∀ k, C ctx k env.s t.pos = kindW ctx k t.kind t.arg + C ctx k env.s t.posEnd) := by
  unfold loopRead
  rw [htol]
  cases hpk : peekTok false (mkPS f) env.s st.pos with
  | tok t =>
    have := tokFacts_of_peek (ctx := ctx) hf hpk
    exact ⟨this.skip, this.weight⟩
  | err w ep t r => exact loopFinish_err _ _ _ _ _ _
  | eos fs =>
    have he := eos_of_peek (ctx := ctx) hf.toFInv0 hpk
    dsimp only
    by_cases hemp : fs.isEmpty = true
    · rw [if_pos hemp]
      exact loopFinish_ok f st none stop st.pos (PosOk.refl h0) (fun k => (he k).1)
    · rw [if_neg hemp]
      dsimp only
      refine ⟨fun k => ?_, fun k => ?_⟩
      · rw [(he k).1, (he k).2]
      · rw [(he k).2]; simp [kindW]

theorem lookupFirst_mem' {β : Type} (k : Str) (l : List (Str × β)) (v : β) (h : lookupFirst k l = some v) :
    ∃ p ∈ l, p.2 = v := by
  induction l with
  | nil => cases h
  | cons a l ih =>
    obtain ⟨a1, a2⟩ := a
    unfold lookupFirst at h
    split at h
    · cases h; exact ⟨_, List.mem_cons_self, rfl⟩
    · obtain ⟨p, hp, hv⟩ := ih h
      exact ⟨p, List.mem_cons_of_mem _ hp, hv⟩

theorem macroSpec_ok {name : Str} {a : ArgsP} (hb : macroBad ctx name = false) (h : ctx.macroSpec name = some a) :
    argsOk a = true := by
  unfold macroBad at hb
  rw [h] at hb
  simpa using hb

theorem envSpec_ok {name : Str} {ab : ArgsP × Bool} (hb : envBad ctx name = false) (h : ctx.envSpec name = some ab) :
    argsOk ab.1 = true := by
  unfold envBad at hb
  rw [h] at hb
  simpa using hb

/-- `Post` of a call parser as what the collector needs, the token's own weight `u` added in front -/
theorem childPost_of_post {s : Str} {p : Parser} {tpos pos : Nat} {r : Ret} (h : Post ctx s p pos r) {u : Sym → Int}
    (h1 : ∀ k, Rel k (C ctx k s tpos) (u k + C ctx k s pos)) (hw : ∀ k, Rel k (u k + parserW ctx k p) 0) :
    ChildPost ctx s tpos r := by
  cases r with
  | ok res p' =>
    have h : PosOk ctx s (fun k => parserW ctx k p) pos p' := h
    exact (PosOk.shift h1 h).congr hw
  | _ => trivial

theorem loopDispatch_post (htol : env.tol = false) (hS : ∀ p ∈ ctx.specials, argsOk p.2 = true) (hctx : env.ctx = ctx)
    (ih : ∀ t, Good ctx env.s t (rec t))
    {f : PSFields} {stop : StopTok} {child : ChildPS} (hf : FInv f) (hc : ChildOk child)
    {st : LoopSt} {t : Token} (hpos : st.pos = t.posEnd)
    (h0 : C ctx .verb env.s t.pos = 0)
    (hw : ∀ k, C ctx k env.s t.pos = kindW ctx k t.kind t.arg + C ctx k env.s t.posEnd) :
    LoopPost ctx env.s stop t.pos (loopDispatch env rec f stop child st t) := by
  obtain ⟨hv1, hv2⟩ := verb_split h0 (hw .verb) (kindW_verb_nonneg ctx _ _)
  have hcf := hc.get hf t
  unfold loopDispatch
  split
  · exact loopFinish_err _ _ _ _ _ _
  · exact loopFinish_err _ _ _ _ _ _
  · rename_i hk
    have hsh : ∀ k, Rel k (C ctx k env.s t.pos) (C ctx k env.s st.pos) := fun k => by
      rw [hw k, hk, hpos]; exact Rel.of_eq (by simp [kindW])
    refine LoopPost.shift hsh (ih (.loop f stop child _) hf hc ?_)
    show C ctx .verb env.s st.pos = 0
    rw [hpos]; exact hv2
  · -- a group
    refine afterChild_post ih hf hc st t.pos false _ ?_
    have := ih (.pc (.group (.auto t.arg) false false) (child.get f t) t.pos) hcf trivial h0
    exact childPost_of_post this (u := fun _ => 0) (fun k => by rw [Int.zero_add]; exact Rel.refl _ _)
      (fun k => Rel.refl _ _)
  · -- a macro
    rename_i hk
    rw [hctx]
    split
    · rw [htol]; simp only [Bool.false_eq_true, if_false]
      exact loopFinish_err _ _ _ _ _ _
    · rename_i a ha
      rw [hk] at hv1
      have hbad : macroBad ctx t.arg = false := by
        cases hb : macroBad ctx t.arg with
        | false => rfl
        | true => simp [kindW, hb] at hv1
      refine afterChild_post ih hf hc st t.pos true _ ?_
      have := ih (.pc (.macroCall t a) (child.get f t) st.pos) hcf (macroSpec_ok hbad ha) (by rw [hpos]; exact hv2)
      refine childPost_of_post this (u := fun k => kindW ctx k t.kind t.arg) (fun k => by rw [hpos, hw k]; exact Rel.refl _ _)
        (fun k => ?_)
      rw [hk, kindW_macro_zero ctx k hbad]; exact Rel.refl _ _
  · -- an environment
    rename_i hk
    rw [hctx]
    split
    · rw [htol]; simp only [Bool.false_eq_true, if_false]
      exact loopFinish_err _ _ _ _ _ _
    · rename_i ab hab
      rw [hk] at hv1
      have hbad : envBad ctx t.arg = false := by
        cases hb : envBad ctx t.arg with
        | false => rfl
        | true => simp [kindW, hb] at hv1
      refine afterChild_post ih hf hc st t.pos true _ ?_
      have := ih (.pc (.envCall t ab.1 ab.2) (child.get f t) st.pos) hcf (envSpec_ok hbad hab) (by rw [hpos]; exact hv2)
      refine childPost_of_post this (u := fun k => kindW ctx k t.kind t.arg) (fun k => by rw [hpos, hw k]; exact Rel.refl _ _)
        (fun k => ?_)
      rw [hk]
      exact Rel.of_eq (kindW_env_pair ctx k hbad)
  · -- specials
    rename_i hk
    rw [hctx]
    split
    · trivial
    · rename_i a ha
      obtain ⟨pr, hpr, hpa⟩ := lookupFirst_mem' _ _ _ ha
      have haok : argsOk a = true := by rw [← hpa]; exact hS pr hpr
      refine afterChild_post ih hf hc st t.pos true _ ?_
      have := ih (.pc (.specialsCall t a) (child.get f t) st.pos) hcf haok (by rw [hpos]; exact hv2)
      refine childPost_of_post this (u := fun k => kindW ctx k t.kind t.arg) (fun k => by rw [hpos, hw k]; exact Rel.refl _ _)
        (fun k => ?_)
      rw [hk]; exact Rel.of_eq (by simp [kindW, parserW])
  · split
    · refine afterChild_post ih hf hc st t.pos true _ ?_
      have := ih (.pc (.math t.arg) (child.get f t) t.pos) hcf trivial h0
      exact childPost_of_post this (u := fun _ => 0) (fun k => by rw [Int.zero_add]; exact Rel.refl _ _)
        (fun k => Rel.refl _ _)
    · exact loopFinish_err _ _ _ _ _ _
  · split
    · refine afterChild_post ih hf hc st t.pos true _ ?_
      have := ih (.pc (.math t.arg) (child.get f t) t.pos) hcf trivial h0
      exact childPost_of_post this (u := fun _ => 0) (fun k => by rw [Int.zero_add]; exact Rel.refl _ _)
        (fun k => Rel.refl _ _)
    · exact loopFinish_err _ _ _ _ _ _
  · trivial

theorem loopStep_good (htol : env.tol = false) (hS : ∀ p ∈ ctx.specials, argsOk p.2 = true) (hctx : env.ctx = ctx)
    (ih : ∀ t, Good ctx env.s t (rec t))
    (f : PSFields) (stop : StopTok) (child : ChildPS) (st : LoopSt) :
    Good ctx env.s (.loop f stop child st) (loopStep env rec f stop child st) := by
  intro hf hc h0
  have hr := loopRead_cases (ctx := ctx) htol hf st stop h0
  unfold loopStep
  cases hlr : loopRead env f st with
  | inr r => rw [hlr] at hr; exact hr
  | inl t =>
    rw [hlr] at hr
    obtain ⟨hskip, hw⟩ := hr
    have h0t : C ctx .verb env.s t.pos = 0 := by rw [← hskip]; exact h0
    obtain ⟨hv1, hv2⟩ := verb_split h0t (hw .verb) (kindW_verb_nonneg ctx _ _)
    have hsh : ∀ k, Rel k (C ctx k env.s st.pos) (C ctx k env.s t.pos) := fun k => Rel.of_eq (hskip k)
    dsimp only
    by_cases hst : stop.test t = true
    · rw [if_pos hst]
      exact LoopPost.shift hsh (loopFinish_ok f _ (some t) stop t.pos (PosOk.refl h0t) ⟨hst, hw⟩)
    · rw [if_neg hst]
      by_cases hk : (t.kind == .char) = true
      · rw [if_pos hk]
        have hk' := kind_eq_of_beq hk
        have hsh2 : ∀ k, Rel k (C ctx k env.s st.pos) (C ctx k env.s t.posEnd) := fun k => by
          rw [hskip k, hw k, hk']; exact Rel.of_eq (by simp [kindW])
        exact LoopPost.shift hsh2 (ih (.loop f stop child _) hf hc hv2)
      · rw [if_neg hk]
        exact LoopPost.shift hsh (loopDispatch_post (t := { t with pre := [] }) htol hS hctx ih hf hc rfl h0t hw)

end loop

/-! ### the parsers -/

section parsers
variable {ctx : Ctx} {env : Env} {rec : Task → Ret}

def RawPost (ctx : Ctx) (s : Str) (p : Parser) (pos : Nat) : Raw → Prop
  | .eos q => Post ctx s p pos (.ok .none q)
  | .ret r => Post ctx s p pos r

theorem parseContent_post {s : Str} {p : Parser} {pos : Nat} {raw : Raw} (h : RawPost ctx s p pos raw) :
    Post ctx s p pos (parseContent false raw) := by
  cases raw with
  | eos q => exact h
  | ret r =>
    cases r with
    | perr e => trivial
    | ok res p' => exact h
    | loopEnd e => exact h
    | crash k => exact h
    | fuel => exact h

theorem rawGeneral_post (ih : ∀ t, Good ctx env.s t (rec t)) {stop : StopTok} {require : Bool} {child : ChildPS}
    {f : PSFields} {pos : Nat} (hf : FInv f) (hp : PInv (.general stop require child)) (h0 : C ctx .verb env.s pos = 0) :
    RawPost ctx env.s (.general stop require child) pos (rawGeneral rec stop require child f pos) := by
  obtain ⟨hreq, hc⟩ := hp
  have := ih (.loop f stop child { pos := pos }) hf hc h0
  unfold rawGeneral retOfLoop
  generalize rec (.loop f stop child { pos := pos }) = r at this
  cases r with
  | loopEnd e =>
    dsimp only
    cases herr : e.err with
    | some pe => trivial
    | none =>
      obtain ⟨h1, h2⟩ := this herr
      unfold EndOk at h2
      dsimp only
      split
      · trivial
      · rename_i hcond
        cases hst : e.stopTok with
        | none =>
          rw [hst] at h2 hcond
          have hsn : stop.isSome = false := by
            cases hs : stop.isSome with
            | false => rfl
            | true => rw [hreq, hs] at hcond; simp at hcond
          have hstop : stop = .none := by
            cases stop <;> first | rfl | cases hsn
          dsimp only
          show PosOk ctx env.s (fun k => parserW ctx k (.general stop require child)) pos e.pos
          refine h1.congr (fun k => ?_)
          rw [hstop]; exact Rel.refl _ _
        | some t =>
          rw [hst] at h2
          obtain ⟨h3, h4⟩ := h2
          dsimp only
          rw [stop_isSome_of_test h3]
          simp only [if_true, movePastToken]
          show PosOk ctx env.s (fun k => parserW ctx k (.general stop require child)) pos t.posEnd
          have hv := verb_split h1.1 (h4 .verb) (kindW_verb_nonneg ctx _ _)
          refine ⟨hv.2, fun k => ?_⟩
          have := h1.2 k
          rw [Int.zero_add, h4 k, stopW_of_test ctx k h3] at this
          exact this
  | ok _ _ => trivial
  | perr _ => trivial
  | crash _ => trivial
  | fuel => trivial

theorem moveToToken_pre {s : Str} {p0 : Nat} {t : Token} (ht : TokFacts ctx s p0 t) : moveToToken t true = p0 := by
  have := ht.pos_eq
  simp [moveToToken]; omega

theorem post_none_self {s : Str} {p : Parser} {pos : Nat} (hw : ∀ k, parserW ctx k p = 0) (h0 : C ctx .verb s pos = 0) :
    Post ctx s p pos (.ok .none pos) :=
  ⟨h0, fun k => by show Rel k _ (parserW ctx k p + _); rw [hw k, Int.zero_add]; exact Rel.refl _ _⟩

theorem mkPS_groupByOpen (g : PSFields) : (mkPS g).t.groupByOpen = g.groupDelims := by
  show g.normalize.groupDelims = g.groupDelims
  unfold PSFields.normalize; split <;> rfl

theorem rawGroup_post (htol : env.tol = false) (ih : ∀ t, Good ctx env.s t (rec t)) {d : GroupDelims} {opt ap : Bool}
    {f : PSFields} {pos : Nat} (hf : FInv f) (hd : GDOk d) (h0 : C ctx .verb env.s pos = 0) :
    RawPost ctx env.s (.group d opt ap) pos (rawGroup env rec d opt ap f pos) := by
  unfold rawGroup
  cases hg : groupState d f with
  | none => trivial
  | some g =>
    have hgf := hf.groupState hd hg
    dsimp only
    rw [htol]
    cases hpk : peekTok false (mkPS g) env.s pos with
    | eos fs => exact post_none_self (fun _ => rfl) h0
    | err w ep t r => trivial
    | tok t =>
      have ht := tokFacts_of_peek (ctx := ctx) hgf hpk
      obtain ⟨hv0, hv1, hv2⟩ := ht.verb h0
      dsimp only
      unfold rawGroupTok
      split
      · rename_i hcond
        split
        · trivial
        · rename_i c hc
          have := ih (.pc (.general (.braceClose c) true (.group d.opener g f)) g t.posEnd) hgf ⟨rfl, hgf, hf⟩ hv2
          unfold bindOk
          generalize rec (.pc (.general (.braceClose c) true (.group d.opener g f)) g t.posEnd) = r at this
          cases r with
          | ok res p =>
            have this : PosOk ctx env.s (fun k => kindW ctx k .braceClose c) t.posEnd p := this
            dsimp only
            show PosOk ctx env.s (fun _ => 0) pos p
            simp only [Bool.and_eq_true, beq_iff_eq] at hcond
            have hk := kind_eq_of_beq hcond.1.2
            have harg := hcond.2
            have hpair : PairOk (t.arg, c) := by
              cases d with
              | auto o =>
                have hc : lookupLast o (mkPS g).t.groupByOpen = some c := hc
                rw [mkPS_groupByOpen] at hc
                have harg : t.arg = o := harg
                rw [harg]
                exact hgf.groups _ (lookupLast_mem _ _ _ hc)
              | pair o c' =>
                have hc : some c' = some c := hc
                cases hc
                have harg : t.arg = o := harg
                rw [harg]; exact hd
            have h1 : ∀ k, Rel k (C ctx k env.s pos) (kindW ctx k .braceOpen t.arg + C ctx k env.s t.posEnd) := fun k => by
              rw [ht.skip k, ht.weight k, hk]; exact Rel.refl _ _
            refine (PosOk.shift h1 this).congr (fun k => ?_)
            exact Rel.of_eq (pair_weight ctx k hpair)
          | _ => trivial
      · split
        · rw [moveToToken_pre ht]
          exact post_none_self (fun _ => rfl) h0
        · trivial

theorem mkPS_expect_mathFields {f : PSFields} (hf : FInv f) (d : Str) :
    (mkPS (mathFields f d)).t.expectClose = lookupLast d C02.stdMathByOpen := by
  rw [C10.expectClose_mathFieldsX, mathTables_std hf.inl hf.disp]

theorem kindW_math (ctx : Ctx) (k : Sym) {kind : TokKind} (h : kind = .mathInline ∨ kind = .mathDisplay) (a : Str) :
    kindW ctx k kind a = mathW k a := by
  rcases h with h | h <;> (rw [h]; rfl)

theorem rawMath_post (htol : env.tol = false) (ih : ∀ t, Good ctx env.s t (rec t)) {d : Str}
    {f : PSFields} {pos : Nat} (hf : FInv f) (h0 : C ctx .verb env.s pos = 0) :
    RawPost ctx env.s (.math d) pos (rawMath env rec d f pos) := by
  unfold rawMath
  rw [htol]
  cases hpk : peekTok false (mkPS f) env.s pos with
  | eos fs => exact post_none_self (fun _ => rfl) h0
  | err w ep t r => trivial
  | tok t =>
    have ht := tokFacts_of_peek (ctx := ctx) hf hpk
    obtain ⟨hv0, hv1, hv2⟩ := ht.verb h0
    dsimp only
    unfold rawMathTok
    split
    · rename_i hcond
      split
      · trivial
      · rename_i cd hcd
        rw [mkPS_expect_mathFields hf] at hcd
        have := ih (.pc (.general (.mathClose (t.kind == .mathDisplay) cd.1) true .same) (mathFields f t.arg) t.posEnd)
          (hf.mathFields _) ⟨rfl, trivial⟩ hv2
        unfold bindOk
        generalize rec (.pc (.general (.mathClose (t.kind == .mathDisplay) cd.1) true .same) (mathFields f t.arg) t.posEnd) = r at this
        cases r with
        | ok res p =>
          have this : PosOk ctx env.s (fun k => mathW k cd.1) t.posEnd p := this
          dsimp only
          show PosOk ctx env.s (fun _ => 0) pos p
          simp only [Bool.and_eq_true, Bool.or_eq_true, beq_iff_eq] at hcond
          have hk : t.kind = .mathInline ∨ t.kind = .mathDisplay := by
            rcases hcond.1.2 with h | h
            · exact Or.inl (kind_eq_of_beq h)
            · exact Or.inr (kind_eq_of_beq h)
          have h1 : ∀ k, Rel k (C ctx k env.s pos) (mathW k t.arg + C ctx k env.s t.posEnd) := fun k => by
            rw [ht.skip k, ht.weight k, kindW_math ctx k hk]; exact Rel.refl _ _
          exact (PosOk.shift h1 this).congr (fun k => math_pair k hcd)
        | _ => trivial
    · trivial

theorem rawEnvBody_post (ih : ∀ t, Good ctx env.s t (rec t)) {name : Str}
    {f : PSFields} {pos : Nat} (hf : FInv f) (h0 : C ctx .verb env.s pos = 0) :
    RawPost ctx env.s (.envBody name) pos (rawEnvBody rec name f pos) := by
  have := ih (.pc (.general (.endEnv name) true .same) f pos) hf ⟨rfl, trivial⟩ h0
  unfold rawEnvBody bindOk
  generalize rec (.pc (.general (.endEnv name) true .same) f pos) = r at this
  cases r with
  | ok res p =>
    have this : PosOk ctx env.s (fun k => kindW ctx k .endEnv name) pos p := this
    dsimp only
    split <;> exact this
  | _ => trivial

theorem rawCall_post (ih : ∀ t, Good ctx env.s t (rec t)) {mk : Nat → Option (List Arg) → Node} {a : ArgsP}
    {f : PSFields} {pos : Nat} (hf : FInv f) (ha : argsOk a = true) (h0 : C ctx .verb env.s pos = 0) :
    match rawCall rec mk a f pos with
    | .ret (.ok _ p) => PosOk ctx env.s (fun _ => 0) pos p
    | .ret _ => True
    | .eos _ => False := by
  have := ih (.pc (.arguments a) f pos) hf ha h0
  unfold rawCall bindOk
  generalize rec (.pc (.arguments a) f pos) = r at this
  cases r with
  | ok res p => exact this
  | _ => trivial

theorem rawEnvCall_post (ih : ∀ t, Good ctx env.s t (rec t)) {t : Token} {a : ArgsP} {bm : Bool}
    {f : PSFields} {pos : Nat} (hf : FInv f) (ha : argsOk a = true) (h0 : C ctx .verb env.s pos = 0) :
    RawPost ctx env.s (.envCall t a bm) pos (rawEnvCall rec t a bm f pos) := by
  have := ih (.pc (.arguments a) f pos) hf ha h0
  unfold rawEnvCall bindOk
  generalize rec (.pc (.arguments a) f pos) = r at this
  cases r with
  | ok res p =>
    have this : PosOk ctx env.s (fun _ => 0) pos p := this
    dsimp only
    have hbf : FInv (if bm = true then applyDelta f .enterMath else f) := by
      split
      · exact hf.applyDelta _
      · exact hf
    have h2 := ih (.pc (.envBody t.arg) (if bm = true then applyDelta f .enterMath else f) p) hbf trivial this.1
    generalize rec (.pc (.envBody t.arg) (if bm = true then applyDelta f .enterMath else f) p) = r2 at h2
    cases r2 with
    | ok bres p2 =>
      have h2 : PosOk ctx env.s (fun k => kindW ctx k .endEnv t.arg) p p2 := h2
      show PosOk ctx env.s (fun k => kindW ctx k .endEnv t.arg) pos p2
      have h1 : ∀ k, Rel k (C ctx k env.s pos) (0 + C ctx k env.s p) := this.2
      exact (PosOk.shift h1 h2).congr (fun k => Rel.of_eq (by simp))
    | _ => trivial
  | _ => trivial

theorem pinv_argParser {k : ArgKind} (h : argKindOk k = true) : PInv (argParser k) := by
  cases k with
  | m => trivial
  | m0 => trivial
  | o ap => exact Or.inr ⟨'[', ']', rfl, by decide, by decide⟩
  | s => trivial
  | t c => trivial
  | r o c =>
    simp only [argKindOk, Bool.and_eq_true] at h
    exact Or.inr ⟨o, c, rfl, h.1, h.2⟩
  | d o c =>
    simp only [argKindOk, Bool.and_eq_true] at h
    exact Or.inr ⟨o, c, rfl, h.1, h.2⟩
  | v => cases h
  | vd o c => cases h

theorem parserW_argParser (ctx : Ctx) (k' : Sym) (k : ArgKind) : parserW ctx k' (argParser k) = 0 := by
  cases k <;> rfl

theorem argsLoop_post (htol : env.tol = false) (ih : ∀ t, Good ctx env.s t (rec t)) {f : PSFields} (hf : FInv f)
    (a : ArgsP) (pos0 : Nat) :
    ∀ (l : List ArgSpec) (acc : List Arg) (pos : Nat), (l.all (fun sp => argKindOk sp.kind) = true) →
      PosOk ctx env.s (fun _ => 0) pos0 pos →
      Post ctx env.s (.arguments a) pos0 (argsLoop env rec f l acc pos) := by
  intro l
  induction l with
  | nil =>
    intro acc pos _ h
    unfold argsLoop
    exact h
  | cons x rest ihl =>
    intro acc pos hall h
    simp only [List.all_cons, Bool.and_eq_true] at hall
    unfold argsLoop
    rw [htol]
    have key : Post ctx env.s (.arguments a) pos0
        (match rec (.pc (argParser x.kind) (applyDelta f x.delta) pos) with
          | .ok res p => argsLoop env rec f rest (acc ++ [resToArg res]) p
          | other => other) := by
      have := ih (.pc (argParser x.kind) (applyDelta f x.delta) pos) (hf.applyDelta _) (pinv_argParser hall.1) h.1
      generalize rec (.pc (argParser x.kind) (applyDelta f x.delta) pos) = r at this
      cases r with
      | ok res p =>
        have this : PosOk ctx env.s (fun k => parserW ctx k (argParser x.kind)) pos p := this
        dsimp only
        refine ihl _ p hall.2 ?_
        have h1 : ∀ k, Rel k (C ctx k env.s pos0) (0 + C ctx k env.s pos) := h.2
        refine (PosOk.shift h1 this).congr (fun k => ?_)
        rw [parserW_argParser]; exact Rel.refl _ _
      | _ => trivial
    cases hpk : peekTok false (mkPS f) env.s pos with
    | err w ep t r => trivial
    | tok t => exact key
    | eos fs => exact key

theorem rawArguments_post (htol : env.tol = false) (ih : ∀ t, Good ctx env.s t (rec t)) {a : ArgsP}
    {f : PSFields} {pos : Nat} (hf : FInv f) (ha : argsOk a = true) (h0 : C ctx .verb env.s pos = 0) :
    RawPost ctx env.s (.arguments a) pos (rawArguments env rec a f pos) := by
  unfold rawArguments
  cases a with
  | std l => exact argsLoop_post htol ih hf _ pos l [] pos ha (PosOk.refl h0)
  | legacyVerb => cases ha
  | legacyVerbEnv name optArg => cases ha
  | unknown => cases ha

end parsers

/-! ### expression, marker -/

section single
variable {ctx : Ctx} {env : Env} {rec : Task → Ret}

theorem exprFinish_ok (f : PSFields) (nodes : List Node) (p : Nat) : ∃ res, exprFinish f nodes p = .ok res p := by
  unfold exprFinish
  split
  · exact ⟨_, rfl⟩
  · exact ⟨_, rfl⟩

theorem exprPost_finish {s : Str} {pos p : Nat} (f : PSFields) (nodes : List Node) (h : PosOk ctx s (fun _ => 0) pos p) :
    ExprPost ctx s pos (exprFinish f nodes p) := by
  obtain ⟨res, hres⟩ := exprFinish_ok f nodes p
  rw [hres]; exact h

theorem ExprPost.shift {s : Str} {a b : Nat} {r : Ret} (h1 : ∀ k, Rel k (C ctx k s a) (C ctx k s b))
    (h2 : ExprPost ctx s b r) : ExprPost ctx s a r := by
  cases r with
  | ok res p =>
    have h2 : PosOk ctx s (fun _ => 0) b p := h2
    have := PosOk.shift (u := fun _ => 0) (fun k => by rw [Int.zero_add]; exact h1 k) h2
    exact this.congr (fun k => Rel.of_eq (by simp))
  | _ => trivial

/-- a token of weight zero taken as the whole expression -/
theorem exprLeaf {s : Str} {pos : Nat} {t : Token} (ht : TokFacts ctx s pos t) (h0 : C ctx .verb s pos = 0)
    (hz : ∀ k, k ≠ .verb → kindW ctx k t.kind t.arg = 0) : PosOk ctx s (fun _ => 0) pos t.posEnd := by
  obtain ⟨_, hv1, hv2⟩ := ht.verb h0
  refine ⟨hv2, fun k => ?_⟩
  rw [Int.zero_add, ht.skip k, ht.weight k]
  by_cases hk : k = .verb
  · subst hk; rw [hv1, Int.zero_add]; exact Rel.refl _ _
  · rw [hz k hk, Int.zero_add]; exact Rel.refl _ _

theorem exprOnTok_post (htol : env.tol = false) (ih : ∀ t, Good ctx env.s t (rec t)) {ap : Bool} {sk : List Node}
    {f : PSFields} {pos : Nat} {t : Token} (hf : FInv f) (ht : TokFacts ctx env.s pos t)
    (h0 : C ctx .verb env.s pos = 0) :
    ExprPost ctx env.s pos (exprOnTok env rec ap sk f t) := by
  obtain ⟨hv0, hv1, hv2⟩ := ht.verb h0
  unfold exprOnTok
  dsimp only
  split
  · rename_i hk
    split
    · refine ExprPost.shift (fun k => ?_) (ih (.expr ap _ f t.posEnd) hf hv2)
      rw [ht.skip k, ht.weight k, hk]; exact Rel.of_eq (by simp [kindW])
    · rw [htol]; simp only [Bool.false_eq_true, if_false]; trivial
  · have := ih (.pc (.group (.auto t.arg) false false) f t.pos) hf trivial hv0
    generalize rec (.pc (.group (.auto t.arg) false false) f t.pos) = r at this
    cases r with
    | ok res p =>
      have this : PosOk ctx env.s (fun _ => 0) t.pos p := this
      have hpp : PosOk ctx env.s (fun _ => 0) pos p := PosOk.shift0 ht.skip this
      cases res with
      | node n => exact exprPost_finish f _ hpp
      | none => trivial
      | list _ _ _ => trivial
      | args _ _ _ => trivial
    | _ => trivial
  · trivial
  · rename_i hk
    refine exprPost_finish f _ (exprLeaf ht h0 (fun k _ => ?_))
    rw [hk]; cases k <;> rfl
  · trivial
  · trivial
  · trivial

theorem exprTok_post (htol : env.tol = false) (ih : ∀ t, Good ctx env.s t (rec t)) {ap : Bool} {sk : List Node}
    {f : PSFields} {pos : Nat} {t : Token} (hf : FInv f)
    (ht : (t.kind = .macro ∧ (t.arg = beginW ∨ t.arg = endW)) ∨ TokFacts ctx env.s pos t)
    (h0 : C ctx .verb env.s pos = 0) :
    ExprPost ctx env.s pos (exprTok env rec ap sk f t) := by
  unfold exprTok
  dsimp only
  split
  · rename_i hk
    have hk := kind_eq_of_beq hk
    split
    · rw [htol]; simp only [Bool.false_eq_true, if_false]; trivial
    · rename_i hbe
      rcases ht with ht | ht
      · exfalso; apply hbe
        rcases ht.2 with h | h
        · rw [h]; simp [beginW]
        · rw [h]; simp [endW]
      · refine exprPost_finish f _ (exprLeaf ht h0 (fun k hk' => ?_))
        rw [hk]; cases k <;> first | rfl | exact absurd rfl hk'
  · rename_i hk1
    have ht : TokFacts ctx env.s pos t := by
      rcases ht with ht | ht
      · rw [ht.1] at hk1; exact absurd rfl hk1
      · exact ht
    obtain ⟨hv0, hv1, hv2⟩ := ht.verb h0
    split
    · rename_i hk
      have hk := kind_eq_of_beq hk
      refine exprPost_finish f _ (exprLeaf ht h0 (fun k _ => ?_))
      rw [hk]; cases k <;> rfl
    · split
      · split
        · exact ExprPost.shift (fun k => Rel.of_eq (ht.skip k)) (ih (.expr ap _ f t.pos) hf hv0)
        · rw [htol]; simp only [Bool.false_eq_true, if_false]; trivial
      · exact exprOnTok_post htol ih hf ht h0

theorem exprStep_good (htol : env.tol = false) (ih : ∀ t, Good ctx env.s t (rec t)) (ap : Bool) (sk : List Node)
    (f : PSFields) (pos : Nat) : Good ctx env.s (.expr ap sk f pos) (exprStep env rec ap sk f pos) := by
  intro hf h0
  unfold exprStep
  dsimp only
  rw [htol]
  cases hpk : peekTok false (mkPS ({ f with enEnvs := false } : PSFields).normalize) env.s pos with
  | err w ep t r => trivial
  | eos fs => simp only [Bool.false_eq_true, if_false]; trivial
  | tok t =>
    have ht := tokFacts_of_peek0 (ctx := ctx) hf.noEnvs hpk
    exact exprTok_post (ap := ap) (sk := sk) htol ih hf ht h0

theorem rawMarker_post (htol : env.tol = false) {c : Char} {fl ap : Bool} {f : PSFields} {pos : Nat}
    (hf : FInv f) (h0 : C ctx .verb env.s pos = 0) :
    RawPost ctx env.s (.marker c fl ap) pos (rawMarker env c fl ap f pos) := by
  have hnone : Post ctx env.s (.marker c fl ap) pos (.ok .none pos) := post_none_self (fun _ => rfl) h0
  unfold rawMarker
  rw [htol]
  cases hpk : peekTok false (mkPS f) env.s pos with
  | eos fs => exact hnone
  | err w ep t r => trivial
  | tok t =>
    have ht := tokFacts_of_peek (ctx := ctx) hf hpk
    dsimp only
    split
    · exact hnone
    · split
      · rename_i hcond
        simp only [Bool.and_eq_true, Bool.or_eq_true, beq_iff_eq] at hcond
        show PosOk ctx env.s (fun _ => 0) pos t.posEnd
        refine exprLeaf ht h0 (fun k _ => ?_)
        rcases hcond.1 with hk | hk
        · rw [kind_eq_of_beq hk]; cases k <;> rfl
        · rw [kind_eq_of_beq hk]; cases k <;> rfl
      · split
        · exact hnone
        · exact hnone

end single

/-! ### the step function, the fuel induction -/

section main
variable {ctx : Ctx} {env : Env}

theorem step_good (htol : env.tol = false) (hS : ∀ p ∈ ctx.specials, argsOk p.2 = true) (hctx : env.ctx = ctx)
    {rec : Task → Ret} (ih : ∀ t, Good ctx env.s t (rec t)) :
    ∀ t, Good ctx env.s t (step env rec t) := by
  intro t
  cases t with
  | loop f stop child st => exact loopStep_good htol hS hctx ih f stop child st
  | expr ap sk f pos => exact exprStep_good htol ih ap sk f pos
  | pc p f pos =>
    intro hf hpre h0
    unfold step
    rw [htol]
    apply parseContent_post
    unfold rawParse
    cases p with
    | general stop require child => exact rawGeneral_post ih hf hpre h0
    | group d o a => exact rawGroup_post htol ih hf hpre h0
    | math d => exact rawMath_post htol ih hf h0
    | envBody n => exact rawEnvBody_post ih hf h0
    | macroCall t a =>
      have := rawCall_post (mk := fun e args => Node.mac t.pos e (psInfo f) t.arg t.post args) (a := a) ih hf hpre h0
      dsimp only
      generalize rawCall rec (fun e args => Node.mac t.pos e (psInfo f) t.arg t.post args) a f pos = raw at this
      cases raw with
      | eos q => exact this.elim
      | ret r => cases r <;> first | exact this | trivial
    | specialsCall t a =>
      have := rawCall_post (mk := fun e args => Node.specials t.pos e (psInfo f) t.arg args) (a := a) ih hf hpre h0
      dsimp only
      generalize rawCall rec (fun e args => Node.specials t.pos e (psInfo f) t.arg args) a f pos = raw at this
      cases raw with
      | eos q => exact this.elim
      | ret r => cases r <;> first | exact this | trivial
    | envCall t a bm => exact rawEnvCall_post ih hf hpre h0
    | arguments a => exact rawArguments_post htol ih hf hpre h0
    | expression ap => exact ih (.expr ap [] f pos) hf h0
    | marker c fl ap => exact rawMarker_post htol hf h0
    | verbatim d => exact hpre.elim

theorem good_fuel (ctx : Ctx) (s : Str) : ∀ t, Good ctx s t .fuel := by
  intro t
  cases t with
  | pc p f pos => intro _ _ _; trivial
  | loop f stop child st => intro _ _ _; trivial
  | expr ap sk f pos => intro _ _; trivial

theorem run_good (htol : env.tol = false) (hS : ∀ p ∈ ctx.specials, argsOk p.2 = true) (hctx : env.ctx = ctx) :
    ∀ n t, Good ctx env.s t (run env n t) := by
  intro n
  induction n with
  | zero => intro t; exact good_fuel _ _ t
  | succ n ih => intro t; exact step_good htol hS hctx ih t

end main

/-! ### acceptance implies balance -/

/-- condition on the context: its specials are strings of plain characters (none of `\ % { } $`) whose argument
    specifications are made of non-verbatim standard slots -/
def ctxOk (ctx : Ctx) : Bool := ctx.specials.all (fun p => argsOk p.2 && p.1.all plainCh)

theorem ctxOk_specs {ctx : Ctx} (h : ctxOk ctx = true) : ∀ p ∈ ctx.specials, argsOk p.2 = true := by
  intro p hp
  have := List.all_eq_true.mp h p hp
  simp only [Bool.and_eq_true] at this
  exact this.1

theorem finv_start {ctx : Ctx} (h : ctxOk ctx = true) : FInv (startFields ctx) := by
  refine ⟨⟨rfl, rfl, rfl, rfl, rfl, rfl, rfl, rfl, rfl, rfl, ?_, ?_, ?_⟩, rfl⟩
  · intro pr hpr
    have : pr = (['{'], ['}']) := by simpa [startFields] using hpr
    exact Or.inl this
  · simp [startFields]
  · intro key hkey c hc
    have hkey : key ∈ ctx.specials.map (·.1) := hkey
    obtain ⟨p, hp, rfl⟩ := List.mem_map.mp hkey
    have := List.all_eq_true.mp h p hp
    simp only [Bool.and_eq_true] at this
    exact List.all_eq_true.mp this.2 c hc

/-- `s` contains no call of a macro or environment whose argument specification in `ctx` is not made of the
    non-verbatim standard slots (`\verb`, `verbatim`-like environments, `v` arguments), as the scanner reads `s` -/
def VerbFree (ctx : Ctx) (s : Str) : Prop := cnt ctx .verb .n s = 0

instance (ctx : Ctx) (s : Str) : Decidable (VerbFree ctx s) := by unfold VerbFree; infer_instance

/-- `s` is balanced for the class `k` -/
def Balanced (ctx : Ctx) (k : Sym) (s : Str) : Prop := Rel k (cnt ctx k .n s) 0

/-- **Acceptance implies balance** (every context whose specials are plain, every input without verbatim constructs,
    every amount of fuel): if the strict parse of `s` succeeds then, outside comments and with `\x` read as one unit,
    `s` has as many `{` as `}`, an even number of `$`, as many `\(` as `\)`, `\[` as `\]`, and as many `\begin` as `\end`. -/
theorem accepted_balanced_run (ctx : Ctx) (hc : ctxOk ctx = true) (s : Str) (hv : VerbFree ctx s) (n : Nat)
    (res : Res) (pos : Nat)
    (hr : run { tol := false, ctx := ctx, s := s } n (topTask (startFields ctx)) = .ok res pos) :
    ∀ k, Balanced ctx k s := by
  have hf := finv_start hc
  have h0 : C ctx .verb s 0 = 0 := hv
  have := run_good (ctx := ctx) (env := { tol := false, ctx := ctx, s := s }) rfl (ctxOk_specs hc) rfl n
    (topTask (startFields ctx)) hf ⟨rfl, trivial⟩ h0
  rw [hr] at this
  have this : PosOk ctx s (fun k => parserW ctx k (.general .none true .same)) 0 pos := this
  have hpos : pos = s.length := by
    have h1 := C01_contract ctx s ['%'] n (topTask (startFields ctx)) ⟨rfl, delimsOk_of hf.toFInv0⟩ (Nat.zero_le _) trivial
    rw [hr] at h1
    obtain ⟨_, _, _, _, _, _, _, _, _, _, h2⟩ := h1
    exact (h2 rfl).2
  intro k
  have h2 : Rel k (C ctx k s 0) (parserW ctx k (.general .none true .same) + C ctx k s pos) := this.2 k
  have e1 : C ctx k s pos = 0 := by
    rw [hpos]; unfold C; rw [List.drop_length]; rfl
  have e2 : parserW ctx k (.general .none true .same) = 0 := rfl
  rw [e1, e2] at h2
  exact h2

theorem accepted_balanced (ctx : Ctx) (hc : ctxOk ctx = true) (s : Str) (hv : VerbFree ctx s) (res : Res) (pos : Nat)
    (hr : parseStrict ctx s = .ok res pos) : ∀ k, Balanced ctx k s :=
  accepted_balanced_run ctx hc s hv (fuelFor s) res pos hr

/-- **Unbalanced input is rejected with a parse error**: for a closed-world context with plain specials, an input
    without verbatim constructs that is unbalanced for some class is answered by a `LatexWalkerParseError`. -/
theorem unbalanced_rejected (ctx : Ctx) (hcl : ctx.Closed) (hc : ctxOk ctx = true) (s : Str) (hv : VerbFree ctx s)
    (k : Sym) (hk : ¬ Balanced ctx k s) : ∃ e, parseStrict ctx s = .perr e := by
  have hst : StartOk ctx (startFields ctx) :=
    { hasCtx := rfl, specials := rfl, mathDelims := C02.delimsOk_start ctx, groupDelims := by
        intro pr hpr
        have : pr = (['{'], ['}']) := by simpa [startFields] using hpr
        rw [this]; exact ⟨rfl, rfl⟩,
      comment := by simp [startFields], normal := rfl }
  rcases C05_shape_strict ctx hcl s (startFields ctx) hst (fuelFor s) with ⟨p, e, ns, pos, h, _⟩ | ⟨e, h⟩ | h
  · exact absurd (accepted_balanced ctx hc s hv _ _ h k) hk
  · exact ⟨e, h⟩
  · exact absurd h (C06_no_fuel { tol := false, ctx := ctx, s := s } (startFields ctx) (C02.delimsOk_start ctx))

end C05Bal
end Pylx
