/-
  C03SSpec — step 4 of the string-level statement of C03: the position-free renderer on the exact tree of a document
  is the text the documented rules give (`specText`), rule by rule, by induction over the derivation.

  `specOk ctx db d` collects the (decidable) facts about the walker signatures of the macros called in `d` that the
  rules silently rely on (the pylatexenc-1 view `(nodeoptarg, nodeargs)` of the argument list, through which
  `_is_bare_macro_node`, the accent callables and `\item` look at their arguments); `dbOk db` the facts about the text
  database (plain-string replacements are not empty, …).  Both hold for the generated default databases
  (kernel-checked below).
-/
import PylxProofs.C03SRender
namespace Pylx.L2T.C03S
open Pylx Pylx.L2T Pylx.Doc
open Pylx.L2T.C03 (specItems specArgs specFirst flushRun groupRule commentText commentPost macroText formulaText
  fillFormat isBareArgs argWritten nextIsRun coreText coreTextArgs isFormatRepl isLitRepl)

/-! ### results -/

theorem bind_ok {α β : Type} {x : R α} {f : α → R β} {st st1 : St} {a : α} (h : x st = .ok (a, st1)) :
    R.bind x f st = f a st1 := by
  unfold R.bind; rw [h]

theorem renderXList_nil (E : XE) (c : Sls) (prev : Option XNode) (acc : Str) (st : St) :
    renderXList E c prev acc [] st = .ok (acc, st) := by
  rw [renderXList]; rfl

theorem renderXList_cons_ok (E : XE) (c : Sls) (prev : Option XNode) (acc : Str) (n : XNode) (ns : List XNode) (st st1 : St)
    (pre t : Str) (hpre : preOfX E c prev n = .ok pre) (hn : renderXNode E c n st = .ok (t, st1)) :
    renderXList E c prev acc (n :: ns) st = renderXList E c (some n) (acc ++ pre ++ t) ns st1 := by
  rw [renderXList, hpre]
  show R.bind (R.pure pre) _ st = _
  rw [bind_ok (a := pre) (st1 := st) rfl, bind_ok hn]

theorem isBareX_notmac (E : XE) (x : XNode) (h : ∀ n p a, x ≠ .mac n p a) : isBareX E (some x) = .ok false := by
  cases x with
  | mac n p a => exact absurd rfl (h n p a)
  | _ => rfl

theorem preOfX_of_bare (E : XE) (c : Sls) (prev : Option XNode) (b : Bool) (h : isBareX E prev = .ok b) (n : XNode) :
    preOfX E c prev n = .ok (if n.isChars then (if b && !c.mc then postSpaceOfX prev else []) else []) := by
  unfold preOfX
  rw [h]
  cases n.isChars <;> cases b <;> cases c.mc <;> rfl

theorem preOfX_none (E : XE) (c : Sls) (n : XNode) : preOfX E c none n = .ok (if n.isChars then [] else []) := by
  have := preOfX_of_bare E c none false rfl n
  simpa using this

theorem renderX_chars (E : XE) (c : Sls) (ch : Str) (st : St) :
    renderXNode E c (.chars ch) st = .ok (flushRun c (some ch), st) := by
  rw [renderXNode, C03.strip_isEmpty]
  rfl

/-- the pending run of characters as a node -/
def pendRun : Option Str → List XNode
  | none => []
  | some r => [.chars r]

theorem mergeX_pend_barrier (run : Option Str) (x : XNode) (hx : x.isChars = false) (Z : List XNode) :
    mergeX (pendRun run ++ x :: Z) = pendRun run ++ x :: mergeX Z := by
  cases run with
  | none => exact mergeX_nonchars x hx Z
  | some r => exact mergeX_chars_nonchars r x hx Z

theorem mergeX_pend_chars (run : Option Str) (t : Str) (Z : List XNode) :
    mergeX (pendRun run ++ .chars t :: Z) = mergeX (pendRun (some (run.getD [] ++ t)) ++ Z) := by
  cases run with
  | none => rfl
  | some r =>
    show mergeX (.chars r :: .chars t :: Z) = mergeX (.chars (r ++ t) :: Z)
    rw [mergeX_cons, mergeX_cons, mergeX_cons, consX_chars_chars]

theorem mergeX_pend_nil (run : Option Str) : mergeX (pendRun run ++ []) = pendRun run := by
  cases run <;> rfl

/-- the pending run, then a node that is not a chars node -/
theorem flush_step (E : XE) (c : Sls) (prevNode : Option XNode) (bp : Str)
    (hpre : ∀ n, preOfX E c prevNode n = .ok (if n.isChars then bp else []))
    (run : Option Str) (x : XNode) (hx : x.isChars = false) (acc t : Str) (st st1 : St)
    (hnode : renderXNode E c x st = .ok (t, st1)) (rest : List XNode) :
    renderXList E c prevNode acc (pendRun run ++ x :: rest) st =
      renderXList E c (some x) (acc ++ ((if run.isSome then bp else []) ++ (flushRun c run ++ t))) rest st1 := by
  cases run with
  | none =>
    have h1 := hpre x
    rw [hx] at h1
    show renderXList E c prevNode acc (x :: rest) st = _
    rw [renderXList_cons_ok E c prevNode acc x rest st st1 [] t h1 hnode]
    simp [flushRun]
  | some r =>
    have h1 := hpre (.chars r)
    show renderXList E c prevNode acc (.chars r :: x :: rest) st = _
    rw [renderXList_cons_ok E c prevNode acc (.chars r) (x :: rest) st st bp _ h1 (renderX_chars E c r st)]
    have h2 : preOfX E c (some (.chars r)) x = .ok [] := by
      have := preOfX_of_bare E c (some (.chars r)) false rfl x
      rw [this]; simp
    rw [renderXList_cons_ok E c (some (.chars r)) _ x rest st st1 [] t h2 hnode]
    simp [List.append_assoc]

/-! ### one node of each kind -/

theorem group_ok (E : XE) (c : Sls) (o cl : Str) (body : List XNode) (T : Str) (st st1 : St)
    (h : renderXList E c none [] body st = .ok (T, st1)) :
    renderXNode E c (.group o cl (some body)) st = .ok (groupRule E.opts o cl T, st1) := by
  rw [renderXNode, renderXBody, bind_ok h]
  rfl

theorem math_ok (E : XE) (c : Sls) (verb : Str) (k : FKind) (body : List XNode) (T : Str) (st : St)
    (h : renderXList E c.enterEq none [] body st = .ok (T, st)) :
    renderXNode E c (.math verb k.display k.opener k.closer (some body)) st = .ok (formulaText E.opts k (strip T) verb, st) := by
  rw [renderXNode, renderXBody]
  unfold mathText formulaText
  have hm : (E.at verb).opts.mathMode = E.opts.mathMode := rfl
  rw [hm]
  cases E.opts.mathMode with
  | verbatim =>
    simp only [Bool.false_or]
    have : slice (E.at verb).src 0 verb.length = verb := slice_whole verb
    rw [this]
    rfl
  | remove => rfl
  | withDelims =>
    simp only [Bool.false_or]
    rw [bind_ok h]
    rfl
  | text =>
    simp only [Bool.false_or]
    rw [bind_ok h]
    rfl

theorem comment_ok (E : XE) (c : Sls) (text post : Str) (st : St) :
    renderXNode E c (.comment text post) st = .ok (commentText E.opts c text post, st) := by
  rw [renderXNode]
  rfl

/-- the thunks of a macro or specials node -/
def macTh (E : XE) (c : Sls) (args : Option (List XArg)) : Thunks :=
  { noArgd := args.isNone, n := (args.getD []).length, absent := absentAtX (args.getD []),
    each := argsEachOX E c args, single := fun k => singleAtOX E c k args, contents := fun k => contentsAtOX E c k args,
    body := R.pure [], bodyEq := R.pure [], bodyNone := true, matrix := R.pure [] }

theorem mac_unfold (E : XE) (c : Sls) (name post : Str) (args : Option (List XArg)) :
    renderXNode E c (.mac name post args) =
      applySpec (E.at []) ⟨.mac, name, 0, 0⟩ (macTh E c args) ((lookupFirst name E.db.macros).getD ⟨true, true, .none⟩)
        (argsCatOX E c args) := by
  rw [renderXNode]
  rfl

theorem specials_unfold (E : XE) (c : Sls) (ch : Str) (args : Option (List XArg)) :
    renderXNode E c (.specials ch args) =
      match lookupFirst ch E.db.specials with
      | none => R.pure ch
      | some sp => applySpec (E.at []) ⟨.specials, ch, 0, 0⟩ (macTh E c args) sp (argsCatOX E c args) := by
  rw [renderXNode]
  rfl

theorem env_unfold (E : XE) (c : Sls) (verb name : Str) (args : Option (List XArg)) (body : Option (List XNode)) :
    ∃ th, renderXNode E c (.env verb name args body) =
      applySpec (E.at verb) ⟨.env, name, 0, verb.length⟩ th ((lookupFirst name E.db.envs).getD ⟨true, false, .none⟩)
        (renderXBody E c body) := by
  rw [renderXNode]
  exact ⟨_, rfl⟩

/-! ### facts about the databases the rules rely on -/

/-- facts about a text database: a plain-string replacement of a macro is not empty (or the macro is discarded), one of
    a specials is not empty and specials have no callable replacement, an environment without replacement has the
    `discard` attribute, and the paragraph specials is not listed -/
def dbOk (db : TextDb) : Bool :=
  db.macros.all (fun q => match q.2.repl with
    | .lit s => !s.isEmpty || (q.2.hasDiscard && q.2.discard)
    | _ => true) &&
  db.specials.all (fun q => match q.2.repl with
    | .lit s => !s.isEmpty
    | .const _ => false
    | _ => true) &&
  db.envs.all (fun q => match q.2.repl with
    | .none => q.2.hasDiscard
    | _ => true) &&
  (lookupFirst ['\n', '\n'] db.specials).isNone

theorem lookupFirst_mem {α : Type} (k : Str) : ∀ (l : List (Str × α)) (v : α), lookupFirst k l = some v → (k, v) ∈ l
  | [], v, h => by simp [lookupFirst] at h
  | (k', v') :: l, v, h => by
    unfold lookupFirst at h
    by_cases hk : (k' == k) = true
    · simp only [hk, if_true] at h
      have hk' : k' = k := by simpa using hk
      cases h
      rw [hk']
      exact List.mem_cons_self
    · simp only [hk] at h
      exact List.mem_cons_of_mem _ (lookupFirst_mem k l v h)

/-- the pylatexenc-1 view of the argument list of a macro: `(index of the optional argument, index of the first
    mandatory one)` -/
def legacyOfMacro (ctx : Ctx) (name : Str) : Legacy :=
  legacyOf (((ctx.macroSpec name).map argspecOf).getD [])

/-- `_is_bare_macro_node` on the written arguments of a call (`none`: `IndexError`) -/
def bareOf (ctx : Ctx) (name : Str) (args : List ArgVal) : Option Bool :=
  match args with
  | [] => some true
  | l =>
    match (legacyOfMacro ctx name).optIdx with
    | none => some false
    | some k =>
      match l[k]? with
      | none => none
      | some a => some (!argWritten a && (l.drop (legacyOfMacro ctx name).off).isEmpty)

/-- what the rules need of the walker signature of one macro call -/
def macOk (ctx : Ctx) (db : TextDb) (name : Str) (args : List ArgVal) : Bool :=
  bareOf ctx name args == some (isBareArgs args) &&
  (match lookupFirst name db.macros with
   | none => true
   | some sp =>
     match sp.repl with
     | .accent _ => decide (legacyOfMacro ctx name = ⟨none, 0⟩)
     | .item => args.isEmpty || (legacyOfMacro ctx name).optIdx == some 0
     | .fmt _ _ => decide ((((ctx.macroSpec name).map sigLen).getD 0) ≤ args.length)
     | _ => true)

mutual
/-- the decidable side conditions of the rules on a document: per macro call `macOk`; single-character arguments are
    not whitespace -/
def specOk (ctx : Ctx) (db : TextDb) : List Item → Bool
  | [] => true
  | .G b :: tl => specOk ctx db b && specOk ctx db tl
  | .M name _ args :: tl => macOk ctx db name args && specOkArgs ctx db args && specOk ctx db tl
  | .E _ _ body :: tl => specOk ctx db body && specOk ctx db tl
  | .F _ b :: tl => specOk ctx db b && specOk ctx db tl
  | _ :: tl => specOk ctx db tl
def specOkArgs (ctx : Ctx) (db : TextDb) : List ArgVal → Bool
  | [] => true
  | .grp b :: tl => specOk ctx db b && specOkArgs ctx db tl
  | .br b :: tl => specOk ctx db b && specOkArgs ctx db tl
  | .tok c :: tl => !isPySpace c && specOkArgs ctx db tl
  | _ :: tl => specOkArgs ctx db tl
end

/-! ### the arguments of a call -/

theorem specArgs_length (o : Opts) (lib : Lib) (db : TextDb) (c : Sls) : ∀ (args : List ArgVal), (specArgs o lib db c args).length = args.length
  | [] => by simp only [specArgs, List.length_nil]
  | a :: tl => by
    cases a <;> simp only [specArgs, List.length_cons, specArgs_length o lib db c tl]

theorem exactArgs_length (ctx : Ctx) : ∀ (args : List ArgVal), (exactArgs ctx args).length = args.length
  | [] => by simp only [exactArgs, List.length_nil]
  | a :: tl => by
    cases a <;> simp only [exactArgs, List.length_cons, exactArgs_length ctx tl]

/-- an absent slot of the exact argument list is a slot that was not written (on the arguments the core sublanguage
    allows) -/
theorem isAbsentX_exact (ctx : Ctx) (db : TextDb) : ∀ (args : List ArgVal), coreTextArgs db args = true → ∀ (k : Nat) (a : ArgVal),
    args[k]? = some a → ∃ x, (exactArgs ctx args)[k]? = some x ∧ isAbsentX x = !argWritten a
  | [], _, k, a, h => by simp at h
  | b :: tl, hc, 0, a, h => by
    simp only [List.getElem?_cons_zero, Option.some.injEq] at h
    subst h
    cases b <;> first
      | (simp only [exactArgs, List.getElem?_cons_zero]; exact ⟨_, rfl, rfl⟩)
      | (simp [coreTextArgs] at hc; done)
  | b :: tl, hc, k + 1, a, h => by
    have hc' : coreTextArgs db tl = true := by
      cases b <;> first
        | (simp only [coreTextArgs, Bool.and_eq_true] at hc; first | exact hc.2 | exact hc)
        | (simp [coreTextArgs] at hc)
    simp only [List.getElem?_cons_succ] at h
    obtain ⟨x, hx, hax⟩ := isAbsentX_exact ctx db tl hc' k a h
    refine ⟨x, ?_, hax⟩
    cases b <;> simpa only [exactArgs, List.getElem?_cons_succ] using hx

theorem exactArgs_drop_isEmpty (ctx : Ctx) (args : List ArgVal) (n : Nat) :
    ((exactArgs ctx args).drop n).isEmpty = (args.drop n).isEmpty := by
  have h1 : ((exactArgs ctx args).drop n).length = (args.drop n).length := by
    simp only [List.length_drop, exactArgs_length]
  cases h2 : (exactArgs ctx args).drop n with
  | nil =>
    cases h3 : args.drop n with
    | nil => rfl
    | cons _ _ => rw [h2, h3] at h1; simp at h1
  | cons _ _ =>
    cases h3 : args.drop n with
    | nil => rw [h2, h3] at h1; simp at h1
    | cons _ _ => rfl

/-- `_is_bare_macro_node` on the exact node of a call is `bareOf` on its written arguments -/
theorem isBareX_exact (E : XE) (name post : Str) (args : List ArgVal) (hc : coreTextArgs E.db args = true) (b : Bool)
    (h : bareOf E.ctx name args = some b) :
    isBareX E (some (.mac name post (some (exactArgs E.ctx args)))) = .ok b := by
  cases args with
  | nil =>
    simp only [bareOf, Option.some.injEq] at h
    subst h
    simp only [exactArgs]
    rfl
  | cons a tl =>
    have hne : exactArgs E.ctx (a :: tl) ≠ [] := by
      intro e
      have := exactArgs_length E.ctx (a :: tl)
      rw [e] at this
      simp at this
    obtain ⟨x, l, hl⟩ : ∃ x l, exactArgs E.ctx (a :: tl) = x :: l := by
      cases h0 : exactArgs E.ctx (a :: tl) with
      | nil => exact absurd h0 hne
      | cons x l => exact ⟨x, l, rfl⟩
    unfold isBareX
    rw [hl]
    simp only
    rw [← hl]
    have hw : legacyOf (Option.getD (Option.map argspecOf (walkerSpec (E.at []) Kind.mac name)) []) = legacyOfMacro E.ctx name := rfl
    rw [hw]
    simp only [bareOf] at h
    cases hk : (legacyOfMacro E.ctx name).optIdx with
    | none =>
      rw [hk] at h
      simp only [Option.some.injEq] at h
      subst h
      rfl
    | some k =>
      rw [hk] at h
      simp only at h ⊢
      cases hak : (a :: tl)[k]? with
      | none => rw [hak] at h; cases h
      | some a' =>
        rw [hak] at h
        simp only [Option.some.injEq] at h
        obtain ⟨x', hx', hax'⟩ := isAbsentX_exact E.ctx E.db (a :: tl) hc k a' hak
        rw [hx']
        simp only
        rw [hax', exactArgs_drop_isEmpty, h]

theorem strip_getD (o : Option Str) : strip (o.getD []) = strip (o.getD [' ']) := by
  cases o with
  | none => decide
  | some t => rfl

theorem preOfX_nonbare (E : XE) (c : Sls) (x : XNode) (h : ∀ n p a, x ≠ .mac n p a) (n : XNode) :
    preOfX E c (some x) n = .ok (if n.isChars then [] else []) := by
  have := preOfX_of_bare E c (some x) false (isBareX_notmac E x h) n
  simpa using this

end Pylx.L2T.C03S
