/-
  C10 — every node records the mode (text / math, and the opening math delimiter) that the enclosing
  constructs imply.

  The relation (`C10.NodeM` / `ListM` / `OptArgsM` / `ArgListM` / `ArgM`, file C10Lemmas1) says, for the mode
  `cur` handed down by the parent: every node records `cur`; the body of a group is under `cur`; the body of a
  math node opened by `d` is under `{inMath := true, mathDelim := some d}`; argument slot `i` of a call with
  standard argument specifications is under `deltaInfo cur specs[i].delta`; legacy verbatim arguments are
  under `cur`; the body of an environment is under `enterMathInfo` when its specification says so, else `cur`.
  It is parametrised by what is asked of a math node's delimiters (`P dopen dclose display`):
  `ModesOk` asks nothing, `ModesMathOk f` asks `MathCfg f` (the opening delimiter is configured in `f` with
  that closing delimiter and that kind).

  Normalisation: the relation never says "text mode is `{false, none}`" of an inherited mode — a node under
  `Delta.none`, a group body, a verbatim argument records exactly the `cur` it was handed (`psInfo` of the very
  state it ran with), so the theorems hold for every start state, normalised or not (`StartOk` is not used).
  Only the two places where the model itself builds a fresh mode are spelled out: `leaveMath ↦ textInfo`,
  `enterMath ↦ enterMathInfo` (`psInfo_applyDelta`), and `$…$ ↦ mathInfo d` (`psInfo_mathFields`).

  Files: C10Lemmas1 (the relation), C10Lemmas2 (contract `PreX`/`GoodX`, nodes collector; second contract
  `Good2`: a general-nodes parser that returns normally met its stop condition), C10Lemmas3 (the parsers, `step`,
  induction on fuel: `run_goodX`), C10Lemmas4 (where math tokens come from; `MathCfg`; all math nodes of a
  consistent tree), C10Lemmas5 (token-level lemmas: letters, `$`, `$$`, closing delimiter), C10Lemmas6 (the
  parser on `d a d` for a run of letters `a`), this file (the property theorems).

  Results: `C10_modes` (both modes), `C10_math_strict` (strict mode, unconditional), `C10_math_partial`
  (both modes, under `DelimsDisjoint`), `C10_math_counterexample` (the unconditional statement fails in tolerant
  mode), `C10_dollar_closing_wins`, `C10_dollar_display_opens` (token level, every source and position),
  `C10_dollars_inline`, `C10_dollars_display` (all non-empty runs of ASCII letters, both modes).
-/
import PylxProofs.C10Lemmas6
namespace Pylx
open C10

/-- the tree is mode-consistent under the mode `cur` handed down by the parent -/
def ModesOk (ctx : Ctx) (cur : PSInfo) (ns : List Node) : Prop := ListM (fun _ _ _ => True) ctx cur ns

/-- … and every math node's delimiters and kind are those configured in `f` -/
def ModesMathOk (f : PSFields) (ctx : Ctx) (cur : PSInfo) (ns : List Node) : Prop := ListM (MathCfg f) ctx cur ns

/-- **C10 (modes), both modes, any start state.** -/
theorem C10_modes_any (tol : Bool) (ctx : Ctx) (s : Str) (f : PSFields) (n : Nat) (p e : Option Nat) (ns : List Node)
    (pos : Nat) (h : run { tol := tol, ctx := ctx, s := s } n (topTask f) = .ok (.list p e ns) pos) :
    ModesOk ctx (psInfo f) ns := by
  have hg := run_goodX (P := fun _ _ _ => True) (ctx := ctx) (f0 := f) (env := { tol := tol, ctx := ctx, s := s }) rfl
    (fun _ _ _ _ _ _ _ _ _ => trivial) n (topTask f) ⟨SD_refl f, trivial⟩
  rw [h] at hg
  exact hg

/-- **C10 (modes).** Strict and tolerant mode. -/
theorem C10_modes (tol : Bool) (ctx : Ctx) (s : Str) (f : PSFields) (_hf : StartOk ctx f) (n : Nat) (p e : Option Nat)
    (ns : List Node) (pos : Nat)
    (h : run { tol := tol, ctx := ctx, s := s } n (topTask f) = .ok (.list p e ns) pos) :
    ModesOk ctx (psInfo f) ns := C10_modes_any tol ctx s f n p e ns pos h

/-- … as a statement about `parseTop` -/
theorem C10_modes_parseTop (tol : Bool) (ctx : Ctx) (s : Str) (f : PSFields) (hf : StartOk ctx f) (p e : Option Nat)
    (ns : List Node) (pos : Nat) (h : parseTop { tol := tol, ctx := ctx, s := s } f = .ok (.list p e ns) pos) :
    ModesOk ctx (psInfo f) ns := C10_modes tol ctx s f hf _ p e ns pos h

/-- **C10 (modes and delimiters)** under the hypothesis that no string is both an inline and a display delimiter. -/
theorem C10_modes_math (tol : Bool) (ctx : Ctx) (s : Str) (f : PSFields) (hd : DelimsDisjoint f) (n : Nat)
    (p e : Option Nat) (ns : List Node) (pos : Nat)
    (h : run { tol := tol, ctx := ctx, s := s } n (topTask f) = .ok (.list p e ns) pos) :
    ModesMathOk f ctx (psInfo f) ns := by
  have hg := run_goodX (P := MathCfg f) (ctx := ctx) (f0 := f) (env := { tol := tol, ctx := ctx, s := s }) rfl
    (HP_mathCfg f hd tol s) n (topTask f) ⟨SD_refl f, trivial⟩
  rw [h] at hg
  exact hg

/-- **C10 (modes and delimiters), strict mode**: no hypothesis on the delimiter lists. -/
theorem C10_modes_math_strict (ctx : Ctx) (s : Str) (f : PSFields) (n : Nat)
    (p e : Option Nat) (ns : List Node) (pos : Nat)
    (h : run { tol := false, ctx := ctx, s := s } n (topTask f) = .ok (.list p e ns) pos) :
    ModesMathOk f ctx (psInfo f) ns := by
  have hg := run_goodX (P := MathCfg f) (ctx := ctx) (f0 := f) (env := { tol := false, ctx := ctx, s := s }) rfl
    (HP_mathCfg_strict f s) n (topTask f) ⟨SD_refl f, trivial⟩
  rw [h] at hg
  exact hg

/-- **C10 (math), strict mode, full**: every math node anywhere in the result records display / inline and
    the delimiters as configured. -/
theorem C10_math_strict (ctx : Ctx) (s : Str) (f : PSFields) (n : Nat) (p e : Option Nat) (ns : List Node) (pos : Nat)
    (h : run { tol := false, ctx := ctx, s := s } n (topTask f) = .ok (.list p e ns) pos) :
    ∀ m ∈ subnodesList ns, ∀ mp me ps d o c b, m = .math mp me ps d o c b →
      lookupLast o (mathTables f).2.2 = some (c, d) := by
  intro m hm mp me ps d o c b heq
  have h1 := list_math ns _ (C10_modes_math_strict ctx s f n p e ns pos h) m hm
  subst heq
  exact h1

/-- the full statement of `C10_math`: false in tolerant mode for start states in which a string is both an
    inline and a display delimiter (see `C10_math_counterexample`) -/
def C10_math_full : Prop :=
  ∀ (tol : Bool) (ctx : Ctx) (s : Str) (f : PSFields), StartOk ctx f → ∀ (n : Nat) (p e : Option Nat) (ns : List Node)
    (pos : Nat), run { tol := tol, ctx := ctx, s := s } n (topTask f) = .ok (.list p e ns) pos →
    ∀ m ∈ subnodesList ns, ∀ mp me ps d o c b, m = .math mp me ps d o c b →
      lookupLast o (mathTables f).2.2 = some (c, d)

/-- **C10 (math), partial**: every math node anywhere in the result records display / inline and the
    delimiters as configured — provided no string is both an inline and a display delimiter. -/
theorem C10_math_partial (tol : Bool) (ctx : Ctx) (s : Str) (f : PSFields) (hd : DelimsDisjoint f) (n : Nat)
    (p e : Option Nat) (ns : List Node) (pos : Nat)
    (h : run { tol := tol, ctx := ctx, s := s } n (topTask f) = .ok (.list p e ns) pos) :
    ∀ m ∈ subnodesList ns, ∀ mp me ps d o c b, m = .math mp me ps d o c b →
      lookupLast o (mathTables f).2.2 = some (c, d) := by
  intro m hm mp me ps d o c b heq
  have h1 := list_math ns _ (C10_modes_math tol ctx s f hd n p e ns pos h) m hm
  subst heq
  exact h1

/-- … in the vocabulary of the configuration: an inline formula's delimiters are a pair of `inlineDelims`, a
    display formula's a pair of `displayDelims` -/
theorem C10_math_pairs (tol : Bool) (ctx : Ctx) (s : Str) (f : PSFields) (hd : DelimsDisjoint f) (n : Nat)
    (p e : Option Nat) (ns : List Node) (pos : Nat)
    (h : run { tol := tol, ctx := ctx, s := s } n (topTask f) = .ok (.list p e ns) pos) :
    ∀ m ∈ subnodesList ns, ∀ mp me ps d o c b, m = .math mp me ps d o c b →
      (o, c) ∈ (if d then f.displayDelims else f.inlineDelims) := by
  intro m hm mp me ps d o c b heq
  have h1 := C10_math_partial tol ctx s f hd n p e ns pos h m hm mp me ps d o c b heq
  have h2 := lookupLast_mem _ _ _ h1
  simp only [mathTables, List.mem_append, List.mem_map] at h2
  rcases h2 with ⟨pr, hpr, heq2⟩ | ⟨pr, hpr, heq2⟩
  · cases heq2; exact hpr
  · cases heq2; exact hpr

theorem delimsDisjoint_default : DelimsDisjoint {} := by
  intro x h1 h2
  have e1 : flattenPairs ({} : PSFields).inlineDelims = [['$'],['$'],['\\','('],['\\',')']] := rfl
  have e2 : flattenPairs ({} : PSFields).displayDelims = [['$','$'],['$','$'],['\\','['],['\\',']']] := rfl
  rw [e1] at h1; rw [e2] at h2
  simp only [List.mem_cons, List.not_mem_nil, or_false] at h1 h2
  rcases h1 with h | h | h | h <;> subst h <;> revert h2 <;> decide


/-! ### the full statement of `C10_math` fails in tolerant mode -/

/-- a start state in which `$` opens both an inline (`$…$`) and a display (`$…!`) formula -/
def fbad : PSFields := { inlineDelims := [(['$'], ['$'])], displayDelims := [(['$'], ['!'])] }

theorem fbad_start : StartOk {} fbad := ⟨rfl, rfl, by decide, by decide, by decide, rfl⟩

/-- tolerant parsing of `$a!`: the tokenizer calls `$` inline (first match of the sorted table), the closing
    delimiter is looked up in the dictionary of opening delimiters, where the display entry `$ → !` wins; the
    formula is never closed (the stop condition asks for an *inline* token `!`), and recovery returns an
    inline math node with closing delimiter `!` -/
theorem fbad_run : run { tol := true, ctx := {}, s := ['$', 'a', '!'] } 64 (topTask fbad) =
    .ok (.list (some 0) (some 3)
      [.math 0 3 {} false ['$'] ['!'] (some [.chars 1 2 { inMath := true, mathDelim := some ['$'] } ['a']])]) 3 := by
  rfl

theorem C10_math_counterexample : ¬ C10_math_full := by
  intro h
  have h1 := h true {} ['$', 'a', '!'] fbad fbad_start 64 _ _ _ _ fbad_run
    (.math 0 3 {} false ['$'] ['!'] (some [.chars 1 2 { inMath := true, mathDelim := some ['$'] } ['a']]))
    (by simp [subnodesList, Node.subnodes]) _ _ _ _ _ _ _ rfl
  revert h1
  decide

/-! ### non-vacuity -/

/-- `\textbf{a$x$}\ensuremath{y}`, default context: the result exists, so `C10_modes` says something -/
def exampleStr : Str := "\\textbf{a$x$}\\ensuremath{y}".toList

example : ∃ p e ns pos, run { tol := false, ctx := Gen.defaultCtx, s := exampleStr } 300 (topTask f₀) =
    .ok (.list p e ns) pos ∧ ns.length = 2 :=
  ⟨_, _, _, _, rfl, rfl⟩

/-- the theorems apply to it (hypotheses instantiated) -/
example : ∃ ns, (ModesOk Gen.defaultCtx (psInfo f₀) ns ∧ ModesMathOk f₀ Gen.defaultCtx (psInfo f₀) ns) ∧ ns.length = 2 :=
  ⟨_, ⟨C10_modes false Gen.defaultCtx exampleStr f₀ ⟨rfl, rfl, by decide, by decide, by decide, rfl⟩ 300 _ _ _ _ rfl,
    C10_modes_math_strict Gen.defaultCtx exampleStr f₀ 300 _ _ _ _ rfl⟩, rfl⟩

/-- the relation is not trivially true: a text-mode parent does not accept a child recorded in math mode,
    nor a `\\ensuremath` argument recorded in text mode -/
example : ¬ ModesOk Gen.defaultCtx {} [.chars 0 1 { inMath := true } ['a']] := by
  simp [ModesOk, ListM, NodeM]

example : ¬ ModesOk Gen.defaultCtx {}
    [.mac 0 14 {} ['e', 'n', 's', 'u', 'r', 'e', 'm', 'a', 't', 'h'] [] (some [.node (.chars 12 13 {} ['y'])])] := by
  have h : Gen.defaultCtx.macroSpec ['e', 'n', 's', 'u', 'r', 'e', 'm', 'a', 't', 'h'] =
      some (.std [⟨.m, .enterMath⟩]) := by decide
  simp [ModesOk, ListM, NodeM, h, OptArgsM, ArgListM, ArgM, deltaInfo, enterMathInfo]

/-- the hypothesis of `C10_math_partial` holds of the default state -/
example : DelimsDisjoint f₀ := delimsDisjoint_default

example : StartOk Gen.defaultCtx f₀ := ⟨rfl, rfl, by decide, by decide, by decide, rfl⟩

/-! ### dollar runs: the two token-level facts -/

theorem normalize_enMath (f : PSFields) : f.normalize.enMath = f.enMath := by
  unfold PSFields.normalize; split <;> rfl

theorem mkPS_mathStart (f : PSFields) : (mkPS f).t.mathStart = (mathTables f).1 := by
  simp only [mkPS, PState.fresh, computeTables]
  rw [mathTables_congr f.normalize f (normalize_inline f) (normalize_display f)]

/-- the delimiter lists are the default ones -/
def DefaultDelims (f : PSFields) : Prop :=
  f.inlineDelims = ({} : PSFields).inlineDelims ∧ f.displayDelims = ({} : PSFields).displayDelims

theorem mathTables_default {f : PSFields} (h : DefaultDelims f) : mathTables f = mathTables {} :=
  mathTables_congr f {} h.1 h.2

/-- **C10 (dollar runs, i).** In math mode opened by `$`, where the source continues with `$$`, the token is the
    *inline* delimiter `$` of length 1: the expected closing delimiter wins over the longer `$$`.
    For every source and position, every state with the default delimiter lists. -/
theorem C10_dollar_closing_wins (f : PSFields) (hdl : DefaultDelims f) (hm : f.inMath = true)
    (hd : f.mathDelim = some ['$']) (hen : f.enMath = true) (s : Str) (pos : Nat)
    (h : startsWithAt s ['$', '$'] pos = true) :
    peekImpl (mkPS f) s pos =
      .tok { kind := .mathInline, arg := ['$'], pos := pos, posEnd := pos + 1, pre := [], post := [] } := by
  obtain ⟨rest, hr⟩ := drop_of_startsWith _ h
  have hnorm : f.normalize = f := by simp [PSFields.normalize, hm]
  have hec : (mkPS f).t.expectClose = some (['$'], false) := by
    rw [mkPS_expectClose, hnorm, mathTables_default hdl]
    simp only [expectCloseOf, hm, hd]
    decide
  have hms : (mkPS f).t.mathStart.contains '$' = true := by
    rw [mkPS_mathStart, mathTables_default hdl]; decide
  exact peek_close (mkPS f) s pos ['$'] false '$' [] ('$' :: rest) rfl hr (by decide) hms
    (by show f.normalize.enMath = true; rw [normalize_enMath, hen])
    (by show f.normalize.inMath = true; rw [normalize_inMath, hm]) hec

/-- **C10 (dollar runs, ii).** In text mode `$$` is the *display* delimiter `$$` of length 2. -/
theorem C10_dollar_display_opens (f : PSFields) (hdl : DefaultDelims f) (hm : f.inMath = false)
    (hen : f.enMath = true) (s : Str) (pos : Nat) (h : startsWithAt s ['$', '$'] pos = true) :
    peekImpl (mkPS f) s pos =
      .tok { kind := .mathDisplay, arg := ['$', '$'], pos := pos, posEnd := pos + 2, pre := [], post := [] } := by
  obtain ⟨rest, hr⟩ := drop_of_startsWith _ h
  have hms : (mkPS f).t.mathStart.contains '$' = true := by
    rw [mkPS_mathStart, mathTables_default hdl]; decide
  have hall : (mkPS f).t.mathAll = defaultMathAll := by
    rw [mkPS_mathAll, mathTables_default hdl]; decide
  exact peek_text_display (mkPS f) s pos rest hr hms
    (by show f.normalize.enMath = true; rw [normalize_enMath, hen])
    (by show f.normalize.inMath = false; rw [normalize_inMath, hm]) hall

/-- … and a single `$` (followed by something else) the inline delimiter -/
theorem C10_dollar_inline_opens (f : PSFields) (hdl : DefaultDelims f) (hm : f.inMath = false)
    (hen : f.enMath = true) (s : Str) (pos : Nat) (c : Char) (rest : Str) (h : s.drop pos = '$' :: c :: rest)
    (hc : c ≠ '$') :
    peekImpl (mkPS f) s pos =
      .tok { kind := .mathInline, arg := ['$'], pos := pos, posEnd := pos + 1, pre := [], post := [] } := by
  have hms : (mkPS f).t.mathStart.contains '$' = true := by
    rw [mkPS_mathStart, mathTables_default hdl]; decide
  have hall : (mkPS f).t.mathAll = defaultMathAll := by
    rw [mkPS_mathAll, mathTables_default hdl]; decide
  exact peek_text_inline (mkPS f) s pos c rest h hc hms
    (by show f.normalize.enMath = true; rw [normalize_enMath, hen])
    (by show f.normalize.inMath = false; rw [normalize_inMath, hm]) hall

example : peekImpl (mkPS (mathFields f₀ ['$'])) "$a$$b$".toList 2 =
    .tok { kind := .mathInline, arg := ['$'], pos := 2, posEnd := 3 } :=
  C10_dollar_closing_wins (mathFields f₀ ['$']) ⟨rfl, rfl⟩ rfl rfl rfl "$a$$b$".toList 2 (by decide)

example : peekImpl (mkPS f₀) "x$$a$$".toList 1 = .tok { kind := .mathDisplay, arg := ['$', '$'], pos := 1, posEnd := 3 } :=
  C10_dollar_display_opens f₀ ⟨rfl, rfl⟩ rfl rfl "x$$a$$".toList 1 (by decide)

/-! ### dollar runs: the full theorems -/

theorem f₀_default : DefaultDelims f₀ := ⟨rfl, rfl⟩

theorem plain_head {a : Str} (ha : PlainX a) : ∃ x xs, a = x :: xs ∧ x ≠ '$' := by
  obtain ⟨hne, hal⟩ := ha
  cases a with
  | nil => exact absurd rfl hne
  | cons x xs =>
    refine ⟨x, xs, rfl, ?_⟩
    intro e
    have := hal x (by simp)
    rw [e] at this
    revert this; decide

/-- the general-nodes parser at top level, from what its collector returns -/
theorem top_pc (tol : Bool) (s : Str) (n : Nat) (ns : List Node) (q : Nat)
    (h : run (denv tol s) n (.loop f₀ .none .same { pos := 0 }) =
      .loopEnd { nodes := ns, pos := q, stopTok := none, err := none }) :
    run (denv tol s) (n + 1) (topTask f₀) = .ok (listOf ns (some 0) (some 0)) q := by
  rw [run_succ]
  simp only [topTask, step, rawParse]
  unfold rawGeneral
  rw [h]
  simp [retOfLoop, parseContent, StopTok.isSome]

/-- **C10 (dollar runs): `$a$$b$` is two inline formulas**, for all non-empty runs of letters `a`, `b`. -/
theorem C10_dollars_inline (tol : Bool) (a b : Str) (ha : PlainX a) (hb : PlainX b) :
    parseTop { tol := tol, ctx := Gen.defaultCtx, s := ['$'] ++ a ++ ['$', '$'] ++ b ++ ['$'] } f₀ =
      .ok (.list (some 0) (some (a.length + b.length + 4))
        [.math 0 (a.length + 2) {} false ['$'] ['$'] (some [.chars 1 (1 + a.length) (mathInfo ['$']) a]),
         .math (a.length + 2) (a.length + b.length + 4) {} false ['$'] ['$']
           (some [.chars (a.length + 3) (a.length + 3 + b.length) (mathInfo ['$']) b])])
        (a.length + b.length + 4) := by
  generalize hs : ['$'] ++ a ++ ['$', '$'] ++ b ++ ['$'] = s
  have hlen : s.length = a.length + b.length + 4 := by rw [← hs]; simp; omega
  have hd0 : s.drop 0 = ['$'] ++ (a ++ (['$'] ++ ('$' :: (b ++ ['$'])))) := by rw [← hs]; simp
  have hd1 : s.drop (0 + (['$'] ++ (a ++ ['$'])).length) = ['$'] ++ (b ++ (['$'] ++ [])) :=
    drop_add (p := 0) (['$'] ++ (a ++ ['$'])) _ (by rw [← hs]; simp)
  have e1 : 0 + (['$'] ++ (a ++ ['$'])).length = a.length + 2 := by simp
  rw [e1] at hd1
  have hd2 : s.drop (a.length + b.length + 4) = [] := by rw [← hlen]; simp
  obtain ⟨x, xs, hax, hx⟩ := plain_head ha
  obtain ⟨y, ys, hby, hy⟩ := plain_head hb
  have ho0 : peekImpl (mkPS f₀) s 0 = .tok (mathTok 0 [] ['$'] false) :=
    C10_dollar_inline_opens f₀ f₀_default rfl rfl s 0 x _ (by rw [hd0, hax]; rfl) hx
  have ho1 : peekImpl (mkPS f₀) s (a.length + 2) = .tok (mathTok (a.length + 2) [] ['$'] false) :=
    C10_dollar_inline_opens f₀ f₀_default rfl rfl s _ y _ (by rw [hd1, hby]; rfl) hy
  have hD : Dollar ['$'] false := Or.inl ⟨rfl, rfl⟩
  show run (denv tol s) (fuelFor s) (topTask f₀) = _
  obtain ⟨n, hn⟩ : ∃ n, fuelFor s = (n + 1 + 1 + 1) + 1 := ⟨fuelFor s - 4, by unfold fuelFor; omega⟩
  have hn2 : a.length + 3 ≤ n + 1 + 1 ∧ b.length + 3 ≤ n + 1 := by
    unfold fuelFor at hn; omega
  have hloop : run (denv tol s) (n + 1 + 1 + 1) (.loop f₀ .none .same { pos := 0 }) =
      .loopEnd { nodes := [formula 0 ['$'] false a, formula (a.length + 2) ['$'] false b],
                 pos := a.length + b.length + 4, stopTok := none, err := none } := by
    rw [top_formula tol s hD a ha 0 _ [] hd0 ho0 (n + 1 + 1) hn2.1]
    have e2 : 0 + a.length + 2 * ['$'].length = a.length + 2 := by simp
    rw [e2]
    rw [top_formula tol s hD b hb (a.length + 2) _ _ hd1 ho1 (n + 1) hn2.2]
    have e3 : a.length + 2 + b.length + 2 * ['$'].length = a.length + b.length + 4 := by simp; omega
    rw [e3]
    rw [top_eos tol s _ _ hd2 n]
    rfl
  rw [hn, top_pc tol s _ _ _ hloop]
  simp [listOf, formula, Node.pos, Node.posEnd]
  omega

/-- **C10 (dollar runs): `$$a$$` is one display formula**, for every non-empty run of letters `a`. -/
theorem C10_dollars_display (tol : Bool) (a : Str) (ha : PlainX a) :
    parseTop { tol := tol, ctx := Gen.defaultCtx, s := ['$', '$'] ++ a ++ ['$', '$'] } f₀ =
      .ok (.list (some 0) (some (a.length + 4))
        [.math 0 (a.length + 4) {} true ['$', '$'] ['$', '$']
          (some [.chars 2 (2 + a.length) (mathInfo ['$', '$']) a])])
        (a.length + 4) := by
  generalize hs : ['$', '$'] ++ a ++ ['$', '$'] = s
  have hlen : s.length = a.length + 4 := by rw [← hs]; simp
  have hd0 : s.drop 0 = ['$', '$'] ++ (a ++ (['$', '$'] ++ [])) := by rw [← hs]; simp
  have hd2 : s.drop (a.length + 4) = [] := by rw [← hlen]; simp
  have ho0 : peekImpl (mkPS f₀) s 0 = .tok (mathTok 0 [] ['$', '$'] true) :=
    C10_dollar_display_opens f₀ f₀_default rfl rfl s 0 (startsWith_of_drop _ _ hd0)
  have hD : Dollar ['$', '$'] true := Or.inr ⟨rfl, rfl⟩
  show run (denv tol s) (fuelFor s) (topTask f₀) = _
  obtain ⟨n, hn⟩ : ∃ n, fuelFor s = (n + 1 + 1) + 1 := ⟨fuelFor s - 3, by unfold fuelFor; omega⟩
  have hn2 : a.length + 3 ≤ n + 1 := by unfold fuelFor at hn; omega
  have hloop : run (denv tol s) (n + 1 + 1) (.loop f₀ .none .same { pos := 0 }) =
      .loopEnd { nodes := [formula 0 ['$', '$'] true a], pos := a.length + 4, stopTok := none, err := none } := by
    rw [top_formula tol s hD a ha 0 _ [] hd0 ho0 (n + 1) hn2]
    have e2 : 0 + a.length + 2 * ['$', '$'].length = a.length + 4 := by simp
    rw [e2]
    rw [top_eos tol s _ _ hd2 n]
    rfl
  rw [hn, top_pc tol s _ _ _ hloop]
  simp [listOf, formula, Node.pos, Node.posEnd]

example : PlainX "ab".toList := ⟨by decide, by decide⟩


end Pylx
