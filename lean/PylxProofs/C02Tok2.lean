/-
  C02Tok2 — the tokenizer on control words and on math delimiters.
-/
import PylxProofs.C02Tok
namespace Pylx
namespace C02
open Doc

def alphaStr : Str := "abcdefghijklmnopqrstuvwxyzABCDEFGHIJKLMNOPQRSTUVWXYZ".toList

theorem alphaStr_all : alphaStr.all isAsciiAlpha = true := by decide

set_option maxRecDepth 4000 in
theorem contains_of_alpha_aux : ∀ n : Fin 128, isAsciiAlpha (Char.ofNat n.val) = true → alphaStr.contains (Char.ofNat n.val) = true := by
  decide

theorem contains_of_alpha {c : Char} (h : isAsciiAlpha c = true) : alphaStr.contains c = true := by
  have hr := alpha_range h
  have := contains_of_alpha_aux ⟨c.toNat, by omega⟩
  simp only [Char.ofNat_toNat] at this
  exact this h

theorem alpha_of_contains {c : Char} (h : alphaStr.contains c = true) : isAsciiAlpha c = true := by
  have := alphaStr_all
  rw [List.all_eq_true] at this
  exact this c (by simpa using h)

theorem contains_alpha_eq (c : Char) : alphaStr.contains c = isAsciiAlpha c := by
  cases h : isAsciiAlpha c with
  | true => exact contains_of_alpha h
  | false =>
    cases h2 : alphaStr.contains c with
    | false => rfl
    | true => rw [alpha_of_contains h2] at h; cases h

theorem takeWhile_all {P : Char → Bool} {w r : Str} (hw : w.all P = true) (hr : headIs P r = false) :
    (w ++ r).takeWhile P = w := by
  induction w with
  | nil =>
    cases r with
    | nil => rfl
    | cons c r => simp only [headIs] at hr; simp [hr]
  | cons c w ih =>
    simp only [List.all_cons, Bool.and_eq_true] at hw
    simp only [List.cons_append, List.takeWhile, hw.1]
    rw [ih hw.2]

/-- a word that is a prefix of `name ++ x` (letters, then a non-letter) and is not `name` is a proper prefix of `name` -/
theorem word_prefix : ∀ (word name x : Str), word.all isAsciiAlpha = true → name.all isAsciiAlpha = true →
    headIs isAsciiAlpha x = false → name ≠ word → word.isPrefixOf (name ++ x) = true →
    ∃ c more, name = word ++ c :: more ∧ isAsciiAlpha c = true
  | [], name, _, _, hn, _, hne, _ => by
    cases name with
    | nil => exact absurd rfl hne
    | cons c more =>
      simp only [List.all_cons, Bool.and_eq_true] at hn
      exact ⟨c, more, rfl, hn.1⟩
  | a :: word, [], x, hw, _, hx, _, hp => by
    simp only [List.all_cons, Bool.and_eq_true] at hw
    cases x with
    | nil => simp [List.isPrefixOf] at hp
    | cons b x =>
      simp only [List.nil_append, List.isPrefixOf, Bool.and_eq_true, beq_iff_eq] at hp
      simp only [headIs] at hx
      rw [← hp.1, hw.1] at hx; cases hx
  | a :: word, b :: name, x, hw, hn, hx, hne, hp => by
    simp only [List.all_cons, Bool.and_eq_true] at hw hn
    simp only [List.cons_append, List.isPrefixOf, Bool.and_eq_true, beq_iff_eq] at hp
    obtain ⟨c, more, h1, h2⟩ := word_prefix word name x hw.2 hn.2 hx (by
      intro e; apply hne; rw [hp.1, e]) hp.2
    exact ⟨c, more, by rw [hp.1, h1]; rfl, h2⟩

section macrotok
variable {keys : List Str} {ee m : Bool} {br : Xp} {ex : Option (Str × Bool)} {ps : PState} {s : Str} {p : Nat}

theorem notFollowed_false (hps : PSStd keys ee m ex br ps) {q : Nat} {c : Char} (h : s[q]? = some c) (hc : isAsciiAlpha c = true) :
    notFollowedByAlpha ps s q = false := by
  unfold notFollowedByAlpha
  rw [h, hps.alpha]
  simp only
  have := contains_of_alpha hc
  unfold alphaStr at this
  rw [this]; rfl

theorem envWordAt_none (hps : PSStd keys ee m ex br ps) {name x : Str} (hd1 : s.drop (p + 1) = name ++ x)
    (hname : name.all isAsciiAlpha = true) (hx : headIs isAsciiAlpha x = false)
    (hb : name ≠ "begin".toList) (he : name ≠ "end".toList) : envWordAt ps s p = none := by
  unfold envWordAt envWord
  cases hee : ps.f.enEnvs with
  | false => simp
  | true =>
    simp only [if_true]
    rw [startsWithAt_of_drop hd1, startsWithAt_of_drop hd1]
    by_cases h1 : ("begin".toList).isPrefixOf (name ++ x) = true
    · rw [if_pos h1]
      simp only
      obtain ⟨c, more, hn, hc⟩ := word_prefix _ name x (by decide) hname hx hb h1
      have hd2 : s.drop (p + 1) = "begin".toList ++ (c :: (more ++ x)) := by rw [hd1, hn]; simp
      have := notFollowed_false hps (getElem?_of_drop (drop_add_of_drop hd2)) hc
      have e : p + 1 + "begin".toList.length = p + 1 + envWordLen true := rfl
      rw [e] at this
      rw [this]; rfl
    · rw [if_neg h1]
      by_cases h2 : ("end".toList).isPrefixOf (name ++ x) = true
      · rw [if_pos h2]
        simp only
        obtain ⟨c, more, hn, hc⟩ := word_prefix _ name x (by decide) hname hx he h2
        have hd2 : s.drop (p + 1) = "end".toList ++ (c :: (more ++ x)) := by rw [hd1, hn]; simp
        have := notFollowed_false hps (getElem?_of_drop (drop_add_of_drop hd2)) hc
        have e : p + 1 + "end".toList.length = p + 1 + envWordLen false := rfl
        rw [e] at this
        rw [this]; rfl
      · rw [if_neg h2]

/-- no math delimiter starts at a backslash followed by a letter -/
theorem readMath_none_word (hps : PSStd keys ee m ex br ps) (hex : ex = none ∨ ∃ k : FKind, ex = some (k.closer, k.display))
    {c0 : Char} {x pre : Str} (hd : s.drop p = '\\' :: c0 :: x) (hc0 : isAsciiAlpha c0 = true) :
    readMath ps s p pre = none := by
  have n1 : c0 ≠ '(' := by intro e; subst e; revert hc0; decide
  have n2 : c0 ≠ ')' := by intro e; subst e; revert hc0; decide
  have n3 : c0 ≠ '[' := by intro e; subst e; revert hc0; decide
  have n4 : c0 ≠ ']' := by intro e; subst e; revert hc0; decide
  have h1 : startsWithAt s ['\\', '('] p = false := by rw [startsWithAt_of_drop hd]; simp [List.isPrefixOf, Ne.symm n1]
  have h2 : startsWithAt s ['\\', ')'] p = false := by rw [startsWithAt_of_drop hd]; simp [List.isPrefixOf, Ne.symm n2]
  have h3 : startsWithAt s ['\\', '['] p = false := by rw [startsWithAt_of_drop hd]; simp [List.isPrefixOf, Ne.symm n3]
  have h4 : startsWithAt s ['\\', ']'] p = false := by rw [startsWithAt_of_drop hd]; simp [List.isPrefixOf, Ne.symm n4]
  have h5 : startsWithAt s ['$'] p = false := by rw [startsWithAt_of_drop hd]; simp [List.isPrefixOf]
  have h6 : startsWithAt s ['$', '$'] p = false := by rw [startsWithAt_of_drop hd]; simp [List.isPrefixOf]
  have hg : readMathGeneral ps s p pre = none := by
    unfold readMathGeneral
    rw [hps.all]
    simp only [stdMathAll, List.find?_cons, h1, h2, h3, h4, h5, h6, List.find?_nil, Option.map_none]
  unfold readMath
  rw [hps.expect]
  rcases hex with h | ⟨k, h⟩
  · rw [h]; simp only [hg, ite_self]
  · rw [h]
    have : startsWithAt s k.closer p = false := by cases k <;> assumption
    simp only [this, Bool.false_eq_true, if_false, hg, ite_self]

/-- no math delimiter starts at a backslash followed by something that is not a parenthesis or a bracket -/
theorem readMath_none_esc (hps : PSStd keys ee m ex br ps) (hex : ex = none ∨ ∃ k : FKind, ex = some (k.closer, k.display))
    {c0 : Char} {x pre : Str} (hd : s.drop p = '\\' :: c0 :: x) (n1 : c0 ≠ '(') (n2 : c0 ≠ ')') (n3 : c0 ≠ '[') (n4 : c0 ≠ ']') :
    readMath ps s p pre = none := by
  have h1 : startsWithAt s ['\\', '('] p = false := by rw [startsWithAt_of_drop hd]; simp [List.isPrefixOf, Ne.symm n1]
  have h2 : startsWithAt s ['\\', ')'] p = false := by rw [startsWithAt_of_drop hd]; simp [List.isPrefixOf, Ne.symm n2]
  have h3 : startsWithAt s ['\\', '['] p = false := by rw [startsWithAt_of_drop hd]; simp [List.isPrefixOf, Ne.symm n3]
  have h4 : startsWithAt s ['\\', ']'] p = false := by rw [startsWithAt_of_drop hd]; simp [List.isPrefixOf, Ne.symm n4]
  have h5 : startsWithAt s ['$'] p = false := by rw [startsWithAt_of_drop hd]; simp [List.isPrefixOf]
  have h6 : startsWithAt s ['$', '$'] p = false := by rw [startsWithAt_of_drop hd]; simp [List.isPrefixOf]
  have hg : readMathGeneral ps s p pre = none := by
    unfold readMathGeneral
    rw [hps.all]
    simp only [stdMathAll, List.find?_cons, h1, h2, h3, h4, h5, h6, List.find?_nil, Option.map_none]
  unfold readMath
  rw [hps.expect]
  rcases hex with h | ⟨k, h⟩
  · rw [h]; simp only [hg, ite_self]
  · rw [h]
    have : startsWithAt s k.closer p = false := by cases k <;> assumption
    simp only [this, Bool.false_eq_true, if_false, hg, ite_self]

/-- a control symbol: a backslash and one character that is not a letter (and not a parenthesis or bracket) -/
theorem peekAtChar_macro1 (hps : PSStd keys ee m ex br ps) (hex : ex = none ∨ ∃ k : FKind, ex = some (k.closer, k.display))
    {c0 : Char} {x pre : Str} (hd : s.drop p = '\\' :: c0 :: x) (ha : isAsciiAlpha c0 = false)
    (n1 : c0 ≠ '(') (n2 : c0 ≠ ')') (n3 : c0 ≠ '[') (n4 : c0 ≠ ']') :
    peekAtChar ps s p '\\' pre = .tok { kind := TokKind.macro, arg := [c0], pos := p, posEnd := p + 2, pre := pre } := by
  have hd1 : s.drop (p + 1) = c0 :: x := drop_succ_of_drop hd
  have hb : c0 ≠ 'b' := by intro e; subst e; revert ha; decide
  have he : c0 ≠ 'e' := by intro e; subst e; revert ha; decide
  have hew : envWordAt ps s p = none := by
    unfold envWordAt envWord
    cases hee : ps.f.enEnvs with
    | false => simp
    | true =>
      simp only [if_true]
      rw [startsWithAt_of_drop hd1, startsWithAt_of_drop hd1]
      have e1 : List.isPrefixOf "begin".toList (c0 :: x) = false := by simp [List.isPrefixOf, Ne.symm hb]
      have e2 : List.isPrefixOf "end".toList (c0 :: x) = false := by simp [List.isPrefixOf, Ne.symm he]
      simp only [e1, e2, Bool.false_eq_true, if_false]
  unfold peekAtChar
  rw [hps.ms, hps.emath]
  have e0 : stdMathStart.contains '\\' = true := by decide
  rw [e0]
  simp only [Bool.and_self, if_true]
  rw [readMath_none_esc hps hex hd n1 n2 n3 n4]
  simp only
  unfold peekEscape
  rw [hps.esc]
  simp only [beq_self_eq_true, if_true]
  rw [hew]
  simp only
  rw [hps.em]
  simp only [if_true]
  unfold readMacro
  rw [getElem?_of_drop hd1]
  simp only
  rw [hps.alpha]
  have hc0 := contains_alpha_eq c0
  unfold alphaStr at hc0
  rw [hc0, ha]
  simp only [Bool.false_eq_true, if_false]

/-- a control word; `post` is whatever the tokenizer takes as the post-space behind it -/
theorem peekAtChar_macro_gen (hps : PSStd keys ee m ex br ps) (hex : ex = none ∨ ∃ k : FKind, ex = some (k.closer, k.display))
    {c0 : Char} {name' X post pre : Str} (hd : s.drop p = '\\' :: ((c0 :: name') ++ X))
    (hname : (c0 :: name').all isAsciiAlpha = true) (hnext : headIs isAsciiAlpha X = false)
    (hpost : postSpaceAt s (p + 2 + name'.length) = post)
    (hb : (c0 :: name') ≠ "begin".toList) (he : (c0 :: name') ≠ "end".toList) :
    peekAtChar ps s p '\\' pre = .tok { kind := TokKind.macro, arg := (c0 :: name'), pos := p, posEnd := p + 1 + (c0 :: name').length + post.length, pre := pre, post := post } := by
  have hname' := hname
  simp only [List.all_cons, Bool.and_eq_true] at hname'
  have hd1 : s.drop (p + 1) = (c0 :: name') ++ X := drop_succ_of_drop hd
  have hd2 : s.drop (p + 2) = name' ++ X := drop_succ_of_drop (p := p + 1) (by simpa using hd1)
  unfold peekAtChar
  rw [hps.ms, hps.emath]
  have e0 : stdMathStart.contains '\\' = true := by decide
  rw [e0]
  simp only [Bool.and_self, if_true]
  rw [readMath_none_word hps hex (by simpa using hd) hname'.1]
  simp only
  unfold peekEscape
  rw [hps.esc]
  simp only [beq_self_eq_true, if_true]
  rw [envWordAt_none hps hd1 hname hnext hb he]
  simp only
  rw [hps.em]
  simp only [if_true]
  unfold readMacro
  rw [getElem?_of_drop (by simpa using hd1 : s.drop (p + 1) = c0 :: (name' ++ X))]
  simp only
  rw [hps.alpha]
  have hc0 := contains_of_alpha hname'.1
  unfold alphaStr at hc0
  rw [hc0]
  simp only [if_true]
  have htw : List.takeWhile (fun x => "abcdefghijklmnopqrstuvwxyzABCDEFGHIJKLMNOPQRSTUVWXYZ".toList.contains x) (s.drop (p + 2)) = name' := by
    rw [hd2]
    have e : (fun x => "abcdefghijklmnopqrstuvwxyzABCDEFGHIJKLMNOPQRSTUVWXYZ".toList.contains x) = isAsciiAlpha := by
      funext c; exact contains_alpha_eq c
    rw [e]
    exact takeWhile_all hname'.2 hnext
  rw [htw, hpost]
  simp only [List.length_cons]
  congr 2
  omega

/-- a control word with its post-space -/
theorem peekAtChar_macro (hps : PSStd keys ee m ex br ps) (hex : ex = none ∨ ∃ k : FKind, ex = some (k.closer, k.display))
    {c0 : Char} {name' post r pre : Str} (hd : s.drop p = '\\' :: ((c0 :: name') ++ (post ++ r)))
    (hname : (c0 :: name').all isAsciiAlpha = true) (hnext : headIs isAsciiAlpha (post ++ r) = false)
    (hws : isWs post = true) (hnl : countNl post < 2) (hr : headIs isPySpace r = false)
    (hb : (c0 :: name') ≠ "begin".toList) (he : (c0 :: name') ≠ "end".toList) :
    peekAtChar ps s p '\\' pre = .tok { kind := TokKind.macro, arg := (c0 :: name'), pos := p, posEnd := p + 1 + (c0 :: name').length + post.length, pre := pre, post := post } := by
  have hd1 : s.drop (p + 1) = (c0 :: name') ++ (post ++ r) := drop_succ_of_drop hd
  have hd2 : s.drop (p + 2) = name' ++ (post ++ r) := drop_succ_of_drop (p := p + 1) (by simpa using hd1)
  have hd3 : s.drop (p + 2 + name'.length) = post ++ r := drop_add_of_drop hd2
  exact peekAtChar_macro_gen hps hex hd hname hnext (postSpaceAt_of_drop hd3 hws hnl hr) hb he

/-- a control word in front of a paragraph break: no post-space -/
theorem peekAtChar_macro_par (hps : PSStd keys ee m ex br ps) (hex : ex = none ∨ ∃ k : FKind, ex = some (k.closer, k.display))
    {c0 : Char} {name' R pre : Str} (hd : s.drop p = '\\' :: ((c0 :: name') ++ R))
    (hname : (c0 :: name').all isAsciiAlpha = true) (hpar : parStart R = true)
    (hb : (c0 :: name') ≠ "begin".toList) (he : (c0 :: name') ≠ "end".toList) :
    peekAtChar ps s p '\\' pre = .tok { kind := TokKind.macro, arg := (c0 :: name'), pos := p, posEnd := p + 1 + (c0 :: name').length, pre := pre, post := [] } := by
  have hd1 : s.drop (p + 1) = (c0 :: name') ++ R := drop_succ_of_drop hd
  have hd2 : s.drop (p + 2) = name' ++ R := drop_succ_of_drop (p := p + 1) (by simpa using hd1)
  have hd3 : s.drop (p + 2 + name'.length) = R := drop_add_of_drop hd2
  have hnext : headIs isAsciiAlpha R = false := by
    unfold parStart at hpar
    simp only [Bool.and_eq_true, beq_iff_eq] at hpar
    cases R with
    | nil => rfl
    | cons c R =>
      have hc : c = '\n' := by simpa using hpar.1
      subst hc
      rfl
  exact peekAtChar_macro_gen hps hex hd hname hnext (postSpaceAt_par hd3 hpar) hb he

end macrotok

/-! ### `\begin{name}` / `\end{name}` -/

section envtok
variable {keys : List Str} {m : Bool} {br : Xp} {ex : Option (Str × Bool)} {ps : PState} {s : Str} {p : Nat}

theorem readEnvName_of_drop {q : Nat} {name r : Str} (hd : s.drop q = '{' :: (name ++ '}' :: r)) (hne : name ≠ [])
    (hall : name.all isEnvNameChar = true) : readEnvName s q = some (name, q + 1 + name.length + 1) := by
  unfold readEnvName
  have hsr : spaceRun s q = [] := spaceRun_of_drop (w := []) hd rfl (by simp [headIs]; decide)
  simp only [hsr, List.length_nil, Nat.add_zero]
  rw [getElem?_of_drop hd]
  simp only
  have hd1 : s.drop (q + 1) = name ++ '}' :: r := drop_succ_of_drop hd
  have htw : List.takeWhile isEnvNameChar (s.drop (q + 1)) = name := by
    rw [hd1]
    exact takeWhile_all hall (by simp [headIs]; decide)
  rw [htw]
  have hne' : name.isEmpty = false := by
    cases name with
    | nil => exact absurd rfl hne
    | cons c n => rfl
  rw [hne']
  simp only [Bool.false_eq_true, if_false]
  rw [getElem?_of_drop (drop_add_of_drop hd1)]
  rfl

/-- `\begin{name}` (`b = true`) or `\end{name}` (`b = false`) where environments are enabled -/
theorem peekAtChar_env (hps : PSStd keys true m ex br ps) (hex : ex = none ∨ ∃ k : FKind, ex = some (k.closer, k.display))
    (b : Bool) {name r pre : Str} (hd : s.drop p = '\\' :: (envWordStr b ++ '{' :: (name ++ '}' :: r))) (hne : name ≠ [])
    (hall : name.all isEnvNameChar = true) :
    peekAtChar ps s p '\\' pre =
      .tok { kind := if b then TokKind.beginEnv else TokKind.endEnv, arg := name, pos := p,
             posEnd := p + 1 + envWordLen b + 1 + name.length + 1, pre := pre } := by
  have hd1 : s.drop (p + 1) = envWordStr b ++ '{' :: (name ++ '}' :: r) := drop_succ_of_drop hd
  have hd2 : s.drop (p + 1 + envWordLen b) = '{' :: (name ++ '}' :: r) := by
    have := drop_add_of_drop hd1
    cases b <;> exact this
  have hrm : readMath ps s p pre = none := by
    cases b
    · exact readMath_none_word (c0 := 'e') (x := "nd".toList ++ '{' :: (name ++ '}' :: r)) hps hex hd (by decide)
    · exact readMath_none_word (c0 := 'b') (x := "egin".toList ++ '{' :: (name ++ '}' :: r)) hps hex hd (by decide)
  have hew : envWordAt ps s p = some b := by
    unfold envWordAt envWord
    rw [hps.ee]
    simp only [if_true]
    rw [startsWithAt_of_drop hd1, startsWithAt_of_drop hd1]
    have hnf : ∀ q, s.drop q = '{' :: (name ++ '}' :: r) → notFollowedByAlpha ps s q = true := by
      intro q hq
      unfold notFollowedByAlpha
      rw [getElem?_of_drop hq, hps.alpha]
      decide
    cases b with
    | true =>
      have : List.isPrefixOf "begin".toList (envWordStr true ++ '{' :: (name ++ '}' :: r)) = true := by
        simp [envWordStr, List.isPrefixOf]
      rw [this]
      simp only [if_true]
      rw [hnf _ hd2]
      rfl
    | false =>
      have h1 : List.isPrefixOf "begin".toList (envWordStr false ++ '{' :: (name ++ '}' :: r)) = false := by
        simp [envWordStr, List.isPrefixOf]
      have h2 : List.isPrefixOf "end".toList (envWordStr false ++ '{' :: (name ++ '}' :: r)) = true := by
        simp [envWordStr, List.isPrefixOf]
      rw [h1, h2]
      simp only [Bool.false_eq_true, if_false, if_true]
      rw [hnf _ hd2]
      rfl
  unfold peekAtChar
  rw [hps.ms, hps.emath]
  have e0 : stdMathStart.contains '\\' = true := by decide
  rw [e0]
  simp only [Bool.and_self, if_true]
  rw [hrm]
  simp only
  unfold peekEscape
  rw [hps.esc]
  simp only [beq_self_eq_true, if_true]
  rw [hew]
  simp only
  unfold readEnvironment
  rw [readEnvName_of_drop hd2 hne hall]

end envtok

/-! ### specials -/

theorem testSpecials_drop (keys : List Str) (s : Str) (q : Nat) : testSpecials keys s q = testSpecials keys (s.drop q) 0 := by
  unfold testSpecials
  congr 1

theorem specialsHead_ne {c : Char} (h : specialsHeadOk c = true) :
    isPySpace c = false ∧ c ≠ '\\' ∧ c ≠ '%' ∧ c ≠ '{' ∧ c ≠ '}' ∧ c ≠ '$' ∧ c ≠ '[' ∧ c ≠ ']' := by
  unfold specialsHeadOk at h
  simp only [Bool.and_eq_true, Bool.not_eq_eq_eq_not, Bool.not_true, bne_iff_ne, ne_eq] at h
  obtain ⟨⟨⟨⟨⟨⟨⟨⟨⟨⟨⟨h1, h2⟩, h3⟩, h4⟩, h5⟩, h6⟩, h7⟩, h8⟩, _⟩, _⟩, _⟩, _⟩ := h
  exact ⟨h1, h2, h3, h4, h5, h6, h7, h8⟩

theorem specialsHead_not_xdelim {c : Char} (h : specialsHeadOk c = true) : isXDelim c = false := by
  cases hx : isXDelim c with
  | false => rfl
  | true =>
    exfalso
    unfold isXDelim at hx
    simp only [Bool.or_eq_true, beq_iff_eq] at hx
    rcases hx with ((((hx | hx) | hx) | hx) | hx) | hx <;> (subst hx; revert h; decide)

section specialstok
variable {keys : List Str} {ee m : Bool} {br : Xp} {ex : Option (Str × Bool)} {ps : PState} {s : Str} {p : Nat}

/-- a specials string of the context -/
theorem peekAtChar_specials (hps : PSStd keys ee m ex br ps) (hx : XpOk br) {c : Char} {name' rest pre : Str}
    (hd : s.drop p = (c :: name') ++ rest) (hc : specialsHeadOk c = true)
    (hts : testSpecials keys ((c :: name') ++ rest) 0 = some (c :: name')) :
    peekAtChar ps s p c pre = .tok { kind := .specials, arg := c :: name', pos := p, posEnd := p + (c :: name').length, pre := pre } := by
  obtain ⟨_, h2, h3, h4, h5, h6, h7, h8⟩ := specialsHead_ne hc
  have hd' : s.drop p = c :: (name' ++ rest) := by simpa using hd
  rw [peekAtChar_toGroups hps hd' h6 h2 h3]
  unfold peekGroups
  rw [hps.eg, hps.go, hps.gc]
  have h6x := ne_xp_of_not_xdelim hx (specialsHead_not_xdelim hc)
  have e5 : (brPairs br).any (fun d => d.1 == [c]) = false := by
    rcases br with _ | ⟨o, c'⟩
    · simp [brPairs, Ne.symm h4]
    · simp [brPairs, Ne.symm h4, Ne.symm (h6x o c' rfl).1]
  have e6 : ((brPairs br).map (·.2)).any (fun d => d == [c]) = false := by
    rcases br with _ | ⟨o, c'⟩
    · simp [brPairs, Ne.symm h5]
    · simp [brPairs, Ne.symm h5, Ne.symm (h6x o c' rfl).2]
  simp only [e5, e6, if_true, Bool.false_eq_true, if_false]
  unfold peekSpecialsOrChar
  rw [hps.hc, hps.es, hps.sp]
  simp only [Bool.and_self, if_true]
  rw [testSpecials_drop, hd, hts]

end specialstok

/-! ### math delimiters -/

section math
variable {keys : List Str} {ee : Bool} {br : Xp} {ex : Option (Str × Bool)} {ps : PState} {s : Str} {p : Nat}

theorem isPrefixOf_append_self (a b : Str) : a.isPrefixOf (a ++ b) = true := by
  induction a with
  | nil => rfl
  | cons c a ih => simp [List.isPrefixOf, ih]

/-- an opening math delimiter outside math mode -/
theorem peekAtChar_mathOpen (hps : PSStd keys ee false ex br ps) (k : FKind) {r pre : Str} (hd : s.drop p = k.opener ++ r)
    (hdollar : k = .dollar → headIs (· == '$') r = false) {c : Char} (hc : k.opener.head? = some c) :
    peekAtChar ps s p c pre = .tok (mathTok p pre k.opener k.display) := by
  unfold peekAtChar
  rw [hps.ms, hps.emath]
  have e0 : stdMathStart.contains c = true := by
    cases k <;> (simp only [FKind.opener, List.head?_cons, Option.some.injEq] at hc; subst hc; decide)
  rw [e0]
  simp only [Bool.and_self, if_true]
  have : readMath ps s p pre = some (mathTok p pre k.opener k.display) := by
    unfold readMath
    rw [hps.inMath]
    simp only [Bool.false_eq_true, if_false]
    unfold readMathGeneral
    rw [hps.all]
    cases k with
    | dollar =>
      have hr := hdollar rfl
      cases r with
      | nil => simp [stdMathAll, startsWithAt, hd, FKind.opener, FKind.display, List.isPrefixOf]
      | cons d r =>
        simp only [headIs, beq_eq_false_iff_ne, ne_eq] at hr
        have hr' : ¬ '$' = d := fun e => hr e.symm
        simp [stdMathAll, startsWithAt, hd, FKind.opener, FKind.display, List.isPrefixOf, hr']
    | ddollar => simp [stdMathAll, startsWithAt, hd, FKind.opener, FKind.display, List.isPrefixOf]
    | paren => simp [stdMathAll, startsWithAt, hd, FKind.opener, FKind.display, List.isPrefixOf]
    | brack => simp [stdMathAll, startsWithAt, hd, FKind.opener, FKind.display, List.isPrefixOf]
  rw [this]

/-- the closing delimiter a math-mode state waits for -/
theorem peekAtChar_mathClose (k : FKind) (hps : PSStd keys ee true (some (k.closer, k.display)) br ps) {r pre : Str}
    (hd : s.drop p = k.closer ++ r) {c : Char} (hc : k.closer.head? = some c) :
    peekAtChar ps s p c pre = .tok (mathTok p pre k.closer k.display) := by
  unfold peekAtChar
  rw [hps.ms, hps.emath]
  have e0 : stdMathStart.contains c = true := by
    cases k <;> (simp only [FKind.closer, List.head?_cons, Option.some.injEq] at hc; subst hc; decide)
  rw [e0]
  simp only [Bool.and_self, if_true]
  have : readMath ps s p pre = some (mathTok p pre k.closer k.display) := by
    unfold readMath
    rw [hps.inMath, hps.expect]
    simp only [if_true]
    rw [startsWithAt_of_drop hd, isPrefixOf_append_self]
    simp only [if_true]
  rw [this]

end math

end C02
end Pylx
