/-
  C08, all strings — the exact parse of the source of a document of the encoder-output grammar, and `latex_to_text` of
  that source as the position-free renderer on the exact tree:

  * `doc_exact`: for every context satisfying the decidable `ctxOk` and `keysBad` (the default context does) and every
    well-formed, specials-safe document `d`, the tolerant parse that `latex_to_text` runs on `unI d` returns a node list
    whose exact position-free tree is `exactC d = mergeX (xW [] d)`.
  * `latexToText_doc`: `latexToTextWith opts db ctx lib (unI d) = renderX ⟨opts, db, ctx, lib⟩ (exactC d)`.
-/
import PylxProofs.C08FReach
namespace Pylx.C08.Full
open Pylx Pylx.C02 Pylx.L2T Pylx.L2T.C03S Pylx.C13.Full

theorem doc_evX {ctx : Ctx} (hctx : ctxOk ctx = true) (hkb : keysBad badChars (Doc.ctxKeys ctx) = true) (d : List CItem)
    (hwf : cwfI ctx false none none d = true) (hsf : safeI badChars d = true) :
    ∃ a b ns pos, Ev { tol := false, ctx := ctx, s := unI d } (topTask (Doc.startFields ctx)) (.ok (.list a b ns) pos) ∧
      eraseNodes (unI d) ns = exactC d := by
  have S := setup_of_ctxOk hctx (unI d)
  obtain ⟨tr, n, w', ⟨st', hp, hs, hcan, hkk⟩, hdrop, hw', hn', hm⟩ :=
    (reachX_all S hkb (szI d + 1)).1 d (Nat.lt_succ_self _) false none none [] hwf hsf (by intro c h; cases h) rfl trivial none
      (fun _ => rfl) .none .same (fun t _ => rfl) (fun _ t _ => rfl) { pos := 0 } [] rfl (by simp)
  have hd' : (unI d).drop st'.pos = w' := by
    rw [hp]; simpa using hdrop
  obtain ⟨e, he, hsh, hce, herr, hst, hpos⟩ := loopX_eos_ws (child := .same)
    (env := { tol := false, ctx := ctx, s := unI d }) rfl (stdF (Doc.ctxKeys ctx) false none true) (st := st') hd' hw' hn'
  have htop := general_of_loop_top (env := { tol := false, ctx := ctx, s := unI d }) rfl (hkk _ he) herr hst
  obtain ⟨p, q, hlist⟩ := listOf_eq e.nodes (some 0) (some 0)
  rw [hlist] at htop
  refine ⟨p, q, e.nodes, e.pos, htop, ?_⟩
  have hcan' := hce (hcan (canon_start _ 0))
  rw [← hcan', hsh]
  unfold exactC
  have e1 : mergeX (shX (unI d) st') = mergeX tr := by rw [hs]; rfl
  rw [mergeX_append_left e1, hm]
  rfl

/-- **the exact parse** (strict mode) -/
theorem doc_exact_strict {ctx : Ctx} (hctx : ctxOk ctx = true) (hkb : keysBad badChars (Doc.ctxKeys ctx) = true) (d : List CItem)
    (hwf : cwfI ctx false none none d = true) (hsf : safeI badChars d = true) :
    ∃ a b ns pos, Doc.parseStrict ctx (unI d) = .ok (.list a b ns) pos ∧ eraseNodes (unI d) ns = exactC d := by
  obtain ⟨a, b, ns, pos, ⟨N, hN⟩, hx⟩ := doc_evX hctx hkb d hwf hsf
  refine ⟨a, b, ns, pos, ?_, hx⟩
  show run { tol := false, ctx := ctx, s := unI d } (fuelFor (unI d)) (topTask (Doc.startFields ctx)) = _
  by_cases hle : N ≤ fuelFor (unI d)
  · exact hN _ hle
  · have hnf := C06_no_fuel { tol := false, ctx := ctx, s := unI d } (Doc.startFields ctx) (delimsOk_start ctx)
    have := run_mono { tol := false, ctx := ctx, s := unI d } (fuelFor (unI d)) N (topTask (Doc.startFields ctx)) hnf (by omega)
    rw [← this]
    exact hN N (Nat.le_refl _)

/-- **the exact parse** (the tolerant parse `latex_to_text` runs): no error, no recovery, and the exact position-free tree
    of the result is `exactC d` -/
theorem doc_exact {ctx : Ctx} (hctx : ctxOk ctx = true) (hkb : keysBad badChars (Doc.ctxKeys ctx) = true) (d : List CItem)
    (hwf : cwfI ctx false none none d = true) (hsf : safeI badChars d = true) :
    ∃ a b ns pos, parseTop { tol := true, ctx := ctx, s := unI d } (L2T.startFields ctx) = .ok (.list a b ns) pos ∧
      eraseNodes (unI d) ns = exactC d := by
  obtain ⟨a, b, ns, pos, hp, hx⟩ := doc_exact_strict hctx hkb d hwf hsf
  exact ⟨a, b, ns, pos, C06_agree_top ctx (unI d) (Doc.startFields ctx) _ _ hp, hx⟩

/-- `latex_to_text` of the source of a document is the position-free renderer on its exact tree -/
theorem latexToText_doc (opts : Opts) (db : TextDb) (lib : Lib) {ctx : Ctx} (hctx : ctxOk ctx = true)
    (hkb : keysBad badChars (Doc.ctxKeys ctx) = true) (d : List CItem)
    (hwf : cwfI ctx false none none d = true) (hsf : safeI badChars d = true) :
    latexToTextWith opts db ctx lib (unI d) = renderX ⟨opts, db, ctx, lib⟩ (exactC d) := by
  obtain ⟨a, b, ns, pos, hp, hx⟩ := doc_exact hctx hkb d hwf hsf
  unfold latexToTextWith
  rw [hp]
  simp only
  rw [render_eq_renderX, hx]

set_option maxRecDepth 100000 in
theorem default_keysBad : keysBad badChars (Doc.ctxKeys Gen.defaultCtx) = true := by decide +kernel

/-! ### non-vacuity -/

/-- `\'e~ a{\i}`, a paragraph break, `$x$` -/
def exD : List CItem :=
  [.mac ['\''] [] [.tok 'e'], .ch '~', .ch ' ', .ch 'a', .grp [.mac ['i'] [] []], .ch '\n', .ch '\n', .math [.ch 'x']]

set_option maxRecDepth 100000 in
/-- the hypotheses of `doc_exact` on a concrete document, and its exact tree -/
theorem exD_hyps : cwfI Gen.defaultCtx false none none exD = true ∧ safeI badChars exD = true ∧
    showXList (exactC exD) =
      showXList [.mac ['\''] [] (some [.node (.chars ['e'])]), .specials ['~'] (some []), .chars [' ', 'a'],
        .group ['{'] ['}'] (some [.mac ['i'] [] (some [])]), .specials ['\n', '\n'] (some []),
        .math ['$', 'x', '$'] false ['$'] ['$'] (some [.chars ['x']])] := by
  refine ⟨by decide +kernel, by decide +kernel, by decide +kernel⟩

/-- `doc_exact` instantiated on that document with the default context -/
example : ∃ a b ns pos, parseTop ⟨true, Gen.defaultCtx, unI exD⟩ (L2T.startFields Gen.defaultCtx) = .ok (.list a b ns) pos ∧
    eraseNodes (unI exD) ns = exactC exD :=
  doc_exact C13.defaultCtx_ok default_keysBad exD exD_hyps.1 exD_hyps.2.1

#print axioms doc_exact
#print axioms latexToText_doc

end Pylx.C08.Full
