/-
  C18 — node-list splitting and key-value parsing are order-preserving partitions.
  Theorems about `Pylx.Split` (model of LatexNodeList.split_at_chars / split_at_node /
  parse_keyval_content).
-/
import Pylx.Split
namespace Pylx
namespace Split

/-! ### Lists, slices -/

theorem verb_append (a b : List Item) : verb (a ++ b) = verb a ++ verb b := by
  induction a with
  | nil => rfl
  | cons x r ih => simp [verb, ih]

theorem segsText_append (a b : List Seg) : segsText (a ++ b) = segsText a ++ segsText b := by
  induction a with
  | nil => rfl
  | cons x r ih => simp [segsText, ih]

theorem partsOf_append (a b : List Seg) : partsOf (a ++ b) = partsOf a ++ partsOf b := by
  induction a with
  | nil => rfl
  | cons x r ih => cases x <;> simp [partsOf, ih]

theorem sepsOf_append (a b : List Seg) : sepsOf (a ++ b) = sepsOf a ++ sepsOf b := by
  induction a with
  | nil => rfl
  | cons x r ih => cases x <;> simp [sepsOf, ih]

theorem segItems_append (a b : List Seg) : segItems (a ++ b) = segItems a ++ segItems b := by
  induction a with
  | nil => rfl
  | cons x r ih => cases x <;> simp [segItems, ih]

theorem slice_drop (t : Str) {a b : Nat} (h : a ≤ b) : slice t a b ++ t.drop b = t.drop a := by
  unfold slice
  have : t.drop b = (t.drop a).drop (b - a) := by
    rw [List.drop_drop]; congr 1; omega
  rw [this, List.take_append_drop]

theorem slice_length (t : Str) {a b : Nat} (h : a ≤ b) (hb : b ≤ t.length) : (slice t a b).length = b - a := by
  unfold slice
  simp only [List.length_take, List.length_drop]
  omega

theorem goodMatch_iff (text : Str) (prev s e : Nat) :
    goodMatch text prev s e = true ↔ prev ≤ s ∧ s ≤ e ∧ prev < e ∧ e ≤ text.length := by
  simp [goodMatch, and_assoc]

/-! ### Tiling: an item list laid out contiguously from `a` to `b` -/

/-- every node starts where the previous one ends; a chars node is as long as its text, an
    opaque node as long as its verbatim text; `None` entries have no extent -/
def Tiles : Nat → List Item → Nat → Prop
  | a, [], b => a = b
  | a, .none :: r, b => Tiles a r b
  | a, .chars p t :: r, b => p = a ∧ Tiles (a + t.length) r b
  | a, .opq p e t _ :: r, b => p = a ∧ e = a + t.length ∧ Tiles e r b

theorem Tiles_append {a c : Nat} {l1 l2 : List Item} :
    Tiles a (l1 ++ l2) c ↔ ∃ b, Tiles a l1 b ∧ Tiles b l2 c := by
  induction l1 generalizing a with
  | nil => simp [Tiles]
  | cons x r ih =>
    cases x with
    | none => simp only [List.cons_append, Tiles, ih]
    | chars p t =>
      simp only [List.cons_append, Tiles, ih]
      constructor
      · rintro ⟨h, b, h1, h2⟩; exact ⟨b, ⟨h, h1⟩, h2⟩
      · rintro ⟨b, ⟨h, h1⟩, h2⟩; exact ⟨h, b, h1, h2⟩
    | opq p e t k =>
      simp only [List.cons_append, Tiles, ih]
      constructor
      · rintro ⟨h, h', b, h1, h2⟩; exact ⟨b, ⟨h, h', h1⟩, h2⟩
      · rintro ⟨b, ⟨h, h', h1⟩, h2⟩; exact ⟨h, h', b, h1, h2⟩

/-- a tiling list spans exactly as many positions as its verbatim text is long -/
theorem Tiles_length {a b : Nat} {l : List Item} (h : Tiles a l b) : b = a + (verb l).length := by
  induction l generalizing a with
  | nil => simp [Tiles] at h; simp [verb, h]
  | cons x r ih =>
    cases x with
    | none => simp only [Tiles] at h; simpa [verb, Item.text] using ih h
    | chars p t =>
      simp only [Tiles] at h
      have := ih h.2
      simp [verb, Item.text]; omega
    | opq p e t k =>
      simp only [Tiles] at h
      have := ih h.2.2
      simp [verb, Item.text]; omega

def AllNone (l : List Item) : Prop := ∀ it ∈ l, it = Item.none

theorem firstPos_of_Tiles {a b : Nat} {l : List Item} (h : Tiles a l b) :
    firstPos l = some a ∨ (firstPos l = none ∧ AllNone l) := by
  induction l generalizing a with
  | nil => right; exact ⟨rfl, by intro it hit; cases hit⟩
  | cons x r ih =>
    cases x with
    | none =>
      simp only [Tiles] at h
      rcases ih h with h1 | ⟨h1, h2⟩
      · left; simpa [firstPos] using h1
      · right; refine ⟨by simpa [firstPos] using h1, ?_⟩
        intro it hit
        rcases List.mem_cons.mp hit with rfl | hr
        · rfl
        · exact h2 it hr
    | chars p t => simp only [Tiles] at h; left; simp [firstPos, h.1]
    | opq p e t k => simp only [Tiles] at h; left; simp [firstPos, h.1]

/-- a returned part `P` covers exactly `a..b`: its `pos_end` is `b`, its nodes tile `a..b`, and its `pos`
    is `a` (or `None` when it consists of `None` entries only, which have no position) -/
def PartOK (a : Nat) (P : Part) (b : Nat) : Prop :=
  P.posEnd = some b ∧ Tiles a P.items b ∧
  (P.pos = some a ∨ (P.pos = none ∧ P.items ≠ [] ∧ AllNone P.items))

theorem mkPart_ok {a b : Nat} {l : List Item} (h : Tiles a l b) : PartOK a (mkPart l (some b)) b := by
  refine ⟨rfl, h, ?_⟩
  cases l with
  | nil => simp only [Tiles] at h; left; simp [mkPart, h]
  | cons x r =>
    rcases firstPos_of_Tiles h with h1 | ⟨h1, h2⟩
    · left; simp [mkPart, h1]
    · right; exact ⟨by simp [mkPart, h1], by simp [mkPart], h2⟩

/-- the trace lays parts and separators out contiguously from `a` to `b` -/
def SegsTile : Nat → List Seg → Nat → Prop
  | a, [], b => a = b
  | a, .part P :: r, b => ∃ m, PartOK a P m ∧ SegsTile m r b
  | a, .sep s t :: r, b => s = a ∧ SegsTile (a + t.length) r b

theorem SegsTile_append {a c : Nat} {l1 l2 : List Seg} :
    SegsTile a (l1 ++ l2) c ↔ ∃ b, SegsTile a l1 b ∧ SegsTile b l2 c := by
  induction l1 generalizing a with
  | nil => simp [SegsTile]
  | cons x r ih =>
    cases x with
    | part P =>
      simp only [List.cons_append, SegsTile, ih]
      constructor
      · rintro ⟨m, h, b, h1, h2⟩; exact ⟨b, ⟨m, h, h1⟩, h2⟩
      · rintro ⟨b, ⟨m, h, h1⟩, h2⟩; exact ⟨m, h, b, h1, h2⟩
    | sep s t =>
      simp only [List.cons_append, SegsTile, ih]
      constructor
      · rintro ⟨h, b, h1, h2⟩; exact ⟨b, ⟨h, h1⟩, h2⟩
      · rintro ⟨b, ⟨h, h1⟩, h2⟩; exact ⟨h, b, h1, h2⟩

/-- the non-chars entries (opaque nodes and `None`s), in order -/
def nonChars (l : List Item) : List Item := l.filter (fun it => !it.isChars)

theorem nonChars_append (a b : List Item) : nonChars (a ++ b) = nonChars a ++ nonChars b := by
  simp [nonChars]

/-! ### One scanning step -/

def emitOf (ke : Bool) (nodes : List Item) (pe : Nat) (sepSeg : Seg) : List Seg :=
  if !nodes.isEmpty || ke then [Seg.part (mkPart nodes (some pe)), sepSeg] else [sepSeg]

def nodesOf (pos : Nat) (text : Str) (prev s : Nat) (st : St) : List Item :=
  if prev = 0 then
    (if (slice text prev s).isEmpty then st.pending else st.pending ++ [Item.chars (pos + prev) (slice text prev s)])
  else
    (if (slice text prev s).isEmpty then [] else [Item.chars (pos + prev) (slice text prev s)])

theorem stepMatch_fst (ke : Bool) (pos : Nat) (text : Str) (prev s e : Nat) (st : St) :
    (stepMatch ke pos text prev s e st).1
      = emitOf ke (nodesOf pos text prev s st) (pos + s) (Seg.sep (pos + s) (slice text s e)) := by
  unfold stepMatch emitOf nodesOf
  by_cases h0 : prev = 0
  · simp only [h0, if_true]; split <;> split <;> simp_all
  · simp only [h0, if_false]; split <;> split <;> simp_all

theorem stepMatch_pending (ke : Bool) (pos : Nat) (text : Str) (prev s e : Nat) (st : St) :
    (stepMatch ke pos text prev s e st).2.pending = if prev = 0 then [] else st.pending := by
  unfold stepMatch
  by_cases h0 : prev = 0
  · simp only [h0, if_true]; split <;> split <;> simp_all
  · simp only [h0, if_false]; split <;> split <;> simp_all

theorem stepMatch_nsplit (ke : Bool) (pos : Nat) (text : Str) (prev s e : Nat) (st : St) :
    (stepMatch ke pos text prev s e st).2.nsplit = st.nsplit + 1 := by
  unfold stepMatch
  by_cases h0 : prev = 0
  · simp only [h0, if_true]; split <;> split <;> simp_all
  · simp only [h0, if_false]; split <;> split <;> simp_all

theorem stepMatch_kept (ke : Bool) (pos : Nat) (text : Str) (prev s e : Nat) (st : St) :
    (stepMatch ke pos text prev s e st).2.kept
      = st.kept + (if !(nodesOf pos text prev s st).isEmpty || ke then 1 else 0) := by
  unfold stepMatch nodesOf
  by_cases h0 : prev = 0
  · simp only [h0, if_true]; split <;> split <;> simp_all
  · simp only [h0, if_false]; split <;> split <;> simp_all

theorem isEmpty_false_of_append_singleton (l : List Item) (x : Item) : (l ++ [x]).isEmpty = false := by
  cases l <;> rfl

theorem nodesOf_spec (pos : Nat) (text : Str) (prev s e : Nat) (st : St) (a : Nat)
    (hg : goodMatch text prev s e = true) (ht : Tiles a st.pending (pos + prev))
    (hp : prev ≠ 0 → st.pending = []) :
    Tiles a (nodesOf pos text prev s st) (pos + s) ∧
    verb (nodesOf pos text prev s st) = verb st.pending ++ slice text prev s ∧
    nonChars (nodesOf pos text prev s st) = nonChars st.pending := by
  obtain ⟨h1, h2, _, h3⟩ := (goodMatch_iff _ _ _ _).mp hg
  have hplen : (slice text prev s).length = s - prev := slice_length text h1 (by omega)
  have hch : Tiles (pos + prev) [Item.chars (pos + prev) (slice text prev s)] (pos + s) := by
    simp only [Tiles, hplen]; exact ⟨trivial, by omega⟩
  unfold nodesOf
  by_cases h0 : prev = 0
  · simp only [h0, if_true]
    rw [h0] at ht hplen hch
    split
    · rename_i hpe
      have hnil : slice text 0 s = [] := by simpa using hpe
      have hs0 : s = 0 := by rw [hnil] at hplen; simp at hplen; omega
      exact ⟨by simpa [hs0] using ht, by simp [hnil], rfl⟩
    · exact ⟨Tiles_append.mpr ⟨pos + 0, ht, hch⟩, by simp [verb_append, verb, Item.text],
        by simp [nonChars, Item.isChars]⟩
  · have hpn := hp h0
    rw [hpn] at ht; simp only [Tiles] at ht
    simp only [h0, if_false]
    split
    · rename_i hpe
      have hnil : slice text prev s = [] := by simpa using hpe
      have hs0 : s = prev := by rw [hnil] at hplen; simp at hplen; omega
      exact ⟨by simp only [Tiles]; omega, by simp [hnil, hpn, verb], by simp [hpn, nonChars]⟩
    · exact ⟨by rw [ht]; exact hch, by simp [verb, Item.text, hpn], by simp [hpn, nonChars, Item.isChars]⟩

theorem emitOf_spec (ke : Bool) (nodes : List Item) (a pe : Nat) (t : Str) (ht : Tiles a nodes pe) :
    SegsTile a (emitOf ke nodes pe (Seg.sep pe t)) (pe + t.length) ∧
    segsText (emitOf ke nodes pe (Seg.sep pe t)) = verb nodes ++ t ∧
    nonChars (segItems (emitOf ke nodes pe (Seg.sep pe t))) = nonChars nodes := by
  unfold emitOf
  split
  · exact ⟨⟨pe, mkPart_ok ht, rfl, rfl⟩, by simp [segsText, Seg.text, mkPart], by simp [segItems, mkPart]⟩
  · rename_i hfl
    have hn : nodes = [] := by
      cases nodes with
      | nil => rfl
      | cons x r => simp at hfl
    subst hn
    simp only [Tiles] at ht
    exact ⟨⟨ht.symm, by simp [SegsTile, ht]⟩, by simp [segsText, Seg.text, verb], by simp [segItems, nonChars]⟩

theorem stepMatch_spec (ke : Bool) (pos : Nat) (text : Str) (prev s e : Nat) (st : St) (a : Nat)
    (hg : goodMatch text prev s e = true) (ht : Tiles a st.pending (pos + prev))
    (hp : prev ≠ 0 → st.pending = []) :
    SegsTile a (stepMatch ke pos text prev s e st).1 (pos + e) ∧
    (stepMatch ke pos text prev s e st).2.pending = [] ∧
    segsText (stepMatch ke pos text prev s e st).1 = verb st.pending ++ slice text prev e ∧
    nonChars (segItems (stepMatch ke pos text prev s e st).1) = nonChars st.pending := by
  obtain ⟨h1, h2, _, h3⟩ := (goodMatch_iff _ _ _ _).mp hg
  have hlen : (slice text s e).length = e - s := slice_length text h2 h3
  have hse : slice text prev s ++ slice text s e = slice text prev e := by
    unfold slice
    have : (text.drop s) = (text.drop prev).drop (s - prev) := by
      rw [List.drop_drop]; congr 1; omega
    rw [this]
    have h4 : e - prev = (s - prev) + (e - s) := by omega
    rw [h4, List.take_add]
  obtain ⟨n1, n2, n3⟩ := nodesOf_spec pos text prev s e st a hg ht hp
  obtain ⟨e1, e2, e3⟩ := emitOf_spec ke _ a (pos + s) (slice text s e) n1
  rw [stepMatch_fst, stepMatch_pending]
  refine ⟨?_, ?_, ?_, ?_⟩
  · have : pos + s + (slice text s e).length = pos + e := by omega
    rw [this] at e1; exact e1
  · by_cases h0 : prev = 0
    · simp [h0]
    · simp [h0, hp h0]
  · rw [e2, n2, List.append_assoc, hse]
  · rw [e3, n3]

theorem stepTail_spec (pos : Nat) (text : Str) (prev : Nat) (st : St) (a : Nat)
    (hle : prev ≤ text.length) (ht : Tiles a st.pending (pos + prev)) (hp : prev ≠ 0 → st.pending = []) :
    Tiles a (stepTail pos text prev st).pending (pos + text.length) ∧
    verb (stepTail pos text prev st).pending = verb st.pending ++ text.drop prev ∧
    nonChars (stepTail pos text prev st).pending = nonChars st.pending := by
  by_cases h0 : prev = 0
  · subst h0
    simp only [stepTail, if_true]
    refine ⟨Tiles_append.mpr ⟨pos + 0, ht, ?_⟩, ?_, ?_⟩
    · simp only [Tiles]; exact ⟨by omega, by omega⟩
    · simp [verb_append, verb, Item.text]
    · simp [nonChars, Item.isChars]
  · have hpn := hp h0
    rw [hpn] at ht; simp only [Tiles] at ht
    by_cases hpe : (text.drop prev).isEmpty = true
    · have hnil : text.drop prev = [] := by simpa using hpe
      have : text.length ≤ prev := by simpa using hnil
      simp only [stepTail, if_neg h0, hpe, if_true, hpn]
      refine ⟨?_, ?_, ?_⟩
      · simp only [Tiles]; omega
      · simp [verb, hnil]
      · trivial
    · simp only [stepTail, if_neg h0, hpe, hpn, Bool.false_eq_true, ↓reduceIte]
      refine ⟨?_, by simp [verb, Item.text], by simp [nonChars, Item.isChars]⟩
      simp only [List.nil_append, Tiles, List.length_drop]
      exact ⟨by omega, by omega⟩

/-! ### The loop over one chars node -/

theorem charLoop_spec (c : Cfg) (pos : Nat) (text : Str) :
    ∀ (fuel prev : Nat) (st : St) (segs : List Seg) (st' : St) (a : Nat),
      charLoop c pos text fuel prev st = .ok (segs, st') →
      prev ≤ text.length → Tiles a st.pending (pos + prev) → (prev ≠ 0 → st.pending = []) →
      (∃ b, SegsTile a segs b ∧ Tiles b st'.pending (pos + text.length)) ∧
      segsText segs ++ verb st'.pending = verb st.pending ++ text.drop prev ∧
      nonChars (segItems segs) ++ nonChars st'.pending = nonChars st.pending := by
  intro fuel
  induction fuel with
  | zero => intro prev st segs st' a h; simp [charLoop] at h
  | succ fuel ih =>
    intro prev st segs st' a h hle ht hp
    simp only [charLoop] at h
    cases hnx : nextSplit c st text prev with
    | error err => simp [hnx] at h
    | ok o =>
      cases o with
      | none =>
        simp only [hnx, Except.ok.injEq, Prod.mk.injEq] at h
        obtain ⟨rfl, rfl⟩ := h
        obtain ⟨t1, t2, t3⟩ := stepTail_spec pos text prev st a hle ht hp
        exact ⟨⟨a, by simp [SegsTile], t1⟩, by simpa [segsText] using t2, by simpa [segItems, nonChars] using t3⟩
      | some se =>
        obtain ⟨s, e⟩ := se
        simp only [hnx] at h
        by_cases hg : goodMatch text prev s e = true
        · simp only [hg, if_true] at h
          obtain ⟨g1, g2, g4, g3⟩ := (goodMatch_iff _ _ _ _).mp hg
          obtain ⟨t1, t2, t3, t4⟩ := stepMatch_spec c.keepEmpty pos text prev s e st a hg ht hp
          cases hrec : charLoop c pos text fuel e (stepMatch c.keepEmpty pos text prev s e st).2 with
          | error err => simp [hrec] at h
          | ok r =>
            obtain ⟨segs1, st1⟩ := r
            simp only [hrec, Except.ok.injEq, Prod.mk.injEq] at h
            obtain ⟨rfl, rfl⟩ := h
            have hi := ih e _ segs1 st1 (pos + e) hrec g3 (by rw [t2]; simp [Tiles]) (fun _ => t2)
            obtain ⟨⟨b, i1, i2⟩, i3, i4⟩ := hi
            refine ⟨⟨b, SegsTile_append.mpr ⟨pos + e, t1, i1⟩, i2⟩, ?_, ?_⟩
            · rw [segsText_append, List.append_assoc, i3, t3, t2]
              simp only [verb, List.nil_append, List.append_assoc]
              rw [slice_drop text (by omega : prev ≤ e)]
            · rw [segItems_append, nonChars_append, List.append_assoc, i4, t4, t2]; simp [nonChars]
        · simp [hg] at h

/-! ### The loop over the node list -/

/-- the entries `split_at_chars` looks at: with `skip_none`, `None` entries are dropped -/
def keptItems (skipNone : Bool) (l : List Item) : List Item := l.filter (fun it => !(skipNone && it.isNone))

theorem outer_spec (c : Cfg) (q : Nat) :
    ∀ (items : List Item) (st : St) (tr : List Seg) (a b : Nat),
      outer c (some q) items st = .ok tr → Tiles a st.pending b → Tiles b items q →
      SegsTile a tr q ∧ segsText tr = verb st.pending ++ verb items ∧
      nonChars (segItems tr) = nonChars st.pending ++ nonChars (keptItems c.skipNone items) := by
  intro items
  induction items with
  | nil =>
    intro st tr a b h ht hq
    simp only [Tiles] at hq; subst hq
    simp only [outer, Except.ok.injEq] at h
    subst h
    by_cases hfl : (!st.pending.isEmpty || c.keepEmpty) = true
    · simp only [hfl, if_true]
      exact ⟨⟨b, mkPart_ok ht, rfl⟩, by simp [segsText, Seg.text, mkPart, verb], by simp [segItems, mkPart, keptItems, nonChars]⟩
    · have hpn : st.pending = [] := by
        cases hpd : st.pending with
        | nil => rfl
        | cons x r => simp [hpd] at hfl
      rw [hpn] at ht; simp only [Tiles] at ht
      simp only [hfl]
      exact ⟨by simpa [SegsTile] using ht, by simp [segsText, hpn, verb], by simp [segItems, hpn, keptItems, nonChars]⟩
  | cons x r ih =>
    intro st tr a b h ht hq
    cases x with
    | none =>
      simp only [Tiles] at hq
      simp only [outer] at h
      by_cases hs : c.skipNone = true
      · simp only [hs, if_true] at h
        obtain ⟨i1, i2, i3⟩ := ih st tr a b h ht hq
        exact ⟨i1, by simpa [verb, Item.text] using i2, by simpa [keptItems, hs, Item.isNone] using i3⟩
      · simp only [hs] at h
        obtain ⟨i1, i2, i3⟩ := ih _ tr a b h (Tiles_append.mpr ⟨b, ht, by simp [Tiles]⟩) hq
        refine ⟨i1, by simpa [verb, verb_append, Item.text] using i2, ?_⟩
        simp only [Bool.not_eq_true] at hs
        simpa [keptItems, hs, nonChars, Item.isChars] using i3
    | chars p t =>
      simp only [Tiles] at hq
      obtain ⟨rfl, hq⟩ := hq
      simp only [outer] at h
      cases hcl : charLoop c p t (t.length + 1) 0 st with
      | error err => simp [hcl] at h
      | ok rr =>
        obtain ⟨segs, st1⟩ := rr
        simp only [hcl] at h
        cases hout : outer c (some q) r st1 with
        | error err => simp [hout] at h
        | ok t2 =>
          simp only [hout, Except.ok.injEq] at h; subst h
          obtain ⟨⟨m, c1, c2⟩, c3, c4⟩ := charLoop_spec c p t _ 0 st segs st1 a hcl (Nat.zero_le _) (by simpa using ht) (by simp)
          obtain ⟨i1, i2, i3⟩ := ih st1 t2 m _ hout c2 hq
          refine ⟨SegsTile_append.mpr ⟨m, c1, i1⟩, ?_, ?_⟩
          · rw [segsText_append, i2, ← List.append_assoc, c3]; simp [verb, Item.text]
          · rw [segItems_append, nonChars_append, i3, ← List.append_assoc, c4]
            simp [keptItems, nonChars, Item.isNone, Item.isChars]
    | opq p e t k =>
      simp only [Tiles] at hq
      obtain ⟨rfl, rfl, hq⟩ := hq
      simp only [outer] at h
      obtain ⟨i1, i2, i3⟩ := ih _ tr a _ h (Tiles_append.mpr ⟨p, ht, by simp [Tiles]⟩) hq
      refine ⟨i1, by simpa [verb, verb_append, Item.text] using i2, ?_⟩
      simpa [keptItems, nonChars, Item.isNone, Item.isChars] using i3

/-! ### Partition and positions -/

theorem SegsTile_length {a b : Nat} {l : List Seg} (h : SegsTile a l b) : b = a + (segsText l).length := by
  induction l generalizing a with
  | nil => simp only [SegsTile] at h; simp [segsText, h]
  | cons x r ih =>
    cases x with
    | part P =>
      simp only [SegsTile] at h
      obtain ⟨m, hP, hr⟩ := h
      have h1 := Tiles_length hP.2.1
      have h2 := ih hr
      simp [segsText, Seg.text]; omega
    | sep s t =>
      simp only [SegsTile] at h
      have h2 := ih h.2
      simp [segsText, Seg.text]; omega

/-- **C18_partition.**  For every item list that tiles `p..q`, every matcher, both variants and every
    option set: whenever the split returns, the trace (parts in order with the consumed separators between
    them) spells the list's source text, it is laid out contiguously from `p` to `q` with every part at the
    span of the text it carries (`SegsTile`/`PartOK`), and the non-chars entries of the parts are exactly
    the list's non-chars entries, in order — no opaque node is split, lost, duplicated or reordered.
    What Python returns is `partsOf tr`. -/
theorem C18_partition (c : Cfg) (items : List Item) (p q : Nat) (tr : List Seg)
    (ht : Tiles p items q) (h : splitTrace c (some q) items = .ok tr) :
    splitChars c (some q) items = .ok (partsOf tr) ∧
    segsText tr = verb items ∧ SegsTile p tr q ∧
    nonChars (segItems tr) = nonChars (keptItems c.skipNone items) := by
  obtain ⟨h1, h2, h3⟩ := outer_spec c q items _ tr p p h (by simp [Tiles]) ht
  exact ⟨by simp [splitChars, h], by simpa [verb] using h2, h1, by simpa [nonChars] using h3⟩

/-- position of a part inside the trace: it starts after all the text that precedes it -/
theorem C18_part_position {a q : Nat} {l1 l2 : List Seg} {P : Part} (h : SegsTile a (l1 ++ Seg.part P :: l2) q) :
    PartOK (a + (segsText l1).length) P (a + (segsText l1).length + (verb P.items).length) := by
  obtain ⟨b, h1, h2⟩ := SegsTile_append.mp h
  simp only [SegsTile] at h2
  obtain ⟨m, hP, _⟩ := h2
  have e1 := SegsTile_length h1
  have e2 := Tiles_length hP.2.1
  rw [← e1, ← e2]; exact hP

/-- position of a node inside a part: a chars node produced by the split starts after all the text
    that precedes it in the part (and, being a chars node, ends `|text|` later) -/
theorem C18_node_position {a b : Nat} {l1 l2 : List Item} {p : Nat} {t : Str}
    (h : Tiles a (l1 ++ Item.chars p t :: l2) b) : p = a + (verb l1).length := by
  obtain ⟨m, h1, h2⟩ := Tiles_append.mp h
  simp only [Tiles] at h2
  have := Tiles_length h1
  omega

theorem C18_opaque_position {a b : Nat} {l1 l2 : List Item} {p e : Nat} {t : Str} {k : OKind}
    (h : Tiles a (l1 ++ Item.opq p e t k :: l2) b) : p = a + (verb l1).length ∧ e = p + t.length := by
  obtain ⟨m, h1, h2⟩ := Tiles_append.mp h
  simp only [Tiles] at h2
  have := Tiles_length h1
  omega

/-! ### keep_empty only filters -/

def keepSeg : Seg → Bool
  | .part P => !P.items.isEmpty
  | .sep _ _ => true

def dropEmpty (l : List Seg) : List Seg := l.filter keepSeg

def RelKE : Except Err (List Seg × St) → Except Err (List Seg × St) → Prop
  | .error e1, .error e2 => e1 = e2
  | .ok (sF, stF), .ok (sT, stT) => sF = dropEmpty sT ∧ stF.pending = stT.pending ∧ stF.nsplit = stT.nsplit
  | _, _ => False

def RelO : Except Err (List Seg) → Except Err (List Seg) → Prop
  | .error e1, .error e2 => e1 = e2
  | .ok f, .ok t => f = dropEmpty t
  | _, _ => False

theorem nodesOf_congr (pos : Nat) (text : Str) (prev s : Nat) (st st' : St) (h : st.pending = st'.pending) :
    nodesOf pos text prev s st = nodesOf pos text prev s st' := by
  unfold nodesOf; rw [h]

theorem emitOf_dropEmpty (nodes : List Item) (pe : Nat) (a : Nat) (t : Str) :
    emitOf false nodes pe (Seg.sep a t) = dropEmpty (emitOf true nodes pe (Seg.sep a t)) := by
  unfold emitOf dropEmpty
  cases nodes <;> simp [List.filter, keepSeg, mkPart]

theorem stepTail_pending_congr (pos : Nat) (text : Str) (prev : Nat) (st st' : St) (h : st.pending = st'.pending) :
    (stepTail pos text prev st).pending = (stepTail pos text prev st').pending := by
  unfold stepTail; split <;> simp [h]

theorem stepTail_nsplit (pos : Nat) (text : Str) (prev : Nat) (st : St) :
    (stepTail pos text prev st).nsplit = st.nsplit := by
  unfold stepTail; split <;> rfl

theorem stepTail_kept (pos : Nat) (text : Str) (prev : Nat) (st : St) :
    (stepTail pos text prev st).kept = st.kept := by
  unfold stepTail; split <;> rfl

section KeepEmpty
variable (cF cT : Cfg) (hm : cF.m = cT.m) (hv : cF.v = cT.v) (hF : cF.keepEmpty = false) (hT : cT.keepEmpty = true)
  (hs : cF.skipNone = cT.skipNone)
  (hl : ∀ k k' n, limitReached cF k n = limitReached cT k' n)
include hm hv hF hT hl

theorem charLoop_ke (pos : Nat) (text : Str) :
    ∀ (fuel prev : Nat) (stF stT : St), stF.pending = stT.pending → stF.nsplit = stT.nsplit →
      RelKE (charLoop cF pos text fuel prev stF) (charLoop cT pos text fuel prev stT) := by
  intro fuel
  induction fuel with
  | zero => intro prev stF stT _ _; simp [charLoop, RelKE]
  | succ fuel ih =>
    intro prev stF stT hp hn
    have hns : nextSplit cF stF text prev = nextSplit cT stT text prev := by
      unfold nextSplit; rw [hl stF.kept stT.kept stF.nsplit, hn, hm, hv]
    simp only [charLoop, hns]
    cases hnx : nextSplit cT stT text prev with
    | error err => simp [RelKE]
    | ok o =>
      cases o with
      | none =>
        simp only [RelKE]
        exact ⟨by simp [dropEmpty], stepTail_pending_congr _ _ _ _ _ hp, by rw [stepTail_nsplit, stepTail_nsplit, hn]⟩
      | some se =>
        obtain ⟨s, e⟩ := se
        simp only []
        by_cases hg : goodMatch text prev s e = true
        · simp only [hg, if_true]
          have h1 : (stepMatch cF.keepEmpty pos text prev s e stF).1
              = dropEmpty (stepMatch cT.keepEmpty pos text prev s e stT).1 := by
            rw [stepMatch_fst, stepMatch_fst, hF, hT, nodesOf_congr _ _ _ _ stF stT hp, emitOf_dropEmpty]
          have h2 : (stepMatch cF.keepEmpty pos text prev s e stF).2.pending
              = (stepMatch cT.keepEmpty pos text prev s e stT).2.pending := by
            rw [stepMatch_pending, stepMatch_pending, hp]
          have h3 : (stepMatch cF.keepEmpty pos text prev s e stF).2.nsplit
              = (stepMatch cT.keepEmpty pos text prev s e stT).2.nsplit := by
            rw [stepMatch_nsplit, stepMatch_nsplit, hn]
          have hi := ih e _ _ h2 h3
          cases hcF : charLoop cF pos text fuel e (stepMatch cF.keepEmpty pos text prev s e stF).2 with
          | error eF =>
            cases hcT : charLoop cT pos text fuel e (stepMatch cT.keepEmpty pos text prev s e stT).2 with
            | error eT => rw [hcF, hcT] at hi; simpa [RelKE] using hi
            | ok rT => rw [hcF, hcT] at hi; simp [RelKE] at hi
          | ok rF =>
            cases hcT : charLoop cT pos text fuel e (stepMatch cT.keepEmpty pos text prev s e stT).2 with
            | error eT => rw [hcF, hcT] at hi; simp [RelKE] at hi
            | ok rT =>
              rw [hcF, hcT] at hi
              obtain ⟨sF, stF'⟩ := rF
              obtain ⟨sT, stT'⟩ := rT
              simp only [RelKE] at hi ⊢
              refine ⟨?_, hi.2.1, hi.2.2⟩
              rw [h1, hi.1]; simp [dropEmpty]
        · simp [hg, RelKE, hv]

include hs in
theorem outer_ke (le : Option Nat) :
    ∀ (items : List Item) (stF stT : St), stF.pending = stT.pending → stF.nsplit = stT.nsplit →
      RelO (outer cF le items stF) (outer cT le items stT) := by
  intro items
  induction items with
  | nil =>
    intro stF stT hp hn
    simp only [outer, hF, hT, hp, RelO]
    cases stT.pending <;> simp [dropEmpty, keepSeg, mkPart]
  | cons x r ih =>
    intro stF stT hp hn
    cases x with
    | none =>
      simp only [outer, hs]
      split
      · exact ih _ _ hp hn
      · exact ih _ _ (by simp [hp]) hn
    | chars p t =>
      simp only [outer]
      have hc := charLoop_ke cF cT hm hv hF hT hl p t (t.length + 1) 0 stF stT hp hn
      cases hcF : charLoop cF p t (t.length + 1) 0 stF with
      | error eF =>
        cases hcT : charLoop cT p t (t.length + 1) 0 stT with
        | error eT => rw [hcF, hcT] at hc; simpa [RelKE, RelO] using hc
        | ok rT => rw [hcF, hcT] at hc; simp [RelKE] at hc
      | ok rF =>
        cases hcT : charLoop cT p t (t.length + 1) 0 stT with
        | error eT => rw [hcF, hcT] at hc; simp [RelKE] at hc
        | ok rT =>
          rw [hcF, hcT] at hc
          obtain ⟨sF, stF'⟩ := rF
          obtain ⟨sT, stT'⟩ := rT
          simp only [RelKE] at hc
          have hi := ih stF' stT' hc.2.1 hc.2.2
          simp only []
          cases hoF : outer cF le r stF' with
          | error eF =>
            cases hoT : outer cT le r stT' with
            | error eT => rw [hoF, hoT] at hi; simpa [RelO] using hi
            | ok tT => rw [hoF, hoT] at hi; simp [RelO] at hi
          | ok tF =>
            cases hoT : outer cT le r stT' with
            | error eT => rw [hoF, hoT] at hi; simp [RelO] at hi
            | ok tT =>
              rw [hoF, hoT] at hi
              simp only [RelO] at hi ⊢
              rw [hc.1, hi]; simp [dropEmpty]
    | opq p e t k =>
      simp only [outer]
      exact ih _ _ (by simp [hp]) hn

end KeepEmpty

theorem partsOf_dropEmpty (t : List Seg) :
    partsOf (dropEmpty t) = (partsOf t).filter (fun P => !P.items.isEmpty) := by
  induction t with
  | nil => rfl
  | cons x r ih =>
    cases x with
    | part P =>
      unfold dropEmpty at ih ⊢
      by_cases h : P.items.isEmpty = true <;> simp [List.filter, keepSeg, partsOf, h, ih]
    | sep s t =>
      unfold dropEmpty at ih ⊢
      simp [List.filter, keepSeg, partsOf, ih]

/-- **C18_keep_empty.**  In the repaired code (and in the old code when there is no `max_split`),
    `keep_empty` decides only whether empty parts are kept: the `keep_empty=False` result is the
    `keep_empty=True` result with the empty parts removed (all other parts, their nodes and their
    positions identical); both raise or neither does. -/
theorem C18_keep_empty (c : Cfg) (hk : c.v = .fixed ∨ c.maxSplit = none) (le : Option Nat) (items : List Item) :
    splitChars { c with keepEmpty := false } le items
      = (match splitChars { c with keepEmpty := true } le items with
         | .ok ps => .ok (ps.filter (fun P => !P.items.isEmpty))
         | .error e => .error e) := by
  have hl : ∀ k k' n, limitReached { c with keepEmpty := false } k n = limitReached { c with keepEmpty := true } k' n := by
    intro k k' n
    unfold limitReached
    rcases hk with hv | hn
    · simp [hv]
    · simp [hn]
  have h := outer_ke { c with keepEmpty := false } { c with keepEmpty := true } rfl rfl rfl rfl rfl hl le items
    { pending := [], kept := 0, nsplit := 0 } { pending := [], kept := 0, nsplit := 0 } rfl rfl
  unfold splitChars splitTrace
  cases hF : outer { c with keepEmpty := false } le items { pending := [], kept := 0, nsplit := 0 } with
  | error eF =>
    cases hT : outer { c with keepEmpty := true } le items { pending := [], kept := 0, nsplit := 0 } with
    | error eT => rw [hF, hT] at h; simp only [RelO] at h; simp [h]
    | ok tT => rw [hF, hT] at h; simp [RelO] at h
  | ok tF =>
    cases hT : outer { c with keepEmpty := true } le items { pending := [], kept := 0, nsplit := 0 } with
    | error eT => rw [hF, hT] at h; simp [RelO] at h
    | ok tT =>
      rw [hF, hT] at h
      simp only [RelO] at h
      simp only [h, partsOf_dropEmpty]

/-! ### max_split (repaired code): exactly the first `n` separators are consumed -/

def absSeps (pos : Nat) (text : Str) (l : List (Nat × Nat)) : List (Nat × Str) :=
  l.map (fun se => (pos + se.1, slice text se.1 se.2))

/-- splits still allowed when `k` have been performed -/
def remOf (c : Cfg) (k : Nat) : Option Nat := c.maxSplit.map (· - k)

theorem takeOpt_nil {α} (o : Option Nat) : takeOpt o ([] : List α) = [] := by
  cases o <;> simp [takeOpt]

theorem sepsOf_emitOf (ke : Bool) (nodes : List Item) (pe a : Nat) (t : Str) :
    sepsOf (emitOf ke nodes pe (Seg.sep a t)) = [(a, t)] := by
  unfold emitOf; split <;> simp [sepsOf]

theorem charLoop_seps (c : Cfg) (hv : c.v = .fixed) (pos : Nat) (text : Str) :
    ∀ (fuel prev : Nat) (st : St) (segs : List Seg) (st' : St),
      charLoop c pos text fuel prev st = .ok (segs, st') →
      sepsOf segs = takeOpt (remOf c st.nsplit) (absSeps pos text (matchesFrom c.m text fuel prev)) ∧
      st'.nsplit = st.nsplit + (sepsOf segs).length := by
  intro fuel
  induction fuel with
  | zero => intro prev st segs st' h; simp [charLoop] at h
  | succ fuel ih =>
    intro prev st segs st' h
    simp only [charLoop, nextSplit] at h
    by_cases hlim : limitReached c st.kept st.nsplit = true
    · simp only [hlim, if_true, Except.ok.injEq, Prod.mk.injEq] at h
      obtain ⟨rfl, rfl⟩ := h
      unfold limitReached at hlim
      cases hms : c.maxSplit with
      | none => simp [hms] at hlim
      | some n =>
        simp only [hms, hv, decide_eq_true_eq] at hlim
        have : n - st.nsplit = 0 := by omega
        simp [remOf, hms, takeOpt, this, sepsOf, stepTail_nsplit]
    · simp only [hlim, Bool.false_eq_true, if_false] at h
      cases hmm : c.m text prev with
      | noMatch =>
        simp only [hmm, Except.ok.injEq, Prod.mk.injEq] at h
        obtain ⟨rfl, rfl⟩ := h
        simp [matchesFrom, hmm, absSeps, takeOpt_nil, sepsOf, stepTail_nsplit]
      | negStart =>
        simp only [hmm, hv, Except.ok.injEq, Prod.mk.injEq] at h
        obtain ⟨rfl, rfl⟩ := h
        simp [matchesFrom, hmm, absSeps, takeOpt_nil, sepsOf, stepTail_nsplit]
      | found s e =>
        simp only [hmm] at h
        by_cases hg : goodMatch text prev s e = true
        · simp only [hg, if_true] at h
          cases hrec : charLoop c pos text fuel e (stepMatch c.keepEmpty pos text prev s e st).2 with
          | error err => simp [hrec] at h
          | ok r =>
            obtain ⟨segs1, st1⟩ := r
            simp only [hrec, Except.ok.injEq, Prod.mk.injEq] at h
            obtain ⟨rfl, rfl⟩ := h
            obtain ⟨i1, i2⟩ := ih e _ segs1 st1 hrec
            rw [stepMatch_nsplit] at i1 i2
            rw [sepsOf_append, stepMatch_fst, sepsOf_emitOf, i1]
            have hmf : matchesFrom c.m text (fuel + 1) prev = (s, e) :: matchesFrom c.m text fuel e := by
              simp [matchesFrom, hmm, hg]
            refine ⟨?_, ?_⟩
            · rw [hmf]
              unfold limitReached at hlim
              cases hms : c.maxSplit with
              | none => simp [remOf, hms, takeOpt, absSeps]
              | some n =>
                simp only [hms, hv, decide_eq_true_eq] at hlim
                have : n - st.nsplit = (n - (st.nsplit + 1)) + 1 := by omega
                simp [remOf, hms, takeOpt, absSeps, this, List.take_succ_cons]
            · rw [i2, i1]; simp; omega
        · simp [hg] at h

theorem takeOpt_append_rem (c : Cfg) (k : Nat) (A B : List (Nat × Str)) :
    takeOpt (remOf c k) (A ++ B)
      = takeOpt (remOf c k) A ++ takeOpt (remOf c (k + (takeOpt (remOf c k) A).length)) B := by
  unfold remOf
  cases c.maxSplit with
  | none => simp [takeOpt]
  | some n =>
    simp only [Option.map_some, takeOpt, List.take_append, List.length_take]
    congr 2
    omega

theorem outer_seps (c : Cfg) (hv : c.v = .fixed) (le : Option Nat) :
    ∀ (items : List Item) (st : St) (tr : List Seg), outer c le items st = .ok tr →
      sepsOf tr = takeOpt (remOf c st.nsplit) (allSeps c.m items) := by
  intro items
  induction items with
  | nil =>
    intro st tr h
    simp only [outer, Except.ok.injEq] at h
    subst h
    split <;> simp [sepsOf, allSeps, takeOpt_nil]
  | cons x r ih =>
    intro st tr h
    cases x with
    | none =>
      simp only [outer] at h
      have := ih _ tr h
      split at this <;> simpa [allSeps, itemSeps] using this
    | chars p t =>
      simp only [outer] at h
      cases hc : charLoop c p t (t.length + 1) 0 st with
      | error err => simp [hc] at h
      | ok rr =>
        obtain ⟨segs, st1⟩ := rr
        simp only [hc] at h
        cases ho : outer c le r st1 with
        | error err => simp [ho] at h
        | ok t2 =>
          simp only [ho, Except.ok.injEq] at h
          subst h
          obtain ⟨c1, c2⟩ := charLoop_seps c hv p t _ 0 st segs st1 hc
          have hi := ih st1 t2 ho
          rw [sepsOf_append, hi, c2, c1]
          simp only [allSeps, itemSeps]
          exact (takeOpt_append_rem c st.nsplit _ _).symm
    | opq p e t k =>
      simp only [outer] at h
      simpa [allSeps, itemSeps] using ih _ tr h

/-- the shape "part (sep part)*": `run true tr = some false` -/
def run : Bool → List Seg → Option Bool
  | e, [] => some e
  | true, .part _ :: r => run false r
  | false, .sep _ _ :: r => run true r
  | true, .sep _ _ :: _ => none
  | false, .part _ :: _ => none

theorem run_append (e : Bool) (a b : List Seg) : run e (a ++ b) = (run e a).bind (fun e' => run e' b) := by
  induction a generalizing e with
  | nil => simp [run]
  | cons x r ih => cases x <;> cases e <;> simp [run, ih]

theorem charLoop_alt (c : Cfg) (hke : c.keepEmpty = true) (pos : Nat) (text : Str) :
    ∀ (fuel prev : Nat) (st : St) (segs : List Seg) (st' : St),
      charLoop c pos text fuel prev st = .ok (segs, st') → run true segs = some true := by
  intro fuel
  induction fuel with
  | zero => intro prev st segs st' h; simp [charLoop] at h
  | succ fuel ih =>
    intro prev st segs st' h
    simp only [charLoop] at h
    cases hnx : nextSplit c st text prev with
    | error err => simp [hnx] at h
    | ok o =>
      cases o with
      | none =>
        simp only [hnx, Except.ok.injEq, Prod.mk.injEq] at h
        obtain ⟨rfl, rfl⟩ := h
        rfl
      | some se =>
        obtain ⟨s, e⟩ := se
        simp only [hnx] at h
        by_cases hg : goodMatch text prev s e = true
        · simp only [hg, if_true] at h
          cases hrec : charLoop c pos text fuel e (stepMatch c.keepEmpty pos text prev s e st).2 with
          | error err => simp [hrec] at h
          | ok r =>
            obtain ⟨segs1, st1⟩ := r
            simp only [hrec, Except.ok.injEq, Prod.mk.injEq] at h
            obtain ⟨rfl, rfl⟩ := h
            rw [run_append, stepMatch_fst, hke]
            simp [emitOf, run, ih _ _ _ _ hrec]
        · simp [hg] at h

theorem outer_alt (c : Cfg) (hke : c.keepEmpty = true) (le : Option Nat) :
    ∀ (items : List Item) (st : St) (tr : List Seg), outer c le items st = .ok tr → run true tr = some false := by
  intro items
  induction items with
  | nil =>
    intro st tr h
    simp only [outer, hke, Bool.or_true, if_true, Except.ok.injEq] at h
    subst h; rfl
  | cons x r ih =>
    intro st tr h
    cases x with
    | none => simp only [outer] at h; exact ih _ tr h
    | chars p t =>
      simp only [outer] at h
      cases hc : charLoop c p t (t.length + 1) 0 st with
      | error err => simp [hc] at h
      | ok rr =>
        obtain ⟨segs, st1⟩ := rr
        simp only [hc] at h
        cases ho : outer c le r st1 with
        | error err => simp [ho] at h
        | ok t2 =>
          simp only [ho, Except.ok.injEq] at h
          subst h
          rw [run_append, charLoop_alt c hke p t _ _ _ _ _ hc]
          simpa using ih st1 t2 ho
    | opq p e t k => simp only [outer] at h; exact ih _ tr h

/-- **C18_max_split** (repaired code).  The separators consumed are exactly the first `max_split`
    separators of the list in document order (all of them when `max_split` is `None`, fewer only when the
    list has fewer); in particular at most `n` splits are performed.  With `keep_empty=True` the trace has
    the shape part (separator part)*, so there is one part more than separators and — by `C18_partition` —
    the last part carries everything after the last consumed separator, unsplit. -/
theorem C18_max_split (c : Cfg) (hv : c.v = .fixed) (le : Option Nat) (items : List Item) (tr : List Seg)
    (h : splitTrace c le items = .ok tr) :
    sepsOf tr = takeOpt c.maxSplit (allSeps c.m items) ∧
    (∀ n, c.maxSplit = some n → (sepsOf tr).length ≤ n) ∧
    (c.keepEmpty = true → run true tr = some false) := by
  have h1 := outer_seps c hv le items _ tr h
  have h0 : remOf c 0 = c.maxSplit := by unfold remOf; cases c.maxSplit <;> simp
  simp only [h0] at h1
  refine ⟨h1, ?_, fun hke => outer_alt c hke le items _ tr h⟩
  intro n hn
  rw [h1, hn]; simp [takeOpt, List.length_take]; omega

/-! ### The old code agrees with the repaired code whenever it returns, if `keep_empty=True` or `max_split=None` -/

def InvAX (c : Cfg) (st : St) : Prop := c.maxSplit = none ∨ (c.keepEmpty = true ∧ st.kept = st.nsplit)

theorem limit_AX (c : Cfg) (st : St) (hi : InvAX c st) :
    limitReached { c with v := .asIs } st.kept st.nsplit = limitReached { c with v := .fixed } st.kept st.nsplit := by
  unfold limitReached
  rcases hi with h | ⟨_, h⟩
  · simp [h]
  · simp [h]

theorem nextSplit_AX (c : Cfg) (st : St) (hi : InvAX c st) (text : Str) (prev : Nat) (o : Option (Nat × Nat))
    (h : nextSplit { c with v := .asIs } st text prev = .ok o) :
    nextSplit { c with v := .fixed } st text prev = .ok o := by
  unfold nextSplit at h ⊢
  rw [limit_AX c st hi] at h
  split
  · rename_i hl; simp only [hl, if_true] at h; exact h
  · rename_i hl
    simp only [hl, if_false] at h
    cases hmm : c.m text prev with
    | found s e => simp only [hmm] at h ⊢; exact h
    | noMatch => simp only [hmm] at h ⊢; exact h
    | negStart => simp [hmm] at h

theorem charLoop_AX (c : Cfg) (pos : Nat) (text : Str) :
    ∀ (fuel prev : Nat) (st : St) (r : List Seg × St), InvAX c st →
      charLoop { c with v := .asIs } pos text fuel prev st = .ok r →
      charLoop { c with v := .fixed } pos text fuel prev st = .ok r ∧ InvAX c r.2 := by
  intro fuel
  induction fuel with
  | zero => intro prev st r _ h; simp [charLoop] at h
  | succ fuel ih =>
    intro prev st r hi h
    simp only [charLoop] at h ⊢
    cases hnx : nextSplit { c with v := .asIs } st text prev with
    | error err => simp [hnx] at h
    | ok o =>
      rw [nextSplit_AX c st hi text prev o hnx]
      cases o with
      | none =>
        simp only [hnx, Except.ok.injEq] at h ⊢
        subst h
        refine ⟨rfl, ?_⟩
        rcases hi with h | ⟨h1, h2⟩
        · exact Or.inl h
        · exact Or.inr ⟨h1, by simp only [stepTail_kept, stepTail_nsplit, h2]⟩
      | some se =>
        obtain ⟨s, e⟩ := se
        simp only [hnx] at h ⊢
        by_cases hg : goodMatch text prev s e = true
        · simp only [hg, if_true] at h ⊢
          have hi1 : InvAX c (stepMatch c.keepEmpty pos text prev s e st).2 := by
            rcases hi with h | ⟨h1, h2⟩
            · exact Or.inl h
            · refine Or.inr ⟨h1, ?_⟩
              rw [stepMatch_kept, stepMatch_nsplit, h1, h2]; simp
          cases hrec : charLoop { c with v := .asIs } pos text fuel e (stepMatch c.keepEmpty pos text prev s e st).2 with
          | error err => simp [hrec] at h
          | ok r1 =>
            obtain ⟨i1, i2⟩ := ih e _ r1 hi1 hrec
            obtain ⟨segs1, st1⟩ := r1
            simp only [hrec, Except.ok.injEq] at h
            subst h
            simp only [i1]
            exact ⟨trivial, i2⟩
        · simp [hg] at h

theorem outer_AX (c : Cfg) (le : Option Nat) :
    ∀ (items : List Item) (st : St) (tr : List Seg), InvAX c st →
      outer { c with v := .asIs } le items st = .ok tr → outer { c with v := .fixed } le items st = .ok tr := by
  intro items
  induction items with
  | nil => intro st tr _ h; exact h
  | cons x r ih =>
    intro st tr hi h
    cases x with
    | none =>
      simp only [outer] at h ⊢
      refine ih _ tr ?_ h
      split
      · exact hi
      · exact hi
    | chars p t =>
      simp only [outer] at h ⊢
      cases hc : charLoop { c with v := .asIs } p t (t.length + 1) 0 st with
      | error err => simp [hc] at h
      | ok rr =>
        obtain ⟨c1, c2⟩ := charLoop_AX c p t (t.length + 1) 0 st rr hi hc
        obtain ⟨segs, st1⟩ := rr
        simp only [hc] at h
        simp only [c1]
        cases ho : outer { c with v := .asIs } le r st1 with
        | error err => simp [ho] at h
        | ok t2 =>
          simp only [ho] at h
          rw [ih st1 t2 c2 ho]
          exact h
    | opq p e t k =>
      simp only [outer] at h ⊢
      exact ih _ tr hi h

/-- **C18_asIs_eq_fixed.**  With `keep_empty=True` (every split flushes exactly one part, so the number of
    parts kept is the number of splits) or without `max_split`: whenever the code before the repairs
    returns, the repaired code returns the same trace.  Hence `C18_max_split` and `C18_keep_empty` hold of
    the old code under that hypothesis; `C18_partition` holds of it unconditionally. -/
theorem C18_asIs_eq_fixed (c : Cfg) (hk : c.keepEmpty = true ∨ c.maxSplit = none) (le : Option Nat) (items : List Item)
    (tr : List Seg) (h : splitTrace { c with v := .asIs } le items = .ok tr) :
    splitTrace { c with v := .fixed } le items = .ok tr := by
  unfold splitTrace at h ⊢
  refine outer_AX c le items _ tr ?_ h
  rcases hk with h | h
  · exact Or.inr ⟨h, rfl⟩
  · exact Or.inl h

/-! ### Termination -/

/-- every answer of the matcher is "no match" or a non-empty match at or after the offset asked for, inside the string -/
def Productive (m : Matcher) : Prop :=
  ∀ text prev, prev ≤ text.length →
    m text prev = .noMatch ∨ ∃ s e, m text prev = .found s e ∧ goodMatch text prev s e = true

theorem charLoop_total (c : Cfg) (hm : Productive c.m) (pos : Nat) (text : Str) :
    ∀ (fuel prev : Nat) (st : St), text.length - prev < fuel → prev ≤ text.length →
      ∃ r, charLoop c pos text fuel prev st = .ok r := by
  intro fuel
  induction fuel with
  | zero => intro prev st h; omega
  | succ fuel ih =>
    intro prev st hf hle
    simp only [charLoop, nextSplit]
    by_cases hlim : limitReached c st.kept st.nsplit = true
    · simp only [hlim, if_true]; exact ⟨_, rfl⟩
    · simp only [hlim, Bool.false_eq_true, if_false]
      rcases hm text prev hle with h | ⟨s, e, h, hg⟩
      · simp only [h]; exact ⟨_, rfl⟩
      · obtain ⟨g1, g2, g4, g3⟩ := (goodMatch_iff _ _ _ _).mp hg
        simp only [h, hg, if_true]
        obtain ⟨r, hr⟩ := ih e (stepMatch c.keepEmpty pos text prev s e st).2 (by omega) g3
        rw [hr]
        exact ⟨_, rfl⟩

/-- **C18_total.**  For a productive matcher the split always returns normally (both variants). -/
theorem C18_total (c : Cfg) (hm : Productive c.m) (le : Option Nat) (items : List Item) :
    ∃ tr, splitTrace c le items = .ok tr := by
  unfold splitTrace
  generalize ({ pending := [], kept := 0, nsplit := 0 } : St) = st
  induction items generalizing st with
  | nil => exact ⟨_, rfl⟩
  | cons x r ih =>
    cases x with
    | none => simp only [outer]; exact ih _
    | chars p t =>
      simp only [outer]
      obtain ⟨rr, hr⟩ := charLoop_total c hm p t (t.length + 1) 0 st (by omega) (Nat.zero_le _)
      obtain ⟨segs, st1⟩ := rr
      rw [hr]
      obtain ⟨t2, h2⟩ := ih st1
      simp only [h2]
      exact ⟨_, rfl⟩
    | opq p e t k => simp only [outer]; exact ih _

theorem badMatchErr_fixed (text : Str) (prev s e : Nat) :
    badMatchErr .fixed text prev s e = .valueError ∨ badMatchErr .fixed text prev s e = .contract := by
  unfold badMatchErr; split <;> simp

theorem charLoop_fixed_err (c : Cfg) (hv : c.v = .fixed) (pos : Nat) (text : Str) :
    ∀ (fuel prev : Nat) (st : St) (err : Err), text.length - prev < fuel → prev ≤ text.length →
      charLoop c pos text fuel prev st = .error err → err = .valueError ∨ err = .contract := by
  intro fuel
  induction fuel with
  | zero => intro prev st err h; omega
  | succ fuel ih =>
    intro prev st err hf hle h
    simp only [charLoop] at h
    cases hnx : nextSplit c st text prev with
    | error e2 =>
      exfalso
      unfold nextSplit at hnx
      split at hnx
      · simp at hnx
      · cases hmm : c.m text prev <;> simp [hmm, hv] at hnx
    | ok o =>
      cases o with
      | none => simp [hnx] at h
      | some se =>
        obtain ⟨s, e⟩ := se
        simp only [hnx] at h
        by_cases hg : goodMatch text prev s e = true
        · simp only [hg, if_true] at h
          obtain ⟨g1, g2, g4, g3⟩ := (goodMatch_iff _ _ _ _).mp hg
          cases hrec : charLoop c pos text fuel e (stepMatch c.keepEmpty pos text prev s e st).2 with
          | error e2 =>
            simp only [hrec, Except.error.injEq] at h
            subst h
            exact ih e _ _ (by omega) g3 hrec
          | ok r => obtain ⟨a, b⟩ := r; simp [hrec] at h
        · simp only [hg, Bool.false_eq_true, if_false, Except.error.injEq] at h
          subst h; rw [hv]; exact badMatchErr_fixed _ _ _ _

/-- **C18_fixed_terminates.**  The repaired split always returns: normally, or with the ValueError for a
    separator match that does not advance (or the matcher broke its contract `prev ≤ start ≤ end ≤ |text|`).
    The outcomes `noProgress` (the old code's endless loop) and `fuel` are impossible. -/
theorem C18_fixed_terminates (c : Cfg) (hv : c.v = .fixed) (le : Option Nat) (items : List Item) (err : Err)
    (h : splitTrace c le items = .error err) : err = .valueError ∨ err = .contract := by
  unfold splitTrace at h
  generalize ({ pending := [], kept := 0, nsplit := 0 } : St) = st at h
  induction items generalizing st with
  | nil => simp [outer] at h
  | cons x r ih =>
    cases x with
    | none => simp only [outer] at h; exact ih _ h
    | chars p t =>
      simp only [outer] at h
      cases hc : charLoop c p t (t.length + 1) 0 st with
      | error e2 =>
        simp only [hc, Except.error.injEq] at h
        subst h
        exact charLoop_fixed_err c hv p t _ 0 st _ (by omega) (Nat.zero_le _) hc
      | ok rr =>
        obtain ⟨segs, st1⟩ := rr
        simp only [hc] at h
        cases ho : outer c le r st1 with
        | error e2 =>
          simp only [ho, Except.error.injEq] at h
          subst h
          exact ih st1 ho
        | ok t2 => simp [ho] at h
    | opq p e t k => simp only [outer] at h; exact ih _ h

/-! ### The code before the repairs: witnesses of the five defects -/

def partTexts (r : Except Err (List Part)) : Option (List Str) :=
  match r with
  | .ok ps => some (ps.map (fun P => verb P.items))
  | .error _ => none

def isErr (r : Except Err (List Part)) (e : Err) : Bool :=
  match r with
  | .error e' => e' == e
  | .ok _ => false

/-- F15: source `,a,b`, separator `,`, `max_split=1`: without `keep_empty` the old code returns `['a','b']`
    (two splits), with `keep_empty` it returns `['', 'a,b']`; the repaired code returns `['a,b']` and `['', 'a,b']`. -/
theorem C18_asIs_keep_empty_false :
    partTexts (splitCharsAsIs (SepD.lit [',']).matcher (some 1) false true (some 4) [Item.chars 0 [',', 'a', ',', 'b']])
      ≠ (partTexts (splitCharsAsIs (SepD.lit [',']).matcher (some 1) true true (some 4) [Item.chars 0 [',', 'a', ',', 'b']])).map
          (fun ps => ps.filter (fun t => !t.isEmpty)) ∧
    partTexts (splitCharsAsIs (SepD.lit [',']).matcher (some 1) false true (some 4) [Item.chars 0 [',', 'a', ',', 'b']])
      = some [['a'], ['b']] ∧
    partTexts (splitCharsAsIs (SepD.lit [',']).matcher (some 1) true true (some 4) [Item.chars 0 [',', 'a', ',', 'b']])
      = some [[], ['a', ',', 'b']] ∧
    partTexts (splitCharsFixed (SepD.lit [',']).matcher (some 1) false true (some 4) [Item.chars 0 [',', 'a', ',', 'b']])
      = some [['a', ',', 'b']] := by
  decide

/-- F-d: a callable that answers with a start index < -1: the old code does not return, the repaired code
    treats it as "no more separators" -/
theorem C18_asIs_negative_start :
    isErr (splitCharsAsIs (withNeg (SepD.lit [',']).matcher) none false true (some 1) [Item.chars 0 ['a']]) .noProgress = true ∧
    partTexts (splitCharsFixed (withNeg (SepD.lit [',']).matcher) none false true (some 1) [Item.chars 0 ['a']]) = some [['a']] := by
  decide

/-- F-e: the regular expression `,*` on `b`: the old code does not return, the repaired code raises ValueError -/
theorem C18_asIs_empty_match :
    isErr (splitCharsAsIs (SepD.star [',']).matcher none false true (some 1) [Item.chars 0 ['b']]) .noProgress = true ∧
    isErr (splitCharsFixed (SepD.star [',']).matcher none false true (some 1) [Item.chars 0 ['b']]) .valueError = true := by
  decide

/-! ### split_at_node -/

/-- the parts joined with the separator nodes (`keep_separators`: the separator already heads the next part) -/
def joinSeps (ks : Bool) : List (List Item) → List Item → List Item
  | ls, [] => ls.head?.getD []
  | l :: ls, s :: ss => l ++ (if ks then [] else [s]) ++ joinSeps ks ls ss
  | [], _ :: _ => []

theorem nodeLoop_spec (c : NCfg) :
    ∀ (items cur : List Item) (nl : Nat) (nm : Bool),
      ∃ seps : List Item, (∀ s ∈ seps, c.pred s = true) ∧
        (nodeLoop c items cur nl nm).length = seps.length + 1 ∧
        joinSeps c.keepSeparators (nodeLoop c items cur nl nm) seps = cur ++ keptItems c.skipNone items := by
  intro items
  induction items with
  | nil => intro cur nl nm; exact ⟨[], by simp, by simp [nodeLoop], by simp [nodeLoop, joinSeps, keptItems]⟩
  | cons n r ih =>
    intro cur nl nm
    unfold nodeLoop
    by_cases hsk : (c.skipNone && n.isNone) = true
    · simp only [hsk, if_true]
      obtain ⟨seps, h1, h2, h3⟩ := ih cur nl nm
      obtain ⟨hs1, hs2⟩ : c.skipNone = true ∧ n.isNone = true := by simpa using hsk
      have hk0 : keptItems c.skipNone (n :: r) = keptItems c.skipNone r := by
        simp [keptItems, List.filter_cons, hs1, hs2]
      exact ⟨seps, h1, h2, by rw [h3, hk0]⟩
    · simp only [hsk, Bool.false_eq_true, if_false]
      have hk : keptItems c.skipNone (n :: r) = n :: keptItems c.skipNone r := by
        simp only [Bool.not_eq_true] at hsk
        simp [keptItems, List.filter, hsk]
      by_cases hsp : (!nm && c.pred n) = true
      · simp only [hsp, if_true]
        obtain ⟨seps, h1, h2, h3⟩ := ih (if c.keepSeparators then [n] else []) (nl + 1)
          (noMoreAfter c.maxSplit (nl + 1) nm)
        refine ⟨n :: seps, ?_, by simp only [List.length_cons]; omega, ?_⟩
        · intro s hs
          rcases List.mem_cons.mp hs with rfl | hs
          · simp only [Bool.and_eq_true] at hsp; exact hsp.2
          · exact h1 s hs
        · cases hks : c.keepSeparators
          · simp only [hks, Bool.false_eq_true, if_false, List.nil_append] at h3 ⊢
            simp [joinSeps, h3, hk]
          · simp only [hks, if_true] at h3 ⊢
            simp [joinSeps, h3, hk]
      · simp only [hsp, Bool.false_eq_true, if_false]
        obtain ⟨seps, h1, h2, h3⟩ := ih (cur ++ [n]) nl nm
        exact ⟨seps, h1, h2, by simp [h3, hk]⟩

theorem nodeLoop_len (c : NCfg) (k : Nat) (hk : c.maxSplit = some k) :
    ∀ (items cur : List Item) (nl : Nat),
      (nodeLoop c items cur nl (decide (k < nl))).length =
        1 + min (k + 1 - nl) ((keptItems c.skipNone items).countP c.pred) := by
  intro items
  induction items with
  | nil => intro cur nl; simp [nodeLoop, keptItems]
  | cons n r ih =>
    intro cur nl
    unfold nodeLoop
    by_cases hsk : (c.skipNone && n.isNone) = true
    · simp only [hsk, if_true]
      obtain ⟨hs1, hs2⟩ : c.skipNone = true ∧ n.isNone = true := by simpa using hsk
      have hk0 : keptItems c.skipNone (n :: r) = keptItems c.skipNone r := by
        simp [keptItems, List.filter_cons, hs1, hs2]
      rw [hk0]; exact ih cur nl
    · simp only [hsk, Bool.false_eq_true, if_false]
      have hkept : keptItems c.skipNone (n :: r) = n :: keptItems c.skipNone r := by
        simp only [Bool.not_eq_true] at hsk
        simp [keptItems, List.filter, hsk]
      rw [hkept, List.countP_cons]
      by_cases hsp : (!decide (k < nl) && c.pred n) = true
      · simp only [hsp, if_true, hk, noMoreAfter]
        obtain ⟨hlt, hp⟩ : ¬ k < nl ∧ c.pred n = true := by simpa using hsp
        have := ih (if c.keepSeparators then [n] else []) (nl + 1)
        simp only [List.length_cons, this, hp, if_true]
        omega
      · simp only [hsp, Bool.false_eq_true, if_false]
        rw [ih (cur ++ [n]) nl]
        by_cases hlt : k < nl
        · have : k + 1 - nl = 0 := by omega
          simp [this]
        · have hp : c.pred n = false := by
            simp only [Bool.and_eq_true, Bool.not_eq_true', decide_eq_false_iff_not, not_and, Bool.not_eq_true] at hsp
            exact hsp hlt
          simp [hp]

theorem nodeLoop_len_none (c : NCfg) (hk : c.maxSplit = none) :
    ∀ (items cur : List Item) (nl : Nat),
      (nodeLoop c items cur nl false).length = 1 + (keptItems c.skipNone items).countP c.pred := by
  intro items
  induction items with
  | nil => intro cur nl; simp [nodeLoop, keptItems]
  | cons n r ih =>
    intro cur nl
    unfold nodeLoop
    by_cases hsk : (c.skipNone && n.isNone) = true
    · simp only [hsk, if_true]
      obtain ⟨hs1, hs2⟩ : c.skipNone = true ∧ n.isNone = true := by simpa using hsk
      have hk0 : keptItems c.skipNone (n :: r) = keptItems c.skipNone r := by
        simp [keptItems, List.filter_cons, hs1, hs2]
      rw [hk0]; exact ih cur nl
    · simp only [hsk, Bool.false_eq_true, if_false]
      have hkept : keptItems c.skipNone (n :: r) = n :: keptItems c.skipNone r := by
        simp only [Bool.not_eq_true] at hsk
        simp [keptItems, List.filter, hsk]
      rw [hkept, List.countP_cons]
      by_cases hp : c.pred n = true
      · simp only [hp, Bool.not_false, Bool.true_and, if_true, hk, noMoreAfter, List.length_cons]
        rw [ih]; omega
      · simp only [Bool.not_eq_true] at hp
        simp only [hp, Bool.and_false, Bool.false_eq_true, if_false]
        rw [ih]; simp

/-- **C18_split_node.**  `split_at_node` partitions the list in order: the returned lists, joined with the
    separator nodes (nodes satisfying the predicate, one between consecutive lists; with
    `keep_separators` it heads the following list), are the list's entries (`None`s dropped under
    `skip_none`) — nothing lost, duplicated or reordered, no node altered; there is one list more than
    separators; `max_split=n` makes exactly `min n (number of separator nodes)` splits and `max_split=None` splits at
    every separator node.  (The code before repair F35 stopped one split early for `n ≥ 2`: witness below.) -/
theorem C18_split_node (c : NCfg) (items : List Item) :
    (∃ seps : List Item, (∀ s ∈ seps, c.pred s = true) ∧
      (splitNode c items).length = seps.length + 1 ∧
      joinSeps c.keepSeparators ((splitNode c items).map Part.items) seps = keptItems c.skipNone items) ∧
    (∀ n, c.maxSplit = some n →
      (splitNode c items).length = 1 + min n ((keptItems c.skipNone items).countP c.pred)) ∧
    (c.maxSplit = none → (splitNode c items).length = 1 + (keptItems c.skipNone items).countP c.pred) := by
  have hmap : (splitNode c items).map Part.items = splitNodeLists c items := by
    simp [splitNode, mkPart, Function.comp_def]
  refine ⟨?_, ?_, ?_⟩
  · obtain ⟨seps, h1, h2, h3⟩ := nodeLoop_spec c items [] 1 (noMoreInit c.maxSplit)
    exact ⟨seps, h1, by simpa [splitNode, splitNodeLists] using h2, by rw [hmap]; simpa [splitNodeLists] using h3⟩
  · intro n hn
    have h := nodeLoop_len c n hn items [] 1
    have hinit : noMoreInit c.maxSplit = decide (n < 1) := by
      rw [hn]; cases n <;> simp [noMoreInit]
    simp only [splitNode, List.length_map, splitNodeLists, hinit, h]
    omega
  · intro hn
    have h := nodeLoop_len_none c hn items [] 1
    simp only [splitNode, List.length_map, splitNodeLists, hn, noMoreInit, h]

/-- the loop with the test before repair F35 -/
def nodeLoopAsIs (c : NCfg) : List Item → (cur : List Item) → (nlists : Nat) → (noMore : Bool) → List (List Item)
  | [], cur, _, _ => [cur]
  | n :: r, cur, nlists, noMore =>
    if c.skipNone && n.isNone then nodeLoopAsIs c r cur nlists noMore
    else if !noMore && c.pred n then
      cur :: nodeLoopAsIs c r (if c.keepSeparators then [n] else []) (nlists + 1) (noMoreAfterAsIs c.maxSplit (nlists + 1) noMore)
    else nodeLoopAsIs c r (cur ++ [n]) nlists noMore

/-! ### parse_keyval_content -/

theorem dictGet_dictSet (d : List (Str × Val)) (k : Str) (v : Val) : dictGet (dictSet d k v) k = some v := by
  induction d with
  | nil => simp [dictSet, dictGet]
  | cons kv r ih =>
    obtain ⟨k', v'⟩ := kv
    unfold dictSet
    by_cases h : (k' == k) = true
    · simp [h, dictGet]
    · simp only [h, Bool.false_eq_true, if_false]
      unfold dictGet at ih ⊢
      simp only [List.find?, h]
      exact ih

/-- **C18_keyval.**  `parse_keyval_content` is: split at the commas (`max_split=None`, empty parts dropped);
    split every part at most once at an equals sign with `keep_empty=True` — in the repaired code this is
    the *first* equals sign of the part in document order, never one inside a child node, the pieces are
    key (separator value)? in this shape even when the key or the value is empty, and key text ++ "=" ++
    value text is the part's text; the key is the character content of the first piece; then fold the
    pairs in order into an insertion-ordered dictionary where a repeated key is combined as the policy says:
    `last` replaces, `concatenate` appends the node lists, `error` raises, `first` keeps the stored value.
    (Before the repair `first` stored a plain list, so a third occurrence raised AttributeError: the
    `asIs` clause and `C18_asIs_policy_first` below.) -/
theorem C18_keyval (c : KCfg) :
    -- the two levels of splitting
    (∀ le items, parseKeyval c le items =
        match splitChars (commaCfg c) le items with
        | .error e => .splitError e
        | .ok parts => kvLoop c parts []) ∧
    -- the equals split takes the first equals sign and keeps both pieces (repaired code)
    (c.v = .fixed → ∀ (part : Part) (a b : Nat) (tr : List Seg), Tiles a part.items b →
        splitTrace (eqCfg c) (some b) part.items = .ok tr →
        sepsOf tr = (allSeps c.eq part.items).take 1 ∧ run true tr = some false ∧
        segsText tr = verb part.items ∧ SegsTile a tr b) ∧
    -- one pair, new key
    (∀ part r d k v key, eqSplit c part = .kv k v → contentAsChars k = .ok key → dictGet d key = none →
        kvLoop c (part :: r) d = kvLoop c r (dictSet d key v)) ∧
    -- one pair, repeated key
    (∀ part r d k v key old, eqSplit c part = .kv k v → contentAsChars k = .ok key → dictGet d key = some old →
        kvLoop c (part :: r) d =
          match c.policy with
          | .last => kvLoop c r (dictSet d key v)
          | .error => .repeatedKey key
          | .first => (match c.v with
              | .fixed => kvLoop c r (dictSet d key old)
              | .asIs => (match old.nodelist? with
                  | some a => kvLoop c r (dictSet d key (Val.raw a))
                  | none => .attrError))
          | .concatenate => (match old.nodelist?, v.nodelist? with
              | some a, some b => kvLoop c r (dictSet d key (Val.nl
                  { pos := (match old.pos? with | some q => some q | none => firstPos (a ++ b)),
                    posEnd := lastEnd (a ++ b), items := a ++ b }))
              | _, _ => .attrError)) := by
  refine ⟨fun le items => rfl, ?_, ?_, ?_⟩
  · intro hv part a b tr ht h
    have hv' : (eqCfg c).v = .fixed := by simp [eqCfg, hv]
    have hke : (eqCfg c).keepEmpty = true := by simp [eqCfg, hv]
    obtain ⟨h1, _, h4⟩ := C18_max_split _ hv' (some b) part.items tr h
    obtain ⟨_, h2, h3, _⟩ := C18_partition _ part.items a b tr ht h
    exact ⟨by simpa [takeOpt, eqCfg] using h1, h4 hke, h2, h3⟩
  · intro part r d k v key h1 h2 h3
    simp [kvLoop, h1, h2, h3]
  · intro part r d k v key old h1 h2 h3
    simp only [kvLoop, h1, h2, h3]
    cases c.policy <;> rfl

def kvTexts (r : KvRes) : List (Str × Str) :=
  match r with
  | .ok d => d.map (fun kv => (kv.1, match kv.2 with | .nl p => verb p.items | .raw l => verb l))
  | _ => []

/-- F-b: `=b=c` — the old code reads key `b`, value `c` (the leading equals sign is skipped); the repaired
    code splits at the first equals sign: key ``, value `b=c` -/
theorem C18_asIs_keyval_first_equals :
    kvTexts (parseKeyval { v := .asIs, comma := (SepD.lit [',']).matcher, eq := (SepD.lit ['=']).matcher, policy := .last, extractGroup := true } (some 4) [Item.chars 0 ['=', 'b', '=', 'c']])
      = [(['b'], ['c'])] ∧
    kvTexts (parseKeyval { v := .fixed, comma := (SepD.lit [',']).matcher, eq := (SepD.lit ['=']).matcher, policy := .last, extractGroup := true } (some 4) [Item.chars 0 ['=', 'b', '=', 'c']])
      = [([], ['b', '=', 'c'])] := by
  decide

/-- F-c: policy `first` with a key given three times: AttributeError before the repair, the first value after -/
theorem C18_asIs_policy_first :
    parseKeyval { v := .asIs, comma := (SepD.lit [',']).matcher, eq := (SepD.lit ['=']).matcher, policy := .first, extractGroup := true } (some 11) [Item.chars 0 ['a', '=', '1', ',', 'a', '=', '2', ',', 'a', '=', '3']]
      = .attrError ∧
    kvTexts (parseKeyval { v := .fixed, comma := (SepD.lit [',']).matcher, eq := (SepD.lit ['=']).matcher, policy := .first, extractGroup := true } (some 11) [Item.chars 0 ['a', '=', '1', ',', 'a', '=', '2', ',', 'a', '=', '3']])
      = [(['a'], ['1'])] := by
  decide

/-! ### Non-vacuity: concrete inputs -/

/-- `a,{b,c},,d` with an opaque group: three parts, the group unsplit -/
example : (match splitCharsFixed (SepD.lit [',']).matcher none false true (some 10)
      [Item.chars 0 ['a', ','], Item.opq 2 7 ['{', 'b', ',', 'c', '}'] (.group (some ['b', ',', 'c']) (some 3) (some 6) []),
       Item.chars 7 [',', ',', 'd']] with
    | .ok ps => ps.map (fun P => (P.pos, P.posEnd, verb P.items))
    | .error _ => [])
    = [(some 0, some 1, ['a']), (some 2, some 7, ['{', 'b', ',', 'c', '}']), (some 9, some 10, ['d'])] := by decide

example : Tiles 0 [Item.chars 0 ['a', ','], Item.opq 2 7 ['{', 'b', ',', 'c', '}'] .other, Item.chars 7 [',', ',', 'd']] 10 := by
  simp [Tiles]

/-- the literal-comma matcher answers productively on this input -/
example : (SepD.lit [',']).matcher [',', 'a', ',', 'b'] 1 = .found 2 3 := by decide

/-- `\Z` with `max_split=1`, `keep_empty=True` on `ab`: the empty match at the end is consumed once, no error -/
example : partTexts (splitCharsFixed SepD.eos.matcher (some 1) true true (some 2) [Item.chars 0 ['a', 'b']]) = some [['a', 'b'], []] := by
  decide

/-- split_at_node: three separator nodes, `max_split=2` — two splits, three parts (C18_split_node, repaired code) -/
example : (splitNode { pred := fun it => it.isOpq, skipNone := true, keepSeparators := false, maxSplit := some 2 }
      [Item.opq 0 1 ['~'] .other, Item.opq 1 2 ['~'] .other, Item.opq 2 3 ['~'] .other]).length = 3 := by decide

/-- **F35 (as-is witness).**  With the test `len(nodelists_list) >= max_split` the same call made one split only
    (`max_split=n` gave `n - 1` splits for every `n ≥ 2`). -/
theorem C18_asis_split_node_one_short :
    (nodeLoopAsIs { pred := fun it => it.isOpq, skipNone := true, keepSeparators := false, maxSplit := some 2 }
      [Item.opq 0 1 ['~'] .other, Item.opq 1 2 ['~'] .other, Item.opq 2 3 ['~'] .other] [] 1 false).length = 2 := by decide

end Split
end Pylx
