/-
  C02Tok — the tokenizer evaluated on the source shapes of the document grammar, for the parsing states that occur
  while a document of the core fragment is parsed (`stdF`: the walker's default state for a context, possibly in
  math mode, possibly with environments disabled as in the expression parser).
-/
import PylxProofs.C05Tok
import PylxProofs.C01Tok
import Pylx.Doc
namespace Pylx
namespace C02
open Doc

/-- an extra pair of group delimiters (inside the bracket group of an optional argument, inside a delimited argument) -/
abbrev Xp := Option (Char × Char)

/-- the bracket pair of an optional argument -/
def xbr : Xp := some ('[', ']')

/-- group delimiters: the brace pair and possibly one extra pair -/
def brPairs : Xp → Pairs
  | none => [(['{'], ['}'])]
  | some (o, c) => [(['{'], ['}']), ([o], [c])]

/-- the extra pair is made of two different delimiter characters -/
def XpOk : Xp → Prop
  | none => True
  | some (o, c) => isXDelim o = true ∧ isXDelim c = true ∧ o ≠ c

theorem xpOk_br : XpOk xbr := ⟨by decide, by decide, by decide⟩

theorem xdelim_ne {c : Char} (h : isXDelim c = true) :
    c ≠ '$' ∧ c ≠ '\\' ∧ c ≠ '%' ∧ c ≠ '{' ∧ c ≠ '}' ∧ isPySpace c = false := by
  unfold isXDelim at h
  simp only [Bool.or_eq_true, beq_iff_eq] at h
  rcases h with ((((h | h) | h) | h) | h) | h <;> (subst h; decide)

/-- the parsing states of a run on a core document: default fields, the context's specials, a mode; `br` = the extra
    pair of group delimiters inside a bracket group / a delimited argument -/
def stdF (keys : List Str) (m : Bool) (md : Option Str) (ee : Bool) (br : Xp := none) : PSFields :=
  { inMath := m, mathDelim := md, enEnvs := ee, specials := keys, groupDelims := brPairs br }

/-- `set_fields` invariant: outside math mode there is no math delimiter -/
def NormOk (m : Bool) (md : Option Str) : Prop := m = false → md = none

def stdMathStart : Str := ['$', '$', '\\', '\\', '$', '$', '\\', '\\']
def stdMathAll : List (Str × Bool) :=
  [(['\\', '('], false), (['\\', ')'], false), (['$', '$'], true), (['\\', '['], true), (['\\', ']'], true), (['$'], false)]
def stdMathByOpen : List (Str × (Str × Bool)) :=
  [(['$'], (['$'], false)), (['\\', '('], (['\\', ')'], false)), (['$', '$'], (['$', '$'], true)),
   (['\\', '['], (['\\', ']'], true))]

def stdExpect (m : Bool) (md : Option Str) : Option (Str × Bool) :=
  if !m then none else
  match md with
  | none => none
  | some d => lookupLast d stdMathByOpen

theorem mkPS_std (keys : List Str) (m : Bool) (md : Option Str) (ee : Bool) (br : Xp) (h : NormOk m md) :
    mkPS (stdF keys m md ee br) =
      { f := stdF keys m md ee br,
        t := { groupByOpen := brPairs br, groupClose := (brPairs br).map (·.2), mathStart := stdMathStart,
               mathAll := stdMathAll, mathByOpen := stdMathByOpen, expectClose := stdExpect m md } } := by
  cases m with
  | false => cases (h rfl); rcases br with _ | ⟨o, c⟩ <;> rfl
  | true => rcases br with _ | ⟨o, c⟩ <;> rfl


/-- the facts about a tokenizer state that the token lemmas use -/
structure PSStd (keys : List Str) (ee' m' : Bool) (ex' : Option (Str × Bool)) (br : Xp) (ps : PState) : Prop where
  ms : ps.t.mathStart = stdMathStart
  all : ps.t.mathAll = stdMathAll
  byOpen : ps.t.mathByOpen = stdMathByOpen
  go : ps.t.groupByOpen = brPairs br
  gc : ps.t.groupClose = (brPairs br).map (·.2)
  esc : ps.f.escapeChar = '\\'
  cs : ps.f.commentStart = ['%']
  eg : ps.f.enGroups = true
  ec : ps.f.enComments = true
  em : ps.f.enMacros = true
  emath : ps.f.enMath = true
  es : ps.f.enSpecials = true
  hc : ps.f.hasCtx = true
  sp : ps.f.specials = keys
  fb : ps.f.forbidden = []
  dn : ps.f.enDblNl = true
  alpha : ps.f.macroAlpha = "abcdefghijklmnopqrstuvwxyzABCDEFGHIJKLMNOPQRSTUVWXYZ".toList
  ee : ps.f.enEnvs = ee'
  inMath : ps.f.inMath = m'
  expect : ps.t.expectClose = ex'

theorem psStd_std (keys : List Str) (m : Bool) (md : Option Str) (ee : Bool) (br : Xp) (h : NormOk m md) :
    PSStd keys ee m (stdExpect m md) br (mkPS (stdF keys m md ee br)) := by
  rw [mkPS_std _ _ _ _ _ h]
  constructor <;> rfl

/-- the closing delimiter a math-mode state waits for is one of the four closers -/
theorem stdExpect_cases (m : Bool) (md : Option Str) :
    stdExpect m md = none ∨ ∃ k : FKind, stdExpect m md = some (k.closer, k.display) := by
  unfold stdExpect
  cases m with
  | false => exact Or.inl rfl
  | true =>
    cases md with
    | none => exact Or.inl rfl
    | some d =>
      simp only [Bool.not_true, Bool.false_eq_true, if_false]
      by_cases h1 : d = ['$']
      · subst h1; exact Or.inr ⟨.dollar, rfl⟩
      by_cases h2 : d = ['\\', '(']
      · subst h2; exact Or.inr ⟨.paren, rfl⟩
      by_cases h3 : d = ['$', '$']
      · subst h3; exact Or.inr ⟨.ddollar, rfl⟩
      by_cases h4 : d = ['\\', '[']
      · subst h4; exact Or.inr ⟨.brack, rfl⟩
      refine Or.inl ?_
      have h1' : ¬ ['$'] = d := fun e => h1 e.symm
      have h2' : ¬ ['\\', '('] = d := fun e => h2 e.symm
      have h3' : ¬ ['$', '$'] = d := fun e => h3 e.symm
      have h4' : ¬ ['\\', '['] = d := fun e => h4 e.symm
      simp [stdMathByOpen, lookupLast, h1', h2', h3', h4']

/-! ### small string facts -/

theorem getElem?_of_drop {s : Str} {p : Nat} {c : Char} {rest : Str} (h : s.drop p = c :: rest) : s[p]? = some c := by
  have : (s.drop p)[0]? = some c := by rw [h]; rfl
  rw [List.getElem?_drop] at this
  simpa using this

theorem drop_succ_of_drop {s : Str} {p : Nat} {c : Char} {rest : Str} (h : s.drop p = c :: rest) : s.drop (p + 1) = rest := by
  have : s.drop (p + 1) = (s.drop p).drop 1 := by rw [List.drop_drop]
  rw [this, h]; rfl

theorem drop_add_of_drop {s : Str} {p : Nat} {a rest : Str} (h : s.drop p = a ++ rest) : s.drop (p + a.length) = rest := by
  have : s.drop (p + a.length) = (s.drop p).drop a.length := by rw [List.drop_drop]
  rw [this, h, List.drop_left]

theorem startsWithAt_of_drop {s : Str} {p : Nat} {x : Str} (h : s.drop p = x) (t : Str) :
    startsWithAt s t p = t.isPrefixOf x := by
  unfold startsWithAt; rw [h]

theorem alpha_range {c : Char} (h : isAsciiAlpha c = true) : 65 ≤ c.toNat ∧ c.toNat ≤ 122 := by
  unfold isAsciiAlpha at h
  simp only [Bool.or_eq_true, Bool.and_eq_true, decide_eq_true_eq, Char.le_def] at h
  rcases h with ⟨h1, h2⟩ | ⟨h1, h2⟩
  · have : ('a' : Char).val.toNat = 97 := rfl
    have : ('z' : Char).val.toNat = 122 := rfl
    simp only [UInt32.le_iff_toNat_le] at h1 h2
    constructor <;> (unfold Char.toNat; omega)
  · have : ('A' : Char).val.toNat = 65 := rfl
    have : ('Z' : Char).val.toNat = 90 := rfl
    simp only [UInt32.le_iff_toNat_le] at h1 h2
    constructor <;> (unfold Char.toNat; omega)

theorem digit_range {c : Char} (h : isDigit c = true) : 48 ≤ c.toNat ∧ c.toNat ≤ 57 := by
  unfold isDigit at h
  simp only [Bool.and_eq_true, decide_eq_true_eq, Char.le_def] at h
  obtain ⟨h1, h2⟩ := h
  have : ('0' : Char).val.toNat = 48 := rfl
  have : ('9' : Char).val.toNat = 57 := rfl
  simp only [UInt32.le_iff_toNat_le] at h1 h2
  constructor <;> (unfold Char.toNat; omega)

theorem textChar_range {c : Char} (h : isTextChar c = true) : 44 ≤ c.toNat ∧ c.toNat ≤ 122 := by
  unfold isTextChar at h
  simp only [Bool.or_eq_true, beq_iff_eq] at h
  rcases h with ((((h | h) | h) | h) | h) | h
  · have := alpha_range h; omega
  · have := digit_range h; omega
  · subst h; decide
  · subst h; decide
  · subst h; decide
  · subst h; decide

/-- a text character starts neither math, an escape, a comment nor a group, and is not whitespace -/
theorem textChar_ne {c : Char} (h : isTextChar c = true) :
    c ≠ '$' ∧ c ≠ '\\' ∧ c ≠ '%' ∧ c ≠ '{' ∧ c ≠ '}' ∧ isPySpace c = false := by
  refine ⟨?_, ?_, ?_, ?_, ?_, ?_⟩
  · intro e; subst e; revert h; decide
  · intro e; subst e; revert h; decide
  · intro e; subst e; revert h; decide
  · intro e; subst e; revert h; decide
  · intro e; subst e; revert h; decide
  · have h1 := textChar_range h
    unfold isPySpace
    simp only [Bool.or_eq_false_iff, Bool.and_eq_false_iff, decide_eq_false_iff_not, beq_eq_false_iff_ne]
    omega

/-! ### specials -/

theorem keyFree_of_text {c : Char} (h : isTextChar c = true) : isKeyFree c = true := by
  unfold isKeyFree; rw [h]; rfl

theorem specialsStep_none {s : Str} {p : Nat} {c : Char} {rest : Str} (hd : s.drop p = c :: rest) (hc : isKeyFree c = true)
    (k : Str) (hk : headIs isKeyFree k = false) : specialsStep s p none k = none := by
  unfold specialsStep
  rw [startsWithAt_of_drop hd]
  cases k with
  | nil => simp [bestLen]
  | cons a k' =>
    have : a ≠ c := by
      intro e; subst e
      simp [headIs, hc] at hk
    simp [List.isPrefixOf, this]

theorem testSpecials_free {keys : List Str} {s : Str} {p : Nat} {c : Char} {rest : Str} (hk : keysCore keys = true)
    (hd : s.drop p = c :: rest) (hc : isKeyFree c = true) : testSpecials keys s p = none := by
  unfold testSpecials
  induction keys with
  | nil => rfl
  | cons k ks ih =>
    unfold keysCore at hk
    simp only [List.all_cons, Bool.and_eq_true, Bool.not_eq_eq_eq_not, Bool.not_true] at hk
    rw [List.foldl_cons, specialsStep_none hd hc k hk.1]
    exact ih (by unfold keysCore; exact hk.2)

/-! ### whitespace in front of a token -/

theorem takeWhile_ws {w r : Str} (hw : isWs w = true) (hr : headIs isPySpace r = false) :
    (w ++ r).takeWhile isPySpace = w := by
  induction w with
  | nil =>
    cases r with
    | nil => rfl
    | cons c r => simp only [headIs] at hr; simp [hr]
  | cons c w ih =>
    simp only [isWs, List.all_cons, Bool.and_eq_true] at hw
    simp only [List.cons_append, List.takeWhile, hw.1]
    rw [ih (by unfold isWs; exact hw.2)]

theorem dropWhile_ws {w r : Str} (hw : isWs w = true) (hr : headIs isPySpace r = false) :
    (w ++ r).dropWhile isPySpace = r := by
  induction w with
  | nil =>
    cases r with
    | nil => rfl
    | cons c r => simp only [headIs] at hr; simp [hr]
  | cons c w ih =>
    simp only [isWs, List.all_cons, Bool.and_eq_true] at hw
    simp only [List.cons_append, List.dropWhile, hw.1]
    rw [ih (by unfold isWs; exact hw.2)]

theorem spaceRun_of_drop {s : Str} {q : Nat} {w r : Str} (hd : s.drop q = w ++ r) (hw : isWs w = true)
    (hr : headIs isPySpace r = false) : spaceRun s q = w := by
  unfold spaceRun; rw [hd]; exact takeWhile_ws hw hr

/-- leading whitespace with fewer than two newlines becomes the `pre` of the token read behind it -/
theorem peekImpl_ws {ps : PState} {s : Str} {p : Nat} {w : Str} {c : Char} {rest : Str} (hd : s.drop p = w ++ c :: rest)
    (hw : isWs w = true) (hnl : countNl w < 2) (hc : isPySpace c = false) :
    peekImpl ps s p = peekAtChar ps s (p + w.length) c w := by
  have hsr : spaceRun s p = w := spaceRun_of_drop hd hw (by simp [headIs, hc])
  unfold peekImpl
  dsimp only
  rw [hsr]
  have h1 : (ps.f.enDblNl && decide (countNl w ≥ 2)) = false := by
    have : decide (countNl w ≥ 2) = false := by simp; omega
    rw [this, Bool.and_false]
  rw [h1]
  simp only [Bool.false_eq_true, if_false]
  rw [getElem?_of_drop (drop_add_of_drop hd)]

/-- whitespace up to the end of the input -/
theorem peekImpl_ws_eos {ps : PState} {s : Str} {p : Nat} {w : Str} (hd : s.drop p = w)
    (hw : isWs w = true) (hnl : countNl w < 2) : peekImpl ps s p = .eos w := by
  have hsr : spaceRun s p = w := spaceRun_of_drop (r := []) (by rw [hd, List.append_nil]) hw rfl
  unfold peekImpl
  dsimp only
  rw [hsr]
  have h1 : (ps.f.enDblNl && decide (countNl w ≥ 2)) = false := by
    have : decide (countNl w ≥ 2) = false := by simp; omega
    rw [this, Bool.and_false]
  rw [h1]
  simp only [Bool.false_eq_true, if_false]
  have : s[p + w.length]? = none := by
    have hl : s.length ≤ p + w.length := by
      have := congrArg List.length hd
      simp at this; omega
    exact List.getElem?_eq_none hl
  rw [this]

/-! ### tokens -/

section tokens
variable {keys : List Str} {ee m : Bool} {br : Xp} {ex : Option (Str × Bool)} {ps : PState} {s : Str} {p : Nat}

theorem mathStart_not {c : Char} (h1 : c ≠ '$') (h2 : c ≠ '\\') : stdMathStart.contains c = false := by
  simp [stdMathStart, h1, h2]

/-- the tokenizer gets to the group-delimiter test -/
theorem peekAtChar_toGroups (hps : PSStd keys ee m ex br ps) {c : Char} {rest pre : Str} (hd : s.drop p = c :: rest)
    (h1 : c ≠ '$') (h2 : c ≠ '\\') (h3 : c ≠ '%') :
    peekAtChar ps s p c pre = peekGroups ps s p c pre := by
  unfold peekAtChar
  rw [hps.ms, mathStart_not h1 h2]
  simp only [Bool.false_and, Bool.false_eq_true, if_false]
  unfold peekEscape
  rw [hps.esc]
  have e1 : (c == '\\') = false := by simp [h2]
  simp only [e1, Bool.false_eq_true, if_false]
  unfold peekComment
  rw [startsWithAt_of_drop hd, hps.cs]
  have e2 : List.isPrefixOf ['%'] (c :: rest) = false := by simp [List.isPrefixOf, Ne.symm h3]
  simp only [e2, Bool.and_false, Bool.false_and, Bool.false_eq_true, if_false]

/-- a character that starts neither math, an escape, a comment, a group nor a specials is a `char` token -/
theorem peekAtChar_plain (hps : PSStd keys ee m ex br ps) {c : Char} {rest pre : Str} (hd : s.drop p = c :: rest)
    (h1 : c ≠ '$') (h2 : c ≠ '\\') (h3 : c ≠ '%') (h4 : c ≠ '{') (h5 : c ≠ '}') (h6 : ∀ o c', br = some (o, c') → c ≠ o ∧ c ≠ c')
    (hsp : testSpecials keys s p = none) :
    peekAtChar ps s p c pre = .tok { kind := .char, arg := [c], pos := p, posEnd := p + 1, pre := pre } := by
  rw [peekAtChar_toGroups hps hd h1 h2 h3]
  unfold peekGroups
  rw [hps.eg, hps.go, hps.gc]
  have e3 : (['{'] == [c]) = false := by simp [Ne.symm h4]
  have e4 : (['}'] == [c]) = false := by simp [Ne.symm h5]
  have e5 : (brPairs br).any (fun d => d.1 == [c]) = false := by
    rcases br with _ | ⟨o, c'⟩
    · simp [brPairs, Ne.symm h4]
    · simp [brPairs, Ne.symm h4, Ne.symm (h6 o c' rfl).1]
  have e6 : ((brPairs br).map (·.2)).any (fun d => d == [c]) = false := by
    rcases br with _ | ⟨o, c'⟩
    · simp [brPairs, Ne.symm h5]
    · simp [brPairs, Ne.symm h5, Ne.symm (h6 o c' rfl).2]
  simp only [e5, e6, if_true, Bool.false_eq_true, if_false]
  unfold peekSpecialsOrChar
  rw [hps.hc, hps.es, hps.sp]
  simp only [Bool.and_self, if_true, hsp]
  unfold charToken
  rw [hps.fb]
  simp

theorem textChar_not_xdelim {c : Char} (h : isTextChar c = true) : isXDelim c = false := by
  cases hx : isXDelim c with
  | false => rfl
  | true =>
    exfalso
    unfold isXDelim at hx
    simp only [Bool.or_eq_true, beq_iff_eq] at hx
    rcases hx with ((((hx | hx) | hx) | hx) | hx) | hx <;> (subst hx; revert h; decide)

/-- a character that is not a delimiter character differs from the characters of the extra pair -/
theorem ne_xp_of_not_xdelim {br : Xp} (hx : XpOk br) {c : Char} (hc : isXDelim c = false) :
    ∀ o c', br = some (o, c') → c ≠ o ∧ c ≠ c' := by
  intro o c' e
  subst e
  obtain ⟨h1, h2, _⟩ := hx
  refine ⟨?_, ?_⟩ <;> (intro e; subst e; rw [hc] at *; contradiction)

/-- a text character is a `char` token -/
theorem peekAtChar_text (hps : PSStd keys ee m ex br ps) (hx : XpOk br) (hk : keysCore keys = true) {c : Char} {rest pre : Str}
    (hd : s.drop p = c :: rest) (hc : isTextChar c = true) :
    peekAtChar ps s p c pre = .tok { kind := .char, arg := [c], pos := p, posEnd := p + 1, pre := pre } := by
  obtain ⟨h1, h2, h3, h4, h5, _⟩ := textChar_ne hc
  exact peekAtChar_plain hps hd h1 h2 h3 h4 h5 (ne_xp_of_not_xdelim hx (textChar_not_xdelim hc))
    (testSpecials_free hk hd (keyFree_of_text hc))

/-- `*` is a `char` token -/
theorem peekAtChar_star (hps : PSStd keys ee m ex none ps) (hk : keysCore keys = true) {rest pre : Str}
    (hd : s.drop p = '*' :: rest) :
    peekAtChar ps s p '*' pre = .tok { kind := .char, arg := ['*'], pos := p, posEnd := p + 1, pre := pre } :=
  peekAtChar_plain hps hd (by decide) (by decide) (by decide) (by decide) (by decide) (fun _ _ h => by cases h)
    (testSpecials_free hk hd (by decide))

theorem peekAtChar_open (hps : PSStd keys ee m ex br ps) {rest pre : Str} (hd : s.drop p = '{' :: rest) :
    peekAtChar ps s p '{' pre = .tok { kind := .braceOpen, arg := ['{'], pos := p, posEnd := p + 1, pre := pre } := by
  rw [peekAtChar_toGroups hps hd (by decide) (by decide) (by decide)]
  unfold peekGroups
  rw [hps.eg, hps.go]
  rcases br with _ | ⟨o, c⟩ <;> simp [brPairs]

theorem peekAtChar_close (hps : PSStd keys ee m ex none ps) {rest pre : Str} (hd : s.drop p = '}' :: rest) :
    peekAtChar ps s p '}' pre = .tok { kind := .braceClose, arg := ['}'], pos := p, posEnd := p + 1, pre := pre } := by
  rw [peekAtChar_toGroups hps hd (by decide) (by decide) (by decide)]
  unfold peekGroups
  rw [hps.eg, hps.go, hps.gc]
  simp [brPairs]

/-- the opening delimiter of the extra pair -/
theorem peekAtChar_xopen {o c : Char} (hps : PSStd keys ee m ex (some (o, c)) ps) (hx : XpOk (some (o, c))) {rest pre : Str}
    (hd : s.drop p = o :: rest) :
    peekAtChar ps s p o pre = .tok { kind := .braceOpen, arg := [o], pos := p, posEnd := p + 1, pre := pre } := by
  obtain ⟨h1, h2, h3, _, _, _⟩ := xdelim_ne hx.1
  rw [peekAtChar_toGroups hps hd h1 h2 h3]
  unfold peekGroups
  rw [hps.eg, hps.go]
  simp [brPairs]

/-- the closing delimiter of the extra pair -/
theorem peekAtChar_xclose {o c : Char} (hps : PSStd keys ee m ex (some (o, c)) ps) (hx : XpOk (some (o, c))) {rest pre : Str}
    (hd : s.drop p = c :: rest) :
    peekAtChar ps s p c pre = .tok { kind := .braceClose, arg := [c], pos := p, posEnd := p + 1, pre := pre } := by
  obtain ⟨h1, h2, h3, h4, _, _⟩ := xdelim_ne hx.2.1
  rw [peekAtChar_toGroups hps hd h1 h2 h3]
  unfold peekGroups
  rw [hps.eg, hps.go, hps.gc]
  have hoc : o ≠ c := hx.2.2
  simp [brPairs, Ne.symm h4, hoc]

theorem peek_eos (ps : PState) (hd : s.drop p = []) : peekImpl ps s p = .eos [] :=
  peekImpl_ws_eos hd rfl (by decide)

end tokens

/-! ### comments -/

theorem findIdx_nl (text r : Str) (h : text.contains '\n' = false) :
    (text ++ '\n' :: r).findIdx? (· == '\n') = some text.length := by
  induction text with
  | nil => simp [List.findIdx?_cons]
  | cons c text ih =>
    simp only [List.contains_cons, Bool.or_eq_false_iff] at h
    have hc : (c == '\n') = false := by
      have := h.1
      cases hh : (c == '\n') with
      | false => rfl
      | true =>
        have e : c = '\n' := by simpa using hh
        subst e; simp at this
    simp only [List.cons_append, List.findIdx?_cons, hc, Bool.false_eq_true, if_false, ih h.2, Option.map_some, List.length_cons]

theorem findIdx_char (d : Char) (text r : Str) (h : text.contains d = false) :
    (text ++ d :: r).findIdx? (· == d) = some text.length := by
  induction text with
  | nil => simp [List.findIdx?_cons]
  | cons c text ih =>
    simp only [List.contains_cons, Bool.or_eq_false_iff] at h
    have hc : (c == d) = false := by
      cases hh : (c == d) with
      | false => rfl
      | true =>
        have e : c = d := by simpa using hh
        subst e; simp at h
    simp only [List.cons_append, List.findIdx?_cons, hc, Bool.false_eq_true, if_false, ih h.2, Option.map_some, List.length_cons]

theorem postSpaceAt_of_drop {s : Str} {q : Nat} {w r : Str} (hd : s.drop q = w ++ r) (hw : isWs w = true)
    (hnl : countNl w < 2) (hr : headIs isPySpace r = false) : postSpaceAt s q = w := by
  unfold postSpaceAt
  rw [spaceRun_of_drop hd hw hr]
  simp only
  rw [if_neg (by omega)]

/-- in front of a paragraph break the tokenizer takes no post-space -/
theorem postSpaceAt_par {s : Str} {q : Nat} {R : Str} (hd : s.drop q = R) (hp : parStart R = true) : postSpaceAt s q = [] := by
  unfold parStart at hp
  simp only [Bool.and_eq_true, beq_iff_eq, decide_eq_true_eq] at hp
  unfold postSpaceAt spaceRun
  rw [hd]
  simp only
  rw [if_pos hp.2]
  cases R with
  | nil => cases hp.1
  | cons c R =>
    have hc : c = '\n' := by simpa using hp.1
    subst hc
    have : isPySpace '\n' = true := by decide
    simp [this, firstNl, List.findIdx_cons]

theorem lastNlEnd_of_getLast : ∀ (x : Str), x.getLast? = some '\n' → lastNlEnd x = x.length
  | [], h => by cases h
  | [c], h => by
    have : c = '\n' := by simpa using h
    subst this
    rfl
  | c :: d :: x, h => by
    have h' : (d :: x).getLast? = some '\n' := by simpa [List.getLast?_cons_cons] using h
    have ih := lastNlEnd_of_getLast (d :: x) h'
    rw [lastNlEnd, ih]
    simp

/-- a paragraph break (whitespace with at least two newlines, beginning and ending with a newline) is one token:
    the specials `\n\n` when the state's context declares them, a `char` token holding the whole break otherwise -/
theorem peekImpl_par {ps : PState} {s : Str} {p : Nat} {x r : Str} (hd : s.drop p = x ++ r) (hw : isWs x = true)
    (hn : countNl x ≥ 2) (hh : x.head? = some '\n') (hl : x.getLast? = some '\n') (hr : headIs isPySpace r = false)
    (hdn : ps.f.enDblNl = true) :
    peekImpl ps s p =
      if parSpecials ps then .tok { kind := .specials, arg := ['\n', '\n'], pos := p, posEnd := p + x.length, pre := [] }
      else .tok { kind := .char, arg := x, pos := p, posEnd := p + x.length, pre := [] } := by
  have hsr : spaceRun s p = x := spaceRun_of_drop hd hw hr
  unfold peekImpl
  dsimp only
  rw [hsr, hdn]
  have h1 : decide (countNl x ≥ 2) = true := by simpa using hn
  rw [h1]
  simp only [Bool.and_self, if_true]
  unfold peekPar
  have hf : firstNl x = 0 := by
    cases x with
    | nil => cases hh
    | cons c x =>
      have hc : c = '\n' := by simpa using hh
      subst hc
      simp [firstNl, List.findIdx_cons]
  have hsl : slice s p (p + x.length) = x := by
    unfold slice
    rw [hd]
    have : p + x.length - p = x.length := by omega
    rw [this, List.take_left']
    rfl
  simp only [hf, lastNlEnd_of_getLast x hl, List.take_zero, Nat.add_zero, hsl]

section comment
variable {keys : List Str} {ee m : Bool} {br : Xp} {ex : Option (Str × Bool)} {ps : PState} {s : Str} {p : Nat}

/-- a comment line; `post` is whatever the tokenizer takes as the post-space behind the newline -/
theorem peekAtChar_comment_gen (hps : PSStd keys ee m ex br ps) {text R post pre : Str}
    (hd : s.drop p = '%' :: (text ++ '\n' :: R)) (htext : text.contains '\n' = false)
    (hpost : postSpaceAt s (p + 1 + text.length) = post) :
    peekAtChar ps s p '%' pre = .tok ({ kind := .comment, arg := text, pos := p, posEnd := p + 1 + text.length + post.length, pre := pre, post := post } : Token) := by
  unfold peekAtChar
  have e0 : stdMathStart.contains '%' = false := by decide
  rw [hps.ms, e0]
  simp only [Bool.false_and, Bool.false_eq_true, if_false]
  unfold peekEscape
  rw [hps.esc]
  have e1 : ('%' == '\\') = false := by decide
  simp only [e1, Bool.false_eq_true, if_false]
  unfold peekComment
  rw [startsWithAt_of_drop hd, hps.cs, hps.ec]
  have e2 : List.isPrefixOf ['%'] ('%' :: (text ++ '\n' :: R)) = true := by simp [List.isPrefixOf]
  simp only [e2, List.isEmpty_cons, Bool.not_false, Bool.and_self, if_true]
  unfold readComment
  rw [hps.cs]
  have hd1 : s.drop (p + 1) = text ++ '\n' :: R := drop_succ_of_drop hd
  have hfind : findCharFrom s '\n' (p + [ '%' ].length) = some (p + 1 + text.length) := by
    unfold findCharFrom
    show (match (s.drop (p + 1)).findIdx? (· == '\n') with | some i => some (p + 1 + i) | none => none) = _
    rw [hd1, findIdx_nl text _ htext]
  dsimp only
  rw [hfind]
  dsimp only
  rw [hpost]
  have hsl : slice s (p + ['%'].length) (p + 1 + text.length) = text := by
    unfold slice
    show List.take (p + 1 + text.length - (p + 1)) (s.drop (p + 1)) = text
    rw [hd1]
    have : p + 1 + text.length - (p + 1) = text.length := by omega
    rw [this, List.take_left']
    rfl
  rw [hsl]

theorem peekAtChar_comment (hps : PSStd keys ee m ex br ps) {text post r pre : Str}
    (hd : s.drop p = '%' :: (text ++ '\n' :: (post ++ r))) (htext : text.contains '\n' = false)
    (hws : isWs ('\n' :: post) = true) (hnl : countNl ('\n' :: post) < 2) (hr : headIs isPySpace r = false) :
    peekAtChar ps s p '%' pre = .tok ({ kind := .comment, arg := text, pos := p, posEnd := p + 1 + text.length + (1 + post.length), pre := pre, post := '\n' :: post } : Token) := by
  have hd1 : s.drop (p + 1) = text ++ '\n' :: (post ++ r) := drop_succ_of_drop hd
  have hd2 : s.drop (p + 1 + text.length) = ('\n' :: post) ++ r := by
    have := drop_add_of_drop hd1
    simpa using this
  have := peekAtChar_comment_gen (pre := pre) hps hd htext (postSpaceAt_of_drop hd2 hws hnl hr)
  rw [this]
  simp only [List.length_cons]
  congr 2
  omega

/-- a comment line in front of a paragraph break: no post-space -/
theorem peekAtChar_comment_par (hps : PSStd keys ee m ex br ps) {text R pre : Str}
    (hd : s.drop p = '%' :: (text ++ '\n' :: R)) (htext : text.contains '\n' = false) (hpar : parStart ('\n' :: R) = true) :
    peekAtChar ps s p '%' pre = .tok ({ kind := .comment, arg := text, pos := p, posEnd := p + 1 + text.length, pre := pre, post := [] } : Token) := by
  have hd1 : s.drop (p + 1) = text ++ '\n' :: R := drop_succ_of_drop hd
  have hd2 : s.drop (p + 1 + text.length) = '\n' :: R := drop_add_of_drop hd1
  exact peekAtChar_comment_gen (pre := pre) hps hd htext (postSpaceAt_par hd2 hpar)

end comment

end C02
end Pylx
