/-
  C05Loop — the nodes collector (`loopStep`, `loopDispatch`, `afterChild`) keeps the C05 contract.
-/
import PylxProofs.C05Lemmas
namespace Pylx

variable {env : Env} {rec : Task → Ret}

/-! ### the context is closed -/

theorem macroSpec_known (hc : env.ctx.Closed) {name : Str} {a : ArgsP} (h : env.ctx.macroSpec name = some a) : a.Known := by
  unfold Ctx.macroSpec at h
  split at h
  · rename_i a' ha
    cases h
    obtain ⟨p, hp, hv⟩ := lookupFirst_mem _ _ _ ha
    rw [← hv]; exact hc.macros p hp
  · exact hc.um a h

theorem envSpec_known (hc : env.ctx.Closed) {name : Str} {a : ArgsP × Bool} (h : env.ctx.envSpec name = some a) : a.1.Known := by
  unfold Ctx.envSpec at h
  split at h
  · rename_i a' ha
    cases h
    obtain ⟨p, hp, hv⟩ := lookupFirst_mem _ _ _ ha
    rw [← hv]; exact hc.envs p hp
  · exact hc.ue a h

/-! ### collector state -/

theorem flush_ok (f : PSFields) {st : LoopSt} (h : StOk env st) : StOk env (st.flush f) := by
  unfold LoopSt.flush
  split
  · exact h
  · refine ⟨h.pos, fun p hp => (by cases hp), fun n hn => ?_⟩
    rcases List.mem_append.mp hn with hn | hn
    · exact h.acc n hn
    · simp only [List.mem_singleton] at hn
      rw [hn]
      show st.pendPos.getD 0 ≤ _
      cases hpp : st.pendPos with
      | none => simp
      | some q => exact h.pend q hpp

theorem push_ok {st : LoopSt} (h : StOk env st) (chars : Str) {q : Nat} (hq : q ≤ env.s.length) :
    StOk env (st.push chars q) := by
  unfold LoopSt.push
  refine ⟨h.pos, fun p hp => ?_, h.acc⟩
  dsimp only at hp
  split at hp
  · rename_i p' hp'
    cases hp; exact h.pend _ hp'
  · cases hp; exact hq

theorem StOk.setPos {st : LoopSt} (h : StOk env st) {x : Nat} (hx : x ≤ env.s.length) :
    StOk env { st with pos := x } := ⟨hx, h.pend, h.acc⟩

theorem StOk.addNode {st : LoopSt} (h : StOk env st) {n : Node} (hn : n.pos ≤ env.s.length) :
    StOk env { st with acc := st.acc ++ [n] } := by
  refine ⟨h.pos, h.pend, fun m hm => ?_⟩
  rcases List.mem_append.mp hm with hm | hm
  · exact h.acc m hm
  · simp only [List.mem_singleton] at hm
    rw [hm]; exact hn

theorem flushBefore_ok (f : PSFields) {st : LoopSt} (h : StOk env st) {t : Token} (ht : TokLoc env t) :
    StOk env (st.flushBefore f t) := by
  unfold LoopSt.flushBefore
  split
  · exact flush_ok f (st := { st with pend := st.pend ++ t.pre }) ⟨h.pos, h.pend, h.acc⟩
  · split
    · apply h.addNode
      show t.pos - t.pre.length ≤ _
      have := ht.pos_len
      omega
    · exact h

theorem loopFinish_good (f : PSFields) {st : LoopSt} (hst : StOk env st) {stopTok : Option Token} {err : Option PErr}
    (hstop : ∀ t, stopTok = some t → t.posEnd ≤ env.s.length)
    (herr : ∀ pe, err = some pe → ∃ p, pe.pos = some p ∧ p ≤ env.s.length) :
    GoodLoop env (loopFinish f st stopTok err) := by
  have h := flush_ok f hst
  exact ⟨h.pos, h.acc, herr, hstop⟩

theorem loopFinish_err5 (f : PSFields) {st : LoopSt} (hst : StOk env st) (e : PErr) {p : Nat} (hp : e.pos = some p)
    (hle : p ≤ env.s.length) : GoodLoop env (loopFinish f st none (some e)) :=
  loopFinish_good f hst (by intro t h; cases h) (by intro pe h; cases h; exact ⟨p, hp, hle⟩)

/-! ### `afterChild` -/

theorem afterChild_good (hrec : RecOk env rec) {f : PSFields} {stop : StopTok} {child : ChildPS} {st : LoopSt}
    (hf : FOk5 env f) (hch : ChildOk5 env f child) (hst : StOk env st)
    (noneOk : Bool) {p : Parser} {r : Ret} (hr : GoodPc env p r)
    (hshape : ∀ res, ResShape p res → isNode res ∨ (noneOk = true ∧ res = .none)) :
    GoodLoop env (afterChild rec f stop child st noneOk r) := by
  cases r with
  | ok res q =>
    obtain ⟨hs, hin, hq⟩ := hr
    cases res with
    | node n =>
      show GoodLoop env (rec (.loop f stop child _))
      exact hrec.loop hf hch ((hst.addNode hin.1).setPos hq)
    | none =>
      rcases hshape _ hs with h | ⟨h, _⟩
      · exact h.elim
      · unfold afterChild
        simp only [h, if_true]
        exact hrec.loop hf hch (hst.setPos hq)
    | list a b c =>
      rcases hshape _ hs with h | ⟨_, h⟩
      · exact h.elim
      · cases h
    | args a b c =>
      rcases hshape _ hs with h | ⟨_, h⟩
      · exact h.elim
      · cases h
  | perr e =>
    obtain ⟨p', hp', hle⟩ := hr.2.pos
    exact loopFinish_err5 f hst e hp' hle
  | loopEnd e => exact hr.elim
  | crash k => exact hr.elim
  | fuel => trivial

/-! ### reading a token -/

theorem loopRead_cases5 {f : PSFields} {st : LoopSt} (hf : FOk5 env f) (hst : StOk env st) :
    (∃ r, loopRead env f st = .inr r ∧ GoodLoop env r) ∨
    (∃ t, loopRead env f st = .inl t ∧ TokLoc env t ∧
          (t.kind ≠ .char → peekImpl (mkPS f) env.s st.pos = .tok t)) := by
  unfold loopRead
  cases hp : peekTok env.tol (mkPS f) env.s st.pos with
  | tok t =>
    right
    exact ⟨t, rfl, .ofSpan (span_of_peekTok _ _ hf.tables _ _ _ hp), fun hk => peekTok_nonchar hp hk⟩
  | eos fs =>
    dsimp only
    split
    · left; exact ⟨_, rfl, loopFinish_good f hst (by intro t h; cases h) (by intro pe h; cases h)⟩
    · right
      refine ⟨_, rfl, ⟨Nat.le_refl _, ?_⟩, fun hk => absurd rfl hk⟩
      show st.pos + fs.length ≤ _
      have := peekImpl_ok (mkPS f) hf.tables env.s st.pos
      rw [peekTok_eos hp] at this
      have hpos := hst.pos
      rcases this with h | h
      · rw [h]; simp only [List.length_drop]; omega
      · omega
  | err w ep t r =>
    left
    refine ⟨_, rfl, loopFinish_err5 f hst _ rfl (peekTok_err_le hf.tables hp).1⟩

/-! ### dispatch -/

theorem errAt_pos (w : ErrWhat) (t : Token) (rp : Nat) (past : Bool) : (errAt w t rp past).pos = some t.pos := rfl

theorem loopDispatch_good (hc : env.ctx.Closed) (hrec : RecOk env rec) {f : PSFields} {stop : StopTok}
    {child : ChildPS} {st : LoopSt} (hf : FOk5 env f) (hch : ChildOk5 env f child) (hst : StOk env st)
    {p0 : Nat} {t : Token} (hpk : peekImpl (mkPS f) env.s p0 = .tok t) (hloc : TokLoc env t)
    (hnc : t.kind ≠ .char) :
    GoodLoop env (loopDispatch env rec f stop child st { t with pre := [] }) := by
  have hmath : (t.kind = .mathInline ∨ t.kind = .mathDisplay) →
      GoodLoop env (if (mkPS f).t.mathByOpen.any (fun d => d.1 == t.arg) then
          afterChild rec f stop child st true
            (rec (.pc (.math t.arg) (child.get f { t with pre := [] }) t.pos))
        else loopFinish f st none (some (errAt .unexpectedCloseMath { t with pre := [] } st.pos true))) := by
    intro hk
    split
    · rename_i hany
      apply afterChild_good hrec hf hch hst true (p := .math t.arg)
      · apply hrec.pc (childGet_FOk hf hch _) hloc.pos_len
        unfold PPre5
        dsimp only
        refine ⟨?_, fun htol => ?_⟩
        · rw [byOpenOf_sameBut (childGet_sameBut hch _), ← mkPS_mathByOpen]; exact hany
        · exact ⟨_, reread_math (childGet_sameBut hch _) hpk hk, hk, rfl, rfl⟩
      · intro res hs
        cases res with
        | node n => left; trivial
        | none => right; exact ⟨rfl, rfl⟩
        | list a b c => exact hs.elim
        | args a b c => exact hs.elim
    · exact loopFinish_err5 f hst _ (errAt_pos _ _ _ _) hloc.pos_len
  generalize ht' : ({ t with pre := [] } : Token) = t'
  unfold loopDispatch
  cases hk : t'.kind <;> subst ht' <;> dsimp only
  case char => exact absurd hk hnc
  case braceClose => exact loopFinish_err5 f hst _ (errAt_pos _ _ _ _) hloc.pos_len
  case endEnv => exact loopFinish_err5 f hst _ (errAt_pos _ _ _ _) hloc.pos_len
  case comment =>
    exact hrec.loop hf hch (hst.addNode hloc.pos_len)
  case braceOpen =>
    have ht' : ({ t with pre := [] } : Token).kind = .braceOpen := hk
    have hop0 := braceOpen_opener hpk hk
    have hop : f.groupDelims.any (fun d => d.1 == ({ t with pre := [] } : Token).arg) = true := hop0
    apply afterChild_good hrec hf hch hst false (p := .group (.auto t.arg) false false)
    · apply hrec.pc (childGet_FOk hf hch _) hloc.pos_len
      unfold PPre5
      dsimp only
      intro o ho
      cases ho
      refine ⟨childGet_opener hch _ ht' hop, nonSpaceAt_of_tok hpk (Or.inl hk), fun htol => ?_⟩
      exact ⟨_, reread_braceOpen (childGet_sameBut hch _) hpk hk (childGet_opener hch _ ht' hop), hk, rfl, rfl⟩
    · intro res hs
      left; exact hs rfl rfl
  case «macro» =>
    cases hm : env.ctx.macroSpec t.arg with
    | none =>
      dsimp only
      split
      · exact hrec.loop hf hch hst
      · exact loopFinish_err5 f hst _ (errAt_pos _ _ _ _) hloc.pos_len
    | some a =>
      dsimp only
      apply afterChild_good hrec hf hch hst true (p := .macroCall { t with pre := [] } a)
      · exact hrec.pc (childGet_FOk hf hch _) hst.pos ⟨macroSpec_known hc hm, hloc.pos_len⟩
      · intro res hs; left; exact hs
  case beginEnv =>
    cases hm : env.ctx.envSpec t.arg with
    | none =>
      dsimp only
      split
      · exact hrec.loop hf hch hst
      · exact loopFinish_err5 f hst _ (errAt_pos _ _ _ _) hloc.pos_len
    | some ab =>
      dsimp only
      apply afterChild_good hrec hf hch hst true (p := .envCall { t with pre := [] } ab.1 ab.2)
      · exact hrec.pc (childGet_FOk hf hch _) hst.pos ⟨envSpec_known hc hm, hloc.pos_len⟩
      · intro res hs; left; exact hs
  case specials =>
    have hmem : t.arg ∈ env.ctx.specials.map (·.1) := by
      have := specials_arg_mem hpk hk
      rw [mkPS_specials, hf.specials] at this
      exact this
    obtain ⟨a, ha⟩ := lookupFirst_some_of_mem _ _ hmem
    rw [ha]
    dsimp only
    have hka : a.Known := by
      obtain ⟨p, hp, hv⟩ := lookupFirst_mem _ _ _ ha
      rw [← hv]; exact hc.specials p hp
    apply afterChild_good hrec hf hch hst true (p := .specialsCall { t with pre := [] } a)
    · exact hrec.pc (childGet_FOk hf hch _) hst.pos ⟨hka, hloc.pos_len⟩
    · intro res hs; left; exact hs
  case mathInline => exact hmath (Or.inl hk)
  case mathDisplay => exact hmath (Or.inr hk)

/-! ### one iteration -/

theorem loopStep_good5 (hc : env.ctx.Closed) (hrec : RecOk env rec) {f : PSFields} {stop : StopTok}
    {child : ChildPS} {st : LoopSt} (hf : FOk5 env f) (hch : ChildOk5 env f child) (hst : StOk env st) :
    GoodLoop env (loopStep env rec f stop child st) := by
  unfold loopStep
  rcases loopRead_cases5 hf hst with ⟨r, hr, hg⟩ | ⟨t, hr, hloc, hpk⟩
  · rw [hr]; exact hg
  · rw [hr]
    dsimp only
    have hq : t.pos - t.pre.length ≤ env.s.length := by have := hloc.pos_len; omega
    split
    · exact loopFinish_good f ((push_ok hst _ hq).setPos hloc.pos_len)
        (by intro t' h; cases h; exact hloc.end_le) (by intro pe h; cases h)
    · split
      · exact hrec.loop hf hch ((push_ok hst _ hq).setPos hloc.end_le)
      · rename_i hnc
        have hnc' : t.kind ≠ .char := by
          intro h; apply hnc; rw [h]; decide
        exact loopDispatch_good hc hrec hf hch ((flushBefore_ok f hst hloc).setPos hloc.end_le)
          (hpk hnc') hloc hnc'

end Pylx
