/-
  C13 — encoded text is inert, strictly parseable, ASCII-only when asked.

  This file: the theorems about `encode (builtinCfg …)` — `C13_table`, `C13_table_ascii`,
  `C13_active_neutralised`, `C13_inert`, `C13_inert_fail`, `C13_total`, `C13_ascii`, `C13_fail_iff`.
  Lexical vocabulary: `PylxProofs/C13Lex.lean`; kernel-checked table facts: `PylxProofs/C13Table.lean`;
  the link to the parser model: `PylxProofs/C13Parse.lean`.
-/
import PylxProofs.C13Table
namespace Pylx.C13
open Pylx Pylx.EncB

/-! ### The step of the encoder with a built-in rule set -/

theorem lookup_mem {l : List (Nat × Str)} {k : Nat} {v : Str} (h : l.lookup k = some v) : (k, v) ∈ l := by
  induction l with
  | nil => simp [List.lookup] at h
  | cons x xs ih =>
    obtain ⟨a, b⟩ := x
    simp only [List.lookup] at h
    split at h
    · rename_i hk
      cases h
      have : k = a := by simpa using hk
      subst this
      simp
    · exact List.mem_cons_of_mem _ (ih h)

theorem tableOf_mem {tb : Table} {k : Nat} {v : Str} (h : (tableOf tb).lookup k = some v) :
    ∃ e ∈ rawTable tb, v = S e.2 := by
  have := lookup_mem h
  simp only [tableOf, List.mem_map] at this
  obtain ⟨e, he, heq⟩ := this
  cases heq
  exact ⟨e, he, rfl⟩

/-- the policies that are plain names (no callable) -/
def NamedPolicy : Policy → Prop
  | .wrap _ _ => False
  | _ => True

/-- one iteration of the loop, with a built-in rule set and `non_ascii_only=False` -/
theorem stepAt_builtin (tb : Table) (pr : Prot) (pol : Policy) (c : Char) :
    stepAt (builtinCfg tb pr pol false) [c] 0 c =
      match (tableOf tb).lookup c.toNat with
      | some r => .emit (protect isAsciiAlpha pr r) 1
      | none => if isCopyChar c then .emit [c] 1 else unknownChar pol c := by
  cases hl : (tableOf tb).lookup c.toNat <;>
    simp [stepAt, skipsAscii, builtinCfg, firstRule, builtinRule, dictRule, ruleProt_none, hl]

theorem builtin_perChar (tb : Table) (pr : Prot) (pol : Policy) (nao : Bool) : PerChar (builtinCfg tb pr pol nao) :=
  perChar_of_dictRules _ (by
    intro r hr
    simp only [builtinCfg, List.mem_singleton] at hr
    exact ⟨_, _, hr⟩)

/-! ### Chunks -/

theorem plain_of_no_rule {tb : Table} {c : Char} (h : (tableOf tb).lookup c.toNat = none) : plainChar c = true := by
  have ha := active_have_rules tb
  simp only [List.all_cons, List.all_nil, Bool.and_true, Bool.and_eq_true] at ha
  obtain ⟨h1, h2, h3, h4, h5⟩ := ha
  simp only [plainChar, Bool.and_eq_true, bne_iff_ne, ne_eq]
  refine ⟨⟨⟨⟨?_, ?_⟩, ?_⟩, ?_⟩, ?_⟩
  · intro hc; subst hc
    have h' : (tableOf tb).lookup 92 = none := h
    rw [h'] at h1; cases h1
  · intro hc; subst hc
    have h' : (tableOf tb).lookup 123 = none := h
    rw [h'] at h2; cases h2
  · intro hc; subst hc
    have h' : (tableOf tb).lookup 125 = none := h
    rw [h'] at h3; cases h3
  · intro hc; subst hc
    have h' : (tableOf tb).lookup 37 = none := h
    rw [h'] at h4; cases h4
  · intro hc; subst hc
    have h' : (tableOf tb).lookup 36 = none := h
    rw [h'] at h5; cases h5

theorem plain_of_not_copy {c : Char} (h : isCopyChar c = false) : plainChar c = true := by
  simp only [plainChar, Bool.and_eq_true, bne_iff_ne, ne_eq]
  refine ⟨⟨⟨⟨?_, ?_⟩, ?_⟩, ?_⟩, ?_⟩ <;> (intro hc; subst hc; revert h; decide)

/-! #### the `unihex` text -/

def hexish (c : Char) : Bool := "0123456789ABCDEF*".toList.contains c

theorem hexish_digitChar (k : Nat) : hexish (Nat.digitChar k).toUpper = true := by
  by_cases h : 16 ≤ k
  · rw [Nat.digitChar_eq_star.mpr h]; decide
  · rcases k with _|_|_|_|_|_|_|_|_|_|_|_|_|_|_|_|k
    all_goals first | decide | omega

theorem mem_toDigitsCore {b : Nat} : ∀ (f n : Nat) (ds : List Char) (c : Char),
    c ∈ Nat.toDigitsCore b f n ds → c ∈ ds ∨ ∃ k, c = Nat.digitChar k := by
  intro f
  induction f with
  | zero => intro n ds c h; simp [Nat.toDigitsCore] at h; exact Or.inl h
  | succ f ih =>
    intro n ds c h
    simp only [Nat.toDigitsCore] at h
    split at h
    · rcases List.mem_cons.mp h with rfl | h
      · exact Or.inr ⟨_, rfl⟩
      · exact Or.inl h
    · rcases ih _ _ _ h with h | h
      · rcases List.mem_cons.mp h with rfl | h
        · exact Or.inr ⟨_, rfl⟩
        · exact Or.inl h
      · exact Or.inr h

theorem hexish_hexUpper4 (n : Nat) : ∀ c ∈ hexUpper4 n, hexish c = true := by
  intro c hc
  simp only [hexUpper4, List.mem_append, List.mem_replicate, List.mem_map] at hc
  rcases hc with ⟨_, rfl⟩ | ⟨d, hd, rfl⟩
  · decide
  · rcases mem_toDigitsCore _ _ _ _ hd with h | ⟨k, rfl⟩
    · simp at h
    · exact hexish_digitChar k

theorem hexish_cases {c : Char} (h : hexish c = true) :
    plainChar c = true ∧ c.toNat < 128 := by
  simp only [hexish, List.contains_eq_mem, decide_eq_true_eq] at h
  have : c ∈ ['0','1','2','3','4','5','6','7','8','9','A','B','C','D','E','F','*'] := h
  simp only [List.mem_cons, List.not_mem_nil, or_false] at this
  rcases this with rfl|rfl|rfl|rfl|rfl|rfl|rfl|rfl|rfl|rfl|rfl|rfl|rfl|rfl|rfl|rfl|rfl <;> decide

def uniPre : Str := "\\ensuremath{\\langle}\\texttt{U+".toList
def uniSuf : Str := "}\\ensuremath{\\rangle}".toList

theorem envFree_noslash_append {l r : Str} (h : ∀ c ∈ l, c ≠ '\\') : envFree (l ++ r) = envFree r := by
  induction l with
  | nil => rfl
  | cons c cs ih =>
    have hc : c ≠ '\\' := h c (by simp)
    simp only [List.cons_append, envFree]
    rw [ih (fun d hd => h d (by simp [hd]))]
    simp [hc]

theorem afterLast_append_some {c : Char} {a b t : Str} (h : afterLast c b = some t) :
    afterLast c (a ++ b) = some t := by
  induction a with
  | nil => simpa using h
  | cons x xs ih => simp only [List.cons_append, afterLast, ih]

theorem chunkSafe_unihex (n : Nat) : chunkSafe (uniPre ++ hexUpper4 n ++ uniSuf) = true := by
  have hp : ∀ c ∈ hexUpper4 n, plainChar c = true := fun c hc => (hexish_cases (hexish_hexUpper4 n c hc)).1
  have hns : ∀ c ∈ hexUpper4 n, c ≠ '\\' := by
    intro c hc
    have := hp c hc
    simp only [plainChar, Bool.and_eq_true, bne_iff_ne, ne_eq] at this
    exact this.1.1.1.1
  have h1 : lexOk (uniPre ++ hexUpper4 n ++ uniSuf) = true := by
    rw [lexOk_iff, List.append_assoc, lexScan_append]
    have e1 : lexScan st0 uniPre = some ⟨false, 1, false⟩ := by decide
    rw [e1]
    simp only [Option.bind_some]
    rw [lexScan_append, lexScan_plain rfl hp]
    decide
  have h2 : envFree (uniPre ++ hexUpper4 n ++ uniSuf) = true := by
    rw [List.append_assoc]
    refine envFree_append (by decide) (by decide) ?_
    rw [envFree_noslash_append hns]
    decide
  have h3 : tailOk (uniPre ++ hexUpper4 n ++ uniSuf) = true := by
    have : afterLast '\\' (uniPre ++ hexUpper4 n ++ uniSuf) = some "rangle}".toList :=
      afterLast_append_some (by decide)
    simp only [tailOk, this]
    decide
  rw [chunkSafe, h1, h2, h3]; rfl

theorem chunkSafe_unknown {pol : Policy} (hn : NamedPolicy pol) {c : Char} (hc : isCopyChar c = false)
    {t : Str} {n : Nat} (h : unknownChar pol c = .emit t n) : chunkSafe t = true := by
  cases pol with
  | keep => simp only [unknownChar] at h; cases h; exact chunkSafe_plain (plain_of_not_copy hc)
  | replace => simp only [unknownChar] at h; cases h; decide
  | ignore => simp only [unknownChar] at h; cases h; decide
  | fail => simp [unknownChar] at h
  | unihex => simp only [unknownChar] at h; cases h; exact chunkSafe_unihex _
  | wrap a b => exact absurd hn (by simp [NamedPolicy])

/-- every chunk the encoder appends is safe -/
theorem chunkSafe_step {tb : Table} {pr : Prot} (hpr : BuiltinProt pr) {pol : Policy} (hn : NamedPolicy pol)
    {c : Char} {t : Str} {n : Nat} (h : stepAt (builtinCfg tb pr pol false) [c] 0 c = .emit t n) :
    chunkSafe t = true := by
  rw [stepAt_builtin] at h
  cases hl : (tableOf tb).lookup c.toNat with
  | some r =>
    rw [hl] at h
    simp only at h
    cases h
    obtain ⟨e, he, rfl⟩ := tableOf_mem hl
    have := table_safe tb e he
    simp only [entrySafe, List.all_eq_true] at this
    exact this pr hpr
  | none =>
    rw [hl] at h
    simp only at h
    split at h
    · cases h; exact chunkSafe_plain (plain_of_no_rule hl)
    · rename_i hcp
      exact chunkSafe_unknown hn (by simpa using hcp) h

/-! ### From chunks to the encoder's result -/

theorem encChars_forall {cfg : Cfg} (P : Str → Prop)
    (h : ∀ c t n, stepAt cfg [c] 0 c = .emit t n → P t) :
    ∀ s l, encChars cfg s = .ok l → ∀ t ∈ l, P t := by
  intro s
  induction s with
  | nil => intro l hl t ht; simp only [encChars] at hl; cases hl; simp at ht
  | cons c cs ih =>
    intro l hl t ht
    simp only [encChars] at hl
    cases hst : stepAt cfg [c] 0 c with
    | raise e => rw [hst] at hl; cases hl
    | emit t' n =>
      rw [hst] at hl
      simp only at hl
      cases hrec : encChars cfg cs with
      | ok l' =>
        rw [hrec] at hl
        simp only [EncRes.cons] at hl
        cases hl
        rcases List.mem_cons.mp ht with rfl | ht
        · exact h c _ n hst
        · exact ih l' hrec t ht
      | raise e => rw [hrec] at hl; simp [EncRes.cons] at hl
      | diverge => rw [hrec] at hl; simp [EncRes.cons] at hl

theorem encChars_total {cfg : Cfg} (h : ∀ c e, stepAt cfg [c] 0 c ≠ .raise e) :
    ∀ s, ∃ l, encChars cfg s = .ok l := by
  intro s
  induction s with
  | nil => exact ⟨[], rfl⟩
  | cons c cs ih =>
    obtain ⟨l, hl⟩ := ih
    simp only [encChars]
    cases hst : stepAt cfg [c] 0 c with
    | raise e => exact absurd hst (h c e)
    | emit t n => exact ⟨t :: l, by simp [hl, EncRes.cons]⟩

theorem encChars_raise_iff {cfg : Cfg} (s : Str) :
    (∃ e, encChars cfg s = .raise e) ↔ ∃ c ∈ s, ∃ e, stepAt cfg [c] 0 c = .raise e := by
  induction s with
  | nil => simp [encChars]
  | cons c cs ih =>
    simp only [encChars]
    cases hst : stepAt cfg [c] 0 c with
    | raise e =>
      constructor
      · intro _; exact ⟨c, by simp, e, hst⟩
      · intro _; exact ⟨e, rfl⟩
    | emit t n =>
      simp only [cons_eq_raise]
      rw [ih]
      constructor
      · rintro ⟨d, hd, e, he⟩; exact ⟨d, by simp [hd], e, he⟩
      · rintro ⟨d, hd, e, he⟩
        rcases List.mem_cons.mp hd with rfl | hd
        · rw [hst] at he; cases he
        · exact ⟨d, hd, e, he⟩

theorem step_no_raise {tb : Table} {pr : Prot} {pol : Policy} (hp : pol ≠ .fail) (c : Char) (e : EncExc) :
    stepAt (builtinCfg tb pr pol false) [c] 0 c ≠ .raise e := by
  rw [stepAt_builtin]
  cases (tableOf tb).lookup c.toNat with
  | some r => simp
  | none =>
    simp only
    split
    · simp
    · intro h; exact hp (unknownChar_raise.mp h).1

theorem step_raise_iff_builtin {tb : Table} {pr : Prot} (c : Char) :
    (∃ e, stepAt (builtinCfg tb pr .fail false) [c] 0 c = .raise e) ↔
      ((tableOf tb).lookup c.toNat = none ∧ isCopyChar c = false) := by
  rw [stepAt_builtin]
  cases (tableOf tb).lookup c.toNat with
  | some r => simp
  | none =>
    simp only [true_and]
    cases hc : isCopyChar c <;> simp [unknownChar]

/-! ### The property theorems -/

/-- **C13 (tables).**  Every entry of both generated tables, protected by any of the five
    built-in schemes, is a safe chunk: balanced unescaped braces, no unescaped `%`, unescaped `$`
    in pairs, no incomplete escape at its end, no `\begin` / `\end`, and nothing after its last
    backslash that following text could complete to `begin` / `end`. -/
theorem C13_table (tb : Table) : ∀ e ∈ rawTable tb, ∀ pr, BuiltinProt pr →
    ChunkSafe (protect isAsciiAlpha pr (S e.2)) := by
  intro e he pr hpr
  have := table_safe tb e he
  simp only [entrySafe, List.all_eq_true] at this
  exact this pr hpr

/-- **C13 (tables are ASCII).** -/
theorem C13_table_ascii (tb : Table) : ∀ e ∈ rawTable tb, ∀ c ∈ S e.2, c.toNat < 128 := by
  intro e he c hc
  have := table_ascii tb e he
  simp only [entryAscii, List.all_eq_true, decide_eq_true_eq] at this
  exact this c hc

/-- occurrences of `a` outside backslash escapes (`esc` = the previous character was an unescaped backslash) -/
def rawOcc (a : Char) : Bool → Str → Bool
  | _, [] => false
  | true, _ :: r => rawOcc a false r
  | false, c :: r => if c == '\\' then rawOcc a true r else (c == a || rawOcc a false r)

/-- the LaTeX-active ASCII characters other than the backslash -/
def activeChars : Str := "{}$%&#_^~".toList

/-- **C13 (active characters are neutralised).**  Each of `{ } $ % & # _ ^ ~` has a rule in both
    tables whose replacement does not contain that character outside a backslash escape; the backslash
    has a rule whose replacement is a safe chunk (`C13_table`). -/
theorem C13_active_neutralised (tb : Table) :
    (∀ a ∈ activeChars, ∃ r, (tableOf tb).lookup a.toNat = some r ∧ rawOcc a false r = false) ∧
    (∃ r, (tableOf tb).lookup ('\\').toNat = some r) := by
  have h : (activeChars.all fun a => match (tableOf tb).lookup a.toNat with
      | some r => !rawOcc a false r | none => false) = true ∧ ((tableOf tb).lookup 92).isSome = true := by
    cases tb <;> constructor <;> decide +kernel
  constructor
  · intro a ha
    have := List.all_eq_true.mp h.1 a ha
    split at this
    · rename_i r hr; exact ⟨r, hr, by simpa using this⟩
    · cases this
  · cases hl : (tableOf tb).lookup 92 with
    | some r => exact ⟨r, hl⟩
    | none => rw [hl] at h; simp at h

/-- **C13 (inert output).**  For every (NFC-normalised) string, each of the five built-in
    protection schemes, both built-in rule sets and each of the policies `keep`, `replace`,
    `ignore`, `unihex`, the encoder returns a text, and that text is inert. -/
theorem C13_inert (tb : Table) (pr : Prot) (hpr : BuiltinProt pr) (pol : Policy) (hn : NamedPolicy pol)
    (hp : pol ≠ .fail) (s : Str) :
    ∃ t, encode (builtinCfg tb pr pol false) s = some t ∧ Inert t := by
  have hpc := builtin_perChar tb pr pol false
  obtain ⟨l, hl⟩ := encChars_total (cfg := builtinCfg tb pr pol false) (step_no_raise hp) s
  refine ⟨l.flatten, ?_, ?_⟩
  · simp [encode, encodeChunks_eq_encChars hpc, hl, EncRes.joined]
  · exact inert_flatten l (encChars_forall (fun t => chunkSafe t = true)
      (fun c t n h => chunkSafe_step hpr hn h) s l hl)

/-- under `fail`, whenever the encoder returns a text it is inert -/
theorem C13_inert_fail (tb : Table) (pr : Prot) (hpr : BuiltinProt pr) (s t : Str)
    (h : encode (builtinCfg tb pr .fail false) s = some t) : Inert t := by
  have hpc := builtin_perChar tb pr .fail false
  simp only [encode, encodeChunks_eq_encChars hpc] at h
  cases hl : encChars (builtinCfg tb pr .fail false) s with
  | ok l =>
    rw [hl] at h
    simp only [EncRes.joined, Option.some.injEq] at h
    subst h
    exact inert_flatten l (encChars_forall (fun t => chunkSafe t = true)
      (fun c t n h => chunkSafe_step hpr (by simp [NamedPolicy]) h) s l hl)
  | raise e => rw [hl] at h; simp [EncRes.joined] at h
  | diverge => rw [hl] at h; simp [EncRes.joined] at h

/-- **C13 (no exception without `fail`).** -/
theorem C13_total (tb : Table) (pr : Prot) (pol : Policy) (hp : pol ≠ .fail) (s : Str) :
    ∃ l, encodeChunks (builtinCfg tb pr pol false) s = .ok l := by
  rw [encodeChunks_eq_encChars (builtin_perChar tb pr pol false)]
  exact encChars_total (step_no_raise hp) s

/-- **C13 (`fail`).**  Under `unknown_char_policy='fail'` the encoder raises exactly when some
    character of the string has no conversion rule and is not in the ASCII pass-through range
    (printable ASCII, DEL, `\n \r \t`); what it raises is the `ValueError` (`C04_exceptions`). -/
theorem C13_fail_iff (tb : Table) (pr : Prot) (s : Str) :
    ((∃ e, encodeChunks (builtinCfg tb pr .fail false) s = .raise e) ↔
      ∃ c ∈ s, (tableOf tb).lookup c.toNat = none ∧ isCopyChar c = false) ∧
    (∀ e, encodeChunks (builtinCfg tb pr .fail false) s = .raise e → ∃ c ∈ s, e = .valueError c) := by
  have hpc := builtin_perChar tb pr .fail false
  constructor
  · rw [encodeChunks_eq_encChars hpc, encChars_raise_iff]
    constructor
    · rintro ⟨c, hc, he⟩; exact ⟨c, hc, (step_raise_iff_builtin c).mp he⟩
    · rintro ⟨c, hc, h⟩; exact ⟨c, hc, (step_raise_iff_builtin c).mpr h⟩
  · intro e he
    obtain ⟨p, c, _, hc, rfl, _⟩ :=
      (C04_exceptions _ (perChar_noRaise hpc) (perChar_productive hpc) s e).mp he
    exact ⟨c, List.mem_of_getElem? hc, rfl⟩

/-- the returned string under `fail`: `none` (an exception) exactly in the same case -/
theorem C13_fail_iff_encode (tb : Table) (pr : Prot) (s : Str) :
    encode (builtinCfg tb pr .fail false) s = none ↔
      ∃ c ∈ s, (tableOf tb).lookup c.toNat = none ∧ isCopyChar c = false := by
  rw [← (C13_fail_iff tb pr s).1]
  have hnd := C04_terminates _ (perChar_productive (builtin_perChar tb pr .fail false)) s
  unfold encode
  cases h : encodeChunks (builtinCfg tb pr .fail false) s with
  | ok l => simp [EncRes.joined]
  | raise e => simp [EncRes.joined]
  | diverge => exact absurd h hnd

/-! #### ASCII -/

def asciiStr (t : Str) : Prop := ∀ c ∈ t, c.toNat < 128

theorem wrap_ascii {r : Str} (h : asciiStr r) : asciiStr ('{' :: r ++ ['}']) := by
  intro c hc
  rcases List.mem_cons.mp hc with rfl | hc
  · decide
  · rcases List.mem_append.mp hc with hc | hc
    · exact h c hc
    · rw [List.mem_singleton.mp hc]; decide

theorem after_ascii {r : Str} (h : asciiStr r) : asciiStr (r ++ ['{', '}']) := by
  intro c hc
  rcases List.mem_append.mp hc with hc | hc
  · exact h c hc
  · rcases List.mem_cons.mp hc with rfl | hc
    · decide
    · rw [List.mem_singleton.mp hc]; decide

theorem protect_ascii {pr : Prot} (hpr : BuiltinProt pr) {r : Str} (h : asciiStr r) :
    asciiStr (protect isAsciiAlpha pr r) := by
  simp only [BuiltinProt, schemes, List.mem_cons, List.not_mem_nil, or_false] at hpr
  rcases hpr with rfl | rfl | rfl | rfl | rfl
  · exact h
  · simp only [protect]
    split
    · exact wrap_ascii h
    · exact h
  · exact wrap_ascii h
  · simp only [protect]
    split
    · exact wrap_ascii h
    · exact h
  · simp only [protect]
    split
    · exact after_ascii h
    · exact h

theorem copy_ascii {c : Char} (h : isCopyChar c = true) : c.toNat < 128 := by
  simp only [isCopyChar, Bool.or_eq_true, Bool.and_eq_true, decide_eq_true_eq, beq_iff_eq] at h
  rcases h with ((⟨_, h⟩ | rfl) | rfl) | rfl
  · omega
  all_goals decide

theorem unknown_ascii {pol : Policy} (hpol : pol = .replace ∨ pol = .ignore ∨ pol = .unihex) {c : Char}
    {t : Str} {n : Nat} (h : unknownChar pol c = .emit t n) : asciiStr t := by
  rcases hpol with rfl | rfl | rfl
  · simp only [unknownChar] at h; cases h
    intro d hd
    revert d; decide
  · simp only [unknownChar] at h; cases h
    intro d hd; simp at hd
  · simp only [unknownChar] at h; cases h
    intro d hd
    simp only [List.mem_append] at hd
    rcases hd with (hd | hd) | hd
    · revert d; decide
    · exact (hexish_cases (hexish_hexUpper4 _ d hd)).2
    · revert d; decide

theorem ascii_step {tb : Table} {pr : Prot} (hpr : BuiltinProt pr) {pol : Policy}
    (hpol : pol = .replace ∨ pol = .ignore ∨ pol = .unihex)
    {c : Char} {t : Str} {n : Nat} (h : stepAt (builtinCfg tb pr pol false) [c] 0 c = .emit t n) :
    asciiStr t := by
  rw [stepAt_builtin] at h
  cases hl : (tableOf tb).lookup c.toNat with
  | some r =>
    rw [hl] at h
    simp only at h
    cases h
    obtain ⟨e, he, rfl⟩ := tableOf_mem hl
    exact protect_ascii hpr (C13_table_ascii tb e he)
  | none =>
    rw [hl] at h
    simp only at h
    split at h
    · rename_i hcp
      cases h
      intro d hd
      simp only [List.mem_singleton] at hd
      subst hd
      exact copy_ascii hcp
    · exact unknown_ascii hpol h

/-- **C13 (ASCII).**  Under `unknown_char_policy` `replace`, `ignore` or `unihex` the encoder
    returns a text and every character of it is ASCII. -/
theorem C13_ascii (tb : Table) (pr : Prot) (hpr : BuiltinProt pr) (pol : Policy)
    (hpol : pol = .replace ∨ pol = .ignore ∨ pol = .unihex) (s : Str) :
    ∃ t, encode (builtinCfg tb pr pol false) s = some t ∧ ∀ c ∈ t, c.toNat < 128 := by
  have hp : pol ≠ .fail := by rcases hpol with rfl | rfl | rfl <;> simp
  have hpc := builtin_perChar tb pr pol false
  obtain ⟨l, hl⟩ := encChars_total (cfg := builtinCfg tb pr pol false) (step_no_raise hp) s
  refine ⟨l.flatten, ?_, ?_⟩
  · simp [encode, encodeChunks_eq_encChars hpc, hl, EncRes.joined]
  · intro c hc
    rw [List.mem_flatten] at hc
    obtain ⟨t, ht, hct⟩ := hc
    exact encChars_forall asciiStr (fun c t n h => ascii_step hpr hpol h) s l hl t ht c hct

/-- under `keep` a character without rule outside the pass-through range is copied: the output is
    not ASCII in general -/
theorem C13_keep_not_ascii : encode (builtinCfg .defaults .braces .keep false) [Char.ofNat 0x4e7e]
    = some [Char.ofNat 0x4e7e] := by decide +kernel

/-! ### Non-vacuity -/

example : BuiltinProt .bracesAfterMacro := by simp [BuiltinProt, schemes]
example : NamedPolicy .unihex := trivial
-- "é%\\ α~" under the default scheme
example : encode (builtinCfg .defaults .braces .keep false) [Char.ofNat 233, '%', '\\', ' ', Char.ofNat 0x3b1, '~']
    = some "\\'e\\%{\\textbackslash} \\ensuremath{\\alpha}{\\textasciitilde}".toList := by decide +kernel
example : Inert "\\'e\\%{\\textbackslash} \\ensuremath{\\alpha}{\\textasciitilde}".toList := by decide
example : ¬ Inert "a%b".toList := by decide
example : ¬ Inert "a}{".toList := by decide
example : ¬ Inert "x\\".toList := by decide
example : ¬ Inert "\\begin{x}".toList := by decide
example : ¬ Inert "a$b".toList := by decide
-- scheme `none`: the control word fuses with the following letters, the text stays inert
example : encode (builtinCfg .defaults .none .keep false) ['\\', 'a'] = some "\\textbackslasha".toList := by decide +kernel
example : Inert "\\textbackslasha".toList := by decide
-- `fail`: U+4E7E has no rule and is not passed through
example : ∃ c ∈ ['a', Char.ofNat 0x4e7e], (tableOf .defaults).lookup c.toNat = none ∧ isCopyChar c = false :=
  ⟨Char.ofNat 0x4e7e, by simp, by decide +kernel, by decide⟩
example : encodeChunks (builtinCfg .xml .braces .fail false) ['a', Char.ofNat 0x4e7e]
    = .raise (.valueError (Char.ofNat 0x4e7e)) := by decide +kernel
example : encode (builtinCfg .xml .bracesAll .unihex false) [Char.ofNat 0x4e7e]
    = some "\\ensuremath{\\langle}\\texttt{U+4E7E}\\ensuremath{\\rangle}".toList := by decide +kernel

end Pylx.C13
