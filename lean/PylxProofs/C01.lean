/-
  C01 — in strict mode every node of a successful parse covers exactly the source text it stands for.
  Theorems about `Pylx.run` / `Pylx.parseTop` (model of `LatexWalker.parse_content`), for every amount of fuel.
-/
import PylxProofs.C01Tok
import Pylx.Gen.WalkerDb
namespace Pylx

/-! ### the contract -/

section contract
variable (s cs : Str)

/-- what an argument slot's parser hands back: nodes chained inside `[pos, pos']`, all of them fine -/
def ArgRes (pos pos' : Nat) (res : Res) : Prop :=
  Chain (resToArg res).nodes pos pos' ∧ AllOk s cs (resToArg res).nodes

/-- a call parser returns one node from the call token's start to the final reader position -/
def CallRes (tpos pos' : Nat) (res : Res) : Prop :=
  ∃ n, res = .node n ∧ n.pos = tpos ∧ n.posEnd = pos' ∧ AllOk s cs [n]

/-- what `parse_content(parser @ pos)` returning `(res, pos')` guarantees, per parser -/
def ResGood : Parser → Nat → Nat → Res → Prop
  | .general stop _ _, pos, pos', res =>
      ∃ p e ns r, res = .list p e ns ∧ Tiles ns pos r ∧ r ≤ pos' ∧ AllOk s cs ns ∧
        (stop = .none → r = pos' ∧ pos' = s.length)
  | .envBody _, pos, pos', res => ∃ p e ns r, res = .list p e ns ∧ Tiles ns pos r ∧ r ≤ pos' ∧ AllOk s cs ns
  | .group _ _ ap, pos, pos', res =>
      (res = .none ∧ pos' = pos) ∨
      ∃ n, res = .node n ∧ pos ≤ n.pos ∧ (ap = false → n.pos = pos) ∧ n.posEnd = pos' ∧ AllOk s cs [n]
  | .math _, pos, pos', res =>
      (res = .none ∧ pos' = pos) ∨ ∃ n, res = .node n ∧ n.pos = pos ∧ n.posEnd = pos' ∧ AllOk s cs [n]
  | .macroCall t _, _, pos', res => CallRes s cs t.pos pos' res
  | .specialsCall t _, _, pos', res => CallRes s cs t.pos pos' res
  | .envCall t _ _, _, pos', res => CallRes s cs t.pos pos' res
  | .arguments _, pos, pos', res =>
      ∃ p e l, res = .args p e l ∧ Chain (l.flatMap Arg.nodes) pos pos' ∧ AllOk s cs (l.flatMap Arg.nodes)
  | .expression _, pos, pos', res => ArgRes s cs pos pos' res
  | .marker _ _ _, pos, pos', res => ArgRes s cs pos pos' res
  | .verbatim _, pos, pos', res => ArgRes s cs pos pos' res

def ChildOk : ChildPS → Prop
  | .same => True
  | .group _ c o => FOk cs c ∧ FOk cs o

/-- what a parser's own parameters must satisfy when it is started at `pos` -/
def PPre : Parser → Nat → Prop
  | .general _ _ child, _ => ChildOk cs child
  | .macroCall t _, pos => t.pos ≤ pos
  | .specialsCall t _, pos => t.pos ≤ pos
  | .envCall t _ _, pos => t.pos ≤ pos
  | _, _ => True

def Post (p : Parser) (pos : Nat) : Ret → Prop
  | .ok res pos' => pos ≤ pos' ∧ pos' ≤ s.length ∧ ResGood s cs p pos pos' res
  | _ => True

def ExprPost (pos : Nat) : Ret → Prop
  | .ok res pos' => pos ≤ pos' ∧ pos' ≤ s.length ∧ ArgRes s cs pos pos' res
  | _ => True

/-- the collector's invariant: `acc` tiles `[start, m]`, the pending characters are `s[m : pos]` -/
structure LInv (start : Nat) (st : LoopSt) (m : Nat) : Prop where
  tiles : Tiles st.acc start m
  ok : AllOk s cs st.acc
  le : m ≤ st.pos
  inr : st.pos ≤ s.length
  pend : st.pend = slice s m st.pos
  pp : (st.pendPos = some m ∧ m < st.pos) ∨ (st.pendPos = none ∧ m = st.pos)

def EndOk (stop : StopTok) (e : LoopEnd) (r : Nat) : Prop :=
  match e.stopTok with
  | some t => r = t.pos ∧ e.pos = t.pos ∧ t.pos ≤ t.posEnd ∧ t.posEnd ≤ s.length ∧ stop.test t = true
  | none => r = e.pos ∧ e.pos = s.length

def LoopPost (stop : StopTok) (start : Nat) : Ret → Prop
  | .loopEnd e => e.err = none → ∃ r, Tiles e.nodes start r ∧ AllOk s cs e.nodes ∧ EndOk s stop e r
  | _ => True

def Good : Task → Ret → Prop
  | .pc p f pos, r => FOk cs f → pos ≤ s.length → PPre cs p pos → Post s cs p pos r
  | .loop f stop child st, r => FOk cs f → ChildOk cs child → ∀ start m, LInv s cs start st m → LoopPost s cs stop start r
  | .expr _ _ f pos, r => FOk cs f → pos ≤ s.length → ExprPost s cs pos r

end contract

/-! ### field invariants -/

theorem FOk.normalize {cs : Str} {f : PSFields} (h : FOk cs f) : FOk cs f.normalize := by
  unfold PSFields.normalize
  split
  · exact h
  · exact ⟨h.cs_eq, h.delims⟩

theorem FOk.applyDelta {cs : Str} {f : PSFields} (h : FOk cs f) (d : Delta) : FOk cs (applyDelta f d) := by
  cases d
  · exact h
  · exact FOk.normalize (f := { f with inMath := true, mathDelim := none }) ⟨h.cs_eq, h.delims⟩
  · exact FOk.normalize (f := { f with inMath := false, mathDelim := none }) ⟨h.cs_eq, h.delims⟩

theorem FOk.mathFields {cs : Str} {f : PSFields} (h : FOk cs f) (d : Str) : FOk cs (mathFields f d) :=
  FOk.normalize (f := { f with inMath := true, mathDelim := some d }) ⟨h.cs_eq, h.delims⟩

theorem FOk.noEnvs {cs : Str} {f : PSFields} (h : FOk cs f) :
    FOk cs ({ f with enEnvs := false } : PSFields).normalize :=
  FOk.normalize (f := { f with enEnvs := false }) ⟨h.cs_eq, h.delims⟩

theorem FOk.groupState {cs : Str} {f g : PSFields} (h : FOk cs f) {d : GroupDelims} (hg : groupState d f = some g) :
    FOk cs g := by
  unfold Pylx.groupState at hg
  cases d with
  | auto o =>
    dsimp only at hg
    split at hg
    · cases hg; exact h
    · cases hg
  | pair o c =>
    dsimp only at hg
    split at hg
    · cases hg; exact h
    · cases hg; exact ⟨h.cs_eq, h.delims⟩

theorem ChildOk.get {cs : Str} {child : ChildPS} (hc : ChildOk cs child) {f : PSFields} (hf : FOk cs f) (t : Token) :
    FOk cs (child.get f t) := by
  cases child with
  | same => exact hf
  | group o c outer =>
    unfold ChildPS.get
    dsimp only
    split
    · exact hc.1
    · exact hc.2

/-! ### the nodes collector -/

section collector
variable {s cs : Str}

theorem flush_spec (f : PSFields) (st : LoopSt) (start m q : Nat) (ht : Tiles st.acc start m)
    (hok : AllOk s cs st.acc) (hmq : m ≤ q) (hq : q ≤ s.length) (hpend : st.pend = slice s m q)
    (hpp : m < q → st.pendPos = some m) :
    Tiles (st.flush f).acc start q ∧ AllOk s cs (st.flush f).acc ∧ (st.flush f).pos = st.pos ∧
    (st.flush f).pend = [] ∧ ((st.pendPos = none ∨ m < q) → (st.flush f).pendPos = none) := by
  have hlen : st.pend.length = q - m := by rw [hpend]; exact slice_length s m q hmq hq
  unfold LoopSt.flush
  by_cases he : st.pend.isEmpty = true
  · rw [if_pos he]
    have hnil : st.pend = [] := List.isEmpty_iff.mp he
    have : m = q := by rw [hnil] at hlen; simp at hlen; omega
    subst this
    refine ⟨ht, hok, rfl, hnil, ?_⟩
    intro h; rcases h with h | h
    · exact h
    · omega
  · rw [if_neg he]
    have hne : st.pend ≠ [] := fun h => he (List.isEmpty_iff.mpr h)
    have hlt : m < q := by
      have : 0 < st.pend.length := List.length_pos_iff.mpr hne
      omega
    rw [hpp hlt]
    dsimp only [Option.getD]
    have hq' : m + st.pend.length = q := by omega
    refine ⟨?_, ?_, rfl, rfl, fun _ => rfl⟩
    · exact Tiles.snoc' ht rfl hq' hmq
    · refine allOk_snoc hok (allOk_chars' _ _ _ _ (by omega) (by omega) ?_)
      rw [hq']; exact hpend

theorem loopFinish_err (f : PSFields) (st : LoopSt) (stopTok : Option Token) (e : PErr) (stop : StopTok) (start : Nat) :
    LoopPost s cs stop start (loopFinish f st stopTok (some e)) := by
  unfold loopFinish LoopPost
  intro h; cases h

theorem loopFinish_ok (f : PSFields) (st : LoopSt) (stopTok : Option Token) (stop : StopTok) (start m : Nat)
    (ht : Tiles st.acc start m) (hok : AllOk s cs st.acc) (hmq : m ≤ st.pos) (hq : st.pos ≤ s.length)
    (hpend : st.pend = slice s m st.pos) (hpp : m < st.pos → st.pendPos = some m)
    (hend : match stopTok with
      | some t => st.pos = t.pos ∧ t.pos ≤ t.posEnd ∧ t.posEnd ≤ s.length ∧ stop.test t = true
      | none => st.pos = s.length) :
    LoopPost s cs stop start (loopFinish f st stopTok none) := by
  obtain ⟨h1, h2, h3, _, _⟩ := flush_spec (s := s) (cs := cs) f st start m st.pos ht hok hmq hq hpend hpp
  unfold loopFinish LoopPost
  intro _
  refine ⟨st.pos, h1, h2, ?_⟩
  unfold EndOk
  cases stopTok with
  | none => exact ⟨h3.symm, by rw [h3]; exact hend⟩
  | some t =>
    dsimp only at hend ⊢
    exact ⟨hend.1, by rw [h3]; exact hend.1, hend.2⟩

theorem push_weak {start m : Nat} {st : LoopSt} (h : LInv s cs start st m) (chars : Str) (q p : Nat)
    (hp : p = st.pos) (hq1 : st.pos ≤ q) (hc : chars = slice s st.pos q) :
    (st.push chars p).acc = st.acc ∧ (st.push chars p).pend = slice s m q ∧
    (st.push chars p).pendPos = some m := by
  refine ⟨rfl, ?_, ?_⟩
  · show st.pend ++ chars = _
    rw [h.pend, hc]
    exact slice_slice_append s m st.pos q h.le hq1
  · show (match st.pendPos with | some p => some p | none => some p) = some m
    rcases h.pp with ⟨h1, _⟩ | ⟨h1, h2⟩
    · rw [h1]
    · rw [h1, hp, h2]

theorem push_inv {start m : Nat} {st : LoopSt} (h : LInv s cs start st m) (chars : Str) (q p : Nat)
    (hp : p = st.pos) (hq1 : st.pos < q) (hq2 : q ≤ s.length) (hc : chars = slice s st.pos q) :
    LInv s cs start { (st.push chars p) with pos := q } m := by
  obtain ⟨h1, h2, h3⟩ := push_weak h chars q p hp (Nat.le_of_lt hq1) hc
  have := h.le
  exact { tiles := h.tiles, ok := h.ok, le := by show m ≤ q; omega, inr := hq2, pend := h2,
          pp := Or.inl ⟨h3, by show m < q; omega⟩ }

theorem LInv.pend_nil_iff {start m : Nat} {st : LoopSt} (h : LInv s cs start st m) : st.pend = [] ↔ m = st.pos := by
  have hlen : st.pend.length = st.pos - m := by rw [h.pend]; exact slice_length s m st.pos h.le h.inr
  have := h.le
  constructor
  · intro hn; rw [hn] at hlen; simp at hlen; omega
  · intro hm; apply List.eq_nil_of_length_eq_zero; omega

theorem flushBefore_spec (f : PSFields) {st : LoopSt} {start m : Nat} (h : LInv s cs start st m) {t : Token}
    (ht : TokInfo s cs st.pos t) :
    Tiles (st.flushBefore f t).acc start t.pos ∧ AllOk s cs (st.flushBefore f t).acc ∧
    (st.flushBefore f t).pend = [] ∧ (st.flushBefore f t).pendPos = none := by
  have hle := h.le
  have hpos := ht.pos_eq
  have hin := ht.in_range
  have hle2 := ht.le
  unfold LoopSt.flushBefore
  by_cases hpe : st.pend.isEmpty = true
  · have hnil : st.pend = [] := List.isEmpty_iff.mp hpe
    have hm : m = st.pos := h.pend_nil_iff.mp hnil
    have hpn : st.pendPos = none := by
      rcases h.pp with ⟨_, h2⟩ | ⟨h1, _⟩
      · omega
      · exact h1
    simp only [hpe, Bool.not_true, Bool.false_eq_true, if_false]
    by_cases hpre : t.pre.isEmpty = true
    · simp only [hpre, Bool.not_true, Bool.false_eq_true, if_false]
      have : t.pre.length = 0 := by rw [List.isEmpty_iff.mp hpre]; rfl
      have : t.pos = m := by omega
      rw [this]
      exact ⟨h.tiles, h.ok, hnil, hpn⟩
    · simp only [hpre, Bool.not_false, if_true]
      refine ⟨?_, ?_, hnil, hpn⟩
      · exact Tiles.snoc' h.tiles (by show t.pos - t.pre.length = m; omega) rfl (by omega)
      · refine allOk_snoc h.ok (allOk_chars' _ _ _ _ (by omega) (by omega) ?_)
        have : t.pos - t.pre.length = st.pos := by omega
        rw [this]; exact ht.pre_eq
  · have hne : st.pend ≠ [] := fun hh => hpe (List.isEmpty_iff.mpr hh)
    have hlt : m < st.pos := by
      rcases Nat.lt_or_ge m st.pos with h1 | h1
      · exact h1
      · exact absurd (h.pend_nil_iff.mpr (by omega)) hne
    have hpp : st.pendPos = some m := by
      rcases h.pp with ⟨h1, _⟩ | ⟨_, h2⟩
      · exact h1
      · omega
    simp only [hpe, Bool.not_false, if_true]
    obtain ⟨h1, h2, _, h4, h5⟩ := flush_spec (s := s) (cs := cs) f ({ st with pend := st.pend ++ t.pre } : LoopSt)
      start m t.pos h.tiles h.ok (by omega) (by omega)
      (by show st.pend ++ t.pre = _
          rw [h.pend, ht.pre_eq]; exact slice_slice_append s m st.pos t.pos hle (by omega))
      (fun _ => hpp)
    exact ⟨h1, h2, h4, h5 (Or.inr (by omega))⟩

end collector

/-! ### the collector's step -/

theorem kind_beq_char (k : TokKind) : (k == .char) = true ↔ k = .char := by cases k <;> decide
theorem kind_beq_specials (k : TokKind) : (k == .specials) = true ↔ k = .specials := by cases k <;> decide

section loop
variable {env : Env} {cs : Str} {rec : Task → Ret}

/-- what the collector needs from a sub-parse started for the token at `tpos` -/
def ChildPost (s cs : Str) (tpos : Nat) : Ret → Prop
  | .ok (.node n) p => n.pos = tpos ∧ n.posEnd = p ∧ AllOk s cs [n]
  | .ok .none p => p = tpos
  | _ => True

theorem childPost_of_group {s cs : Str} {d : GroupDelims} {o : Bool} {pos : Nat} {r : Ret}
    (h : Post s cs (.group d o false) pos r) : ChildPost s cs pos r := by
  cases r with
  | ok res p =>
    obtain ⟨_, _, h3⟩ := h
    rcases h3 with ⟨h1, h2⟩ | ⟨n, h1, _, h3, h4, h5⟩
    · subst h1; exact h2
    · subst h1; exact ⟨h3 rfl, h4, h5⟩
  | _ => trivial

theorem childPost_of_math {s cs : Str} {d : Str} {pos : Nat} {r : Ret}
    (h : Post s cs (.math d) pos r) : ChildPost s cs pos r := by
  cases r with
  | ok res p =>
    obtain ⟨_, _, h3⟩ := h
    rcases h3 with ⟨h1, h2⟩ | ⟨n, h1, h3, h4, h5⟩
    · subst h1; exact h2
    · subst h1; exact ⟨h3, h4, h5⟩
  | _ => trivial

theorem childPost_of_call {s cs : Str} {tpos : Nat} {r : Ret}
    (h : match r with | .ok res p => CallRes s cs tpos p res | _ => True) : ChildPost s cs tpos r := by
  cases r with
  | ok res p =>
    obtain ⟨n, h1, h3, h4, h5⟩ := h
    subst h1; exact ⟨h3, h4, h5⟩
  | _ => trivial

theorem afterChild_post (ih : ∀ t, Good env.s cs t (rec t)) {f : PSFields} {stop : StopTok} {child : ChildPS}
    (hf : FOk cs f) (hc : ChildOk cs child) {st : LoopSt} {start tpos : Nat}
    (ht : Tiles st.acc start tpos) (hok : AllOk env.s cs st.acc) (hpend : st.pend = []) (hpp : st.pendPos = none)
    (htp : tpos ≤ env.s.length) (noneOk : Bool) (r : Ret) (hr : ChildPost env.s cs tpos r) :
    LoopPost env.s cs stop start (afterChild rec f stop child st noneOk r) := by
  unfold afterChild
  cases r with
  | ok res p =>
    cases res with
    | none =>
      have hp : p = tpos := hr
      dsimp only
      cases noneOk with
      | false => simp only [Bool.false_eq_true, if_false]; trivial
      | true =>
        simp only [if_true]
        refine ih (.loop f stop child { st with pos := p }) hf hc start tpos
          { tiles := ht, ok := hok, le := by show tpos ≤ p; omega, inr := by show p ≤ _; omega,
            pend := by show st.pend = slice env.s tpos p; rw [hpend, hp, slice_self],
            pp := Or.inr ⟨hpp, hp.symm⟩ }
    | node n =>
      obtain ⟨h1, h2, h3⟩ := hr
      dsimp only
      have hle := h3.pos_le
      have hend := h3.end_le
      refine ih (.loop f stop child { st with pos := p, acc := st.acc ++ [n] }) hf hc start p
        { tiles := Tiles.snoc' ht h1 h2 (by omega), ok := allOk_snoc hok h3, le := Nat.le_refl _,
          inr := by show p ≤ _; omega,
          pend := by show st.pend = slice env.s p p; rw [hpend, slice_self],
          pp := Or.inr ⟨hpp, rfl⟩ }
    | list _ _ _ => trivial
    | args _ _ _ => trivial
  | perr e => exact loopFinish_err _ _ _ _ _ _
  | loopEnd _ => trivial
  | crash _ => trivial
  | fuel => trivial

theorem loopRead_cases (htol : env.tol = false) {f : PSFields} (hf : FOk cs f) {st : LoopSt} {start m : Nat}
    (h : LInv env.s cs start st m) (stop : StopTok) :
    match loopRead env f st with
    | .inr r => LoopPost env.s cs stop start r
    | .inl t => TokInfo env.s cs st.pos t := by
  unfold loopRead
  rw [htol]
  cases hpk : peekTok false (mkPS f) env.s st.pos with
  | tok t => exact tokInfo_of_peek hf hpk
  | err w ep t r => exact loopFinish_err _ _ _ _ _ _
  | eos fs =>
    have hfs := eos_of_peek hf h.inr hpk
    have hlen : fs.length = env.s.length - st.pos := by rw [hfs]; simp
    have hinr := h.inr
    dsimp only
    by_cases he : fs.isEmpty = true
    · rw [if_pos he]
      have : fs.length = 0 := by rw [List.isEmpty_iff.mp he]; rfl
      refine loopFinish_ok f st none stop start m h.tiles h.ok h.le h.inr h.pend ?_ (by show st.pos = _; omega)
      intro hlt
      rcases h.pp with ⟨h1, _⟩ | ⟨_, h2⟩
      · exact h1
      · omega
    · rw [if_neg he]
      have hne : fs ≠ [] := fun hh => he (List.isEmpty_iff.mpr hh)
      have hpos : 0 < fs.length := List.length_pos_iff.mpr hne
      exact { pos_eq := rfl,
              pre_eq := by
                show fs = slice env.s st.pos (st.pos + fs.length)
                exact (slice_of_prefix env.s fs st.pos (by rw [hfs]; exact List.prefix_refl _)).symm,
              le := Nat.le_refl _, adv := by show st.pos < st.pos + fs.length; omega,
              in_range := by show st.pos + fs.length ≤ _; omega,
              text := by simp only [TokText]; exact (slice_self _ _).symm }

theorem loopDispatch_post (htol : env.tol = false) (ih : ∀ t, Good env.s cs t (rec t))
    {f : PSFields} {stop : StopTok} {child : ChildPS} (hf : FOk cs f) (hc : ChildOk cs child)
    {st : LoopSt} {start : Nat} {t : Token}
    (hti : Tiles st.acc start t.pos) (hok : AllOk env.s cs st.acc) (hpend : st.pend = []) (hpp : st.pendPos = none)
    (hpos : st.pos = t.posEnd) (hle : t.pos ≤ t.posEnd) (hin : t.posEnd ≤ env.s.length)
    (htext : TokText env.s cs t) :
    LoopPost env.s cs stop start (loopDispatch env rec f stop child st t) := by
  have htp : t.pos ≤ env.s.length := by omega
  unfold loopDispatch
  split
  · exact loopFinish_err _ _ _ _ _ _
  · exact loopFinish_err _ _ _ _ _ _
  · rename_i hk
    unfold TokText at htext
    rw [hk] at htext
    dsimp only at htext
    refine ih (.loop f stop child { st with acc := st.acc ++ [Node.comment t.pos t.posEnd (psInfo f) t.arg t.post] })
      hf hc start t.posEnd
      { tiles := Tiles.snoc' hti rfl rfl hle,
        ok := allOk_snoc hok (allOk_leaf rfl hle hin htext),
        le := by show t.posEnd ≤ st.pos; omega, inr := by show st.pos ≤ _; omega,
        pend := by show st.pend = slice env.s t.posEnd st.pos; rw [hpend, hpos, slice_self],
        pp := Or.inr ⟨hpp, hpos.symm⟩ }
  · exact afterChild_post ih hf hc hti hok hpend hpp htp _ _
      (childPost_of_group (ih (.pc (.group (.auto t.arg) false false) (child.get f t) t.pos) (hc.get hf t) htp trivial))
  · split
    · rw [htol]; simp only [Bool.false_eq_true, if_false]
      exact loopFinish_err _ _ _ _ _ _
    · rename_i a _
      refine afterChild_post ih hf hc hti hok hpend hpp htp _ _ (childPost_of_call ?_)
      have := ih (.pc (.macroCall t a) (child.get f t) st.pos) (hc.get hf t) (by omega) (by show t.pos ≤ st.pos; omega)
      cases hr : rec (.pc (.macroCall t a) (child.get f t) st.pos) with
      | ok res p => rw [hr] at this; exact this.2.2
      | _ => trivial
  · split
    · rw [htol]; simp only [Bool.false_eq_true, if_false]
      exact loopFinish_err _ _ _ _ _ _
    · rename_i ab _
      refine afterChild_post ih hf hc hti hok hpend hpp htp _ _ (childPost_of_call ?_)
      have := ih (.pc (.envCall t ab.1 ab.2) (child.get f t) st.pos) (hc.get hf t) (by omega) (by show t.pos ≤ st.pos; omega)
      cases hr : rec (.pc (.envCall t ab.1 ab.2) (child.get f t) st.pos) with
      | ok res p => rw [hr] at this; exact this.2.2
      | _ => trivial
  · split
    · trivial
    · rename_i a _
      refine afterChild_post ih hf hc hti hok hpend hpp htp _ _ (childPost_of_call ?_)
      have := ih (.pc (.specialsCall t a) (child.get f t) st.pos) (hc.get hf t) (by omega) (by show t.pos ≤ st.pos; omega)
      cases hr : rec (.pc (.specialsCall t a) (child.get f t) st.pos) with
      | ok res p => rw [hr] at this; exact this.2.2
      | _ => trivial
  · split
    · exact afterChild_post ih hf hc hti hok hpend hpp htp _ _
        (childPost_of_math (ih (.pc (.math t.arg) (child.get f t) t.pos) (hc.get hf t) htp trivial))
    · exact loopFinish_err _ _ _ _ _ _
  · split
    · exact afterChild_post ih hf hc hti hok hpend hpp htp _ _
        (childPost_of_math (ih (.pc (.math t.arg) (child.get f t) t.pos) (hc.get hf t) htp trivial))
    · exact loopFinish_err _ _ _ _ _ _
  · trivial

theorem loopStep_good (htol : env.tol = false) (ih : ∀ t, Good env.s cs t (rec t))
    (f : PSFields) (stop : StopTok) (child : ChildPS) (st : LoopSt) :
    Good env.s cs (.loop f stop child st) (loopStep env rec f stop child st) := by
  intro hf hc start m h
  have hr := loopRead_cases htol hf h stop
  unfold loopStep
  cases hlr : loopRead env f st with
  | inr r => rw [hlr] at hr; exact hr
  | inl t =>
    rw [hlr] at hr
    have ht : TokInfo env.s cs st.pos t := hr
    have hpos := ht.pos_eq
    have hle := ht.le
    have hin := ht.in_range
    have hml := h.le
    have hp0 : t.pos - t.pre.length = st.pos := by omega
    dsimp only
    by_cases hst : stop.test t = true
    · rw [if_pos hst]
      obtain ⟨_, h2, h3⟩ := push_weak h t.pre t.pos (t.pos - t.pre.length) hp0 (by omega) ht.pre_eq
      exact loopFinish_ok f _ (some t) stop start m h.tiles h.ok (by show m ≤ t.pos; omega) (by show t.pos ≤ _; omega)
        h2 (fun _ => h3) ⟨rfl, hle, hin, hst⟩
    · rw [if_neg hst]
      by_cases hk : (t.kind == .char) = true
      · rw [if_pos hk]
        have hk' := (kind_beq_char _).mp hk
        have htx := ht.text
        unfold TokText at htx
        rw [hk'] at htx
        dsimp only at htx
        refine ih (.loop f stop child _) hf hc start m
          (push_inv h (t.pre ++ t.arg) t.posEnd (t.pos - t.pre.length) hp0 ht.adv hin ?_)
        rw [htx, ht.pre_eq]
        exact slice_slice_append env.s st.pos t.pos t.posEnd (by omega) hle
      · rw [if_neg hk]
        obtain ⟨h1, h2, h3, h4⟩ := flushBefore_spec f h ht
        exact loopDispatch_post htol ih hf hc (t := { t with pre := [] }) h1 h2 h3 h4 rfl hle hin ht.text

end loop

/-! ### the parsers -/

section parsers
variable {env : Env} {cs : Str} {rec : Task → Ret}

/-- the contract for a parser's own `parse()` -/
def RawPost (s cs : Str) (p : Parser) (pos : Nat) : Raw → Prop
  | .eos q => Post s cs p pos (.ok .none q)
  | .ret r => Post s cs p pos r

theorem parseContent_post {s cs : Str} {p : Parser} {pos : Nat} {raw : Raw} (h : RawPost s cs p pos raw) :
    Post s cs p pos (parseContent false raw) := by
  cases raw with
  | eos q => exact h
  | ret r =>
    cases r with
    | perr e => trivial
    | ok res p' => exact h
    | loopEnd e => exact h
    | crash k => exact h
    | fuel => exact h

theorem rawGeneral_post (ih : ∀ t, Good env.s cs t (rec t)) {stop : StopTok} {require : Bool} {child : ChildPS}
    {f : PSFields} {pos : Nat} (hf : FOk cs f) (hc : ChildOk cs child) (hpos : pos ≤ env.s.length) :
    RawPost env.s cs (.general stop require child) pos (rawGeneral rec stop require child f pos) := by
  have := ih (.loop f stop child { pos := pos }) hf hc pos pos
    { tiles := Tiles.nil, ok := allOk_nil _ _, le := Nat.le_refl _, inr := hpos,
      pend := (slice_self _ _).symm, pp := Or.inr ⟨rfl, rfl⟩ }
  unfold rawGeneral retOfLoop
  generalize rec (.loop f stop child { pos := pos }) = r at this
  cases r with
  | loopEnd e =>
    dsimp only
    cases herr : e.err with
    | some pe => trivial
    | none =>
      obtain ⟨r, h1, h2, h3⟩ := this herr
      have hle := h1.le
      unfold EndOk at h3
      dsimp only
      split
      · trivial
      · cases hst : e.stopTok with
        | none =>
          rw [hst] at h3
          dsimp only at h3 ⊢
          exact ⟨by omega, by omega, _, _, e.nodes, r, rfl, h1, by omega, h2, fun _ => ⟨h3.1, h3.2⟩⟩
        | some t =>
          rw [hst] at h3
          dsimp only at h3 ⊢
          obtain ⟨h4, h5, h6, h7, h8⟩ := h3
          have hpe : movePastToken t true = t.posEnd := by simp [movePastToken]
          rw [hpe]
          refine ⟨?_, ?_, _, _, e.nodes, r, rfl, h1, ?_, h2, ?_⟩
          · split <;> omega
          · split <;> omega
          · split <;> omega
          · intro hs; rw [hs] at h8; simp [StopTok.test] at h8
  | ok _ _ => trivial
  | perr _ => trivial
  | crash _ => trivial
  | fuel => trivial

theorem moveToToken_pre {s cs : Str} {p0 : Nat} {t : Token} (ht : TokInfo s cs p0 t) : moveToToken t true = p0 := by
  have := ht.pos_eq
  simp [moveToToken]; omega

theorem rawGroup_post (htol : env.tol = false) (ih : ∀ t, Good env.s cs t (rec t)) {d : GroupDelims} {opt ap : Bool}
    {f : PSFields} {pos : Nat} (hf : FOk cs f) (hpos : pos ≤ env.s.length) :
    RawPost env.s cs (.group d opt ap) pos (rawGroup env rec d opt ap f pos) := by
  unfold rawGroup
  cases hg : groupState d f with
  | none => trivial
  | some g =>
    have hgf := hf.groupState hg
    dsimp only
    rw [htol]
    cases hpk : peekTok false (mkPS g) env.s pos with
    | eos fs => exact ⟨Nat.le_refl _, hpos, Or.inl ⟨rfl, rfl⟩⟩
    | err w ep t r => trivial
    | tok t =>
      have ht := tokInfo_of_peek hgf hpk
      have h1 := ht.pos_eq
      have h2 := ht.le
      have h3 := ht.in_range
      dsimp only
      unfold rawGroupTok
      split
      · rename_i hcond
        split
        · trivial
        · rename_i c _
          have := ih (.pc (.general (.braceClose c) true (.group d.opener g f)) g t.posEnd) hgf h3 ⟨hgf, hf⟩
          unfold bindOk
          generalize rec (.pc (.general (.braceClose c) true (.group d.opener g f)) g t.posEnd) = r at this
          cases r with
          | ok res p =>
            obtain ⟨h4, h5, pp, ee, ns, r, h6, h7, h8, h9, _⟩ := this
            subst h6
            dsimp only
            refine ⟨by omega, h5, Or.inr ⟨_, rfl, by show pos ≤ t.pos; omega, ?_, rfl, ?_⟩⟩
            · intro hap
              rw [hap] at hcond
              simp at hcond
              have : t.pre.length = 0 := by rw [hcond.1.1]; rfl
              show t.pos = pos
              omega
            · rw [allOk_single]
              exact ⟨⟨by show t.pos ≤ p; omega, h5, h7.toChain h2 h8, trivial⟩, h9⟩
          | _ => trivial
      · split
        · rw [moveToToken_pre ht]
          exact ⟨Nat.le_refl _, hpos, Or.inl ⟨rfl, rfl⟩⟩
        · trivial

theorem rawMath_post (htol : env.tol = false) (ih : ∀ t, Good env.s cs t (rec t)) {d : Str}
    {f : PSFields} {pos : Nat} (hf : FOk cs f) (hpos : pos ≤ env.s.length) :
    RawPost env.s cs (.math d) pos (rawMath env rec d f pos) := by
  unfold rawMath
  rw [htol]
  cases hpk : peekTok false (mkPS f) env.s pos with
  | eos fs => exact ⟨Nat.le_refl _, hpos, Or.inl ⟨rfl, rfl⟩⟩
  | err w ep t r => trivial
  | tok t =>
    have ht := tokInfo_of_peek hf hpk
    have h1 := ht.pos_eq
    have h2 := ht.le
    have h3 := ht.in_range
    dsimp only
    unfold rawMathTok
    split
    · rename_i hcond
      split
      · trivial
      · rename_i cd _
        have := ih (.pc (.general (.mathClose (t.kind == .mathDisplay) cd.1) true .same) (mathFields f t.arg) t.posEnd)
          (hf.mathFields _) h3 trivial
        unfold bindOk
        generalize rec (.pc (.general (.mathClose (t.kind == .mathDisplay) cd.1) true .same) (mathFields f t.arg) t.posEnd) = r at this
        cases r with
        | ok res p =>
          obtain ⟨h4, h5, pp, ee, ns, r, h6, h7, h8, h9, _⟩ := this
          subst h6
          dsimp only
          simp at hcond
          have hpre : t.pre.length = 0 := by rw [hcond.1.1]; rfl
          refine ⟨by omega, h5, Or.inr ⟨_, rfl, by show t.pos = pos; omega, rfl, ?_⟩⟩
          rw [allOk_single]
          exact ⟨⟨by show t.pos ≤ p; omega, h5, h7.toChain h2 h8, trivial⟩, h9⟩
        | _ => trivial
    · trivial

theorem rawEnvBody_post (ih : ∀ t, Good env.s cs t (rec t)) {name : Str}
    {f : PSFields} {pos : Nat} (hf : FOk cs f) (hpos : pos ≤ env.s.length) :
    RawPost env.s cs (.envBody name) pos (rawEnvBody rec name f pos) := by
  have := ih (.pc (.general (.endEnv name) true .same) f pos) hf hpos trivial
  unfold rawEnvBody bindOk
  generalize rec (.pc (.general (.endEnv name) true .same) f pos) = r at this
  cases r with
  | ok res p =>
    obtain ⟨h4, h5, pp, ee, ns, r, h6, h7, h8, h9, _⟩ := this
    subst h6
    exact ⟨h4, h5, _, _, ns, r, rfl, h7, h8, h9⟩
  | _ => trivial

theorem rawCall_post (ih : ∀ t, Good env.s cs t (rec t)) {mk : Nat → Option (List Arg) → Node} {a : ArgsP}
    {f : PSFields} {pos tpos : Nat} (hf : FOk cs f) (hpos : pos ≤ env.s.length) (htp : tpos ≤ pos)
    (hmk : ∀ e args, (mk e args).pos = tpos ∧ (mk e args).posEnd = e ∧ (mk e args).children = argNodes args ∧
      TextOk env.s cs (mk e args)) :
    match rawCall rec mk a f pos with
    | .ret (.ok res p) => pos ≤ p ∧ p ≤ env.s.length ∧ CallRes env.s cs tpos p res
    | .ret _ => True
    | .eos _ => False := by
  have := ih (.pc (.arguments a) f pos) hf hpos trivial
  unfold rawCall bindOk
  generalize rec (.pc (.arguments a) f pos) = r at this
  cases r with
  | ok res p =>
    obtain ⟨h4, h5, pp, ee, l, h6, h7, h8⟩ := this
    subst h6
    obtain ⟨m1, m2, m3, m4⟩ := hmk p (argsOf (.args pp ee l))
    refine ⟨h4, h5, _, rfl, m1, m2, ?_⟩
    rw [allOk_single, m3]
    exact ⟨⟨by omega, by omega, by rw [m3, m1, m2]; exact h7.weaken htp (Nat.le_refl _), m4⟩, h8⟩
  | _ => trivial

theorem rawEnvCall_post (ih : ∀ t, Good env.s cs t (rec t)) {t : Token} {a : ArgsP} {bm : Bool}
    {f : PSFields} {pos : Nat} (hf : FOk cs f) (hpos : pos ≤ env.s.length) (htp : t.pos ≤ pos) :
    RawPost env.s cs (.envCall t a bm) pos (rawEnvCall rec t a bm f pos) := by
  have := ih (.pc (.arguments a) f pos) hf hpos trivial
  unfold rawEnvCall bindOk
  generalize rec (.pc (.arguments a) f pos) = r at this
  cases r with
  | ok res p =>
    obtain ⟨h4, h5, pp, ee, l, h6, h7, h8⟩ := this
    subst h6
    dsimp only
    have hbf : FOk cs (if bm = true then applyDelta f .enterMath else f) := by
      split
      · exact hf.applyDelta _
      · exact hf
    have := ih (.pc (.envBody t.arg) (if bm = true then applyDelta f .enterMath else f) p) hbf h5 trivial
    generalize rec (.pc (.envBody t.arg) (if bm = true then applyDelta f .enterMath else f) p) = r2 at this
    cases r2 with
    | ok bres p2 =>
      obtain ⟨g4, g5, pp2, ee2, ns, r, g6, g7, g8, g9⟩ := this
      subst g6
      refine ⟨by omega, g5, _, rfl, rfl, rfl, ?_⟩
      rw [allOk_single]
      refine ⟨⟨by show t.pos ≤ p2; omega, g5, ?_, trivial⟩, ?_⟩
      · show Chain (argNodes (some l) ++ ns) t.pos p2
        exact (h7.weaken htp (Nat.le_refl _)).append (g7.toChain (Nat.le_refl _) g8)
      · show AllOk _ _ (argNodes (some l) ++ ns)
        exact allOk_append.mpr ⟨h8, g9⟩
    | _ => trivial
  | _ => trivial

/-! #### legacy verbatim arguments -/

theorem findStrFromAux_spec (t : Str) : ∀ (l : Str) (p e : Nat), findStrFromAux t l p = some e → p ≤ e ∧ e ≤ p + l.length := by
  intro l
  induction l with
  | nil =>
    intro p e h
    unfold findStrFromAux at h
    split at h
    · cases h; simp
    · cases h
  | cons c l ih =>
    intro p e h
    unfold findStrFromAux at h
    split at h
    · cases h; simp
    · have := ih _ _ h
      simp only [List.length_cons]
      omega

theorem findStrFrom_spec (s t : Str) (p e : Nat) (h : findStrFrom s t p = some e) : p ≤ e ∧ e ≤ s.length := by
  unfold findStrFrom at h
  split at h
  · cases h
  · have := findStrFromAux_spec t _ _ _ h
    simp only [List.length_drop] at this
    omega

theorem rawLegacyVerb_post {f : PSFields} {pos : Nat} {a : ArgsP} :
    RawPost env.s cs (.arguments a) pos (rawLegacyVerb env f pos) := by
  unfold rawLegacyVerb
  dsimp only
  split
  · trivial
  · rename_i d hd
    have hlt := getElem?_lt _ _ _ hd
    split
    · trivial
    · rename_i e he
      obtain ⟨h1, h2⟩ := findCharFrom_spec _ _ _ _ he
      refine ⟨by omega, by omega, _, _, _, rfl, ?_, ?_⟩
      · exact Chain.single (by show pos ≤ _ + 1; omega) h1 (by show e ≤ e + 1; omega)
      · exact allOk_chars _ _ _ h1 (by omega)

theorem legacyFinish_post {name : Str} {f : PSFields} {pos p : Nat} {pre : List Arg} {a : ArgsP}
    (hp : pos ≤ p) (hch : Chain (pre.flatMap Arg.nodes) pos p) (hok : AllOk env.s cs (pre.flatMap Arg.nodes)) :
    RawPost env.s cs (.arguments a) pos (legacyVerbEnvFinish env name f pos pre p) := by
  unfold legacyVerbEnvFinish
  split
  · trivial
  · rename_i e he
    obtain ⟨h1, h2⟩ := findStrFrom_spec _ _ _ _ he
    refine ⟨by omega, h2, _, _, _, rfl, ?_, ?_⟩
    · rw [List.flatMap_append]
      exact hch.append (Chain.single (Nat.le_refl _) h1 (Nat.le_refl _))
    · rw [List.flatMap_append]
      exact allOk_append.mpr ⟨hok, allOk_chars _ _ _ h1 h2⟩

theorem rawLegacyVerbEnv_post (ih : ∀ t, Good env.s cs t (rec t)) {name : Str} {optArg : Bool}
    {f : PSFields} {pos : Nat} {a : ArgsP} (hf : FOk cs f) (hpos : pos ≤ env.s.length) :
    RawPost env.s cs (.arguments a) pos (rawLegacyVerbEnv env rec name optArg f pos) := by
  have hnil : ∀ l : List Arg, l.flatMap Arg.nodes = [] → RawPost env.s cs (.arguments a) pos
      (legacyVerbEnvFinish env name f pos l pos) := by
    intro l hl
    exact legacyFinish_post (Nat.le_refl _) (by rw [hl]; exact Chain.nil (Nat.le_refl _)) (by rw [hl]; exact allOk_nil _ _)
  unfold rawLegacyVerbEnv
  split
  · exact hnil _ rfl
  · split
    · exact hnil _ rfl
    · have := ih (.pc (.group (.pair ['['] [']']) true false) f pos) hf hpos trivial
      unfold bindOk
      generalize rec (.pc (.group (.pair ['['] [']']) true false) f pos) = r at this
      cases r with
      | ok res p =>
        obtain ⟨h4, h5, h6⟩ := this
        dsimp only
        rcases h6 with ⟨h6, _⟩ | ⟨n, h6, h7, _, h8, h9⟩
        · subst h6; exact hnil _ rfl
        · subst h6
          dsimp only
          have := h9.pos_le
          refine legacyFinish_post (by omega) ?_ ?_
          · exact Chain.single h7 h9.pos_le (Nat.le_refl _)
          · exact h9
      | _ => trivial

/-! #### standard arguments -/

theorem argParser_ppre (cs : Str) (k : ArgKind) (pos : Nat) : PPre cs (argParser k) pos := by
  cases k <;> trivial

theorem argRes_of_group {s cs : Str} {d : GroupDelims} {o ap : Bool} {pos pos' : Nat} {res : Res} (hle : pos ≤ pos')
    (h : ResGood s cs (.group d o ap) pos pos' res) : ArgRes s cs pos pos' res := by
  rcases h with ⟨h1, _⟩ | ⟨n, h1, h2, _, h4, h5⟩
  · subst h1; exact ⟨Chain.nil hle, allOk_nil _ _⟩
  · subst h1
    exact ⟨Chain.single h2 h5.pos_le (by rw [h4]; exact Nat.le_refl _), h5⟩

theorem argRes_of_argParser {s cs : Str} (k : ArgKind) {pos pos' : Nat} {res : Res} (hle : pos ≤ pos')
    (h : ResGood s cs (argParser k) pos pos' res) : ArgRes s cs pos pos' res := by
  cases k with
  | m => exact h
  | o ap => exact argRes_of_group hle h
  | s => exact h
  | t c => exact h
  | r o c => exact argRes_of_group hle h
  | d o c => exact argRes_of_group hle h
  | v => exact h
  | vd o c => exact h
  | m0 => exact h

theorem argsLoop_post (htol : env.tol = false) (ih : ∀ t, Good env.s cs t (rec t)) {f : PSFields} (hf : FOk cs f)
    (a : ArgsP) (pos0 : Nat) :
    ∀ (l : List ArgSpec) (acc : List Arg) (pos : Nat), pos0 ≤ pos → pos ≤ env.s.length →
      Chain (acc.flatMap Arg.nodes) pos0 pos → AllOk env.s cs (acc.flatMap Arg.nodes) →
      Post env.s cs (.arguments a) pos0 (argsLoop env rec f l acc pos) := by
  intro l
  induction l with
  | nil =>
    intro acc pos h1 h2 h3 h4
    unfold argsLoop
    exact ⟨h1, h2, _, _, acc, rfl, h3, h4⟩
  | cons x rest ihl =>
    intro acc pos h1 h2 h3 h4
    unfold argsLoop
    rw [htol]
    have key : Post env.s cs (.arguments a) pos0
        (match rec (.pc (argParser x.kind) (applyDelta f x.delta) pos) with
          | .ok res p => argsLoop env rec f rest (acc ++ [resToArg res]) p
          | other => other) := by
      have := ih (.pc (argParser x.kind) (applyDelta f x.delta) pos) (hf.applyDelta _) h2 (argParser_ppre _ _ _)
      generalize rec (.pc (argParser x.kind) (applyDelta f x.delta) pos) = r at this
      cases r with
      | ok res p =>
        obtain ⟨g1, g2, g3⟩ := this
        obtain ⟨g4, g5⟩ := argRes_of_argParser x.kind g1 g3
        dsimp only
        refine ihl _ p (by omega) g2 ?_ ?_
        · rw [List.flatMap_append]
          simp only [List.flatMap_cons, List.flatMap_nil, List.append_nil]
          exact h3.append g4
        · rw [List.flatMap_append]
          simp only [List.flatMap_cons, List.flatMap_nil, List.append_nil]
          exact allOk_append.mpr ⟨h4, g5⟩
      | _ => trivial
    cases hpk : peekTok false (mkPS f) env.s pos with
    | err w ep t r => trivial
    | tok t => exact key
    | eos fs => exact key

theorem rawArguments_post (htol : env.tol = false) (ih : ∀ t, Good env.s cs t (rec t)) {a : ArgsP}
    {f : PSFields} {pos : Nat} (hf : FOk cs f) (hpos : pos ≤ env.s.length) :
    RawPost env.s cs (.arguments a) pos (rawArguments env rec a f pos) := by
  unfold rawArguments
  cases a with
  | std l =>
    exact argsLoop_post htol ih hf _ pos l [] pos (Nat.le_refl _) hpos (Chain.nil (Nat.le_refl _)) (allOk_nil _ _)
  | legacyVerb => exact rawLegacyVerb_post
  | legacyVerbEnv name optArg => exact rawLegacyVerbEnv_post ih hf hpos
  | unknown => trivial

end parsers

/-! ### expression, marker, verbatim -/

section single
variable {env : Env} {cs : Str} {rec : Task → Ret}

theorem exprFinish_snoc (f : PSFields) (sk : List Node) (x : Node) (p : Nat) :
    exprFinish f (sk ++ [x]) p = .ok (.node x) p := by
  simp [exprFinish]

theorem ExprPost.weaken {s cs : Str} {pos pos1 : Nat} {r : Ret} (hle : pos ≤ pos1) (h : ExprPost s cs pos1 r) :
    ExprPost s cs pos r := by
  cases r with
  | ok res p =>
    obtain ⟨h1, h2, h3, h4⟩ := h
    exact ⟨by omega, h2, h3.weaken hle (Nat.le_refl _), h4⟩
  | _ => trivial

/-- the expression is the single leaf node `x` made from the token `t` -/
theorem exprLeaf_post {s cs : Str} {pos : Nat} {t : Token} (ht : TokInfo s cs pos t) (f : PSFields) (sk : List Node)
    (x : Node) (hp : x.pos = t.pos) (he : x.posEnd = t.posEnd) (hc : x.children = []) (htx : TextOk s cs x) :
    ExprPost s cs pos (exprFinish f (sk ++ [x]) t.posEnd) := by
  rw [exprFinish_snoc]
  have h1 := ht.pos_eq
  have h2 := ht.le
  have h3 := ht.in_range
  refine ⟨by omega, h3, ?_, ?_⟩
  · exact Chain.single (by rw [hp]; omega) (by rw [hp, he]; exact h2) (by rw [he]; exact Nat.le_refl _)
  · exact allOk_leaf hc (by rw [hp, he]; exact h2) (by rw [he]; exact h3) htx

theorem exprOnTok_post (htol : env.tol = false) (ih : ∀ t, Good env.s cs t (rec t)) {ap : Bool} {sk : List Node}
    {f : PSFields} {pos : Nat} {t : Token} (hf : FOk cs f) (ht : TokInfo env.s cs pos t) :
    ExprPost env.s cs pos (exprOnTok env rec ap sk f t) := by
  have h1 := ht.pos_eq
  have h2 := ht.le
  have h3 := ht.in_range
  unfold exprOnTok
  dsimp only
  split
  · split
    · exact ExprPost.weaken (by omega) (ih (.expr ap _ f t.posEnd) hf h3)
    · rw [htol]; simp only [Bool.false_eq_true, if_false]; trivial
  · have := ih (.pc (.group (.auto t.arg) false false) f t.pos) hf (by omega) trivial
    generalize rec (.pc (.group (.auto t.arg) false false) f t.pos) = r at this
    cases r with
    | ok res p =>
      obtain ⟨g1, g2, g3⟩ := this
      rcases g3 with ⟨g3, _⟩ | ⟨n, g3, g4, _, g5, g6⟩
      · subst g3; trivial
      · subst g3
        dsimp only
        rw [exprFinish_snoc]
        exact ⟨by omega, g2, Chain.single (by omega) g6.pos_le (by rw [g5]; exact Nat.le_refl _), g6⟩
    | _ => trivial
  · trivial
  · rename_i hk
    have htx := ht.text
    unfold TokText at htx
    rw [hk] at htx
    exact exprLeaf_post ht f sk _ rfl rfl rfl htx
  · trivial
  · trivial
  · trivial

theorem exprTok_post (htol : env.tol = false) (ih : ∀ t, Good env.s cs t (rec t)) {ap : Bool} {sk : List Node}
    {f : PSFields} {pos : Nat} {t : Token} (hf : FOk cs f) (ht : TokInfo env.s cs pos t) :
    ExprPost env.s cs pos (exprTok env rec ap sk f t) := by
  have h1 := ht.pos_eq
  have h2 := ht.le
  have h3 := ht.in_range
  unfold exprTok
  dsimp only
  split
  · split
    · rw [htol]; simp only [Bool.false_eq_true, if_false]; trivial
    · exact exprLeaf_post ht f sk _ rfl rfl rfl trivial
  · split
    · exact exprLeaf_post ht f sk _ rfl rfl rfl trivial
    · split
      · split
        · exact ExprPost.weaken (by omega) (ih (.expr ap _ f t.pos) hf (by omega))
        · rw [htol]; simp only [Bool.false_eq_true, if_false]; trivial
      · exact exprOnTok_post htol ih hf ht

theorem exprStep_good (htol : env.tol = false) (ih : ∀ t, Good env.s cs t (rec t)) (ap : Bool) (sk : List Node)
    (f : PSFields) (pos : Nat) : Good env.s cs (.expr ap sk f pos) (exprStep env rec ap sk f pos) := by
  intro hf hpos
  unfold exprStep
  dsimp only
  rw [htol]
  cases hpk : peekTok false (mkPS ({ f with enEnvs := false } : PSFields).normalize) env.s pos with
  | err w ep t r => trivial
  | eos fs => simp only [Bool.false_eq_true, if_false]; trivial
  | tok t =>
    have ht := tokInfo_of_peek hf.noEnvs hpk
    exact exprTok_post (ap := ap) (sk := sk) htol ih hf ht

theorem argRes_none {s cs : Str} {pos pos' : Nat} (h : pos ≤ pos') : ArgRes s cs pos pos' .none :=
  ⟨Chain.nil h, allOk_nil _ _⟩

theorem rawMarker_post (htol : env.tol = false) {c : Char} {fl ap : Bool} {f : PSFields} {pos : Nat}
    (hf : FOk cs f) (hpos : pos ≤ env.s.length) :
    RawPost env.s cs (.marker c fl ap) pos (rawMarker env c fl ap f pos) := by
  have hnone : Post env.s cs (.marker c fl ap) pos (.ok .none pos) :=
    ⟨Nat.le_refl _, hpos, argRes_none (Nat.le_refl _)⟩
  unfold rawMarker
  rw [htol]
  cases hpk : peekTok false (mkPS f) env.s pos with
  | eos fs => exact hnone
  | err w ep t r => trivial
  | tok t =>
    have ht := tokInfo_of_peek hf hpk
    have h1 := ht.pos_eq
    have h2 := ht.le
    have h3 := ht.in_range
    dsimp only
    split
    · exact hnone
    · split
      · rename_i hcond
        simp only [Bool.and_eq_true, Bool.or_eq_true, beq_iff_eq] at hcond
        obtain ⟨hk, harg⟩ := hcond
        have htx := ht.text
        unfold TokText at htx
        have hsl : [c] = slice env.s t.pos t.posEnd := by
          rcases hk with hk | hk
          · rw [(kind_beq_char _).mp hk] at htx
            rw [← harg]; exact htx
          · rw [(kind_beq_specials _).mp hk] at htx
            dsimp only at htx
            rcases htx with htx | htx
            · rw [← harg]; exact htx
            · rw [harg] at htx; simp at htx
        have hn : AllOk env.s cs [Node.chars t.pos t.posEnd (psInfo f) [c]] := allOk_chars' _ _ _ _ h2 h3 hsl
        have hch : Chain [Node.chars t.pos t.posEnd (psInfo f) [c]] pos t.posEnd :=
          Chain.single (by show pos ≤ t.pos; omega) h2 (Nat.le_refl _)
        refine ⟨by omega, h3, ?_⟩
        cases fl
        · exact ⟨hch, hn⟩
        · exact ⟨hch, hn⟩
      · split
        · exact hnone
        · exact hnone

theorem verbScan_spec (o c : Char) : ∀ (l : Str) (d i e : Nat), verbScan o c l d i = some e → i ≤ e ∧ e < i + l.length := by
  intro l
  induction l with
  | nil => intro d i e h; unfold verbScan at h; cases h
  | cons ch rest ih =>
    intro d i e h
    unfold verbScan at h
    simp only [List.length_cons]
    split at h
    · split at h
      · cases h; omega
      · have := ih _ _ _ h; omega
    · split at h
      · have := ih _ _ _ h; omega
      · have := ih _ _ _ h; omega

theorem rawVerbatim_post {delims : Option (Char × Char)} {f : PSFields} {pos : Nat} (hpos : pos ≤ env.s.length) :
    RawPost env.s cs (.verbatim delims) pos (rawVerbatim env delims f pos) := by
  have hsp := spaceRun_length_le env.s pos
  unfold rawVerbatim
  dsimp only
  split
  · exact ⟨by omega, by omega, argRes_none (by omega)⟩
  · rename_i first hfirst
    have hlt := getElem?_lt _ _ _ hfirst
    split
    · trivial
    · rename_i o c _
      split
      · rename_i e he
        obtain ⟨g1, g2⟩ := verbScan_spec _ _ _ _ _ _ he
        simp only [List.length_drop] at g2
        have hcn : AllOk env.s cs [Node.chars (pos + (spaceRun env.s pos).length + 1) e (psInfo f)
            (slice env.s (pos + (spaceRun env.s pos).length + 1) e)] := allOk_chars _ _ _ g1 (by omega)
        refine ⟨by omega, by omega, ?_, ?_⟩
        · exact Chain.single (by show pos ≤ pos + _; omega) (by show pos + _ ≤ e + 1; omega) (Nat.le_refl _)
        · show AllOk _ _ [_]
          rw [allOk_single]
          refine ⟨⟨by show pos + _ ≤ e + 1; omega, by show e + 1 ≤ _; omega, ?_, trivial⟩, hcn⟩
          exact Chain.single (by show pos + _ ≤ pos + _ + 1; omega) g1 (by show e ≤ e + 1; omega)
      · trivial

end single

/-! ### the step function, the fuel induction, the theorems -/

section main
variable {env : Env} {cs : Str}

theorem step_good (htol : env.tol = false) {rec : Task → Ret} (ih : ∀ t, Good env.s cs t (rec t)) :
    ∀ t, Good env.s cs t (step env rec t) := by
  intro t
  cases t with
  | loop f stop child st => exact loopStep_good htol ih f stop child st
  | expr ap sk f pos => exact exprStep_good htol ih ap sk f pos
  | pc p f pos =>
    intro hf hpos hpre
    unfold step
    rw [htol]
    apply parseContent_post
    unfold rawParse
    cases p with
    | general stop require child => exact rawGeneral_post ih hf hpre hpos
    | group d o a => exact rawGroup_post htol ih hf hpos
    | math d => exact rawMath_post htol ih hf hpos
    | envBody n => exact rawEnvBody_post ih hf hpos
    | macroCall t a =>
      have := rawCall_post (mk := fun e args => Node.mac t.pos e (psInfo f) t.arg t.post args) (a := a) ih hf hpos hpre
        (fun e args => ⟨rfl, rfl, rfl, trivial⟩)
      dsimp only
      generalize rawCall rec (fun e args => Node.mac t.pos e (psInfo f) t.arg t.post args) a f pos = raw at this
      cases raw with
      | eos q => exact this.elim
      | ret r => cases r <;> first | exact this | trivial
    | specialsCall t a =>
      have := rawCall_post (mk := fun e args => Node.specials t.pos e (psInfo f) t.arg args) (a := a) ih hf hpos hpre
        (fun e args => ⟨rfl, rfl, rfl, trivial⟩)
      dsimp only
      generalize rawCall rec (fun e args => Node.specials t.pos e (psInfo f) t.arg args) a f pos = raw at this
      cases raw with
      | eos q => exact this.elim
      | ret r => cases r <;> first | exact this | trivial
    | envCall t a bm => exact rawEnvCall_post ih hf hpos hpre
    | arguments a => exact rawArguments_post htol ih hf hpos
    | expression ap => exact ih (.expr ap [] f pos) hf hpos
    | marker c fl ap => exact rawMarker_post htol hf hpos
    | verbatim d => exact rawVerbatim_post hpos

theorem good_fuel (s cs : Str) : ∀ t, Good s cs t .fuel := by
  intro t
  cases t with
  | pc p f pos => intro _ _ _; trivial
  | loop f stop child st => intro _ _ _ _ _; trivial
  | expr ap sk f pos => intro _ _; trivial

theorem run_good (htol : env.tol = false) : ∀ n t, Good env.s cs t (run env n t) := by
  intro n
  induction n with
  | zero => intro t; exact good_fuel _ _ t
  | succ n ih => intro t; exact step_good htol ih t

end main

/-! ### C01 -/

/-- **C01 (strict), strongest form.**  The only fact about the starting state that the proof uses is that its
    math delimiters are non-empty strings (`DelimsOk f`, i.e. the field `mathDelims` of `StartOk`). -/
theorem C01_strict_of_delims (ctx : Ctx) (s : Str) (f : PSFields) (hd : DelimsOk f) (n : Nat)
    (p e : Option Nat) (ns : List Node) (pos : Nat)
    (h : run { tol := false, ctx := ctx, s := s } n (topTask f) = .ok (.list p e ns) pos) :
    Tiles ns 0 s.length ∧ pos = s.length ∧ ∀ x ∈ subnodesList ns, NodeOk s f.commentStart x := by
  have := run_good (env := { tol := false, ctx := ctx, s := s }) (cs := f.commentStart) rfl n (topTask f)
    ⟨rfl, hd⟩ (Nat.zero_le _) trivial
  rw [h] at this
  obtain ⟨_, _, p', e', ns', r, h1, h2, h3, h4, h5⟩ := this
  cases h1
  obtain ⟨h6, h7⟩ := h5 rfl
  have h7 : pos = s.length := h7
  subst h6
  rw [h7] at h2
  exact ⟨h2, h7, h4⟩

/-- **C01 (strict).**  For every amount of fuel: if the strict parse of `s` succeeds, the top-level nodes tile
    the whole input, the reader ends at the end of the input, and every node of the tree is inside the input,
    has its children chained inside its span in document order, and (chars / comment nodes) carries exactly
    the source text at its position. -/
theorem C01_strict (ctx : Ctx) (s : Str) (f : PSFields) (hf : StartOk ctx f) (n : Nat)
    (p e : Option Nat) (ns : List Node) (pos : Nat)
    (h : run { tol := false, ctx := ctx, s := s } n (topTask f) = .ok (.list p e ns) pos) :
    Tiles ns 0 s.length ∧ pos = s.length ∧ ∀ x ∈ subnodesList ns, NodeOk s f.commentStart x :=
  C01_strict_of_delims ctx s f hf.mathDelims n p e ns pos h

/-- **C01 (verbatim).**  Concatenating the verbatim source of the top-level nodes reproduces the input. -/
theorem C01_verbatim (ctx : Ctx) (s : Str) (f : PSFields) (hf : StartOk ctx f) (n : Nat)
    (p e : Option Nat) (ns : List Node) (pos : Nat)
    (h : run { tol := false, ctx := ctx, s := s } n (topTask f) = .ok (.list p e ns) pos) :
    (ns.map (fun x => slice s x.pos x.posEnd)).flatten = s := by
  have := (C01_strict ctx s f hf n p e ns pos h).1
  rw [this.verbatim s, slice_zero_length]

/-- **C01 (top).**  The instance for `parseTop` (fuel `fuelFor s`). -/
theorem C01_top (ctx : Ctx) (s : Str) (f : PSFields) (hf : StartOk ctx f)
    (p e : Option Nat) (ns : List Node) (pos : Nat)
    (h : parseTop { tol := false, ctx := ctx, s := s } f = .ok (.list p e ns) pos) :
    Tiles ns 0 s.length ∧ pos = s.length ∧ (∀ x ∈ subnodesList ns, NodeOk s f.commentStart x) ∧
    (ns.map (fun x => slice s x.pos x.posEnd)).flatten = s :=
  have h' : run { tol := false, ctx := ctx, s := s } (fuelFor s) (topTask f) = .ok (.list p e ns) pos := h
  ⟨(C01_strict ctx s f hf _ p e ns pos h').1, (C01_strict ctx s f hf _ p e ns pos h').2.1,
   (C01_strict ctx s f hf _ p e ns pos h').2.2, C01_verbatim ctx s f hf _ p e ns pos h'⟩

/-- the results of sub-parses satisfy the same statement (every `parse_content` call of a strict run):
    the contract `Good` holds for every task and every amount of fuel -/
theorem C01_contract (ctx : Ctx) (s : Str) (cs : Str) (n : Nat) (t : Task) :
    Good s cs t (run { tol := false, ctx := ctx, s := s } n t) :=
  run_good (env := { tol := false, ctx := ctx, s := s }) rfl n t

/-! ### non-vacuity -/

/-- the walker's default state for the default context satisfies the hypothesis -/
example : StartOk Gen.defaultCtx { specials := Gen.defaultCtx.specials.map (·.1) } :=
  { hasCtx := rfl, specials := rfl, mathDelims := by decide, groupDelims := by decide,
    comment := by decide, normal := rfl }

def c01ExFields : PSFields := { specials := Gen.defaultCtx.specials.map (·.1) }
def c01ExInput : Str := "a \\textbf{b}%c\n$x$".toList

def isOkList (r : Ret) (k pos : Nat) : Bool :=
  match r with
  | .ok (.list _ _ ns) p => ns.length == k && p == pos
  | _ => false

theorem isOkList_spec {r : Ret} {k pos : Nat} (h : isOkList r k pos = true) :
    ∃ p e ns, r = .ok (.list p e ns) pos ∧ ns.length = k := by
  unfold isOkList at h
  split at h
  · rename_i p e ns q
    simp only [Bool.and_eq_true, beq_iff_eq] at h
    exact ⟨p, e, ns, by rw [h.2], h.1⟩
  · cases h

/-- a strict parse with the default context that succeeds with four top-level nodes (chars, macro with a group
    argument, comment, inline math): the hypotheses of `C01_top` are satisfiable on a non-trivial input -/
example : ∃ p e ns, parseTop { tol := false, ctx := Gen.defaultCtx, s := c01ExInput } c01ExFields
    = .ok (.list p e ns) 18 ∧ ns.length = 4 :=
  isOkList_spec (by decide)

/-- the same with explicit fuel (hypothesis of `C01_strict` / `C01_verbatim`); 12 units are enough here -/
example : ∃ p e ns, run { tol := false, ctx := Gen.defaultCtx, s := c01ExInput } 12 (topTask c01ExFields)
    = .ok (.list p e ns) 18 ∧ ns.length = 4 :=
  isOkList_spec (by decide)

end Pylx
