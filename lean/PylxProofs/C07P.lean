/-
  C07P — the parser half of C07: every tree the parser model returns satisfies the argument-list invariant
  `ListOk` of `PylxProofs.C07`, hence `latexToText` is total (`C07_full`).

  Method: a contract over `step` (open recursion) lifted by induction on fuel, for both parsing modes and for
  an arbitrary pair (text database, walker context) satisfying the decidable predicate `ctxOkB`; the default
  pair satisfies it by kernel evaluation.
-/
import PylxProofs.C07
namespace Pylx.L2T.C07P

/-! ### the hypothesis on the pair of databases -/

/-- argument types whose parser can only leave `None` or a single node in the argument slot (a `t<c>` marker
    leaves a node *list*; a required delimited argument `r<o><c>` leaves, in tolerant mode, the empty recovery
    node list when the opening delimiter is missing) -/
def kindSafe : ArgKind → Bool
  | .t _ => false
  | .r _ _ => false
  | _ => true

def isStd : ArgsP → Bool
  | .std _ => true
  | _ => false

def argsPSafe : ArgsP → Bool
  | .std l => l.all (fun a => kindSafe a.kind)
  | _ => true

/-- a walker specification is harmless for the renderer: only slot-safe argument types, and if its arguments
    parser can raise by itself (the legacy verbatim parsers) the replacement of that name tolerates
    `nodeargd is None` -/
def SpecOk (db : TextDb) (k : Kind) (name : Str) (a : ArgsP) : Prop :=
  argsPSafe a = true ∧ (isStd a = true ∨ noneSafe db k name = true)

def specOkB (db : TextDb) (k : Kind) (name : Str) (a : ArgsP) : Bool :=
  argsPSafe a && (isStd a || noneSafe db k name)

theorem specOk_of_B {db : TextDb} {k : Kind} {name : Str} {a : ArgsP} (h : specOkB db k name a = true) :
    SpecOk db k name a := by
  simp only [specOkB, Bool.and_eq_true, Bool.or_eq_true] at h
  exact h

structure CtxOk (db : TextDb) (ctx : Ctx) : Prop where
  mac : ∀ name a, ctx.macroSpec name = some a → SpecOk db .mac name a
  env : ∀ name ab, ctx.envSpec name = some ab → SpecOk db .env name ab.1
  sp : ∀ name a, lookupFirst name ctx.specials = some a → SpecOk db .specials name a
  /-- tolerant mode turns a `\begin` / `\end` token met by the expression parser into a macro node without
      `nodeargd` -/
  beginOk : noneSafe db .mac "begin".toList = true
  endOk : noneSafe db .mac "end".toList = true

def unkOkB (a : ArgsP) : Bool := argsPSafe a && isStd a

def ctxOkB (db : TextDb) (ctx : Ctx) : Bool :=
  ctx.macros.all (fun p => specOkB db .mac p.1 p.2) &&
  ctx.envs.all (fun p => specOkB db .env p.1 p.2.1) &&
  ctx.specials.all (fun p => specOkB db .specials p.1 p.2) &&
  (match ctx.unknownMacro with | some a => unkOkB a | none => true) &&
  (match ctx.unknownEnv with | some a => unkOkB a.1 | none => true) &&
  noneSafe db .mac "begin".toList && noneSafe db .mac "end".toList

theorem specOk_of_unk {db : TextDb} {k : Kind} {name : Str} {a : ArgsP} (h : unkOkB a = true) : SpecOk db k name a := by
  simp only [unkOkB, Bool.and_eq_true] at h
  exact ⟨h.1, Or.inl h.2⟩

theorem ctxOk_of_B {db : TextDb} {ctx : Ctx} (h : ctxOkB db ctx = true) : CtxOk db ctx := by
  simp only [ctxOkB, Bool.and_eq_true, List.all_eq_true] at h
  obtain ⟨⟨⟨⟨⟨⟨hm, he⟩, hs⟩, hum⟩, hue⟩, hb⟩, hen⟩ := h
  refine ⟨?_, ?_, ?_, hb, hen⟩
  · intro name a hl
    simp only [Ctx.macroSpec] at hl
    split at hl
    · cases hl
      exact specOk_of_B (hm _ (lookupFirst_mem' ‹_›))
    · rw [hl] at hum; exact specOk_of_unk hum
  · intro name ab hl
    simp only [Ctx.envSpec] at hl
    split at hl
    · cases hl
      exact specOk_of_B (he _ (lookupFirst_mem' ‹_›))
    · rw [hl] at hue; exact specOk_of_unk hue
  · intro name a hl
    exact specOk_of_B (hs _ (lookupFirst_mem' hl))

/-! ### basic facts about the invariant -/

section
variable {db : TextDb} {ctx : Ctx}

theorem nodeOk_chars (p e : Nat) (ps : PSInfo) (c : Str) : NodeOk db ctx (.chars p e ps c) := by
  simp only [NodeOk]

theorem nodeOk_comment (p e : Nat) (ps : PSInfo) (c post : Str) : NodeOk db ctx (.comment p e ps c post) := by
  simp only [NodeOk]

theorem listOk_nil : ListOk db ctx [] := by simp only [ListOk]

theorem listOk_append (a b : List Node) : ListOk db ctx (a ++ b) ↔ ListOk db ctx a ∧ ListOk db ctx b := by
  induction a with
  | nil => simp [ListOk]
  | cons n ns ih => simp only [List.cons_append, ListOk, ih, and_assoc]

theorem listOk_snoc (a : List Node) (n : Node) (ha : ListOk db ctx a) (hn : NodeOk db ctx n) :
    ListOk db ctx (a ++ [n]) := by
  rw [listOk_append]
  exact ⟨ha, by simp only [ListOk, and_true]; exact hn⟩

theorem listOk_getLast (a : List Node) (n : Node) (ha : ListOk db ctx a) (h : a.getLast? = some n) :
    NodeOk db ctx n := by
  induction a with
  | nil => simp at h
  | cons x xs ih =>
    simp only [ListOk] at ha
    cases xs with
    | nil => simp at h; subst h; exact ha.1
    | cons y ys => rw [List.getLast?_cons_cons] at h; exact ih ha.2 h

theorem argsOk_nil : ArgsOk db ctx [] := by simp only [ArgsOk]

theorem argsOk_append (a b : List Arg) : ArgsOk db ctx (a ++ b) ↔ ArgsOk db ctx a ∧ ArgsOk db ctx b := by
  induction a with
  | nil => simp [ArgsOk]
  | cons n ns ih => simp only [List.cons_append, ArgsOk, ih, and_assoc]

theorem nodeOk_bareMac (p e : Nat) (ps : PSInfo) (name post : Str) :
    NodeOk db ctx (.mac p e ps name post (some [])) := by
  simp [NodeOk, Shape, ArgsOOk, ArgsOk]

theorem nodeOk_bareSpecials (p e : Nat) (ps : PSInfo) (ch : Str) :
    NodeOk db ctx (.specials p e ps ch (some [])) := by
  simp [NodeOk, Shape, ArgsOOk, ArgsOk]

theorem nodeOk_noArgMac (p e : Nat) (ps : PSInfo) (name post : Str) (h : noneSafe db .mac name = true) :
    NodeOk db ctx (.mac p e ps name post none) := by
  simp only [NodeOk, Shape, ArgsOOk, and_true]
  exact h

end

/-! ### the contract -/

section
variable (db : TextDb) (ctx : Ctx) (tol : Bool)

def ResOk7 : Res → Prop
  | .none => True
  | .node n => NodeOk db ctx n
  | .list _ _ ns => ListOk db ctx ns
  | .args _ _ l => ArgsOk db ctx l

/-- what may be put into an argument slot: `None` or one node -/
def SlotRes7 : Res → Prop
  | .none => True
  | .node n => NodeOk db ctx n
  | .list _ _ _ => False
  | .args _ _ _ => False

/-- result of the arguments parser `a`: an argument list with one slot per declared argument, or — only for
    arguments parsers that raise by themselves — a recovery value that leaves `nodeargd = None` -/
def ArgsRes7 (a : ArgsP) : Res → Prop
  | .args _ _ l => ArgsOk db ctx l ∧ (l = [] ∨ l.length = sigLen a)
  | .none => isStd a = false
  | .node _ => isStd a = false
  | .list _ _ _ => isStd a = false

def PRes7 : Parser → Res → Prop
  | .arguments a, res => ArgsRes7 db ctx a res
  | .group _ opt _, res => ResOk7 db ctx res ∧ (opt = true → SlotRes7 db ctx res)
  | .marker _ fl _, res => ResOk7 db ctx res ∧ (fl = false → SlotRes7 db ctx res)
  | .expression _, res => SlotRes7 db ctx res
  | .verbatim _, res => SlotRes7 db ctx res
  | .general .., res | .math .., res | .envBody .., res | .macroCall .., res
  | .envCall .., res | .specialsCall .., res => ResOk7 db ctx res

def ParserPre7 : Parser → Prop
  | .macroCall t a => ctx.macroSpec t.arg = some a
  | .envCall t a bm => ctx.envSpec t.arg = some (a, bm)
  | .specialsCall t a => lookupFirst t.arg ctx.specials = some a
  | .arguments a => argsPSafe a = true
  | _ => True

def Pre7 : Task → Prop
  | .pc p _ _ => ParserPre7 ctx p
  | .loop _ _ _ st => ListOk db ctx st.acc
  | .expr _ skipped _ _ => ListOk db ctx skipped

def LoopGood7 : Ret → Prop
  | .loopEnd e => ListOk db ctx e.nodes
  | _ => True

def ExprGood7 : Ret → Prop
  | .ok res _ => SlotRes7 db ctx res
  | .perr e => tol = false ∨ SlotRes7 db ctx e.recNodes
  | _ => True

def PcGood7 (p : Parser) : Ret → Prop
  | .ok res _ => PRes7 db ctx p res
  | .perr _ => tol = false
  | _ => True

def Good7 : Task → Ret → Prop
  | .pc p _ _, r => PcGood7 db ctx tol p r
  | .loop _ _ _ _, r => LoopGood7 db ctx r
  | .expr _ _ _ _, r => ExprGood7 db ctx tol r

/-- a parser's own `parse()` result, before `parse_content` wraps it -/
def RawGood7 (Q : Res → Prop) : Raw → Prop
  | .ret (.ok res _) => Q res
  | .ret (.perr e) => tol = false ∨ Q e.recNodes
  | .eos _ => Q .none
  | _ => True

variable {db ctx tol}

theorem slotRes_resOk {res : Res} (h : SlotRes7 db ctx res) : ResOk7 db ctx res := by
  cases res with
  | none => trivial
  | node n => exact h
  | list _ _ _ => exact h.elim
  | args _ _ _ => exact h.elim

theorem parseContent_good7 (p : Parser) (f : PSFields) (pos : Nat) (raw : Raw)
    (h : RawGood7 tol (PRes7 db ctx p) raw) : Good7 db ctx tol (.pc p f pos) (parseContent tol raw) := by
  cases raw with
  | eos q => simpa only [parseContent, Good7, PcGood7, RawGood7] using h
  | ret r =>
    cases r with
    | ok res q => simpa only [parseContent, Good7, PcGood7, RawGood7] using h
    | perr e =>
      simp only [RawGood7] at h
      simp only [parseContent, Good7]
      cases htol : tol with
      | false => simp [PcGood7]
      | true =>
        simp only [if_true, PcGood7]
        rcases h with h | h
        · rw [htol] at h; cases h
        · exact h
    | loopEnd e => simp [parseContent, Good7, PcGood7]
    | crash k => simp [parseContent, Good7, PcGood7]
    | fuel => simp [parseContent, Good7, PcGood7]

theorem bodyOf_ok7 (res : Res) (h : ResOk7 db ctx res) : BodyOk db ctx (bodyOf res) := by
  cases res <;> simp only [bodyOf, BodyOk] <;> first | trivial | exact h

theorem resToArg_ok7 (res : Res) (h : SlotRes7 db ctx res) : ArgOk db ctx (resToArg res) := by
  cases res with
  | none => simp only [resToArg, ArgOk]
  | node n => simp only [resToArg, ArgOk]; exact h
  | list _ _ _ => exact h.elim
  | args _ _ _ => exact h.elim

theorem slot_of_argParser (k : ArgKind) (hk : kindSafe k = true) (res : Res)
    (h : PRes7 db ctx (argParser k) res) : SlotRes7 db ctx res := by
  cases k with
  | m => exact h
  | o ap => exact h.2 rfl
  | s => exact h.2 rfl
  | t c => cases hk
  | r o c => cases hk
  | d o c => exact h.2 rfl
  | v => exact h
  | vd o c => exact h
  | m0 => exact h

/-- the node built by a call parser from the result of its arguments parser -/
theorem callArgs_ok7 {k : Kind} {name : Str} {a : ArgsP} (hs : SpecOk db k name a)
    (hw : walkerSpecC ctx k name = some a) {res : Res} (h : ArgsRes7 db ctx a res) :
    Shape db ctx k name (argsOf res) ∧ ArgsOOk db ctx (argsOf res) := by
  have hnone : isStd a = false → Shape db ctx k name none ∧ ArgsOOk db ctx none := by
    intro hf
    simp only [Shape, ArgsOOk, and_true]
    rcases hs.2 with h1 | h1
    · rw [hf] at h1; cases h1
    · exact h1
  cases res with
  | none => exact hnone h
  | node n => exact hnone h
  | list _ _ _ => exact hnone h
  | args _ _ l =>
    simp only [ArgsRes7] at h
    simp only [argsOf, Shape, ArgsOOk, wlen, hw, Option.map_some, Option.getD_some]
    exact ⟨h.2, h.1⟩

/-! ### the nodes collector -/

theorem flush_acc7 (f : PSFields) (st : LoopSt) (h : ListOk db ctx st.acc) : ListOk db ctx (st.flush f).acc := by
  unfold LoopSt.flush
  split
  · exact h
  · exact listOk_snoc _ _ h (nodeOk_chars _ _ _ _)

theorem flushBefore_acc7 (f : PSFields) (st : LoopSt) (t : Token) (h : ListOk db ctx st.acc) :
    ListOk db ctx (st.flushBefore f t).acc := by
  unfold LoopSt.flushBefore
  split
  · exact flush_acc7 f _ h
  · split
    · exact listOk_snoc _ _ h (nodeOk_chars _ _ _ _)
    · exact h

theorem loopFinish_good7 (f : PSFields) (st : LoopSt) (stopTok : Option Token) (err : Option PErr)
    (h : ListOk db ctx st.acc) : LoopGood7 db ctx (loopFinish f st stopTok err) := by
  simp only [loopFinish, LoopGood7]; exact flush_acc7 f st h

end

section
variable {db : TextDb} {env : Pylx.Env} {rec : Task → Ret}
variable (IH : ∀ t, Pre7 db env.ctx t → Good7 db env.ctx env.tol t (rec t))
include IH

theorem afterChild_good7 (f : PSFields) (stop : StopTok) (child : ChildPS) (st : LoopSt) (noneOk : Bool) (r : Ret)
    (hacc : ListOk db env.ctx st.acc)
    (hr : ∀ n p, r = .ok (.node n) p → NodeOk db env.ctx n) :
    LoopGood7 db env.ctx (afterChild rec f stop child st noneOk r) := by
  cases r with
  | ok res p =>
    cases res with
    | node n =>
      simp only [afterChild]
      exact IH (.loop f stop child _) (listOk_snoc _ _ hacc (hr n p rfl))
    | none =>
      simp only [afterChild]
      split
      · exact IH (.loop f stop child _) hacc
      · trivial
    | list _ _ _ => simp [afterChild, LoopGood7]
    | args _ _ _ => simp [afterChild, LoopGood7]
  | perr e => simp only [afterChild]; exact loopFinish_good7 f st _ _ hacc
  | loopEnd e => simp [afterChild, LoopGood7]
  | crash k => simp [afterChild, LoopGood7]
  | fuel => simp [afterChild, LoopGood7]

/-- a child parse from the collector, with a parser whose result is judged by `ResOk7` -/
theorem child_node7 (p : Parser) (g : PSFields) (pos : Nat) (hp : ParserPre7 env.ctx p)
    (hres : ∀ res, PRes7 db env.ctx p res → ResOk7 db env.ctx res) :
    ∀ n q, rec (.pc p g pos) = .ok (.node n) q → NodeOk db env.ctx n := by
  intro n q hq
  have h := IH (.pc p g pos) hp
  rw [hq] at h
  simp only [Good7, PcGood7] at h
  exact hres _ h

theorem loopDispatch_good7 (f : PSFields) (stop : StopTok) (child : ChildPS) (st : LoopSt) (t : Token)
    (hacc : ListOk db env.ctx st.acc) :
    LoopGood7 db env.ctx (loopDispatch env rec f stop child st t) := by
  unfold loopDispatch
  split
  · exact loopFinish_good7 f st _ _ hacc
  · exact loopFinish_good7 f st _ _ hacc
  · exact IH (.loop f stop child _) (listOk_snoc _ _ hacc (nodeOk_comment _ _ _ _ _))
  · exact afterChild_good7 IH f stop child st false _ hacc
      (child_node7 IH _ _ _ trivial (fun _ h => h.1))
  · split
    · split
      · exact IH (.loop f stop child st) hacc
      · exact loopFinish_good7 f st _ _ hacc
    · next a ha =>
      exact afterChild_good7 IH f stop child st true _ hacc
        (child_node7 IH _ _ _ ha (fun _ h => h))
  · split
    · split
      · exact IH (.loop f stop child st) hacc
      · exact loopFinish_good7 f st _ _ hacc
    · next ab hab =>
      exact afterChild_good7 IH f stop child st true _ hacc
        (child_node7 IH _ _ _ hab (fun _ h => h))
  · split
    · trivial
    · next a ha =>
      exact afterChild_good7 IH f stop child st true _ hacc
        (child_node7 IH _ _ _ ha (fun _ h => h))
  · split
    · exact afterChild_good7 IH f stop child st true _ hacc
        (child_node7 IH _ _ _ trivial (fun _ h => h))
    · exact loopFinish_good7 f st _ _ hacc
  · split
    · exact afterChild_good7 IH f stop child st true _ hacc
        (child_node7 IH _ _ _ trivial (fun _ h => h))
    · exact loopFinish_good7 f st _ _ hacc
  · trivial

theorem loopStep_good7 (f : PSFields) (stop : StopTok) (child : ChildPS) (st : LoopSt)
    (hacc : ListOk db env.ctx st.acc) :
    LoopGood7 db env.ctx (loopStep env rec f stop child st) := by
  unfold loopStep
  cases hr : loopRead env f st with
  | inr r =>
    simp only
    unfold loopRead at hr
    split at hr
    · cases hr
    · split at hr
      · cases hr; exact loopFinish_good7 f st _ _ hacc
      · cases hr
    · cases hr; exact loopFinish_good7 f st _ _ hacc
  | inl t =>
    simp only
    split
    · exact loopFinish_good7 f _ _ _ hacc
    · split
      · exact IH (.loop f stop child _) hacc
      · exact loopDispatch_good7 IH f stop child _ _ (flushBefore_acc7 f st t hacc)

end

/-! ### the parsers -/

section
variable {db : TextDb} {ctx : Ctx} {tol : Bool}

theorem peekTok_err_tol7 {tol : Bool} {ps : PState} {s : Str} {pos : Nat} {w : TokErr} {ep : Nat} {t : Token} {r : Nat}
    (h : peekTok tol ps s pos = .err w ep t r) : tol = false := by
  unfold peekTok at h
  split at h
  · split at h
    · cases h
    · simp_all
  · cases tol
    · rfl
    · next hne => exact absurd h (hne _ _ _ _)

/-- what `argsLoop` returns when started with the accumulated slots `acc` and the remaining specifications `specs` -/
def ArgsLoopGood7 (db : TextDb) (ctx : Ctx) (tol : Bool) (acc : List Arg) (specs : List ArgSpec) : Ret → Prop
  | .ok res _ => ∃ l', res = .args none none (acc ++ l') ∧ l'.length = specs.length ∧ ArgsOk db ctx l'
  | .perr _ => tol = false
  | _ => True

theorem bindOk_good7 (Q : Res → Prop) (r : Ret) (k : Res → Nat → Raw)
    (hperr : ∀ e, r = .perr e → tol = false)
    (hk : ∀ res q, r = .ok res q → RawGood7 tol Q (k res q)) : RawGood7 tol Q (bindOk r k) := by
  cases r with
  | ok res q => exact hk res q rfl
  | perr e => exact Or.inl (hperr e rfl)
  | loopEnd e => trivial
  | crash k => trivial
  | fuel => trivial

theorem tokErr_good7 (Q : Res → Prop) (hQ : Q .none) (w : ErrWhat) (ep pos : Nat) :
    RawGood7 tol Q (.ret (.perr { what := w, pos := some ep, rpos := pos })) := Or.inr hQ

end

section
variable {db : TextDb} {env : Pylx.Env} {rec : Task → Ret}
variable (IH : ∀ t, Pre7 db env.ctx t → Good7 db env.ctx env.tol t (rec t))
include IH

theorem pc_perr7 (p : Parser) (f : PSFields) (pos : Nat) (hp : ParserPre7 env.ctx p) :
    ∀ e, rec (.pc p f pos) = .perr e → env.tol = false := by
  intro e he
  have h := IH (.pc p f pos) hp
  rw [he] at h
  exact h

theorem pc_ok7 (p : Parser) (f : PSFields) (pos : Nat) (hp : ParserPre7 env.ctx p) :
    ∀ res q, rec (.pc p f pos) = .ok res q → PRes7 db env.ctx p res := by
  intro res q he
  have h := IH (.pc p f pos) hp
  rw [he] at h
  exact h

/-! #### general nodes -/

theorem rawGeneral_good7 (stop : StopTok) (require : Bool) (child : ChildPS) (f : PSFields) (pos : Nat) :
    RawGood7 env.tol (ResOk7 db env.ctx) (rawGeneral rec stop require child f pos) := by
  unfold rawGeneral
  have h := IH (.loop f stop child { pos := pos }) (listOk_nil (db := db) (ctx := env.ctx))
  cases hr : rec (.loop f stop child { pos := pos }) with
  | loopEnd e =>
    rw [hr] at h
    simp only [Good7, LoopGood7] at h
    simp only [retOfLoop, listOf]
    split
    · exact Or.inr h
    · split
      · exact Or.inr h
      · split
        · exact h
        · exact h
  | ok _ _ => trivial
  | perr _ => trivial
  | crash _ => trivial
  | fuel => trivial

/-! #### delimited group -/

theorem rawGroupTok_good7 (delims : GroupDelims) (optional allowPre : Bool) (f g : PSFields) (t : Token) :
    RawGood7 env.tol (PRes7 db env.ctx (.group delims optional allowPre)) (rawGroupTok rec delims optional allowPre f g t) := by
  unfold rawGroupTok
  split
  · split
    · trivial
    · next c _ =>
      have hpre : ParserPre7 env.ctx (.general (.braceClose c) true (.group delims.opener g f)) := trivial
      apply bindOk_good7 _ _ _ (pc_perr7 IH _ _ _ hpre)
      intro res q hq
      have h := pc_ok7 IH _ _ _ hpre res q hq
      have hn : NodeOk db env.ctx (Node.group t.pos q (psInfo g) delims.opener c (bodyOf res)) := by
        simp only [NodeOk]; exact bodyOf_ok7 _ h
      exact ⟨hn, fun _ => hn⟩
  · split
    · next hopt => exact ⟨trivial, fun _ => trivial⟩
    · next hopt =>
      refine Or.inr ⟨?_, fun h => absurd h hopt⟩
      simp only [notFoundErr, ResOk7]
      exact listOk_nil

theorem rawGroup_good7 (delims : GroupDelims) (optional allowPre : Bool) (f : PSFields) (pos : Nat) :
    RawGood7 env.tol (PRes7 db env.ctx (.group delims optional allowPre)) (rawGroup env rec delims optional allowPre f pos) := by
  unfold rawGroup
  split
  · trivial
  · next g hg =>
    split
    · exact ⟨trivial, fun _ => trivial⟩
    · exact tokErr_good7 _ ⟨trivial, fun _ => trivial⟩ _ _ _
    · exact rawGroupTok_good7 IH delims optional allowPre f g _

/-! #### math -/

theorem rawMathTok_good7 (delim : Str) (f : PSFields) (t : Token) :
    RawGood7 env.tol (ResOk7 db env.ctx) (rawMathTok rec delim f t) := by
  unfold rawMathTok
  split
  · split
    · trivial
    · next cd hcd =>
      have hpre : ParserPre7 env.ctx (.general (.mathClose (t.kind == .mathDisplay) cd.1) true .same) := trivial
      apply bindOk_good7 _ _ _ (pc_perr7 IH _ _ _ hpre)
      intro res q hq
      have h := pc_ok7 IH _ _ _ hpre res q hq
      simp only [RawGood7, ResOk7, NodeOk]
      exact bodyOf_ok7 _ h
  · refine Or.inr ?_
    simp only [notFoundErr, ResOk7]
    exact listOk_nil

theorem rawMath_good7 (delim : Str) (f : PSFields) (pos : Nat) :
    RawGood7 env.tol (ResOk7 db env.ctx) (rawMath env rec delim f pos) := by
  unfold rawMath
  split
  · trivial
  · exact tokErr_good7 _ trivial _ _ _
  · exact rawMathTok_good7 IH delim f _

/-! #### environment body, calls -/

theorem rawEnvBody_good7 (name : Str) (f : PSFields) (pos : Nat) :
    RawGood7 env.tol (ResOk7 db env.ctx) (rawEnvBody rec name f pos) := by
  unfold rawEnvBody
  have hpre : ParserPre7 env.ctx (.general (.endEnv name) true .same) := trivial
  apply bindOk_good7 _ _ _ (pc_perr7 IH _ _ _ hpre)
  intro res q hq
  have h := pc_ok7 IH _ _ _ hpre res q hq
  cases res with
  | none => simp only [RawGood7, ResOk7]; exact listOk_nil
  | node n => exact h
  | list _ _ _ => exact h
  | args _ _ _ => exact h

theorem rawCall_good7 (mk : Nat → Option (List Arg) → Node) (a : ArgsP) (f : PSFields) (pos : Nat)
    (ha : argsPSafe a = true)
    (hmk : ∀ p res, ArgsRes7 db env.ctx a res → NodeOk db env.ctx (mk p (argsOf res))) :
    RawGood7 env.tol (ResOk7 db env.ctx) (rawCall rec mk a f pos) := by
  unfold rawCall
  have hpre : ParserPre7 env.ctx (.arguments a) := ha
  apply bindOk_good7 _ _ _ (pc_perr7 IH _ _ _ hpre)
  intro res q hq
  have h := pc_ok7 IH _ _ _ hpre res q hq
  exact hmk _ _ h

theorem rawEnvCall_good7 (hC : CtxOk db env.ctx) (t : Token) (a : ArgsP) (bm : Bool) (f : PSFields) (pos : Nat)
    (hspec : env.ctx.envSpec t.arg = some (a, bm)) :
    RawGood7 env.tol (ResOk7 db env.ctx) (rawEnvCall rec t a bm f pos) := by
  unfold rawEnvCall
  have hso : SpecOk db .env t.arg a := hC.env _ _ hspec
  have hpre : ParserPre7 env.ctx (.arguments a) := hso.1
  apply bindOk_good7 _ _ _ (pc_perr7 IH _ _ _ hpre)
  intro ares p hq
  have ha := pc_ok7 IH _ _ _ hpre ares p hq
  simp only [PRes7] at ha
  generalize (if bm = true then applyDelta f Delta.enterMath else f) = bf
  have hpre2 : ParserPre7 env.ctx (.envBody t.arg) := trivial
  apply bindOk_good7 _ _ _ (pc_perr7 IH _ _ _ hpre2)
  intro bres p2 hq2
  have hb := pc_ok7 IH _ _ _ hpre2 bres p2 hq2
  have hw : walkerSpecC env.ctx .env t.arg = some a := by
    simp only [walkerSpecC, hspec, Option.map_some]
  have hsa := callArgs_ok7 hso hw ha
  simp only [RawGood7, ResOk7, NodeOk]
  exact ⟨hsa.1, hsa.2, bodyOf_ok7 _ hb⟩

/-! #### arguments -/

theorem argsLoop_good7 (f : PSFields) : ∀ (specs : List ArgSpec) (acc : List Arg) (pos : Nat),
    specs.all (fun a => kindSafe a.kind) = true →
    ArgsLoopGood7 db env.ctx env.tol acc specs (argsLoop env rec f specs acc pos) := by
  intro specs
  induction specs with
  | nil => intro acc pos _; simp [argsLoop, ArgsLoopGood7, argsOk_nil]
  | cons a rest ih =>
    intro acc pos hall
    simp only [List.all_cons, Bool.and_eq_true] at hall
    unfold argsLoop
    split
    · next hpk => exact peekTok_err_tol7 hpk
    · have hpre : ParserPre7 env.ctx (argParser a.kind) := by cases a.kind <;> trivial
      cases hr : rec (.pc (argParser a.kind) (applyDelta f a.delta) pos) with
      | ok res p =>
        simp only
        have h := slot_of_argParser _ hall.1 _ (pc_ok7 IH _ _ _ hpre res p hr)
        have ih2 := ih (acc ++ [resToArg res]) p hall.2
        cases hr2 : argsLoop env rec f rest (acc ++ [resToArg res]) p with
        | ok res2 q =>
          rw [hr2] at ih2
          obtain ⟨l', h1, h2, h3⟩ := ih2
          refine ⟨resToArg res :: l', ?_, ?_, ?_⟩
          · rw [h1]; simp
          · simp [h2]
          · simp only [ArgsOk]
            exact ⟨resToArg_ok7 _ h, h3⟩
        | perr e => rw [hr2] at ih2; exact ih2
        | loopEnd e => trivial
        | crash k => trivial
        | fuel => trivial
      | perr e => exact pc_perr7 IH _ _ _ hpre e hr
      | loopEnd e => trivial
      | crash k => trivial
      | fuel => trivial

omit IH in
theorem rawLegacyVerb_good7 (f : PSFields) (pos : Nat) :
    RawGood7 env.tol (ArgsRes7 db env.ctx .legacyVerb) (rawLegacyVerb env f pos) := by
  unfold rawLegacyVerb
  simp only
  split
  · exact Or.inr rfl
  · split
    · exact Or.inr rfl
    · simp only [RawGood7, ArgsRes7, ArgsOk, ArgOk, and_true]
      exact ⟨nodeOk_chars _ _ _ _, Or.inr rfl⟩

omit IH in
theorem legacyVerbEnvFinish_good7 (name : Str) (optArg : Bool) (f : PSFields) (pos : Nat) (pre : List Arg) (p : Nat)
    (hpre : ArgsOk db env.ctx pre) (hlen : pre.length + 1 = sigLen (.legacyVerbEnv name optArg)) :
    RawGood7 env.tol (ArgsRes7 db env.ctx (.legacyVerbEnv name optArg)) (legacyVerbEnvFinish env name f pos pre p) := by
  unfold legacyVerbEnvFinish
  split
  · exact Or.inr rfl
  · simp only [RawGood7, ArgsRes7]
    refine ⟨?_, Or.inr ?_⟩
    · rw [argsOk_append]
      refine ⟨hpre, ?_⟩
      simp only [ArgsOk, ArgOk, and_true]
      exact nodeOk_chars _ _ _ _
    · rw [← hlen]; simp

theorem rawLegacyVerbEnv_good7 (name : Str) (optArg : Bool) (f : PSFields) (pos : Nat) :
    RawGood7 env.tol (ArgsRes7 db env.ctx (.legacyVerbEnv name optArg)) (rawLegacyVerbEnv env rec name optArg f pos) := by
  have habs : ArgsOk db env.ctx [.absent] := by simp only [ArgsOk, ArgOk, and_true]
  unfold rawLegacyVerbEnv
  cases optArg with
  | false =>
    simp only [Bool.not_false, if_true]
    exact legacyVerbEnvFinish_good7 name false f pos [] pos argsOk_nil rfl
  | true =>
    simp only [Bool.not_true, Bool.false_eq_true, if_false]
    split
    · exact legacyVerbEnvFinish_good7 name true f pos _ pos habs rfl
    · have hpre : ParserPre7 env.ctx (.group (.pair ['['] [']']) true false) := trivial
      apply bindOk_good7 _ _ _ (pc_perr7 IH _ _ _ hpre)
      intro res q hq
      have h := pc_ok7 IH _ _ _ hpre res q hq
      split
      · next n =>
        refine legacyVerbEnvFinish_good7 name true f pos _ _ ?_ rfl
        simp only [ArgsOk, ArgOk, and_true]
        exact h.1
      · exact legacyVerbEnvFinish_good7 name true f pos _ pos habs rfl

theorem rawArguments_good7 (a : ArgsP) (f : PSFields) (pos : Nat) (ha : argsPSafe a = true) :
    RawGood7 env.tol (ArgsRes7 db env.ctx a) (rawArguments env rec a f pos) := by
  unfold rawArguments
  split
  · next l =>
    have h := argsLoop_good7 IH f l [] pos ha
    cases hr : argsLoop env rec f l [] pos with
    | ok res q =>
      rw [hr] at h
      obtain ⟨l', h1, h2, h3⟩ := h
      subst h1
      simp only [RawGood7, ArgsRes7, List.nil_append, sigLen]
      exact ⟨h3, Or.inr h2⟩
    | perr e =>
      rw [hr] at h
      exact Or.inl h
    | loopEnd e => trivial
    | crash k => trivial
    | fuel => trivial
  · exact rawLegacyVerb_good7 f pos
  · exact rawLegacyVerbEnv_good7 IH _ _ f pos
  · trivial

/-! #### expression -/

omit IH in
theorem exprFinish_good7 (f : PSFields) (nodes : List Node) (pos : Nat) (h : ListOk db env.ctx nodes) :
    ExprGood7 db env.ctx env.tol (exprFinish f nodes pos) := by
  unfold exprFinish
  split
  · next n hn => exact listOk_getLast _ _ h hn
  · simp only [ExprGood7, SlotRes7, NodeOk, BodyOk]
    exact listOk_nil

theorem exprOnTok_good7 (ap : Bool) (skipped : List Node) (f : PSFields) (t : Token)
    (hsk : ListOk db env.ctx skipped) :
    ExprGood7 db env.ctx env.tol (exprOnTok env rec ap skipped f t) := by
  unfold exprOnTok
  simp only
  split
  · split
    · exact IH (.expr ap _ f t.posEnd) (listOk_snoc _ _ hsk (nodeOk_comment _ _ _ _ _))
    · split
      · exact IH (.expr ap _ f t.posEnd) hsk
      · exact Or.inr trivial
  · have hpre : ParserPre7 env.ctx (.group (.auto t.arg) false false) := trivial
    cases hr : rec (.pc (.group (.auto t.arg) false false) f t.pos) with
    | ok res p =>
      cases res with
      | node n => exact exprFinish_good7 f _ p (listOk_snoc _ _ hsk (pc_ok7 IH _ _ _ hpre _ _ hr).1)
      | none => trivial
      | list _ _ _ => trivial
      | args _ _ _ => trivial
    | perr e => exact Or.inl (pc_perr7 IH _ _ _ hpre e hr)
    | loopEnd _ => trivial
    | crash _ => trivial
    | fuel => trivial
  · exact Or.inr (by simp only [SlotRes7, NodeOk])
  · exact exprFinish_good7 f _ _ (listOk_snoc _ _ hsk (nodeOk_chars _ _ _ _))
  · refine Or.inr ?_
    simp only [SlotRes7]
    split
    · exact nodeOk_bareMac _ _ _ _ _
    · exact nodeOk_chars _ _ _ _
  · refine Or.inr ?_
    simp only [SlotRes7]
    split
    · exact nodeOk_bareMac _ _ _ _ _
    · exact nodeOk_chars _ _ _ _
  · trivial

theorem exprTok_good7 (hC : CtxOk db env.ctx) (ap : Bool) (skipped : List Node) (f : PSFields) (t : Token)
    (hsk : ListOk db env.ctx skipped) :
    ExprGood7 db env.ctx env.tol (exprTok env rec ap skipped f t) := by
  unfold exprTok
  simp only
  split
  · split
    · next hbe =>
      split
      · refine exprFinish_good7 f _ _ (listOk_snoc _ _ hsk (nodeOk_noArgMac _ _ _ _ _ ?_))
        simp only [Bool.or_eq_true, beq_iff_eq] at hbe
        rcases hbe with h | h
        · rw [h]; exact hC.beginOk
        · rw [h]; exact hC.endOk
      · exact Or.inr trivial
    · exact exprFinish_good7 f _ _ (listOk_snoc _ _ hsk (nodeOk_bareMac _ _ _ _ _))
  · split
    · exact exprFinish_good7 f _ _ (listOk_snoc _ _ hsk (nodeOk_bareSpecials _ _ _ _))
    · split
      · split
        · exact IH (.expr ap _ f t.pos) (listOk_snoc _ _ hsk (nodeOk_chars _ _ _ _))
        · split
          · exact IH (.expr ap _ f t.posEnd) hsk
          · exact Or.inr trivial
      · exact exprOnTok_good7 IH ap skipped f t hsk

theorem exprStep_good7 (hC : CtxOk db env.ctx) (ap : Bool) (skipped : List Node) (f : PSFields) (pos : Nat)
    (hsk : ListOk db env.ctx skipped) :
    ExprGood7 db env.ctx env.tol (exprStep env rec ap skipped f pos) := by
  unfold exprStep
  simp only
  split
  · exact Or.inr trivial
  · split
    · exact exprFinish_good7 f _ _ hsk
    · exact Or.inr trivial
  · exact exprTok_good7 IH hC ap skipped f _ hsk

/-! #### marker, verbatim -/

omit IH in
theorem rawMarker_good7 (c : Char) (fl ap : Bool) (f : PSFields) (pos : Nat) :
    RawGood7 env.tol (PRes7 db env.ctx (.marker c fl ap)) (rawMarker env c fl ap f pos) := by
  have hnone : PRes7 db env.ctx (.marker c fl ap) .none := ⟨trivial, fun _ => trivial⟩
  unfold rawMarker
  split
  · exact hnone
  · exact tokErr_good7 _ hnone _ _ _
  · split
    · exact hnone
    · split
      · simp only [RawGood7]
        cases fl with
        | true =>
          simp only [if_true]
          refine ⟨?_, fun h => by cases h⟩
          simp only [ResOk7, ListOk, and_true]
          exact nodeOk_chars _ _ _ _
        | false =>
          simp only [Bool.false_eq_true, if_false]
          simp only [PRes7, ResOk7, SlotRes7, NodeOk, and_self, implies_true]
      · split
        · exact hnone
        · exact hnone

omit IH in
theorem rawVerbatim_good7 (d : Option (Char × Char)) (f : PSFields) (pos : Nat) :
    RawGood7 env.tol (SlotRes7 db env.ctx) (rawVerbatim env d f pos) := by
  unfold rawVerbatim
  simp only
  split
  · trivial
  · split
    · exact Or.inr trivial
    · split
      · simp only [RawGood7, SlotRes7, NodeOk, BodyOk, ListOk, and_true]
      · exact Or.inr (by simp only [SlotRes7, NodeOk])

/-! ### the step function -/

theorem rawParse_good7 (hC : CtxOk db env.ctx) (p : Parser) (f : PSFields) (pos : Nat)
    (hp : ParserPre7 env.ctx p) : RawGood7 env.tol (PRes7 db env.ctx p) (rawParse env rec p f pos) := by
  cases p with
  | general stop require child => exact rawGeneral_good7 IH stop require child f pos
  | group d o a => exact rawGroup_good7 IH d o a f pos
  | math d => exact rawMath_good7 IH d f pos
  | envBody n => exact rawEnvBody_good7 IH n f pos
  | macroCall t a =>
    have hso : SpecOk db .mac t.arg a := hC.mac _ _ hp
    refine rawCall_good7 IH _ a f pos hso.1 (fun p res h => ?_)
    have hsa := callArgs_ok7 (ctx := env.ctx) hso (k := .mac) hp h
    simp only [NodeOk]
    exact hsa
  | specialsCall t a =>
    have hso : SpecOk db .specials t.arg a := hC.sp _ _ hp
    refine rawCall_good7 IH _ a f pos hso.1 (fun p res h => ?_)
    have hsa := callArgs_ok7 (ctx := env.ctx) hso (k := .specials) hp h
    simp only [NodeOk]
    exact hsa
  | envCall t a bm => exact rawEnvCall_good7 IH hC t a bm f pos hp
  | arguments a => exact rawArguments_good7 IH a f pos hp
  | expression ap =>
    have h := IH (.expr ap [] f pos) (listOk_nil (db := db) (ctx := env.ctx))
    simp only [rawParse]
    cases hr : rec (.expr ap [] f pos) with
    | ok res q => rw [hr] at h; exact h
    | perr e => rw [hr] at h; exact h
    | loopEnd _ => trivial
    | crash _ => trivial
    | fuel => trivial
  | marker c fl ap => exact rawMarker_good7 c fl ap f pos
  | verbatim d => exact rawVerbatim_good7 d f pos

theorem step_good7 (hC : CtxOk db env.ctx) (t : Task) (hp : Pre7 db env.ctx t) :
    Good7 db env.ctx env.tol t (step env rec t) := by
  cases t with
  | pc p f pos => exact parseContent_good7 p f pos _ (rawParse_good7 IH hC p f pos hp)
  | loop f stop child st => exact loopStep_good7 IH f stop child st hp
  | expr ap skipped f pos => exact exprStep_good7 IH hC ap skipped f pos hp

end

theorem run_good7 {db : TextDb} {env : Pylx.Env} (hC : CtxOk db env.ctx) :
    ∀ (n : Nat) (t : Task), Pre7 db env.ctx t → Good7 db env.ctx env.tol t (run env n t) := by
  intro n
  induction n with
  | zero => intro t _; cases t <;> trivial
  | succ n ih => intro t hp; exact step_good7 ih hC t hp

/-! ### the property theorems -/

/-- **generic parser invariant** (both parsing modes, any fuel, any start state): for every text database and
    walker context satisfying `CtxOk`, every node list returned by the parser model satisfies the argument-list
    invariant of C07. -/
theorem C07_parsed_args_length_generic (db : TextDb) (ctx : Ctx) (hC : CtxOk db ctx) (tol : Bool) (s : Str)
    (f : PSFields) (n : Nat) (p e : Option Nat) (ns : List Node) (pos : Nat)
    (h : run { tol := tol, ctx := ctx, s := s } n (.pc (.general .none true .same) f 0) = .ok (.list p e ns) pos) :
    ListOk db ctx ns := by
  have hg := run_good7 (db := db) (env := { tol := tol, ctx := ctx, s := s }) hC n
    (.pc (.general .none true .same) f 0) trivial
  rw [h] at hg
  exact hg

theorem C07_parsed_args_length_of_ctxOk (db : TextDb) (ctx : Ctx) (hC : CtxOk db ctx) :
    C07_parsed_args_length_stmt db ctx := by
  intro s p e ns pos h
  exact C07_parsed_args_length_generic db ctx hC true s (startFields ctx) _ p e ns pos h

set_option maxRecDepth 100000 in
/-- the default walker context declares only `{`, `[`, `*` arguments (no `t<c>` marker, no required delimited
    argument), its unknown-macro / unknown-environment specifications take no arguments, and the names whose
    arguments parser can raise by itself (`\verb`, `verbatim`, `lstlisting`) as well as `\begin` / `\end` have
    text replacements that tolerate `nodeargd is None` -/
theorem C07_ctx_ok : ctxOkB Gen.defaultTextDb Gen.defaultCtx = true := by decide +kernel

/-! ### non-vacuity, and the hypotheses cannot be dropped -/

/-- a returned list whose first node is a macro without `nodeargd` / with a node-list argument slot -/
def headNoArgd : Ret → Bool
  | .ok (.list _ _ (.mac _ _ _ _ _ none :: _)) _ => true
  | _ => false

def headListSlot : Ret → Bool
  | .ok (.list _ _ (.mac _ _ _ _ _ (some (.list _ _ _ :: _)) :: _)) _ => true
  | _ => false

theorem not_listOk_of_headListSlot {db : TextDb} {ctx : Ctx} {r : Ret} (h : headListSlot r = true) :
    ∃ p e ns pos, r = .ok (.list p e ns) pos ∧ ¬ ListOk db ctx ns := by
  unfold headListSlot at h
  split at h
  · refine ⟨_, _, _, _, rfl, ?_⟩
    simp [ListOk, NodeOk, ArgsOOk, ArgsOk, ArgOk]
  · cases h

def exVerb : Str := ['\\', 'v', 'e', 'r', 'b']
def exEmphEnd : Str := ['\\', 'e', 'm', 'p', 'h', '\\', 'e', 'n', 'd', ' ', 'x']

set_option maxRecDepth 100000 in
/-- the `nodeargd = None` case of the invariant is exercised by the default context: `\verb` at the end of the
    input (the legacy verbatim parser raises, tolerant recovery keeps the macro node without arguments) -/
example : headNoArgd (parseTop { tol := true, ctx := Gen.defaultCtx, s := exVerb } (startFields Gen.defaultCtx)) = true := by
  decide +kernel

/-- the hypothesis of `C07_parsed_args_length` is satisfiable for every input: the tolerant parse of the default
    context always returns a node list (C06), and that list satisfies the invariant -/
example (s : Str) : ∃ p e ns pos,
    parseTop { tol := true, ctx := Gen.defaultCtx, s := s } (startFields Gen.defaultCtx) = .ok (.list p e ns) pos ∧
    ListOk Gen.defaultTextDb Gen.defaultCtx ns := by
  obtain ⟨p, e, ns, pos, h, _⟩ := C06_total_list Gen.defaultCtx defaultCtx_closed s _ startOk_default
  exact ⟨p, e, ns, pos, h,
    C07_parsed_args_length_of_ctxOk _ _ (ctxOk_of_B C07_ctx_ok) s p e ns pos h⟩

/-- a small hand-written context (strict mode is covered by the generic theorem as well) -/
def exCtx : Ctx := { macros := [("textbf".toList, .std [{ kind := .m }]), ("verb".toList, .legacyVerb)] }

set_option maxRecDepth 100000 in
example : CtxOk Gen.defaultTextDb exCtx := ctxOk_of_B (by decide +kernel)

/-- a context with a required delimited argument `r<>`: in tolerant mode a missing opening delimiter leaves the
    empty recovery node *list* in the argument slot, so the invariant fails — `kindSafe` cannot be dropped from
    `CtxOk` (the default context has no such argument, `C07_ctx_ok`) -/
def exCtxR : Ctx := { macros := [(['x'], .std [{ kind := .r '<' '>' }])] }
def exCtxT : Ctx := { macros := [(['x'], .std [{ kind := .t '!' }])] }

set_option maxRecDepth 100000 in
example : ¬ C07_parsed_args_length_stmt Gen.defaultTextDb exCtxR := by
  intro h
  have hb : headListSlot (parseTop { tol := true, ctx := exCtxR, s := ['\\', 'x', ' ', 'a'] } (startFields exCtxR)) = true := by
    decide +kernel
  obtain ⟨p, e, ns, pos, hr, hn⟩ := not_listOk_of_headListSlot (db := Gen.defaultTextDb) (ctx := exCtxR) hb
  exact hn (h _ p e ns pos hr)

set_option maxRecDepth 100000 in
/-- the same for a marker argument `t!` -/
example : ¬ C07_parsed_args_length_stmt Gen.defaultTextDb exCtxT := by
  intro h
  have hb : headListSlot (parseTop { tol := true, ctx := exCtxT, s := ['\\', 'x', '!'] } (startFields exCtxT)) = true := by
    decide +kernel
  obtain ⟨p, e, ns, pos, hr, hn⟩ := not_listOk_of_headListSlot (db := Gen.defaultTextDb) (ctx := exCtxT) hb
  exact hn (h _ p e ns pos hr)

end Pylx.L2T.C07P

namespace Pylx.L2T

/-- **C07 (parser half).**  Every tree the tolerant parser returns for the default context satisfies the
    argument-list invariant of the default databases. -/
theorem C07_parsed_args_length : C07_parsed_args_length_stmt Gen.defaultTextDb Gen.defaultCtx :=
  C07P.C07_parsed_args_length_of_ctxOk _ _ (C07P.ctxOk_of_B C07P.C07_ctx_ok)

/-- **C07.**  For every option set (repaired switch on), all library oracles and every input string,
    `latex_to_text` returns a string. -/
theorem C07 : C07_full := fun opts hrep lib s => C07_partial C07_parsed_args_length opts hrep lib s

set_option maxRecDepth 100000 in
/-- non-vacuity of `C07`: concrete inputs that reach the `nodeargd = None` cases, with the repaired switch on -/
example : (latexToText { repaired := true } idLib C07P.exVerb).isOkB = true := by decide +kernel

set_option maxRecDepth 100000 in
example : (latexToText { repaired := true } idLib C07P.exEmphEnd).isOkB = true := by decide +kernel

end Pylx.L2T

#print axioms Pylx.L2T.C07P.C07_parsed_args_length_generic
#print axioms Pylx.L2T.C07P.C07_ctx_ok
#print axioms Pylx.L2T.C07_parsed_args_length
#print axioms Pylx.L2T.C07
