/-
  C08, all strings — the renderer side.

  * laws of the position-free renderer loop `renderXList` on successful runs: accumulator shift, independence of the
    previous node when `between-macro-and-chars` is on, the append law, invariance under the merging of adjacent chars
    nodes when `between-latex-constructs` is on (both hold for the two policies of the property);
  * the exact tree `xW` of a concatenation whose first part is solid;
  * whitespace runs of a `ParClean` string render to themselves (`render_wsX`).
-/
import PylxProofs.C08FParse
import PylxProofs.C03SSpec
namespace Pylx.C08.Full
open Pylx Pylx.EncB Pylx.L2T Pylx.L2T.C03S Pylx.C13.Full

/-! ### the loop of the position-free renderer -/

theorem bind_crash {α β : Type} {x : R α} {f : α → R β} {st : St} {k : String} (h : x st = .crash k) :
    R.bind x f st = .crash k := by
  unfold R.bind; rw [h]

theorem pure_bind {α β : Type} (a : α) (f : α → R β) : R.bind (R.pure a) f = f a := by
  funext st; rfl

theorem renderXList_cons (E : XE) (c : Sls) (prev : Option XNode) (acc : Str) (n : XNode) (ns : List XNode) :
    renderXList E c prev acc (n :: ns) =
      R.bind (R.ofOut (preOfX E c prev n)) fun pre =>
        R.bind (renderXNode E c n) fun t => renderXList E c (some n) (acc ++ pre ++ t) ns := by
  rw [renderXList]

theorem renderXList_cons_inv {E : XE} {c : Sls} {prev : Option XNode} {acc : Str} {n : XNode} {ns : List XNode} {st : St}
    {r : Str × St} (h : renderXList E c prev acc (n :: ns) st = .ok r) :
    ∃ pre t st1, preOfX E c prev n = .ok pre ∧ renderXNode E c n st = .ok (t, st1) ∧
      renderXList E c (some n) (acc ++ pre ++ t) ns st1 = .ok r := by
  rw [renderXList_cons] at h
  cases hp : preOfX E c prev n with
  | crash k =>
    rw [hp, bind_crash (show R.ofOut (Out.crash k) st = .crash k from rfl)] at h
    cases h
  | ok pre =>
    rw [hp, bind_ok (show R.ofOut (Out.ok pre) st = .ok (pre, st) from rfl)] at h
    cases hn : renderXNode E c n st with
    | crash k => rw [bind_crash hn] at h; cases h
    | ok q =>
      obtain ⟨t, st1⟩ := q
      rw [bind_ok hn] at h
      exact ⟨pre, t, st1, rfl, rfl, h⟩

/-- a longer accumulator only prefixes the result -/
theorem renderXList_shift (E : XE) (c : Sls) (a : Str) : ∀ (ns : List XNode) (prev : Option XNode) (acc : Str) (st : St)
    (r : Str) (st' : St), renderXList E c prev acc ns st = .ok (r, st') →
      renderXList E c prev (a ++ acc) ns st = .ok (a ++ r, st')
  | [], prev, acc, st, r, st', h => by
    rw [renderXList_nil] at h ⊢
    cases h; rfl
  | n :: ns, prev, acc, st, r, st', h => by
    obtain ⟨pre, t, st1, hp, hn, hr⟩ := renderXList_cons_inv h
    rw [renderXList_cons_ok E c prev _ n ns st st1 pre t hp hn]
    have := renderXList_shift E c a ns (some n) (acc ++ pre ++ t) st1 r st' hr
    simpa [List.append_assoc] using this

theorem preOfX_mc (E : XE) (c : Sls) (hmc : c.mc = true) {prev : Option XNode} {b : Bool} (hb : isBareX E prev = .ok b)
    (n : XNode) : preOfX E c prev n = .ok [] := by
  unfold preOfX
  rw [hb, hmc]
  simp

/-- with `between-macro-and-chars` on, the node in front of a list does not matter (if `_is_bare_macro_node` does not
    raise on it) -/
theorem renderXList_prev (E : XE) (c : Sls) (hmc : c.mc = true) {prev : Option XNode} {b : Bool} (hb : isBareX E prev = .ok b) :
    ∀ (ns : List XNode) (acc : Str) (st : St) (r : Str) (st' : St), renderXList E c none [] ns st = .ok (r, st') →
      renderXList E c prev acc ns st = .ok (acc ++ r, st')
  | [], acc, st, r, st', h => by
    rw [renderXList_nil] at h ⊢
    cases h; simp
  | n :: ns, acc, st, r, st', h => by
    obtain ⟨pre, t, st1, hp, hn, hr⟩ := renderXList_cons_inv h
    have hp0 : pre = [] := by
      have := preOfX_mc E c hmc (prev := none) (b := false) rfl n
      rw [this] at hp
      cases hp; rfl
    subst hp0
    rw [renderXList_cons_ok E c prev _ n ns st st1 [] t (preOfX_mc E c hmc hb n) hn]
    have := renderXList_shift E c acc ns (some n) ([] ++ [] ++ t) st1 r st' hr
    simpa [List.append_assoc] using this

/-- the node the loop remembers after a list -/
def lastOr (prev : Option XNode) (L : List XNode) : Option XNode :=
  match L.getLast? with
  | some l => some l
  | none => prev

theorem lastOr_cons (prev : Option XNode) (n : XNode) (L : List XNode) : lastOr prev (n :: L) = lastOr (some n) L := by
  unfold lastOr
  cases L with
  | nil => rfl
  | cons a l =>
    rw [List.getLast?_cons_cons]
    cases h : (a :: l).getLast? with
    | none => simp at h
    | some x => rfl

/-- **append law** on successful runs, `between-macro-and-chars` on -/
theorem renderXList_app (E : XE) (c : Sls) (hmc : c.mc = true) : ∀ (L1 : List XNode) (prev : Option XNode) (acc : Str) (st : St)
    (t1 : Str) (st1 : St), renderXList E c prev acc L1 st = .ok (t1, st1) → (∃ b, isBareX E (lastOr prev L1) = .ok b) →
    ∀ (L2 : List XNode) (t2 : Str) (st2 : St), renderXList E c none [] L2 st1 = .ok (t2, st2) →
      renderXList E c prev acc (L1 ++ L2) st = .ok (t1 ++ t2, st2)
  | [], prev, acc, st, t1, st1, h, hb, L2, t2, st2, h2 => by
    rw [renderXList_nil] at h
    cases h
    obtain ⟨b, hb⟩ := hb
    exact renderXList_prev E c hmc (prev := prev) hb L2 acc st t2 st2 h2
  | n :: ns, prev, acc, st, t1, st1, h, hb, L2, t2, st2, h2 => by
    obtain ⟨pre, t, st0, hp, hn, hr⟩ := renderXList_cons_inv h
    rw [List.cons_append, renderXList_cons_ok E c prev _ n (ns ++ L2) st st0 pre t hp hn]
    rw [lastOr_cons] at hb
    exact renderXList_app E c hmc ns (some n) _ st0 t1 st1 hr hb L2 t2 st2 h2

theorem render_app {E : XE} {c : Sls} (hmc : c.mc = true) {L1 L2 : List XNode} {t1 t2 : Str}
    (h1 : renderXList E c none [] L1 {} = .ok (t1, {})) (hb : ∃ b, isBareX E (lastOr none L1) = .ok b)
    (h2 : renderXList E c none [] L2 {} = .ok (t2, {})) : renderXList E c none [] (L1 ++ L2) {} = .ok (t1 ++ t2, {}) :=
  renderXList_app E c hmc L1 none [] {} t1 {} h1 hb L2 t2 {} h2

/-! ### merging adjacent chars nodes does not change the text -/

theorem preOfX_chars (E : XE) (c : Sls) (x : Str) (n : XNode) : preOfX E c (some (.chars x)) n = .ok [] := by
  unfold preOfX isBareX
  simp

theorem renderXNode_chars (E : XE) (c : Sls) (hlc : c.lc = true) (x : Str) : renderXNode E c (.chars x) = R.pure x := by
  rw [renderXNode, hlc]
  rfl

theorem renderXList_prevChars (E : XE) (c : Sls) (x y : Str) (acc : Str) :
    ∀ (r : List XNode), renderXList E c (some (.chars x)) acc r = renderXList E c (some (.chars y)) acc r
  | [] => by rw [renderXList, renderXList]
  | n :: ns => by rw [renderXList_cons, renderXList_cons, preOfX_chars, preOfX_chars]

theorem preOfX_anychars (E : XE) (c : Sls) (prev : Option XNode) (x y : Str) :
    preOfX E c prev (.chars x) = preOfX E c prev (.chars y) := by
  unfold preOfX
  rfl

theorem renderXList_consX (E : XE) (c : Sls) (hlc : c.lc = true) (prev : Option XNode) (acc : Str) (x : XNode) (M : List XNode) :
    renderXList E c prev acc (consX x M) = renderXList E c prev acc (x :: M) := by
  cases x with
  | chars a =>
    cases M with
    | nil => rfl
    | cons y r =>
      cases y with
      | chars b =>
        show renderXList E c prev acc (.chars (a ++ b) :: r) = renderXList E c prev acc (.chars a :: .chars b :: r)
        rw [renderXList_cons, renderXList_cons, preOfX_anychars E c prev (a ++ b) a]
        refine bind_congr rfl (fun pre => ?_)
        rw [renderXNode_chars E c hlc, renderXNode_chars E c hlc, pure_bind, pure_bind, renderXList_cons, preOfX_chars,
          renderXNode_chars E c hlc]
        show _ = R.bind (R.pure []) _
        rw [pure_bind, pure_bind, renderXList_prevChars E c (a ++ b) b]
        simp only [List.append_assoc, List.nil_append]
      | _ => rfl
  | _ => rfl

/-- with `between-latex-constructs` on (chars nodes are copied), the merged list renders as the unmerged one -/
theorem renderXList_mergeX (E : XE) (c : Sls) (hlc : c.lc = true) : ∀ (L : List XNode) (prev : Option XNode) (acc : Str),
    renderXList E c prev acc (mergeX L) = renderXList E c prev acc L
  | [], prev, acc => rfl
  | x :: tl, prev, acc => by
    rw [mergeX_cons, renderXList_consX E c hlc, renderXList_cons, renderXList_cons]
    refine bind_congr rfl (fun pre => bind_congr rfl (fun t => ?_))
    exact renderXList_mergeX E c hlc tl (some x) _

/-! ### the exact tree of a concatenation -/

theorem wsX_nil : wsX [] = [] := by
  unfold wsX pendX
  simp [countNl]

theorem xW_nil (w : Str) : xW w [] = wsX w := by rw [xW]

theorem xW_ch_space (w : Str) (c : Char) (tl : List CItem) (h : isPySpace c = true) : xW w (.ch c :: tl) = xW (w ++ [c]) tl := by
  rw [xW, if_pos h]

/-- a list whose last item is not a whitespace character leaves no whitespace in hand -/
theorem xW_append_endsSolid : ∀ (d : List CItem) (w : Str) (b : List CItem), endsSolid d = true →
    xW w (d ++ b) = xW w d ++ xW [] b
  | [], _, _, h => by cases h
  | [it], w, b, h => by
    cases it with
    | ch c =>
      have hsp : isPySpace c = false := by simpa [endsSolid, isWsItemC] using h
      simp only [List.cons_append, List.nil_append, xW, hsp, Bool.false_eq_true, if_false, wsX_nil, List.append_assoc,
        List.cons_append]
    | grp g => simp only [List.cons_append, List.nil_append, xW, wsX_nil, List.append_assoc, List.cons_append]
    | mac n po a => simp only [List.cons_append, List.nil_append, xW, wsX_nil, List.append_assoc, List.cons_append]
    | math g => simp only [List.cons_append, List.nil_append, xW, wsX_nil, List.append_assoc, List.cons_append]
  | it :: it2 :: tl, w, b, h => by
    have h' : endsSolid (it2 :: tl) = true := by simpa [endsSolid] using h
    cases it with
    | ch c =>
      by_cases hsp : isPySpace c = true
      · rw [List.cons_append, xW_ch_space _ _ _ hsp, xW_ch_space _ _ _ hsp]
        exact xW_append_endsSolid (it2 :: tl) (w ++ [c]) b h'
      · have hsp' : isPySpace c = false := by simpa using hsp
        have ih := xW_append_endsSolid (it2 :: tl) [] b h'
        rw [List.cons_append, xW, xW, ih]
        simp only [hsp', Bool.false_eq_true, if_false, List.append_assoc, List.cons_append]
    | grp g =>
      have ih := xW_append_endsSolid (it2 :: tl) [] b h'
      rw [List.cons_append, xW, xW, ih]
      simp only [List.append_assoc, List.cons_append]
    | mac n po a =>
      have ih := xW_append_endsSolid (it2 :: tl) [] b h'
      rw [List.cons_append, xW, xW, ih]
      simp only [List.append_assoc, List.cons_append]
    | math g =>
      have ih := xW_append_endsSolid (it2 :: tl) [] b h'
      rw [List.cons_append, xW, xW, ih]
      simp only [List.append_assoc, List.cons_append]

/-- a list whose first item is not a whitespace character turns the whitespace in hand into nodes first -/
theorem xW_startsSolid (d : List CItem) (w : Str) (h : startsSolid d = true) : xW w d = wsX w ++ xW [] d := by
  cases d with
  | nil => cases h
  | cons it tl =>
    cases it with
    | ch c =>
      have hsp : isPySpace c = false := by simpa [startsSolid, isWsItemC] using h
      simp only [xW, hsp, Bool.false_eq_true, if_false, wsX_nil, List.nil_append]
    | grp g => simp only [xW, wsX_nil, List.nil_append]
    | mac n po a => simp only [xW, wsX_nil, List.nil_append]
    | math g => simp only [xW, wsX_nil, List.nil_append]

/-- **the exact tree of a solid chunk followed by more** -/
theorem xW_solid (d : List CItem) (w : Str) (b : List CItem) (h : solid d = true) :
    xW w (d ++ b) = wsX w ++ (xW [] d ++ xW [] b) := by
  unfold solid at h
  rw [Bool.and_eq_true] at h
  rw [xW_append_endsSolid d w b h.2, xW_startsSolid d w h.1, List.append_assoc]

/-! ### whitespace runs of a `ParClean` string -/

/-- only the two whitespace characters of the alphabet -/
def wsOnly (w : Str) : Prop := ∀ x ∈ w, x = ' ' ∨ x = '\n'

theorem wsOnly_nil : wsOnly [] := fun _ h => by cases h

theorem wsOnly_snoc {w : Str} {c : Char} (hw : wsOnly w) (hc : c = ' ' ∨ c = '\n') : wsOnly (w ++ [c]) := by
  intro x hx
  rcases List.mem_append.mp hx with h | h
  · exact hw x h
  · have : x = c := by simpa using h
    rw [this]; exact hc

theorem wsOnly_tail {c : Char} {w : Str} (h : wsOnly (c :: w)) : wsOnly w := fun x hx => h x (List.mem_cons_of_mem _ hx)

theorem ParClean_drop : ∀ (a b : Str), ParClean (a ++ b) = true → ParClean b = true
  | [], _, h => h
  | _ :: a, b, h => ParClean_drop a b (ParClean_tail h)

theorem parBad_false {c : Char} {r : Str} (h : ParClean (c :: r) = true) : parBad (c :: r) = false := by
  simp only [ParClean, Bool.and_eq_true, Bool.not_eq_eq_eq_not, Bool.not_true] at h
  exact h.1

theorem countNl_space (l : Str) : countNl (' ' :: l) = countNl l := by
  rw [countNl_cons]; simp

theorem countNl_nl (l : Str) : countNl ('\n' :: l) = 1 + countNl l := by
  rw [countNl_cons]; simp

theorem dropSpaces_nl : ∀ (x : Str), wsOnly x → countNl x ≥ 1 → ∀ (r : Str), ((x ++ r).dropWhile (· == ' ')).head? = some '\n'
  | [], _, hn, _ => by simp [countNl] at hn
  | c :: x, hx, hn, r => by
    rcases hx c (List.mem_cons_self ..) with rfl | rfl
    · rw [countNl_space] at hn
      have := dropSpaces_nl x (wsOnly_tail hx) hn r
      simpa [List.dropWhile] using this
    · simp

theorem lastNlEnd_zero : ∀ (x : Str), countNl x = 0 → lastNlEnd x = 0
  | [], _ => rfl
  | c :: x, h => by
    rw [countNl_cons] at h
    have hc : c ≠ '\n' := by
      intro e; rw [e] at h; simp at h
    have hx : countNl x = 0 := by omega
    have := lastNlEnd_zero x hx
    rw [lastNlEnd, this]
    simp [hc]

theorem parBad_nl_sp (r : Str) : parBad ('\n' :: ' ' :: r) = ((r.dropWhile (· == ' ')).head? == some '\n') := by
  rw [parBad]

theorem parBad_nl3 (r : Str) : parBad ('\n' :: '\n' :: '\n' :: r) = true := by
  rw [parBad]

/-- in a `ParClean` string a whitespace run with two or more newlines is: blanks, exactly `"\n\n"`, blanks -/
theorem par_fact : ∀ (w r : Str), wsOnly w → ParClean (w ++ r) = true → 2 ≤ countNl w →
    w = w.take (firstNl w) ++ '\n' :: '\n' :: w.drop (lastNlEnd w)
  | [], _, _, _, hn => by simp [countNl] at hn
  | c :: w', r, hw, hp, hn => by
    rcases hw c (List.mem_cons_self ..) with rfl | rfl
    · rw [countNl_space] at hn
      have ih := par_fact w' r (wsOnly_tail hw) (ParClean_tail hp) hn
      have h1 : firstNl (' ' :: w') = firstNl w' + 1 := by
        unfold firstNl
        rw [List.findIdx_cons]
        simp
      have hpos : lastNlEnd w' ≥ 1 := C13.Full.lastNlEnd_pos (by omega)
      have h2 : lastNlEnd (' ' :: w') = lastNlEnd w' + 1 := by
        rw [lastNlEnd, if_pos (by omega)]
      rw [h1, h2, List.take_succ_cons, List.drop_succ_cons, List.cons_append, ← ih]
    · rw [countNl_nl] at hn
      have h1 : firstNl ('\n' :: w') = 0 := by
        unfold firstNl
        rw [List.findIdx_cons]
        simp
      rw [h1, List.take_zero, List.nil_append]
      cases w' with
      | nil => simp [countNl] at hn
      | cons c2 w'' =>
        rcases hw c2 (List.mem_cons_of_mem _ (List.mem_cons_self ..)) with rfl | rfl
        · exfalso
          rw [countNl_space] at hn
          have hp' : ParClean ('\n' :: ' ' :: (w'' ++ r)) = true := hp
          have hb := parBad_false hp'
          rw [parBad_nl_sp, dropSpaces_nl w'' (wsOnly_tail (wsOnly_tail hw)) (by omega) r] at hb
          simp at hb
        · have hz : countNl w'' = 0 := by
            cases hcz : countNl w'' with
            | zero => rfl
            | succ k =>
              exfalso
              cases w'' with
              | nil => simp [countNl] at hcz
              | cons c3 w3 =>
                rcases hw c3 (List.mem_cons_of_mem _ (List.mem_cons_of_mem _ (List.mem_cons_self ..))) with rfl | rfl
                · rw [countNl_space] at hcz
                  have hp' : ParClean ('\n' :: '\n' :: ' ' :: (w3 ++ r)) = true := hp
                  have hb := parBad_false (ParClean_tail hp')
                  rw [parBad_nl_sp, dropSpaces_nl w3 (wsOnly_tail (wsOnly_tail (wsOnly_tail hw))) (by omega) r] at hb
                  simp at hb
                · have hp' : ParClean ('\n' :: '\n' :: '\n' :: (w3 ++ r)) = true := hp
                  have hb := parBad_false hp'
                  rw [parBad_nl3] at hb
                  cases hb
          have l0 := lastNlEnd_zero w'' hz
          have l1 : lastNlEnd ('\n' :: w'') = 1 := by
            rw [lastNlEnd, l0]; simp
          have l2 : lastNlEnd ('\n' :: '\n' :: w'') = 2 := by
            rw [lastNlEnd, l1]; simp
          rw [l2]
          rfl

/-! ### rendering whitespace nodes -/

section wsrender
variable {E : XE} {c : Sls}

theorem render_pendX (hlc : c.lc = true) (a : Str) : renderXList E c none [] (pendX a) {} = .ok (a, {}) := by
  unfold pendX
  split
  · rename_i h
    rw [renderXList_nil, List.isEmpty_iff.mp h]
  · rw [renderXList_cons_ok E c none [] (.chars a) [] {} {} [] a (preOfX_chars_none E c a) (by rw [renderXNode_chars E c hlc]; rfl),
      renderXList_nil]
    simp
where
  preOfX_chars_none (E : XE) (c : Sls) (a : Str) : preOfX E c none (.chars a) = .ok [] := by
    unfold preOfX isBareX; simp

theorem bare_pendX (prev : Option XNode) (hprev : ∃ b, isBareX E prev = .ok b) (a : Str) :
    ∃ b, isBareX E (lastOr prev (pendX a)) = .ok b := by
  unfold pendX
  split
  · exact hprev
  · exact ⟨false, rfl⟩

end wsrender

/-! ### non-vacuity -/

-- the hypotheses of `par_fact` on " \n\n  " followed by "x", and what it says
example : wsOnly " \n\n  ".toList ∧ ParClean (" \n\n  ".toList ++ ['x']) = true ∧ 2 ≤ countNl " \n\n  ".toList ∧
    " \n\n  ".toList = (" \n\n  ".toList).take (firstNl " \n\n  ".toList) ++ '\n' :: '\n' :: (" \n\n  ".toList).drop (lastNlEnd " \n\n  ".toList) := by
  refine ⟨?_, by decide, by decide, by decide⟩
  intro x hx
  simp at hx
  rcases hx with rfl | rfl | rfl <;> simp
-- three newlines are not `ParClean`; the run does not come back (`C08_parbreak_false`)
example : ParClean ['\n', '\n', '\n'] = false := by decide
-- solid / not solid
example : solid [.mac ['i'] [] [], .grp []] = true ∧ solid [.ch 'a', .ch ' '] = false ∧ solid [.ch ' '] = false := by
  refine ⟨by decide, by decide, by decide⟩

end Pylx.C08.Full
