/-
  C10 — step lemmas of the parsers, the step function and the induction on fuel.
-/
import PylxProofs.C10Lemmas2
namespace Pylx
namespace C10

section
variable {P : Str → Str → Bool → Prop} {ctx : Ctx} {f0 : PSFields} {tol : Bool}

/-! ### helpers -/

theorem bodyOf_ok (cur : PSInfo) (res : Res) (h : ResOkX P ctx cur res) : BodyM P ctx cur (bodyOf res) := by
  cases res <;> simp only [bodyOf, BodyM] <;> first | trivial | exact h

theorem resToArg_ok (cur : PSInfo) (res : Res) (h : ResOkX P ctx cur res) : ArgM P ctx cur (resToArg res) := by
  cases res <;> simp only [resToArg, ArgM] <;> first | trivial | exact h

theorem OptArgsM_nil (cur : PSInfo) (spec : Option ArgsP) : OptArgsM P ctx cur spec (some []) := by
  unfold OptArgsM
  split
  · exact Or.inr rfl
  · simp [ArgListM]

theorem ArgListM_nil_append (cur : PSInfo) (a b : List Arg) :
    ArgListM P ctx cur [] (a ++ b) ↔ ArgListM P ctx cur [] a ∧ ArgListM P ctx cur [] b := by
  induction a with
  | nil => simp [ArgListM]
  | cons x xs ih => simp only [List.cons_append, ArgListM, List.tail_nil, ih, and_assoc]

theorem PRes_argParser (k : ArgKind) (f : PSFields) (res : Res) :
    PRes P ctx (argParser k) f res = ResOkX P ctx (psInfo f) res := by
  cases k <;> rfl

theorem peekTok_err_tol {tol : Bool} {ps : PState} {s : Str} {pos : Nat} {w : TokErr} {ep : Nat} {t : Token} {r : Nat}
    (h : peekTok tol ps s pos = .err w ep t r) : tol = false := by
  unfold peekTok at h
  split at h
  · split at h
    · cases h
    · simp_all
  · cases tol
    · rfl
    · next hne => exact absurd h (hne _ _ _ _)

theorem kind_beq : ∀ a b : TokKind, (a == b) = true → a = b := by
  intro a b; cases a <;> cases b <;> decide

/-- what `argsLoop` returns when started with the accumulated slots `acc` and the remaining specifications `specs` -/
def ArgsLoopGood (P : Str → Str → Bool → Prop) (ctx : Ctx) (tol : Bool) (cur : PSInfo) (acc : List Arg)
    (specs : List ArgSpec) : Ret → Prop
  | .ok res _ => ∃ l', res = .args none none (acc ++ l') ∧ l'.length = specs.length ∧
      ArgListM P ctx cur (specs.map (·.delta)) l'
  | .perr e => tol = false ∨ argsOf e.recNodes = none
  | _ => True

theorem bindOk_goodX (Q : Res → Prop) (r : Ret) (k : Res → Nat → Raw)
    (hperr : ∀ e, r = .perr e → tol = false)
    (hk : ∀ res q, r = .ok res q → RawGoodR tol Q (k res q)) : RawGoodR tol Q (bindOk r k) := by
  cases r with
  | ok res q => exact hk res q rfl
  | perr e => exact Or.inl (hperr e rfl)
  | loopEnd e => trivial
  | crash k => trivial
  | fuel => trivial

theorem tokErr_good (Q : Res → Prop) (hQ : Q .none) (w : ErrWhat) (ep pos : Nat) :
    RawGoodR tol Q (.ret (.perr { what := w, pos := some ep, rpos := pos })) := Or.inr hQ

end

section
variable {P : Str → Str → Bool → Prop} {ctx : Ctx} {f0 : PSFields}
variable {env : Env} {rec : Task → Ret}
variable (IH : ∀ t, PreX P ctx f0 t → GoodX P ctx env.tol t (rec t))
include IH

theorem pc_perrX (p : Parser) (f : PSFields) (pos : Nat) (hp : PreX P ctx f0 (.pc p f pos)) :
    ∀ e, rec (.pc p f pos) = .perr e → env.tol = false := by
  intro e he
  have h := IH _ hp
  rw [he] at h
  exact h

theorem pc_okX (p : Parser) (f : PSFields) (pos : Nat) (hp : PreX P ctx f0 (.pc p f pos)) :
    ∀ res q, rec (.pc p f pos) = .ok res q → PRes P ctx p f res := by
  intro res q he
  have h := IH _ hp
  rw [he] at h
  exact h

/-! ### general nodes -/

theorem rawGeneral_goodX (stop : StopTok) (require : Bool) (child : ChildPS) (f : PSFields) (pos : Nat)
    (hs : SD f0 f) (hc : ChildOkX f0 f child) :
    RawGoodR env.tol (ResOkX P ctx (psInfo f)) (rawGeneral rec stop require child f pos) := by
  unfold rawGeneral
  have h := IH (.loop f stop child { pos := pos }) ⟨hs, hc, by simp [ListM]⟩
  cases hr : rec (.loop f stop child { pos := pos }) with
  | loopEnd e =>
    rw [hr] at h
    simp only [GoodX, LoopGood] at h
    simp only [retOfLoop, listOf]
    split
    · exact Or.inr h
    · split
      · exact Or.inr h
      · split
        · exact h
        · exact h
  | ok _ _ => trivial
  | perr _ => trivial
  | crash _ => trivial
  | fuel => trivial

/-! ### delimited group -/

theorem rawGroupTok_goodX (delims : GroupDelims) (optional allowPre : Bool) (f g : PSFields) (t : Token)
    (hs : SD f0 f) (hg : psInfo g = psInfo f ∧ SD f0 g) :
    RawGoodR env.tol (ResOkX P ctx (psInfo f)) (rawGroupTok rec delims optional allowPre f g t) := by
  unfold rawGroupTok
  split
  · split
    · trivial
    · next c _ =>
      have hpre : PreX P ctx f0 (.pc (.general (.braceClose c) true (.group delims.opener g f)) g t.posEnd) :=
        ⟨hg.2, ⟨rfl, hg.2⟩, ⟨hg.1.symm, hs⟩⟩
      apply bindOk_goodX _ _ _ (pc_perrX IH _ _ _ hpre)
      intro res q hq
      have h := pc_okX IH _ _ _ hpre res q hq
      simp only [RawGoodR, ResOkX, NodeM]
      exact ⟨hg.1, by rw [← hg.1]; exact bodyOf_ok _ _ h⟩
  · split
    · trivial
    · exact Or.inr (by simp [notFoundErr, ResOkX, ListM])

theorem rawGroup_goodX (delims : GroupDelims) (optional allowPre : Bool) (f : PSFields) (pos : Nat)
    (hs : SD f0 f) :
    RawGoodR env.tol (ResOkX P ctx (psInfo f)) (rawGroup env rec delims optional allowPre f pos) := by
  unfold rawGroup
  split
  · trivial
  · next g hg =>
    split
    · trivial
    · exact tokErr_good _ trivial _ _ _
    · exact rawGroupTok_goodX IH delims optional allowPre f g _ hs (groupState_spec delims hg hs)

/-! ### math -/

theorem rawMathTok_good (IH2 : ∀ t, Good2 env t (rec t)) (delim : Str) (f : PSFields) (t : Token) (hs : SD f0 f)
    (hP : (t.kind = .mathInline ∨ t.kind = .mathDisplay) →
      ∀ cd, (mkPS (mathFields f t.arg)).t.expectClose = some cd →
      (env.tol = false → StopFact env.tol env.s (mathFields f t.arg) (.mathClose (t.kind == .mathDisplay) cd.1)) →
      P t.arg cd.1 (t.kind == .mathDisplay)) :
    RawGoodR env.tol (ResOkX P ctx (psInfo f)) (rawMathTok rec delim f t) := by
  unfold rawMathTok
  split
  · next hcond =>
    split
    · trivial
    · next cd hcd =>
      have hk : t.kind = .mathInline ∨ t.kind = .mathDisplay := by
        simp only [Bool.and_eq_true, Bool.or_eq_true] at hcond
        exact hcond.1.2.imp (kind_beq _ _) (kind_beq _ _)
      have hpre : PreX P ctx f0 (.pc (.general (.mathClose (t.kind == .mathDisplay) cd.1) true .same)
          (mathFields f t.arg) t.posEnd) := ⟨SD_mathFields _ hs, trivial⟩
      apply bindOk_goodX _ _ _ (pc_perrX IH _ _ _ hpre)
      intro res q hq
      have h := pc_okX IH _ _ _ hpre res q hq
      simp only [PRes, psInfo_mathFields] at h
      have h2 : env.tol = false → true = true → (StopTok.mathClose (t.kind == .mathDisplay) cd.1).isSome = true →
          StopFact env.tol env.s (mathFields f t.arg) (.mathClose (t.kind == .mathDisplay) cd.1) := by
        have h3 := IH2 (.pc (.general (.mathClose (t.kind == .mathDisplay) cd.1) true .same) (mathFields f t.arg) t.posEnd)
        rw [hq] at h3
        exact h3
      simp only [RawGoodR, ResOkX, NodeM]
      exact ⟨trivial, hP hk cd hcd (fun ht => h2 ht rfl rfl), bodyOf_ok _ _ h⟩
  · exact Or.inr (by simp [notFoundErr, ResOkX, ListM])

theorem rawMath_goodX (IH2 : ∀ t, Good2 env t (rec t)) (delim : Str) (f : PSFields) (pos : Nat) (hs : SD f0 f)
    (HP : ∀ f pos t cd, SD f0 f → peekTok env.tol (mkPS f) env.s pos = .tok t →
      (t.kind = .mathInline ∨ t.kind = .mathDisplay) →
      (mkPS (mathFields f t.arg)).t.expectClose = some cd →
      (env.tol = false → StopFact env.tol env.s (mathFields f t.arg) (.mathClose (t.kind == .mathDisplay) cd.1)) →
      P t.arg cd.1 (t.kind == .mathDisplay)) :
    RawGoodR env.tol (ResOkX P ctx (psInfo f)) (rawMath env rec delim f pos) := by
  unfold rawMath
  split
  · trivial
  · exact tokErr_good _ trivial _ _ _
  · next t ht => exact rawMathTok_good IH IH2 delim f t hs (fun hk cd hcd hst => HP f pos t cd hs ht hk hcd hst)

/-! ### environment body, calls -/

theorem rawEnvBody_goodX (name : Str) (f : PSFields) (pos : Nat) (hs : SD f0 f) :
    RawGoodR env.tol (ResOkX P ctx (psInfo f)) (rawEnvBody rec name f pos) := by
  unfold rawEnvBody
  have hpre : PreX P ctx f0 (.pc (.general (.endEnv name) true .same) f pos) := ⟨hs, trivial⟩
  apply bindOk_goodX _ _ _ (pc_perrX IH _ _ _ hpre)
  intro res q hq
  have h := pc_okX IH _ _ _ hpre res q hq
  cases res with
  | none => simp [RawGoodR, ResOkX, ListM]
  | node n => exact h
  | list _ _ _ => exact h
  | args _ _ _ => trivial

theorem rawCall_goodX (mk : Nat → Option (List Arg) → Node) (a : ArgsP) (f : PSFields) (pos : Nat) (hs : SD f0 f)
    (hmk : ∀ p args, OptArgsM P ctx (psInfo f) (some a) args → NodeM P ctx (psInfo f) (mk p args)) :
    RawGoodR env.tol (ResOkX P ctx (psInfo f)) (rawCall rec mk a f pos) := by
  unfold rawCall
  have hpre : PreX P ctx f0 (.pc (.arguments a) f pos) := ⟨hs, trivial⟩
  apply bindOk_goodX _ _ _ (pc_perrX IH _ _ _ hpre)
  intro res q hq
  have h := pc_okX IH _ _ _ hpre res q hq
  exact hmk _ _ h

theorem rawEnvCall_goodX (t : Token) (a : ArgsP) (bm : Bool) (f : PSFields) (pos : Nat) (hs : SD f0 f)
    (hspec : ctx.envSpec t.arg = some (a, bm)) :
    RawGoodR env.tol (ResOkX P ctx (psInfo f)) (rawEnvCall rec t a bm f pos) := by
  unfold rawEnvCall
  have hpre : PreX P ctx f0 (.pc (.arguments a) f pos) := ⟨hs, trivial⟩
  apply bindOk_goodX _ _ _ (pc_perrX IH _ _ _ hpre)
  intro ares p hq
  have ha := pc_okX IH _ _ _ hpre ares p hq
  simp only [PRes] at ha
  generalize hbf : (if bm = true then applyDelta f Delta.enterMath else f) = bf
  have hbfs : SD f0 bf := by
    rw [← hbf]; split
    · exact SD_applyDelta _ hs
    · exact hs
  have hbfi : psInfo bf = (if bm = true then enterMathInfo else psInfo f) := by
    rw [← hbf]; split
    · exact psInfo_applyDelta f .enterMath
    · rfl
  have hpre2 : PreX P ctx f0 (.pc (.envBody t.arg) bf p) := ⟨hbfs, trivial⟩
  apply bindOk_goodX _ _ _ (pc_perrX IH _ _ _ hpre2)
  intro bres p2 hq2
  have hb := pc_okX IH _ _ _ hpre2 bres p2 hq2
  simp only [PRes, hbfi] at hb
  simp only [RawGoodR, ResOkX, NodeM, hspec, Option.map_some, Option.some.injEq]
  exact ⟨trivial, ha, bodyOf_ok _ _ hb⟩

/-! ### arguments -/

theorem argsLoop_goodX (f : PSFields) (hs : SD f0 f) : ∀ (specs : List ArgSpec) (acc : List Arg) (pos : Nat),
    ArgsLoopGood P ctx env.tol (psInfo f) acc specs (argsLoop env rec f specs acc pos) := by
  intro specs
  induction specs with
  | nil => intro acc pos; simp [argsLoop, ArgsLoopGood, ArgListM]
  | cons a rest ih =>
    intro acc pos
    unfold argsLoop
    split
    · exact Or.inr rfl
    · have hpre : PreX P ctx f0 (.pc (argParser a.kind) (applyDelta f a.delta) pos) :=
        ⟨SD_applyDelta _ hs, by cases a.kind <;> trivial⟩
      cases hr : rec (.pc (argParser a.kind) (applyDelta f a.delta) pos) with
      | ok res p =>
        simp only
        have h := pc_okX IH _ _ _ hpre res p hr
        rw [PRes_argParser, psInfo_applyDelta] at h
        have ih2 := ih (acc ++ [resToArg res]) p
        cases hr2 : argsLoop env rec f rest (acc ++ [resToArg res]) p with
        | ok res2 q =>
          rw [hr2] at ih2
          obtain ⟨l', h1, h2, h3⟩ := ih2
          refine ⟨resToArg res :: l', ?_, ?_, ?_⟩
          · rw [h1]; simp
          · simp [h2]
          · simp only [List.map_cons, ArgListM, List.headD_cons, List.tail_cons]
            exact ⟨resToArg_ok _ _ h, h3⟩
        | perr e => rw [hr2] at ih2; exact ih2
        | loopEnd e => trivial
        | crash k => trivial
        | fuel => trivial
      | perr e => exact Or.inl (pc_perrX IH _ _ _ hpre e hr)
      | loopEnd e => trivial
      | crash k => trivial
      | fuel => trivial

omit IH in
theorem rawLegacyVerb_goodX (f : PSFields) (pos : Nat) :
    RawGoodR env.tol (PRes P ctx (.arguments .legacyVerb) f) (rawLegacyVerb env f pos) := by
  unfold rawLegacyVerb
  simp only
  split
  · exact Or.inr (PRes_none _ _)
  · split
    · exact Or.inr (PRes_none _ _)
    · simp [RawGoodR, PRes, argsOf, OptArgsM, ArgListM, ArgM, NodeM, deltaInfo]

omit IH in
theorem legacyVerbEnvFinish_goodX (name : Str) (optArg : Bool) (f : PSFields) (pos : Nat) (pre : List Arg) (p : Nat)
    (hpre : ArgListM P ctx (psInfo f) [] pre) :
    RawGoodR env.tol (PRes P ctx (.arguments (.legacyVerbEnv name optArg)) f) (legacyVerbEnvFinish env name f pos pre p) := by
  unfold legacyVerbEnvFinish
  split
  · exact Or.inr (PRes_none _ _)
  · simp only [RawGoodR, PRes, argsOf, OptArgsM]
    rw [ArgListM_nil_append]
    exact ⟨hpre, by simp [ArgListM, ArgM, NodeM, deltaInfo]⟩

theorem rawLegacyVerbEnv_goodX (name : Str) (optArg : Bool) (f : PSFields) (pos : Nat) (hs : SD f0 f) :
    RawGoodR env.tol (PRes P ctx (.arguments (.legacyVerbEnv name optArg)) f) (rawLegacyVerbEnv env rec name optArg f pos) := by
  unfold rawLegacyVerbEnv
  split
  · exact legacyVerbEnvFinish_goodX name optArg f pos [] pos (by simp [ArgListM])
  · split
    · exact legacyVerbEnvFinish_goodX name optArg f pos _ pos (by simp [ArgListM, ArgM])
    · have hpre : PreX P ctx f0 (.pc (.group (.pair ['['] [']']) true false) f pos) := ⟨hs, trivial⟩
      apply bindOk_goodX _ _ _ (pc_perrX IH _ _ _ hpre)
      intro res q hq
      have h := pc_okX IH _ _ _ hpre res q hq
      split
      · next n =>
        exact legacyVerbEnvFinish_goodX name optArg f pos _ _ (by
          simp only [ArgListM, ArgM, List.headD_nil, deltaInfo, and_true]; exact h)
      · exact legacyVerbEnvFinish_goodX name optArg f pos _ pos (by simp [ArgListM, ArgM])

theorem rawArguments_goodX (a : ArgsP) (f : PSFields) (pos : Nat) (hs : SD f0 f) :
    RawGoodR env.tol (PRes P ctx (.arguments a) f) (rawArguments env rec a f pos) := by
  unfold rawArguments
  split
  · next l =>
    have h := argsLoop_goodX IH f hs l [] pos
    cases hr : argsLoop env rec f l [] pos with
    | ok res q =>
      rw [hr] at h
      obtain ⟨l', h1, h2, h3⟩ := h
      subst h1
      simp only [RawGoodR, PRes, argsOf, OptArgsM, List.nil_append]
      exact Or.inl ⟨h2, h3⟩
    | perr e =>
      rw [hr] at h
      rcases h with h | h
      · exact Or.inl h
      · refine Or.inr ?_
        simp only [PRes, h, OptArgsM]
    | loopEnd e => trivial
    | crash k => trivial
    | fuel => trivial
  · exact rawLegacyVerb_goodX f pos
  · exact rawLegacyVerbEnv_goodX IH _ _ f pos hs
  · trivial

/-! ### expression -/

omit IH in
theorem exprFinish_goodX (f : PSFields) (nodes : List Node) (pos : Nat) (h : ListM P ctx (psInfo f) nodes) :
    ExprGood P ctx env.tol f (exprFinish f nodes pos) := by
  unfold exprFinish
  split
  · next n hn => exact ListM_getLast _ _ _ h hn
  · simp [ExprGood, ResOkX, NodeM, BodyM, ListM]

theorem exprOnTok_goodX (ap : Bool) (skipped : List Node) (f : PSFields) (t : Token) (hs : SD f0 f)
    (hsk : ListM P ctx (psInfo f) skipped) :
    ExprGood P ctx env.tol f (exprOnTok env rec ap skipped f t) := by
  unfold exprOnTok
  simp only
  split
  · split
    · exact IH (.expr ap _ f t.posEnd) ⟨hs, ListM_snoc _ _ _ hsk rfl⟩
    · split
      · exact IH (.expr ap _ f t.posEnd) ⟨hs, hsk⟩
      · exact Or.inr trivial
  · have hpre : PreX P ctx f0 (.pc (.group (.auto t.arg) false false) f t.pos) := ⟨hs, trivial⟩
    cases hr : rec (.pc (.group (.auto t.arg) false false) f t.pos) with
    | ok res p =>
      cases res with
      | node n => exact exprFinish_goodX f _ p (ListM_snoc _ _ _ hsk (pc_okX IH _ _ _ hpre _ _ hr))
      | none => trivial
      | list _ _ _ => trivial
      | args _ _ _ => trivial
    | perr e => exact Or.inl (pc_perrX IH _ _ _ hpre e hr)
    | loopEnd _ => trivial
    | crash _ => trivial
    | fuel => trivial
  · exact Or.inr rfl
  · exact exprFinish_goodX f _ _ (ListM_snoc _ _ _ hsk rfl)
  · refine Or.inr ?_
    simp only [ResOkX]
    split
    · exact ⟨rfl, OptArgsM_nil _ _⟩
    · rfl
  · refine Or.inr ?_
    simp only [ResOkX]
    split
    · exact ⟨rfl, OptArgsM_nil _ _⟩
    · rfl
  · trivial

theorem exprTok_goodX (ap : Bool) (skipped : List Node) (f : PSFields) (t : Token) (hs : SD f0 f)
    (hsk : ListM P ctx (psInfo f) skipped) :
    ExprGood P ctx env.tol f (exprTok env rec ap skipped f t) := by
  unfold exprTok
  simp only
  split
  · split
    · split
      · exact exprFinish_goodX f _ _ (ListM_snoc _ _ _ hsk ⟨rfl, trivial⟩)
      · exact Or.inr trivial
    · exact exprFinish_goodX f _ _ (ListM_snoc _ _ _ hsk ⟨rfl, OptArgsM_nil _ _⟩)
  · split
    · exact exprFinish_goodX f _ _ (ListM_snoc _ _ _ hsk ⟨rfl, OptArgsM_nil _ _⟩)
    · split
      · split
        · exact IH (.expr ap _ f t.pos) ⟨hs, ListM_snoc _ _ _ hsk rfl⟩
        · split
          · exact IH (.expr ap _ f t.posEnd) ⟨hs, hsk⟩
          · exact Or.inr trivial
      · exact exprOnTok_goodX IH ap skipped f t hs hsk

theorem exprStep_goodX (ap : Bool) (skipped : List Node) (f : PSFields) (pos : Nat) (hs : SD f0 f)
    (hsk : ListM P ctx (psInfo f) skipped) :
    ExprGood P ctx env.tol f (exprStep env rec ap skipped f pos) := by
  unfold exprStep
  simp only
  split
  · exact Or.inr trivial
  · split
    · exact exprFinish_goodX f _ _ hsk
    · exact Or.inr trivial
  · exact exprTok_goodX IH ap skipped f _ hs hsk

/-! ### marker, verbatim -/

omit IH in
theorem rawMarker_goodX (c : Char) (fl ap : Bool) (f : PSFields) (pos : Nat) :
    RawGoodR env.tol (ResOkX P ctx (psInfo f)) (rawMarker env c fl ap f pos) := by
  unfold rawMarker
  split
  · trivial
  · exact tokErr_good _ trivial _ _ _
  · split
    · trivial
    · split
      · simp only [RawGoodR]
        split
        · simp [ResOkX, ListM, NodeM]
        · simp [ResOkX, NodeM]
      · split
        · trivial
        · trivial

omit IH in
theorem rawVerbatim_goodX (d : Option (Char × Char)) (f : PSFields) (pos : Nat) :
    RawGoodR env.tol (ResOkX P ctx (psInfo f)) (rawVerbatim env d f pos) := by
  unfold rawVerbatim
  simp only
  split
  · trivial
  · split
    · exact Or.inr trivial
    · split
      · simp [RawGoodR, ResOkX, NodeM, BodyM, ListM]
      · exact Or.inr (by simp [ResOkX, NodeM])

/-! ### the step function -/

theorem rawParse_goodX (IH2 : ∀ t, Good2 env t (rec t)) (p : Parser) (f : PSFields) (pos : Nat)
    (HP : ∀ f pos t cd, SD f0 f → peekTok env.tol (mkPS f) env.s pos = .tok t →
      (t.kind = .mathInline ∨ t.kind = .mathDisplay) →
      (mkPS (mathFields f t.arg)).t.expectClose = some cd →
      (env.tol = false → StopFact env.tol env.s (mathFields f t.arg) (.mathClose (t.kind == .mathDisplay) cd.1)) →
      P t.arg cd.1 (t.kind == .mathDisplay))
    (hp : PreX P ctx f0 (.pc p f pos)) : RawGoodX P ctx env.tol p f (rawParse env rec p f pos) := by
  obtain ⟨hs, hpp⟩ := hp
  cases p with
  | general stop require child => exact rawGeneral_goodX IH stop require child f pos hs hpp
  | group d o a => exact rawGroup_goodX IH d o a f pos hs
  | math d => exact rawMath_goodX IH IH2 d f pos hs HP
  | envBody n => exact rawEnvBody_goodX IH n f pos hs
  | macroCall t a =>
    exact rawCall_goodX IH _ a f pos hs (fun p args h => by
      simp only [NodeM]; rw [hpp]; exact ⟨trivial, h⟩)
  | specialsCall t a =>
    exact rawCall_goodX IH _ a f pos hs (fun p args h => by
      simp only [NodeM]; rw [hpp]; exact ⟨trivial, h⟩)
  | envCall t a bm => exact rawEnvCall_goodX IH t a bm f pos hs hpp
  | arguments a => exact rawArguments_goodX IH a f pos hs
  | expression ap =>
    have h := IH (.expr ap [] f pos) ⟨hs, by simp [ListM]⟩
    simp only [rawParse, RawGoodX]
    cases hr : rec (.expr ap [] f pos) with
    | ok res q => rw [hr] at h; exact h
    | perr e => rw [hr] at h; exact h
    | loopEnd _ => trivial
    | crash _ => trivial
    | fuel => trivial
  | marker c fl ap => exact rawMarker_goodX c fl ap f pos
  | verbatim d => exact rawVerbatim_goodX d f pos

theorem step_goodX (IH2 : ∀ t, Good2 env t (rec t)) (hctx : env.ctx = ctx)
    (HP : ∀ f pos t cd, SD f0 f → peekTok env.tol (mkPS f) env.s pos = .tok t →
      (t.kind = .mathInline ∨ t.kind = .mathDisplay) →
      (mkPS (mathFields f t.arg)).t.expectClose = some cd →
      (env.tol = false → StopFact env.tol env.s (mathFields f t.arg) (.mathClose (t.kind == .mathDisplay) cd.1)) →
      P t.arg cd.1 (t.kind == .mathDisplay))
    (t : Task) (hp : PreX P ctx f0 t) : GoodX P ctx env.tol t (step env rec t) := by
  cases t with
  | pc p f pos => exact parseContent_goodX p f pos _ (rawParse_goodX IH IH2 p f pos HP hp)
  | loop f stop child st => exact loopStep_goodX IH f stop child st hp.1 hp.2.1 hp.2.2 hctx
  | expr ap skipped f pos => exact exprStep_goodX IH ap skipped f pos hp.1 hp.2

end

theorem run_goodX {P : Str → Str → Bool → Prop} {ctx : Ctx} {f0 : PSFields} {env : Env} (hctx : env.ctx = ctx)
    (HP : ∀ f pos t cd, SD f0 f → peekTok env.tol (mkPS f) env.s pos = .tok t →
      (t.kind = .mathInline ∨ t.kind = .mathDisplay) →
      (mkPS (mathFields f t.arg)).t.expectClose = some cd →
      (env.tol = false → StopFact env.tol env.s (mathFields f t.arg) (.mathClose (t.kind == .mathDisplay) cd.1)) →
      P t.arg cd.1 (t.kind == .mathDisplay)) :
    ∀ (n : Nat) (t : Task), PreX P ctx f0 t → GoodX P ctx env.tol t (run env n t) := by
  intro n
  induction n with
  | zero => intro t _; cases t <;> trivial
  | succ n ih => intro t hp; exact step_goodX ih (run_good2 env n) hctx HP t hp

end C10
end Pylx
