/-
  C15 — `\input` never reads outside the configured directory in strict mode.

  Theorems about `Pylx.readLatexFile` / `Pylx.readInputFile` (the *repaired*
  `read_latex_file` / `LatexNodes2Text.read_input_file`) for **every** file
  system oracle `fs` — no law is assumed of it, not even idempotence of
  `realpath` (which CPython's `os.path.realpath` does not satisfy on layouts
  with symbolic-link loops; the repaired code checks canonicity at run time);
  concrete `FS` witnesses showing that the same statement is false for
  `Pylx.readLatexFileAsIs` (the code on the unrepaired tree) even for
  idempotent `realpath`, in two independent ways (string-prefix containment;
  completion after the check); and for `Pylx.readLatexFileNoCanon` (the repair
  without the run-time canonicity check): correct if `realpath` is idempotent,
  false otherwise (witness: the recorded answers of CPython 3.12 on a layout
  with a link loop).
-/
import Pylx.InputFile
namespace Pylx

/-- Containment of real paths as the property states it. -/
def Under (d f : Str) : Prop := f = d ∨ (d ++ ['/']) <+: f

/-- Containment as the repaired code tests it: `f` starts with `os.path.join(d, '')`.
    For a `d` that does not end in a separator this is the strict part of `Under`;
    for the root `/` it is "`f` is absolute". -/
def Inside (d f : Str) : Prop := dirSlash d <+: f

instance (d f : Str) : Decidable (Under d f) := by unfold Under; infer_instance
instance (d f : Str) : Decidable (Inside d f) := by unfold Inside; infer_instance

/-- the only law assumed of the file system -/
def RealIdem (fs : FS) : Prop := ∀ p, fs.realpath (fs.realpath p) = fs.realpath p

/-- "`d` is an ordinary directory path": non-empty, no trailing separator
    (true of every `realpath` result except the root). -/
def Plain (d : Str) : Prop := dirSlash d = d ++ ['/']

instance (d : Str) : Decidable (Plain d) := by unfold Plain; infer_instance

theorem plain_of_noSep (d : Str) (h1 : d ≠ []) (h2 : d.getLast? ≠ some '/') : Plain d := by
  unfold Plain dirSlash
  rw [if_neg]
  rintro (h | h)
  · exact h1 h
  · exact h2 h

theorem Inside.under {d f : Str} (hp : Plain d) (h : Inside d f) : Under d f := by
  unfold Inside at h; rw [hp] at h; exact Or.inr h

/-- For a directory path that ends in a separator (the root), `Inside` is the plain prefix test. -/
theorem inside_of_trailingSep (d f : Str) (h : d.getLast? = some '/') : Inside d f ↔ d <+: f := by
  unfold Inside dirSlash; rw [if_pos (Or.inr h)]

theorem inside_root (f : Str) : Inside ['/'] f ↔ ['/'] <+: f :=
  inside_of_trailingSep _ _ (by decide)

/-- the directory itself is a prefix of everything `Inside` it -/
theorem prefix_dirSlash (d : Str) : d <+: dirSlash d := by
  unfold dirSlash; split
  · exact List.prefix_refl _
  · exact List.prefix_append _ _

/-! ### Lemmas about the pieces -/

theorem finish_content (fs : FS) (f c : Str) :
    finish fs f = .content c ↔ fs.isfile f = true ∧ fs.read f = some c := by
  unfold finish
  cases hi : fs.isfile f <;> cases hr : fs.read f <;> simp

theorem complete_exists (fs : FS) (f0 : Str) (h : fs.exists_ f0 = true) : complete fs f0 = f0 := by
  simp [complete, h]

theorem complete_tex (fs : FS) (f0 : Str) (h0 : fs.exists_ f0 = false)
    (h1 : fs.exists_ (f0 ++ extTex) = true) : complete fs f0 = f0 ++ extTex := by
  simp [complete, h0, h1]

theorem complete_latex (fs : FS) (f0 : Str) (h0 : fs.exists_ f0 = false)
    (h1 : fs.exists_ (f0 ++ extTex) = false) (h2 : fs.exists_ (f0 ++ extLatex) = true) :
    complete fs f0 = f0 ++ extLatex := by
  simp [complete, h0, h1, h2]

theorem complete_none (fs : FS) (f0 : Str) (h0 : fs.exists_ f0 = false)
    (h1 : fs.exists_ (f0 ++ extTex) = false) (h2 : fs.exists_ (f0 ++ extLatex) = false) :
    complete fs f0 = f0 := by
  simp [complete, h0, h1, h2]

/-- the completion yields the name, the name + `.tex`, or the name + `.latex`, nothing else -/
theorem complete_cases (fs : FS) (f0 : Str) :
    complete fs f0 = f0 ∨ complete fs f0 = f0 ++ extTex ∨ complete fs f0 = f0 ++ extLatex := by
  cases h0 : fs.exists_ f0
  · cases h1 : fs.exists_ (f0 ++ extTex)
    · cases h2 : fs.exists_ (f0 ++ extLatex)
      · exact Or.inl (complete_none fs f0 h0 h1 h2)
      · exact Or.inr (Or.inr (complete_latex fs f0 h0 h1 h2))
    · exact Or.inr (Or.inl (complete_tex fs f0 h0 h1))
  · exact Or.inl (complete_exists fs f0 h0)

/-- The final name the repaired code settles on before the guard. -/
def finalName (fs : FS) (dir fn : Str) : Str := complete fs (fs.realpath (fs.join dir fn))

/-- Strict mode, exact characterisation: refused iff the real path of the final
    name is not canonical or not inside; otherwise exactly the outcome of opening
    that real path. -/
theorem readLatexFile_strict (fs : FS) (dir fn : Str) :
    readLatexFile fs dir true fn =
      if fs.realpath (fs.realpath (finalName fs dir fn)) = fs.realpath (finalName fs dir fn) ∧
         Inside (fs.realpath dir) (fs.realpath (finalName fs dir fn))
      then finish fs (fs.realpath (finalName fs dir fn)) else .denied := by
  unfold readLatexFile finalName
  simp only [if_true]
  have key : ((fs.realpath (fs.realpath (complete fs (fs.realpath (fs.join dir fn)))) ==
        fs.realpath (complete fs (fs.realpath (fs.join dir fn)))) &&
      (dirSlash (fs.realpath dir)).isPrefixOf
        (fs.realpath (complete fs (fs.realpath (fs.join dir fn))))) = true ↔
      (fs.realpath (fs.realpath (complete fs (fs.realpath (fs.join dir fn)))) =
        fs.realpath (complete fs (fs.realpath (fs.join dir fn))) ∧
       Inside (fs.realpath dir) (fs.realpath (complete fs (fs.realpath (fs.join dir fn))))) := by
    simp only [Bool.and_eq_true, beq_iff_eq, Inside, List.isPrefixOf_iff_prefix]
  by_cases h : (fs.realpath (fs.realpath (complete fs (fs.realpath (fs.join dir fn)))) =
        fs.realpath (complete fs (fs.realpath (fs.join dir fn))) ∧
       Inside (fs.realpath dir) (fs.realpath (complete fs (fs.realpath (fs.join dir fn)))))
  · rw [if_pos (key.mpr h), if_pos h]
  · rw [if_neg (fun hb => h (key.mp hb)), if_neg h]

theorem readLatexFileNoCanon_strict (fs : FS) (dir fn : Str) :
    readLatexFileNoCanon fs dir true fn =
      if Inside (fs.realpath dir) (fs.realpath (finalName fs dir fn))
      then finish fs (fs.realpath (finalName fs dir fn)) else .denied := by
  unfold readLatexFileNoCanon finalName
  simp only [if_true]
  by_cases h : (dirSlash (fs.realpath dir)).isPrefixOf
      (fs.realpath (complete fs (fs.realpath (fs.join dir fn)))) = true
  · rw [if_pos h, if_pos (show Inside _ _ from List.isPrefixOf_iff_prefix.mp h)]
  · rw [if_neg h, if_neg (fun hp : Inside _ _ => h (List.isPrefixOf_iff_prefix.mpr hp))]

/-! ### The property, as a predicate on a reader -/

/-- **C15 guard** for a reader `rd`: in strict mode, whatever content is returned
    is the content of a file whose real path lies under the real path of the
    directory — for every file system satisfying `law`, every directory (whose
    real path is an ordinary path), every requested name. -/
def GuardPropUnder (law : FS → Prop) (rd : FS → Str → Bool → Str → InRes) : Prop :=
  ∀ (fs : FS) (dir fn c : Str), law fs → Plain (fs.realpath dir) →
    rd fs dir true fn = .content c →
    ∃ f, fs.read f = some c ∧ Under (fs.realpath dir) (fs.realpath f)

/-- the guard with no assumption about the file system -/
def GuardProp := GuardPropUnder (fun _ => True)
/-- the guard for file systems with idempotent `realpath` -/
def GuardPropIdem := GuardPropUnder RealIdem

/-- Strong form (no side condition on the directory, no law; conclusion is the
    strict containment; the file is named and is its own real path). -/
theorem C15_guard_inside (fs : FS) (dir fn c : Str)
    (h : readLatexFile fs dir true fn = .content c) :
    ∃ f, f = fs.realpath (finalName fs dir fn) ∧ fs.realpath f = f ∧ fs.isfile f = true ∧
      fs.read f = some c ∧ Inside (fs.realpath dir) (fs.realpath f) := by
  rw [readLatexFile_strict] at h
  split at h
  · next hin =>
    obtain ⟨hi, hr⟩ := (finish_content _ _ _).mp h
    exact ⟨_, rfl, hin.1, hi, hr, by rw [hin.1]; exact hin.2⟩
  · cases h

/-- **C15_guard** — the repaired reader satisfies the guard property for every
    file system oracle. -/
theorem C15_guard : GuardProp readLatexFile := by
  intro fs dir fn c _ hp h
  obtain ⟨f, _, _, _, hr, hin⟩ := C15_guard_inside fs dir fn c h
  exact ⟨f, hr, hin.under hp⟩

/-- The guard at the entry point and on the value Python returns: a non-empty
    return value in strict mode is the content of a file inside the directory
    (and a directory was set). -/
theorem C15_guard_py (fs : FS) (dir : Option Str) (fn : Str)
    (h : (readInputFile fs dir true fn).toPy ≠ []) :
    ∃ d f, dir = some d ∧ fs.read f = some (readInputFile fs dir true fn).toPy ∧
      Inside (fs.realpath d) (fs.realpath f) := by
  cases dir with
  | none => simp [readInputFile, InRes.toPy] at h
  | some d =>
    simp only [readInputFile] at h ⊢
    cases hres : readLatexFile fs d true fn with
    | content c =>
      obtain ⟨f, _, _, _, hr, hin⟩ := C15_guard_inside fs d fn c hres
      exact ⟨d, f, rfl, by simpa [InRes.toPy] using hr, hin⟩
    | nodir => simp [hres, InRes.toPy] at h
    | denied => simp [hres, InRes.toPy] at h
    | missing => simp [hres, InRes.toPy] at h
    | ioerr => simp [hres, InRes.toPy] at h

/-- Whatever lies outside is refused (strict mode), before `isfile` or `open`
    are asked about it. -/
theorem C15_outside_denied (fs : FS) (dir fn : Str)
    (h : ¬ Inside (fs.realpath dir) (fs.realpath (finalName fs dir fn))) :
    readLatexFile fs dir true fn = .denied := by
  rw [readLatexFile_strict, if_neg (fun hh => h hh.2)]

/-- A "real path" that `realpath` itself does not confirm is refused as well. -/
theorem C15_noncanonical_denied (fs : FS) (dir fn : Str)
    (h : fs.realpath (fs.realpath (finalName fs dir fn)) ≠ fs.realpath (finalName fs dir fn)) :
    readLatexFile fs dir true fn = .denied := by
  rw [readLatexFile_strict, if_neg (fun hh => h hh.1)]

/-- **C15_inside** — a name whose final form (after the implicit completion)
    really lies inside the directory and is a readable file *is* read. -/
theorem C15_inside (fs : FS) (dir fn c : Str)
    (hcan : fs.realpath (fs.realpath (finalName fs dir fn)) = fs.realpath (finalName fs dir fn))
    (hin : Inside (fs.realpath dir) (fs.realpath (finalName fs dir fn)))
    (hf : fs.isfile (fs.realpath (finalName fs dir fn)) = true)
    (hr : fs.read (fs.realpath (finalName fs dir fn)) = some c) :
    readLatexFile fs dir true fn = .content c := by
  rw [readLatexFile_strict, if_pos ⟨hcan, hin⟩]
  exact (finish_content _ _ _).mpr ⟨hf, hr⟩

/-- … spelled out for the three ways a name is completed (for a file system whose
    `realpath` is idempotent the canonicity hypothesis is automatic). -/
theorem C15_inside_exact (fs : FS) (hid : RealIdem fs) (dir fn c : Str)
    (he : fs.exists_ (fs.realpath (fs.join dir fn)) = true)
    (hin : Inside (fs.realpath dir) (fs.realpath (fs.realpath (fs.join dir fn))))
    (hf : fs.isfile (fs.realpath (fs.realpath (fs.join dir fn))) = true)
    (hr : fs.read (fs.realpath (fs.realpath (fs.join dir fn))) = some c) :
    readLatexFile fs dir true fn = .content c := by
  apply C15_inside <;> simp only [finalName, complete_exists fs _ he] <;> first | assumption | exact hid _

theorem C15_inside_tex (fs : FS) (hid : RealIdem fs) (dir fn c : Str)
    (h0 : fs.exists_ (fs.realpath (fs.join dir fn)) = false)
    (h1 : fs.exists_ (fs.realpath (fs.join dir fn) ++ extTex) = true)
    (hin : Inside (fs.realpath dir) (fs.realpath (fs.realpath (fs.join dir fn) ++ extTex)))
    (hf : fs.isfile (fs.realpath (fs.realpath (fs.join dir fn) ++ extTex)) = true)
    (hr : fs.read (fs.realpath (fs.realpath (fs.join dir fn) ++ extTex)) = some c) :
    readLatexFile fs dir true fn = .content c := by
  apply C15_inside <;> simp only [finalName, complete_tex fs _ h0 h1] <;> first | assumption | exact hid _

theorem C15_inside_latex (fs : FS) (hid : RealIdem fs) (dir fn c : Str)
    (h0 : fs.exists_ (fs.realpath (fs.join dir fn)) = false)
    (h1 : fs.exists_ (fs.realpath (fs.join dir fn) ++ extTex) = false)
    (h2 : fs.exists_ (fs.realpath (fs.join dir fn) ++ extLatex) = true)
    (hin : Inside (fs.realpath dir) (fs.realpath (fs.realpath (fs.join dir fn) ++ extLatex)))
    (hf : fs.isfile (fs.realpath (fs.realpath (fs.join dir fn) ++ extLatex)) = true)
    (hr : fs.read (fs.realpath (fs.realpath (fs.join dir fn) ++ extLatex)) = some c) :
    readLatexFile fs dir true fn = .content c := by
  apply C15_inside <;> simp only [finalName, complete_latex fs _ h0 h1 h2] <;> first | assumption | exact hid _

/-- **C15_nodir** — without a directory nothing is looked up: the outcome is
    `nodir` (Python `''`) and it is the same for every file system. -/
theorem C15_nodir (fs fs' : FS) (strict strict' : Bool) (fn : Str) :
    readInputFile fs none strict fn = .nodir ∧ (readInputFile fs none strict fn).toPy = [] ∧
      readInputFile fs none strict fn = readInputFile fs' none strict' fn :=
  ⟨rfl, rfl, rfl⟩

/-- The repair does not change non-strict mode. -/
theorem C15_nonstrict_unchanged (fs : FS) (dir fn : Str) :
    readLatexFile fs dir false fn = readLatexFileAsIs fs dir false fn := by
  simp [readLatexFile, readLatexFileAsIs]

/-- The repair does not change strict mode either for a name that exists as
    given and is inside: both versions open the same path. -/
theorem C15_fix_agrees_inside (fs : FS) (hid : RealIdem fs) (dir fn : Str)
    (he : fs.exists_ (fs.realpath (fs.join dir fn)) = true)
    (hin : Inside (fs.realpath dir) (fs.realpath (fs.join dir fn))) :
    readLatexFile fs dir true fn = readLatexFileAsIs fs dir true fn := by
  have hc := complete_exists fs _ he
  rw [readLatexFile_strict]
  simp only [finalName, hc, hid (fs.join dir fn)]
  rw [if_pos ⟨trivial, hin⟩]
  unfold readLatexFileAsIs
  have hpre : (fs.realpath dir).isPrefixOf (fs.realpath (fs.join dir fn)) = true :=
    List.isPrefixOf_iff_prefix.mpr (List.IsPrefix.trans (prefix_dirSlash _) hin)
  simp [hpre, hc]

/-! ### The code as it is violates the guard — twice -/

/-- Witness (a): directory `/r/base`, sibling `/r/base2`, name `../base2/s.tex`. -/
def fsA : FS where
  join a b := a ++ ['/'] ++ b
  realpath p := if p = "/r/base/../base2/s.tex".toList then "/r/base2/s.tex".toList else p
  exists_ p := decide (p = "/r/base2/s.tex".toList)
  isfile p := decide (p = "/r/base2/s.tex".toList)
  read p := if p = "/r/base2/s.tex".toList then some "SECRET".toList else none

theorem fsA_idem : RealIdem fsA := by
  intro p
  simp only [fsA]
  split
  · decide
  · rfl

/-- as-is: the sibling's file is returned … -/
theorem C15_asis_prefix_reads :
    readLatexFileAsIs fsA "/r/base".toList true "../base2/s.tex".toList = .content "SECRET".toList := by
  decide

/-- … and no file with that content lies under the directory. -/
theorem C15_asis_prefix_outside :
    ¬ ∃ f, fsA.read f = some "SECRET".toList ∧
      Under (fsA.realpath "/r/base".toList) (fsA.realpath f) := by
  rintro ⟨f, hr, hu⟩
  simp only [fsA] at hr
  split at hr
  · next hf => subst hf; revert hu; decide
  · cases hr

/-- Witness (b): directory `/r/base` containing the symbolic link
    `lnk.tex → /r/out/s.tex`, name `lnk`. -/
def fsB : FS where
  join a b := a ++ ['/'] ++ b
  realpath p := if p = "/r/base/lnk.tex".toList then "/r/out/s.tex".toList else p
  exists_ p := decide (p = "/r/base/lnk.tex".toList) || decide (p = "/r/out/s.tex".toList)
  isfile p := decide (p = "/r/base/lnk.tex".toList) || decide (p = "/r/out/s.tex".toList)
  read p := if p = "/r/base/lnk.tex".toList ∨ p = "/r/out/s.tex".toList
            then some "SECRET".toList else none

theorem fsB_idem : RealIdem fsB := by
  intro p
  simp only [fsB]
  split
  · decide
  · rfl

theorem C15_asis_completion_reads :
    readLatexFileAsIs fsB "/r/base".toList true "lnk".toList = .content "SECRET".toList := by
  decide

theorem C15_asis_completion_outside :
    ¬ ∃ f, fsB.read f = some "SECRET".toList ∧
      Under (fsB.realpath "/r/base".toList) (fsB.realpath f) := by
  rintro ⟨f, hr, hu⟩
  simp only [fsB] at hr
  split at hr
  · next hf =>
    rcases hf with hf | hf <;> (subst hf; revert hu; decide)
  · cases hr

/-- **The guard property is false of the code as it is** (string-prefix containment). -/
theorem C15_asis_violates_guard_prefix : ¬ GuardPropIdem readLatexFileAsIs := fun h =>
  C15_asis_prefix_outside
    (h fsA "/r/base".toList "../base2/s.tex".toList "SECRET".toList fsA_idem (by decide)
      C15_asis_prefix_reads)

/-- **The guard property is false of the code as it is** (completion after the check;
    this witness passes even a separator-aware containment test). -/
theorem C15_asis_violates_guard_completion : ¬ GuardPropIdem readLatexFileAsIs := fun h =>
  C15_asis_completion_outside
    (h fsB "/r/base".toList "lnk".toList "SECRET".toList fsB_idem (by decide)
      C15_asis_completion_reads)

/-- Without any law the as-is code fails all the more. -/
theorem C15_asis_violates_guard : ¬ GuardProp readLatexFileAsIs := fun h =>
  C15_asis_violates_guard_prefix (fun fs dir fn c _ hp hc => h fs dir fn c trivial hp hc)

/-! ### The repair without the run-time canonicity check -/

/-- It satisfies the guard for file systems with idempotent `realpath` … -/
theorem C15_nocanon_guard_idem : GuardPropIdem readLatexFileNoCanon := by
  intro fs dir fn c hid hp h
  rw [readLatexFileNoCanon_strict] at h
  split at h
  · next hin =>
    obtain ⟨_, hr⟩ := (finish_content _ _ _).mp h
    exact ⟨_, hr, Inside.under hp (by rw [hid]; exact hin)⟩
  · cases h

/-- … but CPython's `realpath` is not idempotent.  Witness (c): the answers
    recorded from CPython 3.12 on the layout `d/loop → loop`,
    `d/x.tex → loop/../y`, `d/y → loop/../z`, `d/z → ../out/s.tex`
    (`d/y` does not "exist" for the OS: resolving it runs into the loop). -/
def fsD : FS where
  join a b := a ++ ['/'] ++ b
  realpath p := if p = "/r/d/x.tex".toList then "/r/d/y".toList
                else if p = "/r/d/y".toList then "/r/d/z".toList
                else if p = "/r/d/z".toList then "/r/out/s.tex".toList else p
  exists_ p := decide (p = "/r/d/z".toList) || decide (p = "/r/out/s.tex".toList)
  isfile p := decide (p = "/r/d/z".toList) || decide (p = "/r/out/s.tex".toList)
  read p := if p = "/r/d/z".toList ∨ p = "/r/out/s.tex".toList then some "SECRET".toList else none

theorem C15_nocanon_loop_reads :
    readLatexFileNoCanon fsD "/r/d".toList true "x.tex".toList = .content "SECRET".toList := by
  decide

theorem C15_nocanon_loop_outside :
    ¬ ∃ f, fsD.read f = some "SECRET".toList ∧
      Under (fsD.realpath "/r/d".toList) (fsD.realpath f) := by
  rintro ⟨f, hr, hu⟩
  simp only [fsD] at hr
  split at hr
  · next hf =>
    rcases hf with hf | hf <;> (subst hf; revert hu; decide)
  · cases hr

theorem C15_nocanon_violates_guard : ¬ GuardProp readLatexFileNoCanon := fun h =>
  C15_nocanon_loop_outside
    (h fsD "/r/d".toList "x.tex".toList "SECRET".toList trivial (by decide) C15_nocanon_loop_reads)

/-- the as-is code is caught by the one-level form of the same layout -/
example : readLatexFileAsIs fsD "/r/d".toList true "y".toList = .content "SECRET".toList := by decide
/-- the repaired reader refuses -/
example : readLatexFile fsD "/r/d".toList true "x.tex".toList = .denied := by decide
example : readLatexFile fsD "/r/d".toList true "y".toList = .denied := by decide

/-- The repaired reader refuses both. -/
example : readLatexFile fsA "/r/base".toList true "../base2/s.tex".toList = .denied := by decide
example : readLatexFile fsB "/r/base".toList true "lnk".toList = .denied := by decide

/-! ### Non-vacuity: concrete file systems meeting the hypotheses -/

/-- directory `/r/base` with `a.tex`, `sub/d.latex`, and a link `up → .` in `sub` -/
def fsC : FS where
  join a b := a ++ ['/'] ++ b
  realpath p := if p = "/r/base/sub/up/a".toList then "/r/base/a".toList else p
  exists_ p := decide (p = "/r/base/a.tex".toList) || decide (p = "/r/base/sub/d.latex".toList)
  isfile p := decide (p = "/r/base/a.tex".toList) || decide (p = "/r/base/sub/d.latex".toList)
  read p := if p = "/r/base/a.tex".toList then some "AAA".toList
            else if p = "/r/base/sub/d.latex".toList then some "DDD".toList else none

theorem fsC_idem : RealIdem fsC := by
  intro p
  simp only [fsC]
  split
  · decide
  · rfl

/-! ### histories of calls on one converter object -/

theorem Conv.run_append (fs : FS) (c : Conv) (a b : List ConvOp) :
    (Conv.run fs c (a ++ b)).1 = (Conv.run fs (Conv.run fs c a).1 b).1 := by
  induction a generalizing c with
  | nil => rfl
  | cons op a ih => simp only [List.cons_append, Conv.run]; exact ih _

theorem Conv.run_read_state (fs : FS) (c : Conv) (fn : Str) : (c.step fs (.read fn)).1 = c := rfl

/-- reads do not change the object: after a history, the configuration is the one of the last
    `set_tex_input_directory` call (or the initial one) -/
def lastConfig : Conv → List ConvOp → Conv
  | c, [] => c
  | _, .setDir d s :: ops => lastConfig { dir := d, strict := s } ops
  | c, .read _ :: ops => lastConfig c ops

theorem Conv.run_state (fs : FS) (c : Conv) (ops : List ConvOp) : (Conv.run fs c ops).1 = lastConfig c ops := by
  induction ops generalizing c with
  | nil => rfl
  | cons op ops ih =>
    cases op with
    | setDir d s => simp only [Conv.run, Conv.step, lastConfig]; exact ih _
    | read fn => simp only [Conv.run, Conv.step, lastConfig]; exact ih _

/-- **C15 (history independence).**  Whatever was set and read before on the same converter object (other directories,
    non-strict mode, successful reads of the same name), a read returns what a fresh object with the current
    configuration returns. -/
theorem C15_session (fs : FS) (c : Conv) (ops : List ConvOp) (fn : Str) :
    ((Conv.run fs c ops).1.step fs (.read fn)).2 =
      some (readInputFile fs (lastConfig c ops).dir (lastConfig c ops).strict fn) := by
  rw [Conv.run_state]; rfl

/-- **C15 (guard over histories).**  After any history that ends by confining the object strictly to `d`, a non-empty
    answer is the content of a file whose real path is inside `d` — nothing read earlier can come back. -/
theorem C15_session_guard (fs : FS) (c : Conv) (ops : List ConvOp) (d : Option Str) (fn : Str) (r : InRes)
    (h : ((Conv.run fs c (ops ++ [.setDir d true])).1.step fs (.read fn)).2 = some r) (hne : r.toPy ≠ []) :
    ∃ d' f, d = some d' ∧ fs.read f = some r.toPy ∧ Inside (fs.realpath d') (fs.realpath f) := by
  rw [Conv.run_append] at h
  simp only [Conv.run, Conv.step, Option.some.injEq] at h
  subst h
  exact C15_guard_py fs d fn hne

-- C15_session / C15_session_guard: a history that first reads the sibling's file successfully (directory base2),
-- then confines the object strictly to base and asks for the same name again: nothing comes back
example : (Conv.run fsA {} [.setDir (some "/r/base2".toList) true, .read "s.tex".toList,
      .setDir (some "/r/base".toList) true, .read "s.tex".toList]).2 =
    [none, some (.content "SECRET".toList), none, some .missing] := by decide

-- C15_guard / C15_guard_inside / C15_guard_py: content is returned, hypotheses hold
example : readLatexFile fsC "/r/base".toList true "sub/up/a".toList = .content "AAA".toList := by decide
example : Plain (fsC.realpath "/r/base".toList) := by decide
example : (readInputFile fsC (some "/r/base".toList) true "sub/d".toList).toPy = "DDD".toList := by decide
-- C15_inside_exact / _tex / _latex: each hypothesis set is met
example : fsC.exists_ (fsC.realpath (fsC.join "/r/base".toList "a.tex".toList)) = true ∧
    Inside (fsC.realpath "/r/base".toList)
      (fsC.realpath (fsC.realpath (fsC.join "/r/base".toList "a.tex".toList))) := by decide
example : fsC.exists_ (fsC.realpath (fsC.join "/r/base".toList "sub/up/a".toList)) = false ∧
    fsC.exists_ (fsC.realpath (fsC.join "/r/base".toList "sub/up/a".toList) ++ extTex) = true ∧
    Inside (fsC.realpath "/r/base".toList)
      (fsC.realpath (fsC.realpath (fsC.join "/r/base".toList "sub/up/a".toList) ++ extTex)) := by decide
example : fsC.exists_ (fsC.realpath (fsC.join "/r/base".toList "sub/d".toList)) = false ∧
    fsC.exists_ (fsC.realpath (fsC.join "/r/base".toList "sub/d".toList) ++ extTex) = false ∧
    fsC.exists_ (fsC.realpath (fsC.join "/r/base".toList "sub/d".toList) ++ extLatex) = true := by decide
-- C15_outside_denied: a name that leaves the directory
example : ¬ Inside (fsA.realpath "/r/base".toList)
    (fsA.realpath (finalName fsA "/r/base".toList "../base2/s.tex".toList)) := by decide
-- C15_noncanonical_denied: the link-loop answers of `fsD`
example : fsD.realpath (fsD.realpath (finalName fsD "/r/d".toList "x.tex".toList)) ≠
    fsD.realpath (finalName fsD "/r/d".toList "x.tex".toList) := by decide
-- C15_inside: canonical, inside, a file (with completion through the link `sub/up`)
example : fsC.realpath (fsC.realpath (finalName fsC "/r/base".toList "sub/up/a".toList)) =
      fsC.realpath (finalName fsC "/r/base".toList "sub/up/a".toList) ∧
    Inside (fsC.realpath "/r/base".toList) (fsC.realpath (finalName fsC "/r/base".toList "sub/up/a".toList)) ∧
    fsC.isfile (fsC.realpath (finalName fsC "/r/base".toList "sub/up/a".toList)) = true := by decide
-- C15_fix_agrees_inside
example : readLatexFileAsIs fsC "/r/base".toList true "a.tex".toList = .content "AAA".toList := by decide
-- the root directory: everything absolute is inside, `Under` as stated would not say so
example : Inside "/".toList "/etc/x.tex".toList ∧ ¬ Under "/".toList "/etc/x.tex".toList := by decide
-- C15_nodir
example : (readInputFile fsA none true "../base2/s.tex".toList).toPy = [] := by decide

end Pylx
