/-
  C08 for ALL strings — **`C08_full_proved : C08_full`**: every string over the invertible alphabet without a paragraph
  break other than exactly `"\n\n"` (`ParClean`) round-trips — `latexToText` of the encoder's output is the string again —
  under each of the four brace-protection schemes and both whitespace policies.

  Route (direct; `C08_lift` and its two unproved statements are not used):

  1. encoder: `C08_encode_chunks` — the output is the concatenation of the per-character chunks;
  2. every chunk is the source of a document `docOf pr c` of the encoder-output grammar that is well formed whatever
     follows, specials-safe and (space and newline apart) solid — kernel evaluation over the alphabet (`C08FChk[A-P]`, assembled in `C08FChk`);
     concatenations of such documents are well formed and safe (`C13.Full.cwfI_append`, `safeI_append`);
  3. parser: `latexToText_doc` (exact prefix lemma `reachX_all` + `C06_agree_top` + `render_eq_renderX`) — `latex_to_text`
     of the source of such a document is the position-free renderer on its exact tree `mergeX (xW [] d)`;
  4. renderer: merging chars nodes does not change the text (`renderXList_mergeX`), the exact tree of the concatenation
     is the concatenation of the chunks' exact trees interleaved with the nodes of the whitespace runs (`xW_solid`), the
     loop is a homomorphism on it (`render_app`: both policies switch `between-macro-and-chars` on, so no text is put
     between two nodes; `_is_bare_macro_node` does not raise on the last node of a chunk — kernel-checked), every chunk's
     exact tree renders to its character from a fresh converter state and leaves it fresh (kernel evaluation), and the
     whitespace runs of a `ParClean` string render to themselves (`render_wsX`, `par_fact`);
  5. induction over the string.
-/
import PylxProofs.C08
import PylxProofs.C08FRender
import PylxProofs.C08FChk
namespace Pylx.C08.Full
open Pylx Pylx.EncB Pylx.L2T Pylx.L2T.C03S Pylx.C13.Full

/-! ### what the kernel check says -/

theorem stEmpty_spec {st : St} (h : stEmpty st = true) : st = {} := by
  cases st with
  | mk a b c =>
    simp only [stEmpty, Bool.and_eq_true, Option.isNone_iff_eq_none] at h
    obtain ⟨⟨rfl, rfl⟩, rfl⟩ := h
    rfl

theorem rendersTo_spec {pol : SlsSpec} {ns : List XNode} {t : Str} (h : rendersTo pol ns t = true) :
    renderXList (xe pol) (parseSls pol) none [] ns {} = .ok (t, {}) := by
  unfold rendersTo at h
  split at h
  · rename_i r st heq
    simp only [Bool.and_eq_true, beq_iff_eq] at h
    rw [heq, h.1, stEmpty_spec h.2]
  · cases h

theorem lastOr_none (L : List XNode) : lastOr none L = L.getLast? := by
  unfold lastOr
  cases L.getLast? <;> rfl

theorem bareOk_spec {pol : SlsSpec} {ns : List XNode} (h : bareOk pol ns = true) :
    ∃ b, isBareX (xe pol) (lastOr none ns) = .ok b := by
  unfold bareOk at h
  rw [lastOr_none]
  split at h
  · rename_i b heq
    exact ⟨b, heq⟩
  · cases h

/-- the facts about the document of one chunk -/
structure Good (c : Char) (u : Str) (d : List CItem) : Prop where
  un : unI d = u
  wf : cwfI Gen.defaultCtx false none none d = true
  safe : safeI badChars d = true
  sol : solid d = true
  ren : ∀ pol ∈ policies, renderXList (xe pol) (parseSls pol) none [] (xW [] d) {} = .ok ([c], {})
  bare : ∀ pol ∈ policies, ∃ b, isBareX (xe pol) (lastOr none (xW [] d)) = .ok b

theorem docChk_spec {c : Char} {u : Str} (h : docChk c u = true) : ∃ d, chunkDoc u = some d ∧ Good c u d := by
  unfold docChk at h
  split at h
  · rename_i d heq
    simp only [Bool.and_eq_true, beq_iff_eq, List.all_eq_true] at h
    obtain ⟨⟨⟨⟨h1, h2⟩, h3⟩, h4⟩, h5⟩ := h
    exact ⟨d, heq, h1, h2, h3, h4, fun pol hp => rendersTo_spec (h5 pol hp).1, fun pol hp => bareOk_spec (h5 pol hp).2⟩
  · cases h

/-- every alphabet character other than space and newline: its chunk under every scheme is the source of a good
    document (kernel evaluation over the whole alphabet) -/
theorem chunk_good (c : Char) (hc : InAlphabet c) (h10 : c ≠ '\n') (h32 : c ≠ ' ') :
    ∀ pr ∈ schemes, Good c (chunk pr c) (docOf pr c) := by
  intro pr hpr
  have hk := mem_chunks (p := chunkChk) chunks_all c.toNat hc
  have e : Char.ofNat c.toNat = c := Char.ofNat_toNat c
  have n10 : c.toNat ≠ 10 := by
    intro h; apply h10; rw [← e, h]
  have n32 : c.toNat ≠ 32 := by
    intro h; apply h32; rw [← e, h]
  have := chunkChk_spec hk n10 n32 pr hpr
  rw [e] at this
  obtain ⟨d, hd, hg⟩ := docChk_spec this
  have : docOf pr c = d := by unfold docOf; rw [hd]; rfl
  rw [this]
  exact hg

/-! ### space and newline -/

def isChDoc (c : Char) : List CItem → Bool
  | [.ch d] => d == c
  | _ => false

theorem isChDoc_spec {c : Char} {d : List CItem} (h : isChDoc c d = true) : d = [.ch c] := by
  match d, h with
  | [.ch x], h =>
    simp only [isChDoc, beq_iff_eq] at h
    rw [h]

set_option maxRecDepth 100000 in
theorem ws_docs : schemes.all (fun pr =>
    isChDoc ' ' (docOf pr ' ') && isChDoc '\n' (docOf pr '\n') && chunk pr ' ' == [' '] && chunk pr '\n' == ['\n']) = true := by
  decide +kernel

theorem ws_doc {pr : Prot} (hpr : pr ∈ schemes) {c : Char} (hc : c = ' ' ∨ c = '\n') :
    docOf pr c = [.ch c] ∧ chunk pr c = [c] := by
  have := List.all_eq_true.mp ws_docs pr hpr
  simp only [Bool.and_eq_true, beq_iff_eq] at this
  obtain ⟨⟨⟨h1, h2⟩, h3⟩, h4⟩ := this
  rcases hc with rfl | rfl
  · exact ⟨isChDoc_spec h1, h3⟩
  · exact ⟨isChDoc_spec h2, h4⟩

/-! ### the document of a string -/

/-- the document the encoder output for `s` is the source of: the chunk documents one after the other -/
def docs (pr : Prot) (s : Str) : List CItem := s.flatMap (docOf pr)

theorem docs_cons (pr : Prot) (c : Char) (s : Str) : docs pr (c :: s) = docOf pr c ++ docs pr s := by
  unfold docs; rw [List.flatMap_cons]

theorem safeI_append (bad : Str) : ∀ (a b : List CItem), safeI bad (a ++ b) = (safeI bad a && safeI bad b)
  | [], b => by simp [safeI]
  | .ch c :: tl, b => by simp [safeI, safeI_append bad tl b, Bool.and_assoc]
  | .grp g :: tl, b => by simp [safeI, safeI_append bad tl b, Bool.and_assoc]
  | .mac n po args :: tl, b => by simp [safeI, safeI_append bad tl b, Bool.and_assoc]
  | .math g :: tl, b => by simp [safeI, safeI_append bad tl b, Bool.and_assoc]

/-- per character: source, well-formedness whatever follows, safety -/
theorem char_doc {pr : Prot} (hpr : pr ∈ schemes) (c : Char) (hc : InAlphabet c) :
    unI (docOf pr c) = chunk pr c ∧ cwfI Gen.defaultCtx false none none (docOf pr c) = true ∧
      safeI badChars (docOf pr c) = true := by
  by_cases hws : c = ' ' ∨ c = '\n'
  · obtain ⟨h1, h2⟩ := ws_doc hpr hws
    rw [h1, h2]
    rcases hws with rfl | rfl <;> refine ⟨by simp [unI], by decide +kernel, by decide +kernel⟩
  · have hg := chunk_good c hc (fun h => hws (Or.inr h)) (fun h => hws (Or.inl h)) pr hpr
    exact ⟨hg.un, hg.wf, hg.safe⟩

theorem docs_facts {pr : Prot} (hpr : pr ∈ schemes) : ∀ (s : Str), (∀ c ∈ s, InAlphabet c) →
    unI (docs pr s) = s.flatMap (chunk pr) ∧ cwfI Gen.defaultCtx false none none (docs pr s) = true ∧
      safeI badChars (docs pr s) = true
  | [], _ => ⟨by simp [docs, unI], by simp [docs, cwfI], by simp [docs, safeI]⟩
  | c :: s, h => by
    obtain ⟨h1, h2, h3⟩ := char_doc hpr c (h c (List.mem_cons_self ..))
    obtain ⟨i1, i2, i3⟩ := docs_facts hpr s (fun x hx => h x (List.mem_cons_of_mem _ hx))
    rw [docs_cons]
    refine ⟨?_, cwfI_append _ _ _ _ _ _ h2 i2, ?_⟩
    · rw [unI_append, h1, i1, List.flatMap_cons]
    · rw [safeI_append, h3, i3]; rfl

/-! ### rendering -/

theorem policy_flags {pol : SlsSpec} (h : pol ∈ policies) : (parseSls pol).mc = true ∧ (parseSls pol).lc = true := by
  simp only [policies, List.mem_cons, List.not_mem_nil, or_false] at h
  rcases h with rfl | rfl <;> exact ⟨rfl, rfl⟩

set_option maxRecDepth 100000 in
theorem par_renders : policies.all (fun pol => rendersTo pol [.specials ['\n', '\n'] (some [])] ['\n', '\n']) = true := by
  decide +kernel

/-- blanks, the paragraph specials, blanks -/
theorem render_par {pol : SlsSpec} (hpol : pol ∈ policies) (A B : Str) :
    renderXList (xe pol) (parseSls pol) none [] (pendX A ++ (XNode.specials ['\n', '\n'] (some []) :: pendX B)) {} =
      .ok (A ++ '\n' :: '\n' :: B, {}) ∧
    ∃ b, isBareX (xe pol) (lastOr none (pendX A ++ (XNode.specials ['\n', '\n'] (some []) :: pendX B))) = .ok b := by
  obtain ⟨hmc, hlc⟩ := policy_flags hpol
  have hs := rendersTo_spec (List.all_eq_true.mp par_renders pol hpol)
  have h2 : renderXList (xe pol) (parseSls pol) none [] ([XNode.specials ['\n', '\n'] (some [])] ++ pendX B) {} =
      .ok (['\n', '\n'] ++ B, {}) :=
    render_app hmc hs ⟨false, rfl⟩ (render_pendX hlc B)
  refine ⟨render_app hmc (render_pendX hlc A) (bare_pendX none ⟨false, rfl⟩ A) h2, ?_⟩
  rw [lastOr_none]
  unfold pendX
  by_cases hB : B.isEmpty = true
  · rw [if_pos hB]
    exact ⟨false, by simp [isBareX]⟩
  · rw [if_neg hB]
    exact ⟨false, by simp [isBareX]⟩

/-- a whitespace run of a `ParClean` string renders to itself -/
theorem render_wsX {pol : SlsSpec} (hpol : pol ∈ policies) {w r : Str} (hw : wsOnly w) (hp : ParClean (w ++ r) = true) :
    renderXList (xe pol) (parseSls pol) none [] (wsX w) {} = .ok (w, {}) ∧
    ∃ b, isBareX (xe pol) (lastOr none (wsX w)) = .ok b := by
  obtain ⟨hmc, hlc⟩ := policy_flags hpol
  unfold wsX
  by_cases hn : countNl w < 2
  · rw [if_pos hn]
    exact ⟨render_pendX hlc w, bare_pendX none ⟨false, rfl⟩ w⟩
  · rw [if_neg hn]
    have e := par_fact w r hw hp (by omega)
    have := render_par hpol (w.take (firstNl w)) (w.drop (lastNlEnd w))
    rw [← e] at this
    exact this

/-- **the renderer on the exact tree of the document of a string**, with whitespace `w` in hand -/
theorem render_docs {pr : Prot} (hpr : pr ∈ schemes) {pol : SlsSpec} (hpol : pol ∈ policies) :
    ∀ (s : Str), (∀ c ∈ s, InAlphabet c) → ∀ (w : Str), wsOnly w → ParClean (w ++ s) = true →
      renderXList (xe pol) (parseSls pol) none [] (xW w (docs pr s)) {} = .ok (w ++ s, {})
  | [], _, w, hw, hp => by
    show renderXList _ _ none [] (xW w []) {} = _
    rw [xW_nil, List.append_nil]
    exact (render_wsX hpol hw hp).1
  | c :: s, h, w, hw, hp => by
    obtain ⟨hmc, hlc⟩ := policy_flags hpol
    have hs : ∀ x ∈ s, InAlphabet x := fun x hx => h x (List.mem_cons_of_mem _ hx)
    rw [docs_cons]
    by_cases hws : c = ' ' ∨ c = '\n'
    · rw [(ws_doc hpr hws).1]
      have hsp : isPySpace c = true := by rcases hws with rfl | rfl <;> decide
      rw [List.cons_append, List.nil_append, xW_ch_space _ _ _ hsp]
      have := render_docs hpr hpol s hs (w ++ [c]) (wsOnly_snoc hw hws) (by simpa using hp)
      simpa using this
    · have hg := chunk_good c (h c (List.mem_cons_self ..)) (fun e => hws (Or.inr e)) (fun e => hws (Or.inl e)) pr hpr
      rw [xW_solid _ _ _ hg.sol]
      have r3 := render_docs hpr hpol s hs [] wsOnly_nil (by
        have := ParClean_drop w (c :: s) hp
        exact ParClean_tail this)
      have r23 := render_app hmc (hg.ren pol hpol) (hg.bare pol hpol) r3
      obtain ⟨r1, b1⟩ := render_wsX hpol hw hp
      have := render_app hmc r1 b1 r23
      simpa using this

/-! ### the property -/

set_option maxRecDepth 100000 in
theorem default_shapeOk : Gen.defaultTextDb.shapeOk = true := by decide +kernel

/-- `latex_to_text` of the encoder's output for `s`, as the position-free renderer on the exact tree of `docs pr s` -/
theorem toText_docs {pr : Prot} (hpr : pr ∈ schemes) (pol : SlsSpec) (s : Str) (hs : ∀ c ∈ s, InAlphabet c) :
    toText pol (s.flatMap (chunk pr)) = renderX (xe pol) (exactC (docs pr s)) := by
  obtain ⟨h1, h2, h3⟩ := docs_facts hpr s hs
  rw [← h1]
  exact latexToText_doc { sls := pol } Gen.defaultTextDb lib C13.defaultCtx_ok default_keysBad (docs pr s) h2 h3

/-- **C08, all strings — PROVED.**  Every string over the invertible alphabet whose paragraph breaks are exactly `"\n\n"`
    round-trips under each of the four brace-protection schemes and both whitespace policies. -/
theorem C08_full_proved : C08_full := by
  intro pr hpr pol hpol s hs hp
  have key : toText pol (s.flatMap (chunk pr)) = .ok s := by
    rw [toText_docs hpr pol s hs]
    unfold renderX exactC
    have hsh : (xe pol).db.shapeOk = true := default_shapeOk
    rw [hsh]
    simp only [Bool.not_true, Bool.false_eq_true, if_false]
    show (match renderXList (xe pol) (parseSls pol) none [] (mergeX (xW [] (docs pr s))) {} with
      | .ok (t, _) => Out.ok t
      | .crash k => Out.crash k) = _
    rw [renderXList_mergeX (xe pol) (parseSls pol) (policy_flags hpol).2,
      render_docs hpr hpol s hs [] wsOnly_nil (by simpa using hp)]
    rfl
  unfold RoundTrips roundTrip
  rw [C08_encode_chunks, Option.map_some, key]

/-- the same, spelled out -/
theorem C08_roundtrip (pr : Prot) (hpr : pr ∈ schemes) (pol : SlsSpec) (hpol : pol ∈ policies) (s : Str)
    (hs : ∀ c ∈ s, InAlphabet c) (hp : ParClean s = true) :
    roundTrip pr pol s = some (.ok s) := C08_full_proved pr hpr pol hpol s hs hp

/-- the two statements `C08_lift` needs hold as well (as consequences of the full statement) -/
theorem C08_concat_proved : C08_concat_stmt := by
  intro pr hpr pol hpol c d r hs hp _ _ _
  exact C08_full_proved pr hpr pol hpol (c :: d :: r) hs hp

theorem parBad_short1 (x : Char) : parBad [x] = false := by
  unfold parBad
  split <;> simp_all

theorem parBad_short2 (x y : Char) : parBad [x, y] = false := by
  unfold parBad
  split <;> simp_all

theorem parClean_pair (x y : Char) : ParClean [x, y] = true := by
  simp only [ParClean, parBad_short1, parBad_short2, Bool.not_false, Bool.and_self]

theorem C08_class_proved : C08_class_stmt := by
  intro pr hpr pol hpol a b a' b' ha hb _ _ _ _ _
  refine C08_full_proved pr hpr pol hpol [Char.ofNat a, Char.ofNat b] ?_ (parClean_pair _ _)
  intro c hc
  have hin : ∀ k ∈ Gen.c08Alphabet, InAlphabet (Char.ofNat k) := by
    intro k hk
    have h1 := mem_chunks (p := fun k => decide ((Char.ofNat k).toNat = k)) (by decide +kernel) k hk
    unfold InAlphabet
    rw [of_decide_eq_true h1]
    exact hk
  simp only [List.mem_cons, List.not_mem_nil, or_false] at hc
  rcases hc with rfl | rfl
  · exact hin a ha
  · exact hin b hb

/-- `C08_lift` instantiated: the route through single characters, representative pairs and the two steps gives the same
    statement -/
theorem C08_full_via_lift : C08_full := C08_lift C08_concat_proved C08_class_proved

/-! ### non-vacuity -/

set_option maxRecDepth 100000 in
/-- a string with letters, blanks, a paragraph break, accents, a dotless i before a letter, math symbols, NBSP, braces -/
example : (∀ c ∈ ("a b\n\nc".toList ++ [Char.ofNat 233, Char.ofNat 0x131, 't', Char.ofNat 0x3b1, Char.ofNat 160, '{', '~', ' ', '\n']),
      InAlphabet c) ∧
    ParClean ("a b\n\nc".toList ++ [Char.ofNat 233, Char.ofNat 0x131, 't', Char.ofNat 0x3b1, Char.ofNat 160, '{', '~', ' ', '\n']) = true := by
  constructor <;> decide +kernel

set_option maxRecDepth 100000 in
/-- the document of a chunk: `ı` under `braces` is `{\i}`, under `braces-after-macro` `\i{}` -/
example : unI (docOf .braces (Char.ofNat 0x131)) = "{\\i}".toList ∧ unI (docOf .bracesAfterMacro (Char.ofNat 0x131)) = "\\i{}".toList := by
  constructor <;> decide +kernel

#print axioms C08_full_proved
#print axioms C08_concat_proved
#print axioms C08_class_proved

end Pylx.C08.Full
