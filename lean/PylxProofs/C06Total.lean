/-
  C06 (totality) with the crash-freedom hypothesis discharged by C05.
-/
import PylxProofs.C05
import PylxProofs.C06
namespace Pylx

/-- **C06 (totality).**  For every closed-world context, every input string and every start state of the walker
    (`StartOk'`: the context's specials, non-empty math delimiters, macros enabled or environments disabled — which
    the walker's default state satisfies), tolerant parsing with the model's own fuel returns a result: no parse
    error, no other exception, no fuel exhaustion. -/
theorem C06_total (ctx : Ctx) (hc : ctx.Closed) (s : Str) (f : PSFields) (hf : StartOk' ctx f) :
    ∃ r pos, parseTop { tol := true, ctx := ctx, s := s } f = .ok r pos :=
  C06_total_of_no_crash ctx hc s f hf.toStartOk
    (fun n k => C05_no_crash_partial true ctx hc s f hf n k)

/-- and that result is a node list ending inside the input (shape from C05) -/
theorem C06_total_list (ctx : Ctx) (hc : ctx.Closed) (s : Str) (f : PSFields) (hf : StartOk' ctx f) :
    ∃ p e ns pos, parseTop { tol := true, ctx := ctx, s := s } f = .ok (.list p e ns) pos ∧ pos ≤ s.length := by
  obtain ⟨r, pos, h⟩ := C06_total ctx hc s f hf
  have hs := C05_tolerant_total ctx hc s f hf (fuelFor s)
  have h' : run { tol := true, ctx := ctx, s := s } (fuelFor s) (topTask f) = .ok r pos := h
  rw [h'] at hs
  rcases hs with hs | hs
  · obtain ⟨p, e, ns, pos', heq, hle⟩ := hs
    cases heq
    exact ⟨p, e, ns, pos, h, hle⟩
  · cases hs

/-- the default state of the default context satisfies the hypotheses -/
example : StartOk' Gen.defaultCtx { specials := Gen.defaultCtx.specials.map (·.1) } :=
  { hasCtx := rfl, specials := rfl, mathDelims := by decide, groupDelims := by decide,
    comment := by decide, normal := rfl, esc := Or.inl rfl }

end Pylx
