/-
  C13, table part — kernel-checked facts about the two generated tables
  (`Pylx.Gen.uni2latex`, `Pylx.Gen.uni2latexXml`).
-/
import PylxProofs.C13Lex
namespace Pylx.C13
open Pylx Pylx.EncB

/-! ### Kernel-checked facts about the generated tables -/

/-- the five built-in protection schemes -/
def schemes : List Prot := [.none, .braces, .bracesAll, .bracesAlmostAll, .bracesAfterMacro]

def BuiltinProt (pr : Prot) : Prop := pr ∈ schemes

/-- entry check: under every built-in scheme the protected replacement is a safe chunk -/
def entrySafe (e : Nat × List Nat) : Bool :=
  schemes.all (fun pr => chunkSafe (protect isAsciiAlpha pr (S e.2)))

def entryAscii (e : Nat × List Nat) : Bool := (S e.2).all (fun c => decide (c.toNat < 128))

theorem defaults_safe : Gen.uni2latexChunks.all (fun ch => ch.all entrySafe) = true := by decide +kernel
theorem xml_safe : Gen.uni2latexXmlChunks.all (fun ch => ch.all entrySafe) = true := by decide +kernel
theorem defaults_ascii : Gen.uni2latexChunks.all (fun ch => ch.all entryAscii) = true := by decide +kernel
theorem xml_ascii : Gen.uni2latexXmlChunks.all (fun ch => ch.all entryAscii) = true := by decide +kernel


/-- the five characters the lexical scan reacts to (`\\ { } % $`) have a rule in both tables -/
theorem active_have_rules (tb : Table) :
    [92, 123, 125, 37, 36].all (fun k => ((tableOf tb).lookup k).isSome) = true := by
  cases tb <;> decide +kernel

def chunksOf : Table → List (List (Nat × List Nat))
  | .defaults => Gen.uni2latexChunks
  | .xml => Gen.uni2latexXmlChunks

theorem rawTable_eq (tb : Table) : rawTable tb = (chunksOf tb).flatten := by
  cases tb <;> rfl

theorem raw_all {p : Nat × List Nat → Bool} {tb : Table}
    (h : (chunksOf tb).all (fun ch => ch.all p) = true) : ∀ e ∈ rawTable tb, p e = true := by
  intro e he
  rw [rawTable_eq, List.mem_flatten] at he
  obtain ⟨ch, hch, hmem⟩ := he
  rw [List.all_eq_true] at h
  have := h ch hch
  rw [List.all_eq_true] at this
  exact this e hmem

theorem table_safe (tb : Table) : ∀ e ∈ rawTable tb, entrySafe e = true := by
  cases tb
  · exact raw_all (tb := .defaults) defaults_safe
  · exact raw_all (tb := .xml) xml_safe

theorem table_ascii (tb : Table) : ∀ e ∈ rawTable tb, entryAscii e = true := by
  cases tb
  · exact raw_all (tb := .defaults) defaults_ascii
  · exact raw_all (tb := .xml) xml_ascii

/-- neither built-in rule carries a protection of its own -/
theorem ruleProt_none (tb : Table) : ruleProt tb = none := by
  cases tb <;> rfl

end Pylx.C13
