/-
  C01TLoop — C01, tolerant clause: the contract (`GoodT`) and the nodes collector.
  In tolerant mode the nodes of a result need not tile their range (unknown macros are skipped, recovery
  rewinds or skips), but they are still chained inside it; every node is nested (`NodeNested`).
-/
import PylxProofs.C01TTok
namespace Pylx

/-! ### forests of nested nodes -/

/-- every node of the forest `ns` is inside the input with its children chained inside its span -/
def AllNT (s : Str) (ns : List Node) : Prop := ∀ x ∈ subnodesList ns, NodeNested s x

theorem allNT_nil (s : Str) : AllNT s [] := by
  intro x hx; simp [subnodesList] at hx

theorem allNT_append {s : Str} {xs ys : List Node} : AllNT s (xs ++ ys) ↔ AllNT s xs ∧ AllNT s ys := by
  unfold AllNT
  rw [subnodesList_append]
  constructor
  · intro h; exact ⟨fun x hx => h x (List.mem_append_left _ hx), fun x hx => h x (List.mem_append_right _ hx)⟩
  · intro h x hx
    rcases List.mem_append.mp hx with hx | hx
    · exact h.1 x hx
    · exact h.2 x hx

theorem allNT_single {s : Str} {n : Node} : AllNT s [n] ↔ NodeNested s n ∧ AllNT s n.children := by
  unfold AllNT
  simp only [subnodesList, List.append_nil]
  rw [Node.subnodes_eq]
  constructor
  · intro h; exact ⟨h n List.mem_cons_self, fun x hx => h x (List.mem_cons_of_mem _ hx)⟩
  · intro h x hx
    rcases List.mem_cons.mp hx with hx | hx
    · rw [hx]; exact h.1
    · exact h.2 x hx

theorem allNT_snoc {s : Str} {xs : List Node} {n : Node} (h1 : AllNT s xs) (h2 : AllNT s [n]) :
    AllNT s (xs ++ [n]) := allNT_append.mpr ⟨h1, h2⟩

theorem allNT_leaf {s : Str} {n : Node} (hc : n.children = []) (h1 : n.pos ≤ n.posEnd) (h2 : n.posEnd ≤ s.length) :
    AllNT s [n] := by
  rw [allNT_single, hc]
  exact ⟨⟨h1, h2, by rw [hc]; exact Chain.nil h1⟩, allNT_nil s⟩

theorem allNT_chars {s : Str} (a b : Nat) (pi : PSInfo) (c : Str) (hab : a ≤ b) (hb : b ≤ s.length) :
    AllNT s [Node.chars a b pi c] :=
  allNT_leaf rfl hab hb

/-! ### the contract -/

/-- where `parse_content` leaves the reader when it recovers from the error `e` -/
def recPosT (e : PErr) : Nat :=
  match e.recAt with
  | some t => moveToToken t true
  | none => match e.recPast with
    | some t => movePastToken t true
    | none => e.rpos

section contractT
variable (s cs : Str)

/-- the nodes of a result are chained inside `[pos, pos']`, all of them nested -/
def ArgResT (pos pos' : Nat) (res : Res) : Prop :=
  Chain (resToArg res).nodes pos pos' ∧ AllNT s (resToArg res).nodes

/-- what `parse_content(parser @ pos)` returning `(res, pos')` guarantees in tolerant mode, per parser -/
def ResGoodT : Parser → Nat → Nat → Res → Prop
  | .general _ _ _, pos, pos', res => ArgResT s pos pos' res
  | .envBody _, pos, pos', res => ArgResT s pos pos' res
  | .group _ _ _, pos, pos', res => ArgResT s pos pos' res
  | .math _, pos, pos', res => ArgResT s pos pos' res
  | .macroCall t _, _, pos', res => ArgResT s t.pos pos' res
  | .specialsCall t _, _, pos', res => ArgResT s t.pos pos' res
  | .envCall t _ _, _, pos', res => ArgResT s t.pos pos' res
  | .arguments _, pos, pos', res => Chain (argNodes (argsOf res)) pos pos' ∧ AllNT s (argNodes (argsOf res))
  | .expression _, pos, pos', res => ArgResT s pos pos' res
  | .marker _ _ _, pos, pos', res => ArgResT s pos pos' res
  | .verbatim _, pos, pos', res => ArgResT s pos pos' res

/-- in tolerant mode `parse_content` never lets a parse error through -/
def PostT (p : Parser) (pos : Nat) : Ret → Prop
  | .ok res pos' => pos ≤ pos' ∧ pos' ≤ s.length ∧ ResGoodT s p pos pos' res
  | .perr _ => False
  | _ => True

/-- a parser's own `parse()`: an error counts as what `parse_content` recovers from it -/
def RetPostT (p : Parser) (pos : Nat) : Ret → Prop
  | .ok res pos' => PostT s p pos (.ok res pos')
  | .perr e => PostT s p pos (.ok e.recNodes (recPosT e))
  | _ => True

def RawPostT (p : Parser) (pos : Nat) : Raw → Prop
  | .eos q => PostT s p pos (.ok .none q)
  | .ret r => RetPostT s p pos r

/-- whitespace / comment nodes skipped by the expression parser -/
def SkOkT (sk : List Node) (pos0 pos : Nat) : Prop :=
  ∀ n ∈ sk, pos0 ≤ n.pos ∧ n.pos ≤ n.posEnd ∧ n.posEnd ≤ pos ∧ n.children = []

/-- the expression task is not wrapped by `parse_content`: its errors carry recovery nodes -/
def ExprPostT (pos0 : Nat) : Ret → Prop
  | .ok res pos' => pos0 ≤ pos' ∧ pos' ≤ s.length ∧ ArgResT s pos0 pos' res
  | .perr e => pos0 ≤ recPosT e ∧ recPosT e ≤ s.length ∧ ArgResT s pos0 (recPosT e) e.recNodes
  | _ => True

/-- the collector's invariant: `acc` is chained in `[start, m]`; the pending characters lie in `[m, pos]` -/
structure LInvT (start : Nat) (st : LoopSt) (m : Nat) : Prop where
  chain : Chain st.acc start m
  ok : AllNT s st.acc
  le : m ≤ st.pos
  inr : st.pos ≤ s.length
  ppn : st.pendPos = none → st.pend = []
  pps : ∀ q, st.pendPos = some q → m ≤ q ∧ q + st.pend.length ≤ st.pos ∧ (st.pend = [] → st.pos = s.length)

def LoopPostT (start : Nat) : Ret → Prop
  | .loopEnd e => Chain e.nodes start e.pos ∧ AllNT s e.nodes ∧ e.pos ≤ s.length ∧
      ∀ t, e.stopTok = some t → e.pos ≤ t.posEnd ∧ t.posEnd ≤ s.length
  | _ => True

def GoodT : Task → Ret → Prop
  | .pc p f pos, r => FOk cs f → pos ≤ s.length → PPre cs p pos → PostT s p pos r
  | .loop f _ child st, r => FOk cs f → ChildOk cs child → ∀ start m, LInvT s start st m → LoopPostT s start r
  | .expr _ sk f pos, r => FOk cs f → pos ≤ s.length → ∀ pos0, pos0 ≤ pos → SkOkT sk pos0 pos → ExprPostT s pos0 r

end contractT

/-! ### the nodes collector -/

section collectorT
variable {s : Str}

theorem LInvT.hpp {start m : Nat} {st : LoopSt} (h : LInvT s start st m) :
    st.pend ≠ [] → ∃ q, st.pendPos = some q ∧ m ≤ q ∧ q + st.pend.length ≤ st.pos := by
  intro hne
  cases hq : st.pendPos with
  | none => exact absurd (h.ppn hq) hne
  | some q => exact ⟨q, rfl, (h.pps q hq).1, (h.pps q hq).2.1⟩

theorem flush_specT (f : PSFields) (st : LoopSt) (start m b : Nat) (hc : Chain st.acc start m)
    (hok : AllNT s st.acc) (hmb : m ≤ b) (hb : b ≤ s.length)
    (hpp : st.pend ≠ [] → ∃ q, st.pendPos = some q ∧ m ≤ q ∧ q + st.pend.length ≤ b) :
    Chain (st.flush f).acc start b ∧ AllNT s (st.flush f).acc ∧ (st.flush f).pos = st.pos ∧
    (st.flush f).pend = [] ∧ (st.pend ≠ [] → (st.flush f).pendPos = none) ∧
    (st.pend = [] → (st.flush f).pendPos = st.pendPos) := by
  unfold LoopSt.flush
  by_cases he : st.pend.isEmpty = true
  · rw [if_pos he]
    have hnil : st.pend = [] := List.isEmpty_iff.mp he
    exact ⟨hc.weaken (Nat.le_refl _) hmb, hok, rfl, hnil, fun h => absurd hnil h, fun _ => rfl⟩
  · rw [if_neg he]
    have hne : st.pend ≠ [] := fun h => he (List.isEmpty_iff.mpr h)
    obtain ⟨q, hq, h1, h2⟩ := hpp hne
    rw [hq]
    dsimp only [Option.getD]
    refine ⟨?_, ?_, rfl, rfl, fun _ => rfl, fun h => absurd h hne⟩
    · exact hc.append (Chain.single h1 (by show q ≤ q + _; omega) h2)
    · exact allNT_snoc hok (allNT_chars _ _ _ _ (by omega) (by omega))

theorem loopFinish_T (f : PSFields) (st : LoopSt) (stopTok : Option Token) (err : Option PErr) (start m : Nat)
    (hc : Chain st.acc start m) (hok : AllNT s st.acc) (hle : m ≤ st.pos) (hin : st.pos ≤ s.length)
    (hpp : st.pend ≠ [] → ∃ q, st.pendPos = some q ∧ m ≤ q ∧ q + st.pend.length ≤ st.pos)
    (hstop : ∀ t, stopTok = some t → st.pos ≤ t.posEnd ∧ t.posEnd ≤ s.length) :
    LoopPostT s start (loopFinish f st stopTok err) := by
  obtain ⟨h1, h2, h3, _, _, _⟩ := flush_specT (s := s) f st start m st.pos hc hok hle hin hpp
  unfold loopFinish LoopPostT
  dsimp only
  rw [h3]
  exact ⟨h1, h2, hin, hstop⟩

theorem LInvT.finish {start m : Nat} {st : LoopSt} (h : LInvT s start st m) (f : PSFields) (err : Option PErr) :
    LoopPostT s start (loopFinish f st none err) :=
  loopFinish_T f st none err start m h.chain h.ok h.le h.inr h.hpp (by intro t ht; cases ht)

/-- pushing characters that lie in `[st.pos, b]` -/
theorem push_specT {start m : Nat} {st : LoopSt} (h : LInvT s start st m) (chars : Str) (p b : Nat)
    (hp : p = st.pos) (hb : st.pos + chars.length ≤ b) :
    (st.push chars p).acc = st.acc ∧ (st.push chars p).pend = st.pend ++ chars ∧
    ∃ q, (st.push chars p).pendPos = some q ∧ m ≤ q ∧ q + (st.push chars p).pend.length ≤ b := by
  refine ⟨rfl, rfl, ?_⟩
  show ∃ q, (match st.pendPos with | some p => some p | none => some p) = some q ∧ m ≤ q ∧
    q + (st.pend ++ chars).length ≤ b
  have hle := h.le
  rw [List.length_append]
  cases hq : st.pendPos with
  | none =>
    have := h.ppn hq
    rw [this]
    exact ⟨p, rfl, by omega, by simp; omega⟩
  | some q =>
    obtain ⟨h1, h2, _⟩ := h.pps q hq
    exact ⟨q, rfl, h1, by omega⟩

theorem flushBefore_specT (f : PSFields) {st : LoopSt} {start m : Nat} (h : LInvT s start st m) {t : Token}
    (ht : TokInfoT s st.pos t) (hpn : st.pend = [] → st.pendPos = none) :
    Chain (st.flushBefore f t).acc start t.pos ∧ AllNT s (st.flushBefore f t).acc ∧
    (st.flushBefore f t).pend = [] ∧ (st.flushBefore f t).pendPos = none := by
  have hle := h.le
  have hpos := ht.pos_eq
  have hin := ht.in_range
  have hle2 := ht.le
  unfold LoopSt.flushBefore
  by_cases hpe : st.pend.isEmpty = true
  · have hnil : st.pend = [] := List.isEmpty_iff.mp hpe
    have hpnone := hpn hnil
    simp only [hpe, Bool.not_true, Bool.false_eq_true, if_false]
    by_cases hpre : t.pre.isEmpty = true
    · simp only [hpre, Bool.not_true, Bool.false_eq_true, if_false]
      exact ⟨h.chain.weaken (Nat.le_refl _) (by omega), h.ok, hnil, hpnone⟩
    · simp only [hpre, Bool.not_false, if_true]
      refine ⟨?_, ?_, hnil, hpnone⟩
      · exact h.chain.append (Chain.single (by show m ≤ t.pos - _; omega) (by show t.pos - _ ≤ t.pos; omega)
          (Nat.le_refl _))
      · exact allNT_snoc h.ok (allNT_chars _ _ _ _ (by omega) (by omega))
  · have hne : st.pend ≠ [] := fun hh => hpe (List.isEmpty_iff.mpr hh)
    obtain ⟨q, hq, hq1, hq2⟩ := h.hpp hne
    simp only [hpe, Bool.not_false, if_true]
    have hne2 : st.pend ++ t.pre ≠ [] := by
      intro hh
      exact hne (List.append_eq_nil_iff.mp hh).1
    obtain ⟨h1, h2, _, h4, h5, _⟩ := flush_specT (s := s) f ({ st with pend := st.pend ++ t.pre } : LoopSt)
      start m t.pos h.chain h.ok (by omega) (by omega)
      (fun _ => ⟨q, hq, hq1, by show q + (st.pend ++ t.pre).length ≤ t.pos; rw [List.length_append]; omega⟩)
    exact ⟨h1, h2, h4, h5 hne2⟩

end collectorT

/-! ### the collector's step -/

section loopT
variable {env : Env} {cs : Str} {rec : Task → Ret}

/-- what the collector needs from a sub-parse started for the token at `tpos` -/
def ChildPostT (s : Str) (tpos : Nat) : Ret → Prop
  | .ok res p => p ≤ s.length ∧ ArgResT s tpos p res
  | _ => True

theorem childPostT_of {s : Str} {p : Parser} {pos tpos : Nat} {r : Ret} (h : PostT s p pos r)
    (hg : ∀ p' res, ResGoodT s p pos p' res → ArgResT s tpos p' res) : ChildPostT s tpos r := by
  cases r with
  | ok res p' => exact ⟨h.2.1, hg _ _ h.2.2⟩
  | _ => trivial

theorem afterChild_postT (ih : ∀ t, GoodT env.s cs t (rec t)) {f : PSFields} {stop : StopTok} {child : ChildPS}
    (hf : FOk cs f) (hc : ChildOk cs child) {st : LoopSt} {start tpos : Nat}
    (hch : Chain st.acc start tpos) (hok : AllNT env.s st.acc) (hpend : st.pend = []) (hpp : st.pendPos = none)
    (htp : tpos ≤ st.pos) (hin : st.pos ≤ env.s.length) (noneOk : Bool) (r : Ret) (hr : ChildPostT env.s tpos r) :
    LoopPostT env.s start (afterChild rec f stop child st noneOk r) := by
  unfold afterChild
  cases r with
  | ok res p =>
    obtain ⟨hp, h1, h2⟩ := hr
    cases res with
    | none =>
      have hle : tpos ≤ p := h1.le
      dsimp only
      cases noneOk with
      | false => simp only [Bool.false_eq_true, if_false]; trivial
      | true =>
        simp only [if_true]
        exact ih (.loop f stop child { st with pos := p }) hf hc start tpos
          { chain := hch, ok := hok, le := hle, inr := hp, ppn := fun _ => hpend,
            pps := by intro q hq; rw [show ({ st with pos := p } : LoopSt).pendPos = st.pendPos from rfl, hpp] at hq; cases hq }
    | node n =>
      dsimp only
      exact ih (.loop f stop child { st with pos := p, acc := st.acc ++ [n] }) hf hc start p
        { chain := hch.append h1, ok := allNT_snoc hok h2, le := Nat.le_refl _, inr := hp, ppn := fun _ => hpend,
          pps := by
            intro q hq
            rw [show ({ st with pos := p, acc := st.acc ++ [n] } : LoopSt).pendPos = st.pendPos from rfl, hpp] at hq
            cases hq }
    | list _ _ _ => trivial
    | args _ _ _ => trivial
  | perr e =>
    exact loopFinish_T f st none (some e) start tpos hch hok htp hin (fun h => absurd hpend h) (by intro t ht; cases ht)
  | loopEnd _ => trivial
  | crash _ => trivial
  | fuel => trivial

theorem loopRead_casesT (htol : env.tol = true) {f : PSFields} (hf : FOk cs f) {st : LoopSt} {start m : Nat}
    (h : LInvT env.s start st m) :
    match loopRead env f st with
    | .inr r => LoopPostT env.s start r
    | .inl t => TokInfoT env.s st.pos t ∧ (st.pend = [] → st.pendPos = none) := by
  unfold loopRead
  rw [htol]
  cases hpk : peekTok true (mkPS f) env.s st.pos with
  | tok t =>
    have ht := tokInfoT_of_peek hf hpk
    refine ⟨ht, ?_⟩
    intro hp
    cases hq : st.pendPos with
    | none => rfl
    | some q =>
      have := (h.pps q hq).2.2 hp
      have := ht.adv
      have := ht.in_range
      omega
  | err w ep t r => exact absurd hpk peekTok_tol_no_err
  | eos fs =>
    have hfs := eos_of_peekT hf h.inr hpk
    have hlen : fs.length = env.s.length - st.pos := by rw [hfs]; simp
    have hinr := h.inr
    dsimp only
    by_cases he : fs.isEmpty = true
    · rw [if_pos he]
      exact h.finish f none
    · rw [if_neg he]
      have hne : fs ≠ [] := fun hh => he (List.isEmpty_iff.mpr hh)
      have hpos : 0 < fs.length := List.length_pos_iff.mpr hne
      refine ⟨{ pos_eq := rfl, le := Nat.le_refl _, adv := by show st.pos < st.pos + fs.length; omega,
                in_range := by show st.pos + fs.length ≤ _; omega,
                charLen := fun _ => Nat.le_refl _,
                charEmpty := fun _ _ => by show st.pos + fs.length = _; omega }, ?_⟩
      intro hp
      cases hq : st.pendPos with
      | none => rfl
      | some q =>
        have := (h.pps q hq).2.2 hp
        omega

theorem loopDispatch_postT (htol : env.tol = true) (ih : ∀ t, GoodT env.s cs t (rec t))
    {f : PSFields} {stop : StopTok} {child : ChildPS} (hf : FOk cs f) (hc : ChildOk cs child)
    {st : LoopSt} {start : Nat} {t : Token}
    (hch : Chain st.acc start t.pos) (hok : AllNT env.s st.acc) (hpend : st.pend = []) (hpp : st.pendPos = none)
    (hpos : st.pos = t.posEnd) (hle : t.pos ≤ t.posEnd) (hin : t.posEnd ≤ env.s.length) :
    LoopPostT env.s start (loopDispatch env rec f stop child st t) := by
  have htp : t.pos ≤ env.s.length := by omega
  have hfin : ∀ e, LoopPostT env.s start (loopFinish f st none e) := fun e =>
    loopFinish_T f st none e start t.pos hch hok (by omega) (by omega) (fun h => absurd hpend h)
      (by intro t ht; cases ht)
  have hskip : LoopPostT env.s start (rec (.loop f stop child st)) :=
    ih (.loop f stop child st) hf hc start t.pos
      { chain := hch, ok := hok, le := by omega, inr := by omega, ppn := fun _ => hpend,
        pps := by intro q hq; rw [hpp] at hq; cases hq }
  have hac : ∀ (noneOk : Bool) (r : Ret), ChildPostT env.s t.pos r →
      LoopPostT env.s start (afterChild rec f stop child st noneOk r) := fun noneOk r hr =>
    afterChild_postT ih hf hc hch hok hpend hpp (by omega) (by omega) noneOk r hr
  unfold loopDispatch
  split
  · exact hfin _
  · exact hfin _
  · exact ih (.loop f stop child { st with acc := st.acc ++ [Node.comment t.pos t.posEnd (psInfo f) t.arg t.post] })
      hf hc start t.posEnd
      { chain := hch.append (Chain.single (Nat.le_refl _) hle (Nat.le_refl _)),
        ok := allNT_snoc hok (allNT_leaf rfl hle hin),
        le := by show t.posEnd ≤ st.pos; omega, inr := by show st.pos ≤ _; omega,
        ppn := fun _ => hpend,
        pps := by
          intro q hq
          rw [show ({ st with acc := st.acc ++ [Node.comment t.pos t.posEnd (psInfo f) t.arg t.post] } : LoopSt).pendPos
            = st.pendPos from rfl, hpp] at hq
          cases hq }
  · exact hac _ _ (childPostT_of
      (ih (.pc (.group (.auto t.arg) false false) (child.get f t) t.pos) (hc.get hf t) htp trivial) (fun _ _ h => h))
  · split
    · rw [htol]; simp only [if_true]
      exact hskip
    · rename_i a _
      exact hac _ _ (childPostT_of
        (ih (.pc (.macroCall t a) (child.get f t) st.pos) (hc.get hf t) (by omega) (by show t.pos ≤ st.pos; omega))
        (fun _ _ h => h))
  · split
    · rw [htol]; simp only [if_true]
      exact hskip
    · rename_i ab _
      exact hac _ _ (childPostT_of
        (ih (.pc (.envCall t ab.1 ab.2) (child.get f t) st.pos) (hc.get hf t) (by omega) (by show t.pos ≤ st.pos; omega))
        (fun _ _ h => h))
  · split
    · trivial
    · rename_i a _
      exact hac _ _ (childPostT_of
        (ih (.pc (.specialsCall t a) (child.get f t) st.pos) (hc.get hf t) (by omega) (by show t.pos ≤ st.pos; omega))
        (fun _ _ h => h))
  · split
    · exact hac _ _ (childPostT_of
        (ih (.pc (.math t.arg) (child.get f t) t.pos) (hc.get hf t) htp trivial) (fun _ _ h => h))
    · exact hfin _
  · split
    · exact hac _ _ (childPostT_of
        (ih (.pc (.math t.arg) (child.get f t) t.pos) (hc.get hf t) htp trivial) (fun _ _ h => h))
    · exact hfin _
  · trivial

theorem loopStep_goodT (htol : env.tol = true) (ih : ∀ t, GoodT env.s cs t (rec t))
    (f : PSFields) (stop : StopTok) (child : ChildPS) (st : LoopSt) :
    GoodT env.s cs (.loop f stop child st) (loopStep env rec f stop child st) := by
  intro hf hc start m h
  have hr := loopRead_casesT htol hf h
  unfold loopStep
  cases hlr : loopRead env f st with
  | inr r => rw [hlr] at hr; exact hr
  | inl t =>
    rw [hlr] at hr
    obtain ⟨ht, hpn⟩ : TokInfoT env.s st.pos t ∧ (st.pend = [] → st.pendPos = none) := hr
    have hpos := ht.pos_eq
    have hle := ht.le
    have hin := ht.in_range
    have hml := h.le
    have hp0 : t.pos - t.pre.length = st.pos := by omega
    dsimp only
    by_cases hst : stop.test t = true
    · rw [if_pos hst]
      obtain ⟨h1, _, q, h3, h4, h5⟩ := push_specT h t.pre (t.pos - t.pre.length) t.pos hp0 (by omega)
      exact loopFinish_T f _ (some t) none start m (by rw [show ({ (st.push t.pre (t.pos - t.pre.length)) with pos := t.pos } : LoopSt).acc = (st.push t.pre (t.pos - t.pre.length)).acc from rfl, h1]; exact h.chain)
        h.ok (by show m ≤ t.pos; omega) (by show t.pos ≤ _; omega)
        (fun _ => ⟨q, h3, h4, h5⟩)
        (by intro t' ht'; cases ht'; exact ⟨hle, hin⟩)
    · rw [if_neg hst]
      by_cases hk : (t.kind == .char) = true
      · rw [if_pos hk]
        have hk' := (kind_beq_char _).mp hk
        have hcl := ht.charLen hk'
        obtain ⟨h1, h2, q, h3, h4, h5⟩ := push_specT h (t.pre ++ t.arg) (t.pos - t.pre.length) t.posEnd hp0
          (by rw [List.length_append]; omega)
        refine ih (.loop f stop child _) hf hc start m
          { chain := h.chain, ok := h.ok, le := by show m ≤ t.posEnd; omega, inr := hin,
            ppn := ?_, pps := ?_ }
        · intro hn
          have hn : (st.push (t.pre ++ t.arg) (t.pos - t.pre.length)).pendPos = none := hn
          rw [h3] at hn; cases hn
        · intro q' hq'
          have hq' : (st.push (t.pre ++ t.arg) (t.pos - t.pre.length)).pendPos = some q' := hq'
          rw [h3] at hq'
          cases hq'
          refine ⟨h4, h5, ?_⟩
          intro hnil
          have hnil : (st.push (t.pre ++ t.arg) (t.pos - t.pre.length)).pend = [] := hnil
          rw [h2] at hnil
          have := (List.append_eq_nil_iff.mp (List.append_eq_nil_iff.mp hnil).2).2
          exact ht.charEmpty hk' this
      · rw [if_neg hk]
        obtain ⟨h1, h2, h3, h4⟩ := flushBefore_specT f h ht hpn
        exact loopDispatch_postT htol ih hf hc (t := { t with pre := [] }) h1 h2 h3 h4 rfl hle hin

end loopT

end Pylx
