/-
  C02Loop — evaluation of the parser model on the source of a core document: eventual results (`Ev`), the algebra of
  `mergeChars`, the collector's shape bookkeeping, and one lemma per construct.
-/
import PylxProofs.C02Tok2
import PylxProofs.C06
namespace Pylx
namespace C02
open Doc

/-! ### eventual results: the result of a task for every sufficiently large amount of fuel -/

def Ev (env : Env) (t : Task) (r : Ret) : Prop := ∃ n, ∀ m, n ≤ m → run env m t = r

theorem Ev.of_step {env : Env} {t : Task} {r : Ret} (h : ∃ n, ∀ m, n ≤ m → step env (run env m) t = r) :
    Ev env t r := by
  obtain ⟨n, hn⟩ := h
  refine ⟨n + 1, fun m hm => ?_⟩
  obtain ⟨k, rfl⟩ : ∃ k, m = k + 1 := ⟨m - 1, by omega⟩
  show step env (run env k) t = r
  exact hn k (by omega)

/-- one step that does not call `rec` -/
theorem Ev.of_const {env : Env} {t : Task} {r : Ret} (h : ∀ rec, step env rec t = r) : Ev env t r :=
  Ev.of_step ⟨0, fun m _ => h _⟩

/-- one step that ends in a call of `rec` -/
theorem Ev.of_tail {env : Env} {t t' : Task} {r : Ret} (h : ∀ rec, step env rec t = rec t') (h' : Ev env t' r) :
    Ev env t r := by
  obtain ⟨n, hn⟩ := h'
  exact Ev.of_step ⟨n, fun m hm => by rw [h, hn m hm]⟩

/-! ### `mergeChars` -/

def consSh : Shape → List Shape → List Shape
  | .chars a, .chars b :: r => .chars (a ++ b) :: r
  | x, r => x :: r

theorem mergeChars_cons (x : Shape) (tl : List Shape) : mergeChars (x :: tl) = consSh x (mergeChars tl) := by
  cases x with
  | chars a =>
    simp only [mergeChars]
    generalize mergeChars tl = M
    cases M with
    | nil => rfl
    | cons y r => cases y <;> rfl
  | _ => simp only [mergeChars, consSh]

theorem consSh_chars_chars (a b : Str) (X : List Shape) :
    consSh (.chars (a ++ b)) X = consSh (.chars a) (consSh (.chars b) X) := by
  cases X with
  | nil => rfl
  | cons y r =>
    cases y with
    | chars c => simp only [consSh, List.append_assoc]
    | _ => rfl

theorem mergeChars_consSh (x : Shape) (M l2 : List Shape) :
    mergeChars (consSh x M ++ l2) = consSh x (mergeChars (M ++ l2)) := by
  cases x with
  | chars a =>
    cases M with
    | nil => simp only [consSh, List.cons_append, List.nil_append, mergeChars_cons]
    | cons y r =>
      cases y with
      | chars b =>
        simp only [consSh, List.cons_append, mergeChars_cons]
        exact consSh_chars_chars a b _
      | _ => simp only [consSh, List.cons_append, mergeChars_cons]
  | _ => simp only [consSh, List.cons_append, mergeChars_cons]

theorem mergeChars_merge_append (l1 l2 : List Shape) : mergeChars (mergeChars l1 ++ l2) = mergeChars (l1 ++ l2) := by
  induction l1 with
  | nil => rfl
  | cons x tl ih => rw [mergeChars_cons, mergeChars_consSh, ih, List.cons_append, mergeChars_cons]

theorem mergeChars_append_left {a b : List Shape} (h : mergeChars a = mergeChars b) (l : List Shape) :
    mergeChars (a ++ l) = mergeChars (b ++ l) := by
  rw [← mergeChars_merge_append a, ← mergeChars_merge_append b, h]

theorem mergeChars_append_right (l : List Shape) {a b : List Shape} (h : mergeChars a = mergeChars b) :
    mergeChars (l ++ a) = mergeChars (l ++ b) := by
  induction l with
  | nil => exact h
  | cons x l ih => rw [List.cons_append, List.cons_append, mergeChars_cons, mergeChars_cons, ih]

theorem normList_congr {a b : List Shape} (h : mergeChars a = mergeChars b) : normList a = normList b := by
  unfold normList; rw [h]

/-! ### shapes of collector states -/

theorem shapeOfNodes_append (a b : List Node) : shapeOfNodes (a ++ b) = shapeOfNodes a ++ shapeOfNodes b := by
  induction a with
  | nil => rfl
  | cons x a ih => simp only [List.cons_append, shapeOfNodes, ih]

/-- the shape of the pending characters -/
def pendSh (pd : Str) : List Shape := if pd.isEmpty then [] else [.chars pd]

/-- the shapes a collector state stands for: nodes pushed so far, then the pending characters -/
def sh (st : LoopSt) : List Shape := shapeOfNodes st.acc ++ pendSh st.pend

theorem sh_flush (f : PSFields) (st : LoopSt) :
    shapeOfNodes (st.flush f).acc = sh st ∧ (st.flush f).pend = [] ∧ (st.flush f).pos = st.pos := by
  unfold LoopSt.flush
  by_cases h : st.pend.isEmpty = true
  · rw [if_pos h]
    refine ⟨?_, List.isEmpty_iff.mp h, rfl⟩
    unfold sh pendSh; rw [if_pos h, List.append_nil]
  · rw [if_neg h]
    refine ⟨?_, rfl, rfl⟩
    show shapeOfNodes (st.acc ++ [_]) = _
    rw [shapeOfNodes_append]; unfold sh pendSh; rw [if_neg h]; rfl

theorem pendSh_append (pd t : Str) (ht : t ≠ []) :
    mergeChars (pendSh (pd ++ t)) = mergeChars (pendSh pd ++ [.chars t]) := by
  unfold pendSh
  cases pd with
  | nil =>
    cases t with
    | nil => exact absurd rfl ht
    | cons c t => rfl
  | cons a pd => rfl

theorem pendSh_append' (a b : Str) : mergeChars (pendSh (a ++ b)) = mergeChars (pendSh a ++ pendSh b) := by
  cases b with
  | nil => simp [pendSh]
  | cons c b =>
    rw [pendSh_append a (c :: b) (by simp)]
    rfl

/-- flushing in front of a non-char token: the pending characters and the token's leading whitespace -/
theorem sh_flushBefore (f : PSFields) (st : LoopSt) (t : Token) :
    mergeChars (shapeOfNodes (st.flushBefore f t).acc) = mergeChars (sh st ++ pendSh t.pre) ∧
      (st.flushBefore f t).pend = [] := by
  unfold LoopSt.flushBefore
  by_cases h : st.pend.isEmpty = true
  · have h1 : (!st.pend.isEmpty) = false := by rw [h]; rfl
    rw [h1]
    simp only [Bool.false_eq_true, if_false]
    by_cases h2 : t.pre.isEmpty = true
    · have h3 : (!t.pre.isEmpty) = false := by rw [h2]; rfl
      rw [h3]
      simp only [Bool.false_eq_true, if_false]
      refine ⟨?_, List.isEmpty_iff.mp h⟩
      unfold sh pendSh; rw [if_pos h, if_pos h2, List.append_nil, List.append_nil]
    · have h3 : (!t.pre.isEmpty) = true := by
        cases hh : t.pre.isEmpty with
        | true => exact absurd hh h2
        | false => rfl
      rw [h3]
      simp only [if_true]
      refine ⟨?_, List.isEmpty_iff.mp h⟩
      rw [shapeOfNodes_append]
      unfold sh pendSh; rw [if_pos h, if_neg h2, List.append_nil]
      rfl
  · have h1 : (!st.pend.isEmpty) = true := by
      cases hh : st.pend.isEmpty with
      | true => exact absurd hh h
      | false => rfl
    rw [h1]
    simp only [if_true]
    have := sh_flush f ({ st with pend := st.pend ++ t.pre } : LoopSt)
    refine ⟨?_, this.2.1⟩
    rw [this.1]
    show mergeChars (shapeOfNodes st.acc ++ pendSh (st.pend ++ t.pre)) = mergeChars ((shapeOfNodes st.acc ++ pendSh st.pend) ++ pendSh t.pre)
    rw [List.append_assoc]
    exact mergeChars_append_right _ (pendSh_append' _ _)

/-- pushing characters -/
theorem sh_push (st : LoopSt) (cs : Str) (p q : Nat) :
    mergeChars (sh ({ (st.push cs p) with pos := q } : LoopSt)) = mergeChars (sh st ++ pendSh cs) := by
  show mergeChars (shapeOfNodes st.acc ++ pendSh (st.pend ++ cs)) = mergeChars ((shapeOfNodes st.acc ++ pendSh st.pend) ++ pendSh cs)
  rw [List.append_assoc]
  exact mergeChars_append_right _ (pendSh_append' _ _)

/-! ### reading a token in the collector -/

section loop
variable {env : Env} {f : PSFields} {stop : StopTok} {child : ChildPS} {st : LoopSt}

theorem loopStep_tok (htol : env.tol = false) {t : Token} (hpk : peekImpl (mkPS f) env.s st.pos = .tok t)
    (rec : Task → Ret) :
    loopStep env rec f stop child st =
      if stop.test t then
        loopFinish f { (st.push t.pre (t.pos - t.pre.length)) with pos := t.pos } (some t) none
      else if t.kind == .char then
        rec (.loop f stop child { (st.push (t.pre ++ t.arg) (t.pos - t.pre.length)) with pos := t.posEnd })
      else
        loopDispatch env rec f stop child { (st.flushBefore f t) with pos := t.posEnd } { t with pre := [] } := by
  unfold loopStep loopRead
  rw [htol, peekTok_false, hpk]

theorem loopStep_eos (htol : env.tol = false) (hpk : peekImpl (mkPS f) env.s st.pos = .eos [])
    (rec : Task → Ret) : loopStep env rec f stop child st = loopFinish f st none none := by
  unfold loopStep loopRead
  rw [htol, peekTok_false, hpk]
  rfl

theorem stop_test_char (stop : StopTok) (t : Token)
    (h : t.kind = .char ∨ t.kind = .braceOpen ∨ t.kind = .macro ∨ t.kind = .comment ∨ t.kind = .specials ∨ t.kind = .beginEnv) :
    stop.test t = false := by
  cases stop with
  | none => rfl
  | braceClose c => rcases h with h | h | h | h | h | h <;> (simp only [StopTok.test, h]; rfl)
  | mathClose d c => rcases h with h | h | h | h | h | h <;> cases d <;> (simp only [StopTok.test, h]; rfl)
  | endEnv n => rcases h with h | h | h | h | h | h <;> (simp only [StopTok.test, h]; rfl)

end loop

/-! ### reaching a later collector state -/

/-- from `st` the collector gets to some `st'`, `n` characters further, having produced the shapes `tr` (up to the
    merging of adjacent chars nodes), whatever comes afterwards -/
def Reaches (env : Env) (f : PSFields) (stop : StopTok) (child : ChildPS) (st : LoopSt) (tr : List Shape) (n : Nat) : Prop :=
  ∃ st' : LoopSt, st'.pos = st.pos + n ∧ mergeChars (sh st') = mergeChars (sh st ++ tr) ∧
    ∀ R, Ev env (.loop f stop child st') R → Ev env (.loop f stop child st) R

theorem Reaches.refl (env : Env) (f : PSFields) (stop : StopTok) (child : ChildPS) (st : LoopSt) :
    Reaches env f stop child st [] 0 :=
  ⟨st, rfl, by rw [List.append_nil], fun _ h => h⟩

theorem Reaches.trans {env : Env} {f : PSFields} {stop : StopTok} {child : ChildPS} {st : LoopSt}
    {tr1 tr2 : List Shape} {n1 n2 : Nat} (h1 : Reaches env f stop child st tr1 n1)
    (h2 : ∀ st1 : LoopSt, st1.pos = st.pos + n1 → Reaches env f stop child st1 tr2 n2) :
    Reaches env f stop child st (tr1 ++ tr2) (n1 + n2) := by
  obtain ⟨st1, hp1, hs1, hk1⟩ := h1
  obtain ⟨st2, hp2, hs2, hk2⟩ := h2 st1 hp1
  refine ⟨st2, by omega, ?_, fun R h => hk1 R (hk2 R h)⟩
  rw [hs2, ← List.append_assoc]
  exact mergeChars_append_left hs1 tr2

theorem Reaches.congr {env : Env} {f : PSFields} {stop : StopTok} {child : ChildPS} {st : LoopSt} {tr tr' : List Shape} {n : Nat}
    (h : mergeChars tr = mergeChars tr') (hr : Reaches env f stop child st tr n) : Reaches env f stop child st tr' n := by
  obtain ⟨st', h1, h2, h3⟩ := hr
  exact ⟨st', h1, by rw [h2]; exact mergeChars_append_right _ h, h3⟩

section generic
variable {env : Env} {f : PSFields} {stop : StopTok} {child : ChildPS} {st : LoopSt}

/-- a `char` token: its leading whitespace and its characters become pending characters -/
theorem reach_charTok (htol : env.tol = false) {tk : Token} (hpk : peekImpl (mkPS f) env.s st.pos = .tok tk)
    (hkind : tk.kind = .char) (hpos : st.pos ≤ tk.posEnd) :
    Reaches env f stop child st (pendSh tk.pre ++ pendSh tk.arg) (tk.posEnd - st.pos) := by
  refine ⟨{ (st.push (tk.pre ++ tk.arg) (tk.pos - tk.pre.length)) with pos := tk.posEnd }, ?_, ?_, ?_⟩
  · show tk.posEnd = _; omega
  · rw [sh_push]
    exact mergeChars_append_right _ (pendSh_append' _ _)
  · intro R h
    refine Ev.of_tail (fun rec => ?_) h
    show loopStep env rec _ stop child st = _
    rw [loopStep_tok htol hpk, stop_test_char stop _ (Or.inl hkind)]
    have : (tk.kind == TokKind.char) = true := by rw [hkind]; rfl
    rw [this]
    rfl

/-- a token that makes the collector start a sub-parse (or push a node directly) and go on behind it -/
theorem reach_dispatch (htol : env.tol = false) {tk : Token} {nd : Node} {p : Nat}
    (hpk : peekImpl (mkPS f) env.s st.pos = .tok tk) (hstop : stop.test tk = false) (hkind : (tk.kind == TokKind.char) = false)
    (hpos : st.pos ≤ p)
    (hd : ∀ st0 : LoopSt, st0.pos = tk.posEnd → ∃ N, ∀ k, N ≤ k →
      loopDispatch env (run env k) f stop child st0 { tk with pre := [] } =
        run env k (.loop f stop child { st0 with pos := p, acc := st0.acc ++ [nd] })) :
    Reaches env f stop child st (pendSh tk.pre ++ [shapeOf nd]) (p - st.pos) := by
  obtain ⟨hf1, hf2⟩ := sh_flushBefore f st tk
  obtain ⟨N, hN⟩ := hd { (st.flushBefore f tk) with pos := tk.posEnd } rfl
  refine ⟨{ (st.flushBefore f tk) with pos := p, acc := (st.flushBefore f tk).acc ++ [nd] },
    by show p = st.pos + (p - st.pos); omega, ?_, ?_⟩
  · show mergeChars (shapeOfNodes ((st.flushBefore f tk).acc ++ [nd]) ++ pendSh (st.flushBefore f tk).pend) = _
    rw [shapeOfNodes_append, hf2]
    simp only [shapeOfNodes, pendSh, List.isEmpty_nil, if_true, List.append_nil]
    rw [← List.append_assoc]
    exact mergeChars_append_left hf1 _
  · intro R h
    obtain ⟨n2, h2⟩ := h
    refine Ev.of_step ⟨max N n2, fun k hk => ?_⟩
    show loopStep env (run env k) _ stop child st = R
    rw [loopStep_tok htol hpk, hstop, hkind]
    simp only [Bool.false_eq_true, if_false]
    rw [hN k (by omega)]
    exact h2 k (by omega)

/-- the collector in front of the token it was asked to stop at -/
theorem loop_stop (htol : env.tol = false) {tk : Token} (hpk : peekImpl (mkPS f) env.s st.pos = .tok tk)
    (hs : stop.test tk = true) :
    ∃ e : LoopEnd, Ev env (.loop f stop child st) (.loopEnd e) ∧
      mergeChars (shapeOfNodes e.nodes) = mergeChars (sh st ++ pendSh tk.pre) ∧ e.err = none ∧ e.stopTok = some tk := by
  let st1 : LoopSt := { (st.push tk.pre (tk.pos - tk.pre.length)) with pos := tk.pos }
  refine ⟨{ nodes := (st1.flush f).acc, pos := (st1.flush f).pos, stopTok := some tk, err := none },
    Ev.of_const (fun rec => ?_), ?_, rfl, rfl⟩
  · show loopStep env rec _ _ child st = _
    rw [loopStep_tok htol hpk, hs]
    simp only [if_true]
    unfold loopFinish
    rfl
  · show mergeChars (shapeOfNodes (st1.flush f).acc) = _
    rw [(sh_flush f st1).1]
    exact sh_push st tk.pre _ _

/-- the collector at the end of the input -/
theorem loop_eos (htol : env.tol = false) (f : PSFields) {st : LoopSt} (hd : env.s.drop st.pos = []) :
    ∃ e : LoopEnd, Ev env (.loop f stop child st) (.loopEnd e) ∧
      shapeOfNodes e.nodes = sh st ∧ e.err = none ∧ e.stopTok = none ∧ e.pos = st.pos := by
  have hpk := peek_eos (mkPS f) hd
  refine ⟨{ nodes := (st.flush f).acc, pos := (st.flush f).pos, stopTok := none, err := none },
    Ev.of_const (fun rec => ?_), (sh_flush f st).1, rfl, rfl, (sh_flush f st).2.2⟩
  show loopStep env rec _ _ child st = _
  rw [loopStep_eos htol hpk]
  unfold loopFinish
  rfl

/-- the collector in front of whitespace that runs to the end of the input -/
theorem loop_eos_ws (htol : env.tol = false) (f : PSFields) {st : LoopSt} {w : Str} (hd : env.s.drop st.pos = w)
    (hw : isWs w = true) (hnl : countNl w < 2) :
    ∃ e : LoopEnd, Ev env (.loop f .none child st) (.loopEnd e) ∧
      mergeChars (shapeOfNodes e.nodes) = mergeChars (sh st ++ pendSh w) ∧ e.err = none ∧ e.stopTok = none ∧
      e.pos = st.pos + w.length := by
  cases w with
  | nil =>
    obtain ⟨e, h1, h2, h3, h4, h5⟩ := loop_eos (stop := .none) (child := child) htol f hd
    exact ⟨e, h1, by rw [h2]; simp [pendSh], h3, h4, by simpa using h5⟩
  | cons c w =>
    have hpk : peekImpl (mkPS f) env.s st.pos = .eos (c :: w) := peekImpl_ws_eos hd hw hnl
    let st2 : LoopSt := { (st.push ((c :: w) ++ []) (st.pos + (c :: w).length - (c :: w).length)) with pos := st.pos + (c :: w).length }
    have hd2 : env.s.drop st2.pos = [] := by
      show env.s.drop (st.pos + (c :: w).length) = []
      have := drop_add_of_drop (a := c :: w) (rest := []) (by rw [hd, List.append_nil])
      exact this
    obtain ⟨e, h1, h2, h3, h4, h5⟩ := loop_eos (stop := .none) (child := child) htol f hd2
    refine ⟨e, ?_, ?_, h3, h4, h5⟩
    · refine Ev.of_tail (fun rec => ?_) h1
      show loopStep env rec _ _ child st = _
      unfold loopStep loopRead
      rw [htol, peekTok_false, hpk]
      rfl
    · rw [h2]
      have := sh_push st ((c :: w) ++ []) (st.pos + (c :: w).length - (c :: w).length) (st.pos + (c :: w).length)
      have e : pendSh ((c :: w) ++ []) = pendSh (c :: w) := by rw [List.append_nil]
      rw [e] at this
      exact this

end generic

end C02
end Pylx
