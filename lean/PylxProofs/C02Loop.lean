/-
  C02Loop — evaluation of the parser model on the source of a core document: eventual results (`Ev`), the algebra of
  `mergeChars`, the collector's shape bookkeeping, and one lemma per construct.
-/
import PylxProofs.C02Tok
import PylxProofs.C06
namespace Pylx
namespace C02
open Doc

/-! ### eventual results: the result of a task for every sufficiently large amount of fuel -/

def Ev (env : Env) (t : Task) (r : Ret) : Prop := ∃ n, ∀ m, n ≤ m → run env m t = r

theorem Ev.of_step {env : Env} {t : Task} {r : Ret} (h : ∃ n, ∀ m, n ≤ m → step env (run env m) t = r) :
    Ev env t r := by
  obtain ⟨n, hn⟩ := h
  refine ⟨n + 1, fun m hm => ?_⟩
  obtain ⟨k, rfl⟩ : ∃ k, m = k + 1 := ⟨m - 1, by omega⟩
  show step env (run env k) t = r
  exact hn k (by omega)

/-- one step that does not call `rec` -/
theorem Ev.of_const {env : Env} {t : Task} {r : Ret} (h : ∀ rec, step env rec t = r) : Ev env t r :=
  Ev.of_step ⟨0, fun m _ => h _⟩

/-- one step that ends in a call of `rec` -/
theorem Ev.of_tail {env : Env} {t t' : Task} {r : Ret} (h : ∀ rec, step env rec t = rec t') (h' : Ev env t' r) :
    Ev env t r := by
  obtain ⟨n, hn⟩ := h'
  exact Ev.of_step ⟨n, fun m hm => by rw [h, hn m hm]⟩

/-! ### `mergeChars` -/

def consSh : Shape → List Shape → List Shape
  | .chars a, .chars b :: r => .chars (a ++ b) :: r
  | x, r => x :: r

theorem mergeChars_cons (x : Shape) (tl : List Shape) : mergeChars (x :: tl) = consSh x (mergeChars tl) := by
  cases x with
  | chars a =>
    simp only [mergeChars]
    generalize mergeChars tl = M
    cases M with
    | nil => rfl
    | cons y r => cases y <;> rfl
  | _ => simp only [mergeChars, consSh]

theorem consSh_chars_chars (a b : Str) (X : List Shape) :
    consSh (.chars (a ++ b)) X = consSh (.chars a) (consSh (.chars b) X) := by
  cases X with
  | nil => rfl
  | cons y r =>
    cases y with
    | chars c => simp only [consSh, List.append_assoc]
    | _ => rfl

theorem mergeChars_consSh (x : Shape) (M l2 : List Shape) :
    mergeChars (consSh x M ++ l2) = consSh x (mergeChars (M ++ l2)) := by
  cases x with
  | chars a =>
    cases M with
    | nil => simp only [consSh, List.cons_append, List.nil_append, mergeChars_cons]
    | cons y r =>
      cases y with
      | chars b =>
        simp only [consSh, List.cons_append, mergeChars_cons]
        exact consSh_chars_chars a b _
      | _ => simp only [consSh, List.cons_append, mergeChars_cons]
  | _ => simp only [consSh, List.cons_append, mergeChars_cons]

theorem mergeChars_merge_append (l1 l2 : List Shape) : mergeChars (mergeChars l1 ++ l2) = mergeChars (l1 ++ l2) := by
  induction l1 with
  | nil => rfl
  | cons x tl ih => rw [mergeChars_cons, mergeChars_consSh, ih, List.cons_append, mergeChars_cons]

theorem mergeChars_append_left {a b : List Shape} (h : mergeChars a = mergeChars b) (l : List Shape) :
    mergeChars (a ++ l) = mergeChars (b ++ l) := by
  rw [← mergeChars_merge_append a, ← mergeChars_merge_append b, h]

theorem mergeChars_append_right (l : List Shape) {a b : List Shape} (h : mergeChars a = mergeChars b) :
    mergeChars (l ++ a) = mergeChars (l ++ b) := by
  induction l with
  | nil => exact h
  | cons x l ih => rw [List.cons_append, List.cons_append, mergeChars_cons, mergeChars_cons, ih]

theorem normList_congr {a b : List Shape} (h : mergeChars a = mergeChars b) : normList a = normList b := by
  unfold normList; rw [h]

/-! ### shapes of collector states -/

theorem shapeOfNodes_append (a b : List Node) : shapeOfNodes (a ++ b) = shapeOfNodes a ++ shapeOfNodes b := by
  induction a with
  | nil => rfl
  | cons x a ih => simp only [List.cons_append, shapeOfNodes, ih]

/-- the shape of the pending characters -/
def pendSh (pd : Str) : List Shape := if pd.isEmpty then [] else [.chars pd]

/-- the shapes a collector state stands for: nodes pushed so far, then the pending characters -/
def sh (st : LoopSt) : List Shape := shapeOfNodes st.acc ++ pendSh st.pend

theorem sh_flush (f : PSFields) (st : LoopSt) :
    shapeOfNodes (st.flush f).acc = sh st ∧ (st.flush f).pend = [] ∧ (st.flush f).pos = st.pos := by
  unfold LoopSt.flush
  by_cases h : st.pend.isEmpty = true
  · rw [if_pos h]
    refine ⟨?_, List.isEmpty_iff.mp h, rfl⟩
    unfold sh pendSh; rw [if_pos h, List.append_nil]
  · rw [if_neg h]
    refine ⟨?_, rfl, rfl⟩
    show shapeOfNodes (st.acc ++ [_]) = _
    rw [shapeOfNodes_append]; unfold sh pendSh; rw [if_neg h]; rfl

theorem sh_flushBefore (f : PSFields) (st : LoopSt) (t : Token) (ht : t.pre = []) :
    shapeOfNodes (st.flushBefore f t).acc = sh st ∧ (st.flushBefore f t).pend = [] := by
  unfold LoopSt.flushBefore
  rw [ht]
  by_cases h : st.pend.isEmpty = true
  · have h1 : (!st.pend.isEmpty) = false := by rw [h]; rfl
    have h2 : (!([] : Str).isEmpty) = false := rfl
    rw [h1, h2]
    simp only [Bool.false_eq_true, if_false]
    refine ⟨?_, List.isEmpty_iff.mp h⟩
    unfold sh pendSh; rw [if_pos h, List.append_nil]
  · have h1 : (!st.pend.isEmpty) = true := by
      cases hh : st.pend.isEmpty with
      | true => exact absurd hh h
      | false => rfl
    rw [h1]
    simp only [if_true, List.append_nil]
    have := sh_flush f st
    exact ⟨this.1, this.2.1⟩

theorem pendSh_append (pd t : Str) (ht : t ≠ []) :
    mergeChars (pendSh (pd ++ t)) = mergeChars (pendSh pd ++ [.chars t]) := by
  unfold pendSh
  cases pd with
  | nil =>
    cases t with
    | nil => exact absurd rfl ht
    | cons c t => rfl
  | cons a pd => rfl

/-! ### reading a token in the collector -/

section loop
variable {env : Env} {f : PSFields} {stop : StopTok} {child : ChildPS} {st : LoopSt}

theorem loopStep_tok (htol : env.tol = false) {t : Token} (hpk : peekImpl (mkPS f) env.s st.pos = .tok t)
    (rec : Task → Ret) :
    loopStep env rec f stop child st =
      if stop.test t then
        loopFinish f { (st.push t.pre (t.pos - t.pre.length)) with pos := t.pos } (some t) none
      else if t.kind == .char then
        rec (.loop f stop child { (st.push (t.pre ++ t.arg) (t.pos - t.pre.length)) with pos := t.posEnd })
      else
        loopDispatch env rec f stop child { (st.flushBefore f t) with pos := t.posEnd } { t with pre := [] } := by
  unfold loopStep loopRead
  rw [htol, peekTok_false, hpk]

theorem loopStep_eos (htol : env.tol = false) (hpk : peekImpl (mkPS f) env.s st.pos = .eos [])
    (rec : Task → Ret) : loopStep env rec f stop child st = loopFinish f st none none := by
  unfold loopStep loopRead
  rw [htol, peekTok_false, hpk]
  rfl

theorem stop_test_char (stop : StopTok) (t : Token) (h : t.kind = .char ∨ t.kind = .braceOpen ∨ t.kind = .macro ∨ t.kind = .comment) :
    stop.test t = false := by
  cases stop with
  | none => rfl
  | braceClose c => rcases h with h | h | h | h <;> (simp only [StopTok.test, h]; rfl)
  | mathClose d c => rcases h with h | h | h | h <;> cases d <;> (simp only [StopTok.test, h]; rfl)
  | endEnv n => rcases h with h | h | h | h <;> (simp only [StopTok.test, h]; rfl)

end loop

/-! ### reaching a later collector state -/

/-- from `st` the collector gets to some `st'`, `n` characters further, having produced the shapes `tr` (up to the
    merging of adjacent chars nodes), whatever comes afterwards -/
def Reaches (env : Env) (f : PSFields) (stop : StopTok) (child : ChildPS) (st : LoopSt) (tr : List Shape) (n : Nat) : Prop :=
  ∃ st' : LoopSt, st'.pos = st.pos + n ∧ mergeChars (sh st') = mergeChars (sh st ++ tr) ∧
    ∀ R, Ev env (.loop f stop child st') R → Ev env (.loop f stop child st) R

theorem Reaches.refl (env : Env) (f : PSFields) (stop : StopTok) (child : ChildPS) (st : LoopSt) :
    Reaches env f stop child st [] 0 :=
  ⟨st, rfl, by rw [List.append_nil], fun _ h => h⟩

theorem Reaches.trans {env : Env} {f : PSFields} {stop : StopTok} {child : ChildPS} {st : LoopSt}
    {tr1 tr2 : List Shape} {n1 n2 : Nat} (h1 : Reaches env f stop child st tr1 n1)
    (h2 : ∀ st1 : LoopSt, st1.pos = st.pos + n1 → Reaches env f stop child st1 tr2 n2) :
    Reaches env f stop child st (tr1 ++ tr2) (n1 + n2) := by
  obtain ⟨st1, hp1, hs1, hk1⟩ := h1
  obtain ⟨st2, hp2, hs2, hk2⟩ := h2 st1 hp1
  refine ⟨st2, by omega, ?_, fun R h => hk1 R (hk2 R h)⟩
  rw [hs2, ← List.append_assoc]
  exact mergeChars_append_left hs1 tr2

end C02
end Pylx
