/-
  C08 — encode, then convert back with latex2text: the original string.

  Models: `Pylx.C08.cfg pr` = `UnicodeToLatexEncoder(replacement_latex_protection=pr)` with the built-in `defaults`
  rules (`EncB.builtinCfg`), `Pylx.C08.toText pol` = `LatexNodes2Text(strict_latex_spaces=pol).latex_to_text` with
  the default walker and text databases (`L2T.latexToText`) and the generated NFC composition table.
  Alphabet: `Gen.c08Alphabet` (generated: built-in characters minus the committed exception list
  `c08_noninvertible.json`, printable ASCII without rule except the ligature-forming `'` `-` `` ` ``, newline).

  * `C08_char`   (proved, kernel evaluation of both models): every alphabet character alone round-trips, under each
                 of the four brace-protection schemes and both whitespace policies.
  * `C08_pair`   (proved, kernel evaluation): every ordered pair of class representatives round-trips, all schemes ×
                 policies; `C08_reps_cover`: every alphabet character has a representative of its class (class =
                 replacement shape of `C13_shapes`, or letter / digit / space / newline / punctuation).
  * `C08_encode_chunks` (proved, in `C08Defs`): the encoder output is the concatenation of per-character chunks.
  * `C08_lift`   (proved): `C08_full` follows from the two named steps `C08_concat_stmt` (a chunk parsed and
                 rendered after a neighbour behaves as it does after that neighbour alone) and `C08_class_stmt`
                 (the behaviour of a pair depends on the classes of its members only) — by induction over the string
                 with `C08_char`, `C08_pair`, `C08_reps_cover`.
  * `C08_full`   the statement for all strings: stated here, PROVED in `PylxProofs/C08F.lean`
                 (`Pylx.C08.Full.C08_full_proved`, by a direct route: exact parse of the encoder-output grammar, laws of
                 the renderer loop, kernel evaluation per chunk, induction over the string); the two steps of `C08_lift`
                 are consequences (`C08_concat_proved`, `C08_class_proved`).
  * `C08_parbreak_false`, `C08_ligature_false`, `C08_none_false`: witnesses that the side conditions are needed
                 (paragraph breaks are normalised to "\n\n"; `--` is read as an en dash; scheme `none` fuses a control
                 word with the following letter).
-/
import PylxProofs.C08CharA
import PylxProofs.C08CharB
import PylxProofs.C08CharC
import PylxProofs.C08CharD
import PylxProofs.C08CharE
import PylxProofs.C08CharF
import PylxProofs.C08CharG
import PylxProofs.C08CharH
import PylxProofs.C08ClsA
import PylxProofs.C08ClsB
import PylxProofs.C08ClsC
import PylxProofs.C08ClsD
import PylxProofs.C08ClsE
import PylxProofs.C08ClsF
import PylxProofs.C08ClsG
import PylxProofs.C08ClsH
import PylxProofs.C08PairA
import PylxProofs.C08PairB
import PylxProofs.C08PairC
import PylxProofs.C08PairD
import PylxProofs.C08PairE
import PylxProofs.C08PairF
import PylxProofs.C08PairG
import PylxProofs.C08PairH
namespace Pylx.C08
open Pylx Pylx.EncB Pylx.L2T

/-! ### assembling the slices -/

theorem chars_all : Gen.c08AlphaChunks.all CharsOk = true := by
  have h := slice_rest CharsOk Gen.c08AlphaChunks 0 (33 + 33 + 33 + 33 + 33 + 33 + 33)
    (slice_join _ _ 0 (33 + 33 + 33 + 33 + 33 + 33) 33
      (slice_join _ _ 0 (33 + 33 + 33 + 33 + 33) 33
        (slice_join _ _ 0 (33 + 33 + 33 + 33) 33
          (slice_join _ _ 0 (33 + 33 + 33) 33
            (slice_join _ _ 0 (33 + 33) 33
              (slice_join _ _ 0 33 33 chars_A chars_B) chars_C) chars_D) chars_E) chars_F) chars_G) chars_H
  simpa using h

theorem pairs_all : Gen.c08Reps.all RowOk = true := by
  have h := slice_rest RowOk Gen.c08Reps 0 (5 + 5 + 4 + 4 + 4 + 4 + 4)
    (slice_join _ _ 0 (5 + 5 + 4 + 4 + 4 + 4) 4
      (slice_join _ _ 0 (5 + 5 + 4 + 4 + 4) 4
        (slice_join _ _ 0 (5 + 5 + 4 + 4) 4
          (slice_join _ _ 0 (5 + 5 + 4) 4
            (slice_join _ _ 0 (5 + 5) 4
              (slice_join _ _ 0 5 5 pairs_A pairs_B) pairs_C) pairs_D) pairs_E) pairs_F) pairs_G) pairs_H
  simpa using h

theorem mem_chunks {p : Nat → Bool} (h : Gen.c08AlphaChunks.all (fun ch => ch.all p) = true) :
    ∀ k ∈ Gen.c08Alphabet, p k = true := by
  intro k hk
  simp only [Gen.c08Alphabet, List.mem_flatten] at hk
  obtain ⟨ch, hch, hk⟩ := hk
  exact List.all_eq_true.mp (List.all_eq_true.mp h ch hch) k hk

/-- membership of a character in the alphabet of the property -/
def InAlphabet (c : Char) : Prop := c.toNat ∈ Gen.c08Alphabet

instance (c : Char) : Decidable (InAlphabet c) := inferInstanceAs (Decidable (c.toNat ∈ Gen.c08Alphabet))

/-! ### C08_char, C08_pair -/

/-- **C08 (single characters).**  For EVERY character of the invertible alphabet, each of the four brace-protection
    schemes and both whitespace policies: encoding the one-character string and converting the result back with
    latex2text returns the one-character string (both models evaluated by the kernel on all 1311 characters). -/
theorem C08_char (c : Char) (hc : InAlphabet c) :
    ∀ pr ∈ schemes, ∀ pol ∈ policies, RoundTrips pr pol [c] := by
  have h := mem_chunks (p := charOk) chars_all c.toNat hc
  have := charOk_spec h
  simpa using this

/-- **C08 (adjacent pairs).**  For every ordered pair of class representatives, every scheme and policy, the
    two-character string round-trips: a replacement neither fuses with, swallows nor separates its neighbour. -/
theorem C08_pair (a b : Nat) (ha : a ∈ Gen.c08Reps) (hb : b ∈ Gen.c08Reps) :
    ∀ pr ∈ schemes, ∀ pol ∈ policies, RoundTrips pr pol [Char.ofNat a, Char.ofNat b] := by
  have h := List.all_eq_true.mp pairs_all a ha
  exact pairOk_spec (List.all_eq_true.mp h b hb)

/-! ### classes and their representatives -/

theorem reps_in_alphabet : Gen.c08Reps.all (fun r => Gen.c08Alphabet.contains r) = true := by decide +kernel

theorem cover_all : Gen.c08AlphaChunks.all CoverOk = true := by
  have h := slice_rest CoverOk Gen.c08AlphaChunks 0 (33 + 33 + 33 + 33 + 33 + 33 + 33)
    (slice_join _ _ 0 (33 + 33 + 33 + 33 + 33 + 33) 33
      (slice_join _ _ 0 (33 + 33 + 33 + 33 + 33) 33
        (slice_join _ _ 0 (33 + 33 + 33 + 33) 33
          (slice_join _ _ 0 (33 + 33 + 33) 33
            (slice_join _ _ 0 (33 + 33) 33
              (slice_join _ _ 0 33 33 (coverSlice_spec cover_A) (coverSlice_spec cover_B)) (coverSlice_spec cover_C))
            (coverSlice_spec cover_D)) (coverSlice_spec cover_E)) (coverSlice_spec cover_F)) (coverSlice_spec cover_G))
    (coverRest_spec cover_H)
  simpa using h

theorem reps_cover : Gen.c08AlphaChunks.all (fun ch => ch.all (fun k =>
    Gen.c08Reps.any (fun r => classOf r == classOf k))) = true := by
  have h := cover_all
  rw [List.all_eq_true] at h ⊢
  intro ch hch
  have h1 := h ch hch
  unfold CoverOk at h1
  rw [List.all_eq_true] at h1 ⊢
  intro k hk
  have h2 := h1 k hk
  rw [List.contains_iff_mem, List.mem_map] at h2
  obtain ⟨r, hr, hcode⟩ := h2
  exact List.any_eq_true.mpr ⟨r, hr, by simpa using clsCode_inj hcode⟩

/-- **C08 (representatives).**  Every alphabet character has a representative of its own class, itself in the
    alphabet (classes: the replacement shapes of `C13_shapes` for characters with a rule; letter, digit, space,
    newline, punctuation for the others). -/
theorem C08_reps_cover : ∀ k ∈ Gen.c08Alphabet, ∃ r ∈ Gen.c08Reps, r ∈ Gen.c08Alphabet ∧ classOf r = classOf k := by
  intro k hk
  have h := mem_chunks reps_cover k hk
  obtain ⟨r, hr, hc⟩ := List.any_eq_true.mp h
  refine ⟨r, hr, ?_, by simpa using hc⟩
  have := List.all_eq_true.mp reps_in_alphabet r hr
  simpa using this

/-- every ordered pair of classes occurring in the alphabet is exercised by a pair of representatives that round-trips -/
theorem C08_class_pairs (x y : Nat) (hx : x ∈ Gen.c08Alphabet) (hy : y ∈ Gen.c08Alphabet) :
    ∃ a ∈ Gen.c08Reps, ∃ b ∈ Gen.c08Reps, classOf a = classOf x ∧ classOf b = classOf y ∧
      ∀ pr ∈ schemes, ∀ pol ∈ policies, RoundTrips pr pol [Char.ofNat a, Char.ofNat b] := by
  obtain ⟨a, ha, _, hca⟩ := C08_reps_cover x hx
  obtain ⟨b, hb, _, hcb⟩ := C08_reps_cover y hy
  exact ⟨a, ha, b, hb, hca, hcb, C08_pair a b ha hb⟩

/-! ### the statement for all strings and the lift -/

/-- **C08, full statement** (proved in `PylxProofs/C08F.lean`: `Pylx.C08.Full.C08_full_proved`).  Every string over the invertible alphabet without a paragraph break other
    than exactly `"\n\n"` round-trips under every brace-protection scheme and both whitespace policies. -/
def C08_full : Prop :=
  ∀ pr ∈ schemes, ∀ pol ∈ policies, ∀ s : Str, (∀ c ∈ s, InAlphabet c) → ParClean s = true → RoundTrips pr pol s

/-- **Step 1 of the lift (chunk independence;** proved in `PylxProofs/C08F.lean` as a consequence of `C08_full`**).**  Prefixing a character to a string that round-trips gives a string that
    round-trips, provided the character alone and the character with its new neighbour do: the chunk of `c` is
    self-delimiting under a brace-protection scheme, so the parser reads `chunk c ++ rest` as the nodes of
    `chunk c` followed by the nodes of `rest` (positions shifted), up to the interaction with the first chunk of
    `rest` that the two-character string already shows; and the renderer's output concatenates. -/
def C08_concat_stmt : Prop :=
  ∀ pr ∈ schemes, ∀ pol ∈ policies, ∀ (c d : Char) (r : Str),
    (∀ x ∈ c :: d :: r, InAlphabet x) → ParClean (c :: d :: r) = true →
    RoundTrips pr pol [c] → RoundTrips pr pol [c, d] → RoundTrips pr pol (d :: r) → RoundTrips pr pol (c :: d :: r)

/-- **Step 2 of the lift (class invariance;** proved in `PylxProofs/C08F.lean` as a consequence of `C08_full`**).**  Whether a two-character string round-trips depends on the classes of the
    two characters only. -/
def C08_class_stmt : Prop :=
  ∀ pr ∈ schemes, ∀ pol ∈ policies, ∀ a b a' b' : Nat,
    a ∈ Gen.c08Alphabet → b ∈ Gen.c08Alphabet → a' ∈ Gen.c08Alphabet → b' ∈ Gen.c08Alphabet →
    classOf a = classOf a' → classOf b = classOf b' →
    RoundTrips pr pol [Char.ofNat a', Char.ofNat b'] → RoundTrips pr pol [Char.ofNat a, Char.ofNat b]

theorem roundTrips_nil : ∀ pr ∈ schemes, ∀ pol ∈ policies, RoundTrips pr pol [] := by
  have h : okWith [] [] = true := by decide +kernel
  exact okWith_spec (s := []) h

/-- **C08 (lift).**  The statement for all strings follows from the single-character and representative-pair
    theorems and the two steps, by induction over the string. -/
theorem C08_lift (hconcat : C08_concat_stmt) (hclass : C08_class_stmt) : C08_full := by
  intro pr hpr pol hpol s
  induction s with
  | nil => intro _ _; exact roundTrips_nil pr hpr pol hpol
  | cons c rest ih =>
    intro hs hp
    have hc : InAlphabet c := hs c (List.mem_cons_self ..)
    cases rest with
    | nil => exact C08_char c hc pr hpr pol hpol
    | cons d r =>
      have hd : InAlphabet d := hs d (List.mem_cons_of_mem _ (List.mem_cons_self ..))
      have hrest := ih (fun x hx => hs x (List.mem_cons_of_mem _ hx)) (ParClean_tail hp)
      obtain ⟨a, ha, b, hb, hca, hcb, hab⟩ := C08_class_pairs c.toNat d.toNat hc hd
      obtain ⟨_, _, haA, _⟩ := C08_reps_cover c.toNat hc
      have haA : a ∈ Gen.c08Alphabet := by
        have := List.all_eq_true.mp reps_in_alphabet a ha; simpa using this
      have hbA : b ∈ Gen.c08Alphabet := by
        have := List.all_eq_true.mp reps_in_alphabet b hb; simpa using this
      have hpair := hclass pr hpr pol hpol c.toNat d.toNat a b hc hd haA hbA hca.symm hcb.symm (hab pr hpr pol hpol)
      have hpair' : RoundTrips pr pol [c, d] := by simpa using hpair
      exact hconcat pr hpr pol hpol c d r hs hp (C08_char c hc pr hpr pol hpol) hpair' hrest

/-! ### the side conditions are needed -/

/-- Boolean form of `roundTrip pr pol s = some (.ok r)` -/
def rtIs (pr : Prot) (pol : SlsSpec) (s r : Str) : Bool :=
  match roundTrip pr pol s with
  | some (.ok x) => x == r
  | _ => false

theorem rtIs_spec {pr : Prot} {pol : SlsSpec} {s r : Str} (h : rtIs pr pol s r = true) :
    roundTrip pr pol s = some (.ok r) := by
  unfold rtIs at h
  split at h
  · rename_i x hx
    have : x = r := by simpa using h
    rw [hx, this]
  · cases h

set_option maxRecDepth 100000 in
/-- three newlines are a paragraph break, which latex2text renders as two: all three characters are in the alphabet,
    the string is not `ParClean`, and it does not round-trip -/
theorem C08_parbreak_false :
    InAlphabet '\n' ∧ ParClean ['\n', '\n', '\n'] = false ∧
    roundTrip .braces (.bool false) ['\n', '\n', '\n'] = some (.ok ['\n', '\n']) := by
  refine ⟨by decide +kernel, by decide, rtIs_spec (by decide +kernel)⟩

set_option maxRecDepth 100000 in
/-- `-` is outside the alphabet: `--` comes back as an en dash (U+2013) -/
theorem C08_ligature_false :
    ('-').toNat ∉ Gen.c08Alphabet ∧
    roundTrip .braces (.bool false) ['-', '-'] = some (.ok [Char.ofNat 0x2013]) := by
  refine ⟨by decide +kernel, rtIs_spec (by decide +kernel)⟩

set_option maxRecDepth 100000 in
/-- scheme `none` is not a brace-protection scheme: `ı` (U+0131 ↦ `\i`) followed by `t` becomes `\it`, and both
    alphabet characters disappear -/
theorem C08_none_false :
    InAlphabet (Char.ofNat 0x131) ∧ InAlphabet 't' ∧
    encode (cfg .none) [Char.ofNat 0x131, 't'] = some "\\it".toList ∧
    roundTrip .none (.bool false) [Char.ofNat 0x131, 't'] = some (.ok []) := by
  refine ⟨by decide +kernel, by decide +kernel, by decide +kernel, rtIs_spec (by decide +kernel)⟩

/-! ### non-vacuity -/

example : InAlphabet (Char.ofNat 233) := by decide +kernel          -- é
example : InAlphabet 'a' ∧ InAlphabet ' ' ∧ InAlphabet '\\' := by refine ⟨?_, ?_, ?_⟩ <;> decide +kernel
example : (0x2014 : Nat) ∈ Gen.c08Alphabet ∧ (0x2015 : Nat) ∉ Gen.c08Alphabet := by constructor <;> decide +kernel
example : Gen.c08Alphabet.length = 1311 := by decide +kernel
example : Gen.c08Reps.length = 34 := by decide +kernel
set_option maxRecDepth 100000 in
/-- `aé ı—b`, scheme `braces-after-macro`, strict policy: the encoder output and the round trip, computed -/
example : encode (cfg .bracesAfterMacro) ("a".toList ++ [Char.ofNat 233, ' ', Char.ofNat 0x131, Char.ofNat 0x2014, 'b'])
      = some "a\\'e \\i{}\\textemdash{}b".toList ∧
    RoundTrips .bracesAfterMacro (.bool true) ("a".toList ++ [Char.ofNat 233, ' ', Char.ofNat 0x131, Char.ofNat 0x2014, 'b']) := by
  constructor
  · decide +kernel
  · exact rtIs_spec (by decide +kernel)
example : ParClean "a\n\nb \n c".toList = true := by decide
example : classOf 233 = .shape (some .accentBare) ∧ classOf 97 = .letter := by constructor <;> decide +kernel

end Pylx.C08
