/-
  C18 (argument views) — what `SingleParsedArgumentInfo` hands to the splitting / key-value code.
-/
import Pylx.ArgView
namespace Pylx
namespace Split

/-- a protective inner group with the SAME delimiters as the argument is never unwrapped: its content stays
    one opaque child, so separators inside it cannot split (`\cmd{{a=1,b=2}}`) -/
theorem C18_argview_same_delims (o : Str) (items inner : List Item) (uw : Bool) :
    (ArgV.group o items (some (o, inner))).content uw = items := by
  simp [ArgV.content]

/-- the documented double unwrap: a sole inner group with different delimiters gives its own content (`[{[}]`) -/
theorem C18_argview_unwrap (o o' : Str) (items inner : List Item) (h : o' ≠ o) :
    (ArgV.group o items (some (o', inner))).content true = inner := by
  simp [ArgV.content, h]

/-- without the flag, and for groups that are not a single inner group, the content is the group's own list -/
theorem C18_argview_no_unwrap (o : Str) (items : List Item) (solo : Option (Str × List Item)) :
    (ArgV.group o items solo).content false = items := by
  cases solo with
  | none => rfl
  | some p => obtain ⟨o', inner⟩ := p; simp [ArgV.content]

theorem C18_argview_plain (o : Str) (items : List Item) (uw : Bool) :
    (ArgV.group o items none).content uw = items := rfl

/-- an absent optional argument is the one-element list `[None]`; a single-token argument is itself -/
theorem C18_argview_absent (uw : Bool) : ArgV.absent.content uw = [.none] := rfl
theorem C18_argview_single (it : Item) (uw : Bool) : (ArgV.single it).content uw = [it] := rfl

/-- **C18_argview_keyval**: key-value parsing through the view is key-value parsing of the content node list —
    every law of `C18_keyval` therefore holds for arguments read through `ParsedArgumentsInfo` -/
theorem C18_argview_keyval (c : KCfg) (le : Option Nat) (a : ArgV) :
    a.keyval c le = parseKeyval c le (a.content true) := rfl

/-- non-vacuity: `{{a,b}}` keeps its inner group as one opaque child, `[{a,b}]` is unwrapped -/
example :
    let inner : List Item := [.chars 2 "a,b".toList]
    let g : Item := .opq 1 6 "{a,b}".toList (.group (some "a,b".toList) (some 2) (some 5) [(true, 2, 5, "a,b".toList)])
    (ArgV.group "{".toList [g] (some ("{".toList, inner))).content true = [g]
    ∧ (ArgV.group "[".toList [g] (some ("{".toList, inner))).content true = inner := by
  decide

end Split
end Pylx
