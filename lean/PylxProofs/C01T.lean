/-
  C01T — C01, tolerant clause: whatever nodes the tolerant parser returns on an arbitrary string are inside
  the input, and the children of every node (arguments before body, in document order) lie inside its span
  without overlapping.  Theorems about `Pylx.run` / `Pylx.parseTop` with `tol := true`, for every amount of fuel.

  The new work compared with the strict clause (C01.lean) are the recovery paths: every `PErr` the model
  constructs carries recovery nodes that are chained between the position where the failing parser was
  started and the position `parse_content` moves the reader to (`recPosT`).
-/
import PylxProofs.C01TLoop
namespace Pylx

/-! ### small facts about results -/

section resT
variable {s : Str}

theorem argResT_none {pos pos' : Nat} (h : pos ≤ pos') : ArgResT s pos pos' .none :=
  ⟨Chain.nil h, allNT_nil _⟩

theorem argResT_emptyList {pos pos' : Nat} (p e : Option Nat) (h : pos ≤ pos') : ArgResT s pos pos' (.list p e []) :=
  ⟨Chain.nil h, allNT_nil _⟩

theorem argResT_node {n : Node} {pos pos' : Nat} (h1 : pos ≤ n.pos) (h2 : n.posEnd ≤ pos') (h3 : AllNT s [n]) :
    ArgResT s pos pos' (.node n) :=
  ⟨Chain.single h1 (allNT_single.mp h3).1.1 h2, h3⟩

theorem ArgResT.weaken {a b a' b' : Nat} {res : Res} (h : ArgResT s a b res) (ha : a' ≤ a) (hb : b ≤ b') :
    ArgResT s a' b' res :=
  ⟨h.1.weaken ha hb, h.2⟩

/-- the body a group / math / environment node takes from a result -/
theorem body_chainT {res : Res} {a b : Nat} (h : ArgResT s a b res) :
    Chain ((bodyOf res).getD []) a b ∧ AllNT s ((bodyOf res).getD []) := by
  cases res with
  | none => exact ⟨Chain.nil h.1.le, allNT_nil _⟩
  | node n => exact ⟨Chain.nil h.1.le, allNT_nil _⟩
  | list p e ns => exact h
  | args p e l => exact ⟨Chain.nil h.1.le, allNT_nil _⟩

theorem parseContent_postT {p : Parser} {pos : Nat} {raw : Raw} (h : RawPostT s p pos raw) :
    PostT s p pos (parseContent true raw) := by
  cases raw with
  | eos q => exact h
  | ret r =>
    cases r with
    | perr e => exact h
    | ok res p' => exact h
    | loopEnd e => trivial
    | crash k => trivial
    | fuel => trivial

end resT

/-! ### the parsers -/

section parsersT
variable {env : Env} {cs : Str} {rec : Task → Ret}

theorem rawGeneral_postT (ih : ∀ t, GoodT env.s cs t (rec t)) {stop : StopTok} {require : Bool} {child : ChildPS}
    {f : PSFields} {pos : Nat} (hf : FOk cs f) (hc : ChildOk cs child) (hpos : pos ≤ env.s.length) :
    RawPostT env.s (.general stop require child) pos (rawGeneral rec stop require child f pos) := by
  have := ih (.loop f stop child { pos := pos }) hf hc pos pos
    { chain := Chain.nil (Nat.le_refl _), ok := allNT_nil _, le := Nat.le_refl _, inr := hpos,
      ppn := fun _ => rfl, pps := by intro q hq; cases hq }
  unfold rawGeneral retOfLoop
  generalize rec (.loop f stop child { pos := pos }) = r at this
  cases r with
  | loopEnd e =>
    obtain ⟨h1, h2, h3, h4⟩ := this
    have hle := h1.le
    have hnl : ∀ q, q ≤ env.s.length → e.pos ≤ q →
        PostT env.s (.general stop require child) pos (.ok (listOf e.nodes (some pos) (some pos)) q) :=
      fun q hq1 hq2 => ⟨by omega, hq1, h1.weaken (Nat.le_refl _) hq2, h2⟩
    dsimp only
    cases herr : e.err with
    | some pe => exact hnl e.pos h3 (Nat.le_refl _)
    | none =>
      dsimp only
      split
      · exact hnl e.pos h3 (Nat.le_refl _)
      · cases hst : e.stopTok with
        | none => exact hnl e.pos h3 (Nat.le_refl _)
        | some t =>
          obtain ⟨h5, h6⟩ := h4 t hst
          have hpe : movePastToken t true = t.posEnd := by simp [movePastToken]
          dsimp only
          rw [hpe]
          refine hnl _ ?_ ?_ <;> split <;> omega
  | ok _ _ => trivial
  | perr _ => trivial
  | crash _ => trivial
  | fuel => trivial

theorem moveToToken_preT {s : Str} {p0 : Nat} {t : Token} (ht : TokInfoT s p0 t) : moveToToken t true = p0 := by
  have := ht.pos_eq
  simp [moveToToken]; omega

theorem rawGroup_postT (htol : env.tol = true) (ih : ∀ t, GoodT env.s cs t (rec t)) {d : GroupDelims} {opt ap : Bool}
    {f : PSFields} {pos : Nat} (hf : FOk cs f) (hpos : pos ≤ env.s.length) :
    RawPostT env.s (.group d opt ap) pos (rawGroup env rec d opt ap f pos) := by
  unfold rawGroup
  cases hg : groupState d f with
  | none => trivial
  | some g =>
    have hgf := hf.groupState hg
    dsimp only
    rw [htol]
    cases hpk : peekTok true (mkPS g) env.s pos with
    | eos fs => exact ⟨Nat.le_refl _, hpos, argResT_none (Nat.le_refl _)⟩
    | err w ep t r => exact absurd hpk peekTok_tol_no_err
    | tok t =>
      have ht := tokInfoT_of_peek hgf hpk
      have h1 := ht.pos_eq
      have h2 := ht.le
      have h3 := ht.in_range
      have hmv := moveToToken_preT ht
      dsimp only
      unfold rawGroupTok
      split
      · split
        · trivial
        · rename_i c _
          have := ih (.pc (.general (.braceClose c) true (.group d.opener g f)) g t.posEnd) hgf h3 ⟨hgf, hf⟩
          unfold bindOk
          generalize rec (.pc (.general (.braceClose c) true (.group d.opener g f)) g t.posEnd) = r at this
          cases r with
          | ok res p =>
            obtain ⟨h4, h5, h6⟩ := this
            obtain ⟨b1, b2⟩ := body_chainT h6
            dsimp only
            refine ⟨by omega, h5, argResT_node (by show pos ≤ t.pos; omega) (Nat.le_refl _) ?_⟩
            rw [allNT_single]
            exact ⟨⟨by show t.pos ≤ p; omega, h5, b1.weaken h2 (Nat.le_refl _)⟩, b2⟩
          | perr e => exact this.elim
          | loopEnd _ => trivial
          | crash _ => trivial
          | fuel => trivial
      · split
        · rw [hmv]
          exact ⟨Nat.le_refl _, hpos, argResT_none (Nat.le_refl _)⟩
        · show PostT env.s _ pos (.ok (.list (some t.pos) (some t.pos) []) (moveToToken t true))
          rw [hmv]
          exact ⟨Nat.le_refl _, hpos, argResT_emptyList _ _ (Nat.le_refl _)⟩

theorem rawMath_postT (htol : env.tol = true) (ih : ∀ t, GoodT env.s cs t (rec t)) {d : Str}
    {f : PSFields} {pos : Nat} (hf : FOk cs f) (hpos : pos ≤ env.s.length) :
    RawPostT env.s (.math d) pos (rawMath env rec d f pos) := by
  unfold rawMath
  rw [htol]
  cases hpk : peekTok true (mkPS f) env.s pos with
  | eos fs => exact ⟨Nat.le_refl _, hpos, argResT_none (Nat.le_refl _)⟩
  | err w ep t r => exact absurd hpk peekTok_tol_no_err
  | tok t =>
    have ht := tokInfoT_of_peek hf hpk
    have h1 := ht.pos_eq
    have h2 := ht.le
    have h3 := ht.in_range
    have hmv := moveToToken_preT ht
    dsimp only
    unfold rawMathTok
    split
    · split
      · trivial
      · rename_i cd _
        have := ih (.pc (.general (.mathClose (t.kind == .mathDisplay) cd.1) true .same) (mathFields f t.arg) t.posEnd)
          (hf.mathFields _) h3 trivial
        unfold bindOk
        generalize rec (.pc (.general (.mathClose (t.kind == .mathDisplay) cd.1) true .same) (mathFields f t.arg) t.posEnd) = r at this
        cases r with
        | ok res p =>
          obtain ⟨h4, h5, h6⟩ := this
          obtain ⟨b1, b2⟩ := body_chainT h6
          dsimp only
          refine ⟨by omega, h5, argResT_node (by show pos ≤ t.pos; omega) (Nat.le_refl _) ?_⟩
          rw [allNT_single]
          exact ⟨⟨by show t.pos ≤ p; omega, h5, b1.weaken h2 (Nat.le_refl _)⟩, b2⟩
        | perr e => exact this.elim
        | loopEnd _ => trivial
        | crash _ => trivial
        | fuel => trivial
    · show PostT env.s _ pos (.ok (.list (some t.pos) (some t.pos) []) (moveToToken t true))
      rw [hmv]
      exact ⟨Nat.le_refl _, hpos, argResT_emptyList _ _ (Nat.le_refl _)⟩

theorem rawEnvBody_postT (ih : ∀ t, GoodT env.s cs t (rec t)) {name : Str}
    {f : PSFields} {pos : Nat} (hf : FOk cs f) (hpos : pos ≤ env.s.length) :
    RawPostT env.s (.envBody name) pos (rawEnvBody rec name f pos) := by
  have := ih (.pc (.general (.endEnv name) true .same) f pos) hf hpos trivial
  unfold rawEnvBody bindOk
  generalize rec (.pc (.general (.endEnv name) true .same) f pos) = r at this
  cases r with
  | ok res p =>
    obtain ⟨h4, h5, h6⟩ := this
    cases res with
    | none => exact ⟨h4, h5, argResT_emptyList _ _ h4⟩
    | node n => exact ⟨h4, h5, h6⟩
    | list a b ns => exact ⟨h4, h5, h6⟩
    | args a b l => exact ⟨h4, h5, h6⟩
  | perr e => exact this.elim
  | loopEnd _ => trivial
  | crash _ => trivial
  | fuel => trivial

/-- the contract of the call parsers' own `parse()` -/
def CallRawT (s : Str) (tpos pos : Nat) : Raw → Prop
  | .ret (.ok res p) => pos ≤ p ∧ p ≤ s.length ∧ ArgResT s tpos p res
  | .ret (.perr _) => False
  | .ret _ => True
  | .eos _ => False

theorem rawCall_postT (ih : ∀ t, GoodT env.s cs t (rec t)) {mk : Nat → Option (List Arg) → Node} {a : ArgsP}
    {f : PSFields} {pos tpos : Nat} (hf : FOk cs f) (hpos : pos ≤ env.s.length) (htp : tpos ≤ pos)
    (hmk : ∀ e args, (mk e args).pos = tpos ∧ (mk e args).posEnd = e ∧ (mk e args).children = argNodes args) :
    CallRawT env.s tpos pos (rawCall rec mk a f pos) := by
  have := ih (.pc (.arguments a) f pos) hf hpos trivial
  unfold rawCall bindOk
  generalize rec (.pc (.arguments a) f pos) = r at this
  cases r with
  | ok res p =>
    obtain ⟨h4, h5, h7, h8⟩ := this
    obtain ⟨m1, m2, m3⟩ := hmk p (argsOf res)
    refine ⟨h4, h5, argResT_node (by rw [m1]; exact Nat.le_refl _) (by rw [m2]; exact Nat.le_refl _) ?_⟩
    rw [allNT_single]
    refine ⟨⟨?_, ?_, ?_⟩, ?_⟩
    · rw [m1, m2]; omega
    · rw [m2]; exact h5
    · rw [m3, m1, m2]; exact h7.weaken htp (Nat.le_refl _)
    · rw [m3]; exact h8
  | perr e => exact this.elim
  | loopEnd _ => trivial
  | crash _ => trivial
  | fuel => trivial

theorem rawEnvCall_postT (ih : ∀ t, GoodT env.s cs t (rec t)) {t : Token} {a : ArgsP} {bm : Bool}
    {f : PSFields} {pos : Nat} (hf : FOk cs f) (hpos : pos ≤ env.s.length) (htp : t.pos ≤ pos) :
    RawPostT env.s (.envCall t a bm) pos (rawEnvCall rec t a bm f pos) := by
  have := ih (.pc (.arguments a) f pos) hf hpos trivial
  unfold rawEnvCall bindOk
  generalize rec (.pc (.arguments a) f pos) = r at this
  cases r with
  | ok res p =>
    obtain ⟨h4, h5, h7, h8⟩ := this
    dsimp only
    have hbf : FOk cs (if bm = true then applyDelta f .enterMath else f) := by
      split
      · exact hf.applyDelta _
      · exact hf
    have := ih (.pc (.envBody t.arg) (if bm = true then applyDelta f .enterMath else f) p) hbf h5 trivial
    generalize rec (.pc (.envBody t.arg) (if bm = true then applyDelta f .enterMath else f) p) = r2 at this
    cases r2 with
    | ok bres p2 =>
      obtain ⟨g4, g5, g6⟩ := this
      obtain ⟨b1, b2⟩ := body_chainT g6
      refine ⟨by omega, g5, argResT_node (Nat.le_refl _) (Nat.le_refl _) ?_⟩
      rw [allNT_single]
      refine ⟨⟨by show t.pos ≤ p2; omega, g5, ?_⟩, ?_⟩
      · show Chain (argNodes (argsOf res) ++ (bodyOf bres).getD []) t.pos p2
        exact (h7.weaken htp (Nat.le_refl _)).append b1
      · show AllNT _ (argNodes (argsOf res) ++ (bodyOf bres).getD [])
        exact allNT_append.mpr ⟨h8, b2⟩
    | perr e => exact this.elim
    | loopEnd _ => trivial
    | crash _ => trivial
    | fuel => trivial
  | perr e => exact this.elim
  | loopEnd _ => trivial
  | crash _ => trivial
  | fuel => trivial

/-! #### legacy verbatim arguments -/

theorem argsNone_postT {a : ArgsP} {pos : Nat} (hpos : pos ≤ env.s.length) :
    PostT env.s (.arguments a) pos (.ok .none pos) :=
  ⟨Nat.le_refl _, hpos, Chain.nil (Nat.le_refl _), allNT_nil _⟩

theorem rawLegacyVerb_postT {f : PSFields} {pos : Nat} {a : ArgsP} (hpos : pos ≤ env.s.length) :
    RawPostT env.s (.arguments a) pos (rawLegacyVerb env f pos) := by
  unfold rawLegacyVerb
  dsimp only
  split
  · exact argsNone_postT hpos
  · rename_i d hd
    have hlt := getElem?_lt _ _ _ hd
    split
    · exact argsNone_postT hpos
    · rename_i e he
      obtain ⟨h1, h2⟩ := findCharFrom_spec _ _ _ _ he
      refine ⟨by omega, by omega, ?_, ?_⟩
      · exact Chain.single (by show pos ≤ _ + 1; omega) h1 (by show e ≤ e + 1; omega)
      · exact allNT_chars _ _ _ _ h1 (by omega)

theorem legacyFinish_postT {name : Str} {f : PSFields} {pos p : Nat} {pre : List Arg} {a : ArgsP}
    (hpos : pos ≤ env.s.length) (hp : pos ≤ p) (hch : Chain (pre.flatMap Arg.nodes) pos p)
    (hok : AllNT env.s (pre.flatMap Arg.nodes)) :
    RawPostT env.s (.arguments a) pos (legacyVerbEnvFinish env name f pos pre p) := by
  unfold legacyVerbEnvFinish
  split
  · exact argsNone_postT hpos
  · rename_i e he
    obtain ⟨h1, h2⟩ := findStrFrom_spec _ _ _ _ he
    refine ⟨by omega, h2, ?_, ?_⟩
    · show Chain ((pre ++ [Arg.node (Node.chars p e (psInfo f) (slice env.s p e))]).flatMap Arg.nodes) pos e
      rw [List.flatMap_append]
      exact hch.append (Chain.single (Nat.le_refl _) h1 (Nat.le_refl _))
    · show AllNT _ ((pre ++ [Arg.node (Node.chars p e (psInfo f) (slice env.s p e))]).flatMap Arg.nodes)
      rw [List.flatMap_append]
      exact allNT_append.mpr ⟨hok, allNT_chars _ _ _ _ h1 h2⟩

theorem rawLegacyVerbEnv_postT (ih : ∀ t, GoodT env.s cs t (rec t)) {name : Str} {optArg : Bool}
    {f : PSFields} {pos : Nat} {a : ArgsP} (hf : FOk cs f) (hpos : pos ≤ env.s.length) :
    RawPostT env.s (.arguments a) pos (rawLegacyVerbEnv env rec name optArg f pos) := by
  have hnil : ∀ l : List Arg, l.flatMap Arg.nodes = [] → RawPostT env.s (.arguments a) pos
      (legacyVerbEnvFinish env name f pos l pos) := by
    intro l hl
    exact legacyFinish_postT hpos (Nat.le_refl _) (by rw [hl]; exact Chain.nil (Nat.le_refl _))
      (by rw [hl]; exact allNT_nil _)
  unfold rawLegacyVerbEnv
  split
  · exact hnil _ rfl
  · split
    · exact hnil _ rfl
    · have := ih (.pc (.group (.pair ['['] [']']) true false) f pos) hf hpos trivial
      unfold bindOk
      generalize rec (.pc (.group (.pair ['['] [']']) true false) f pos) = r at this
      cases r with
      | ok res p =>
        obtain ⟨h4, h5, h6, h7⟩ := this
        dsimp only
        cases res with
        | node n =>
          dsimp only
          have h6 : Chain [n] pos p := h6
          cases h6 with
          | cons c1 c2 c3 =>
            exact legacyFinish_postT hpos (by omega) (Chain.single c1 c2 (Nat.le_refl _)) h7
        | none => exact hnil _ rfl
        | list _ _ _ => exact hnil _ rfl
        | args _ _ _ => exact hnil _ rfl
      | perr e => exact this.elim
      | loopEnd _ => trivial
      | crash _ => trivial
      | fuel => trivial

/-! #### standard arguments -/

theorem argResT_of_argParser {s : Str} (k : ArgKind) {pos pos' : Nat} {res : Res}
    (h : ResGoodT s (argParser k) pos pos' res) : ArgResT s pos pos' res := by
  cases k <;> exact h

theorem argsLoop_postT (htol : env.tol = true) (ih : ∀ t, GoodT env.s cs t (rec t)) {f : PSFields} (hf : FOk cs f)
    (a : ArgsP) (pos0 : Nat) :
    ∀ (l : List ArgSpec) (acc : List Arg) (pos : Nat), pos0 ≤ pos → pos ≤ env.s.length →
      Chain (acc.flatMap Arg.nodes) pos0 pos → AllNT env.s (acc.flatMap Arg.nodes) →
      RetPostT env.s (.arguments a) pos0 (argsLoop env rec f l acc pos) := by
  intro l
  induction l with
  | nil =>
    intro acc pos h1 h2 h3 h4
    unfold argsLoop
    exact ⟨h1, h2, h3, h4⟩
  | cons x rest ihl =>
    intro acc pos h1 h2 h3 h4
    unfold argsLoop
    rw [htol]
    have key : RetPostT env.s (.arguments a) pos0
        (match rec (.pc (argParser x.kind) (applyDelta f x.delta) pos) with
          | .ok res p => argsLoop env rec f rest (acc ++ [resToArg res]) p
          | other => other) := by
      have := ih (.pc (argParser x.kind) (applyDelta f x.delta) pos) (hf.applyDelta _) h2 (argParser_ppre _ _ _)
      generalize rec (.pc (argParser x.kind) (applyDelta f x.delta) pos) = r at this
      cases r with
      | ok res p =>
        obtain ⟨g1, g2, g3⟩ := this
        obtain ⟨g4, g5⟩ := argResT_of_argParser x.kind g3
        dsimp only
        refine ihl _ p (by omega) g2 ?_ ?_
        · rw [List.flatMap_append]
          simp only [List.flatMap_cons, List.flatMap_nil, List.append_nil]
          exact h3.append g4
        · rw [List.flatMap_append]
          simp only [List.flatMap_cons, List.flatMap_nil, List.append_nil]
          exact allNT_append.mpr ⟨h4, g5⟩
      | perr e => exact this.elim
      | loopEnd _ => trivial
      | crash _ => trivial
      | fuel => trivial
    cases hpk : peekTok true (mkPS f) env.s pos with
    | err w ep t r => exact absurd hpk peekTok_tol_no_err
    | tok t => exact key
    | eos fs => exact key

theorem rawArguments_postT (htol : env.tol = true) (ih : ∀ t, GoodT env.s cs t (rec t)) {a : ArgsP}
    {f : PSFields} {pos : Nat} (hf : FOk cs f) (hpos : pos ≤ env.s.length) :
    RawPostT env.s (.arguments a) pos (rawArguments env rec a f pos) := by
  unfold rawArguments
  cases a with
  | std l =>
    exact argsLoop_postT htol ih hf _ pos l [] pos (Nat.le_refl _) hpos (Chain.nil (Nat.le_refl _)) (allNT_nil _)
  | legacyVerb => exact rawLegacyVerb_postT hpos
  | legacyVerbEnv name optArg => exact rawLegacyVerbEnv_postT ih hf hpos
  | unknown => trivial

end parsersT

/-! ### expression, marker, verbatim -/

section singleT
variable {env : Env} {cs : Str} {rec : Task → Ret}

theorem SkOkT.mono {sk : List Node} {pos0 pos pos1 : Nat} (h : SkOkT sk pos0 pos) (hle : pos ≤ pos1) :
    SkOkT sk pos0 pos1 := by
  intro n hn
  obtain ⟨a, b, c, d⟩ := h n hn
  exact ⟨a, b, by omega, d⟩

theorem SkOkT.snoc {sk : List Node} {pos0 pos : Nat} {x : Node} (h : SkOkT sk pos0 pos)
    (hx : pos0 ≤ x.pos ∧ x.pos ≤ x.posEnd ∧ x.posEnd ≤ pos ∧ x.children = []) : SkOkT (sk ++ [x]) pos0 pos := by
  intro n hn
  rcases List.mem_append.mp hn with hn | hn
  · exact h n hn
  · rw [List.mem_singleton.mp hn]; exact hx

theorem skOkT_nil (pos0 pos : Nat) : SkOkT [] pos0 pos := by
  intro n hn; cases hn

theorem exprFinish_T {s : Str} (f : PSFields) {sk : List Node} {pos0 pos : Nat} (hsk : SkOkT sk pos0 pos)
    (h0 : pos0 ≤ pos) (hp : pos ≤ s.length) : ExprPostT s pos0 (exprFinish f sk pos) := by
  unfold exprFinish
  cases hl : sk.getLast? with
  | some n =>
    obtain ⟨ys, hys⟩ := List.getLast?_eq_some_iff.mp hl
    have hm : n ∈ sk := by rw [hys]; simp
    obtain ⟨a, b, c, d⟩ := hsk n hm
    exact ⟨h0, hp, argResT_node a c (allNT_leaf d b (by omega))⟩
  | none =>
    exact ⟨h0, hp, argResT_node h0 (Nat.le_refl _) (allNT_leaf rfl (Nat.le_refl _) hp)⟩

/-- the expression is the single leaf node `x` made from the token `t` -/
theorem exprLeaf_postT {s : Str} {pos0 pos : Nat} {t : Token} (ht : TokInfoT s pos t) (h0 : pos0 ≤ pos)
    (f : PSFields) (sk : List Node) (x : Node) (hp : x.pos = t.pos) (he : x.posEnd = t.posEnd)
    (hc : x.children = []) : ExprPostT s pos0 (exprFinish f (sk ++ [x]) t.posEnd) := by
  rw [exprFinish_snoc]
  have h1 := ht.pos_eq
  have h2 := ht.le
  have h3 := ht.in_range
  exact ⟨by omega, h3, argResT_node (by rw [hp]; omega) (by rw [he]; exact Nat.le_refl _)
    (allNT_leaf hc (by rw [hp, he]; exact h2) (by rw [he]; exact h3))⟩

/-- an expression error that recovers past the token `t` with the leaf `rn` spanning the token -/
theorem exprErrPast_T {s : Str} {pos0 pos : Nat} {t : Token} (ht : TokInfoT s pos t) (h0 : pos0 ≤ pos)
    (w : ErrWhat) (ep : Option Nat) (rp : Nat) (rn : Node) (hp : rn.pos = t.pos) (he : rn.posEnd = t.posEnd)
    (hc : rn.children = []) :
    ExprPostT s pos0 (.perr { what := w, pos := ep, rpos := rp, recNodes := .node rn, recPast := some t }) := by
  have h1 := ht.pos_eq
  have h2 := ht.le
  have h3 := ht.in_range
  show pos0 ≤ movePastToken t true ∧ movePastToken t true ≤ s.length ∧ ArgResT s pos0 (movePastToken t true) (.node rn)
  have hpe : movePastToken t true = t.posEnd := by simp [movePastToken]
  rw [hpe]
  exact ⟨by omega, h3, argResT_node (by rw [hp]; omega) (by rw [he]; exact Nat.le_refl _)
    (allNT_leaf hc (by rw [hp, he]; exact h2) (by rw [he]; exact h3))⟩

theorem exprOnTok_postT (htol : env.tol = true) (ih : ∀ t, GoodT env.s cs t (rec t)) {ap : Bool} {sk : List Node}
    {f : PSFields} {pos0 pos : Nat} {t : Token} (hf : FOk cs f) (ht : TokInfoT env.s pos t) (hpre : t.pre = [])
    (h0 : pos0 ≤ pos) (hsk : SkOkT sk pos0 pos) :
    ExprPostT env.s pos0 (exprOnTok env rec ap sk f t) := by
  have h1 : t.pos = pos := by have := ht.pos_eq; rw [hpre] at this; simpa using this
  have h2 := ht.le
  have h3 := ht.in_range
  unfold exprOnTok
  dsimp only
  split
  · split
    · exact ih (.expr ap _ f t.posEnd) hf h3 pos0 (by omega)
        ((hsk.mono (by omega)).snoc ⟨by show pos0 ≤ t.pos; omega, h2, Nat.le_refl _, rfl⟩)
    · exact ih (.expr ap sk f t.posEnd) hf h3 pos0 (by omega) (hsk.mono (by omega))
  · have := ih (.pc (.group (.auto t.arg) false false) f t.pos) hf (by omega) trivial
    generalize rec (.pc (.group (.auto t.arg) false false) f t.pos) = r at this
    cases r with
    | ok res p =>
      obtain ⟨g1, g2, g3⟩ := this
      cases res with
      | node n =>
        dsimp only
        rw [exprFinish_snoc]
        exact ⟨by omega, g2, ArgResT.weaken g3 (by omega) (Nat.le_refl _)⟩
      | none => trivial
      | list _ _ _ => trivial
      | args _ _ _ => trivial
    | perr e => exact this.elim
    | loopEnd _ => trivial
    | crash _ => trivial
    | fuel => trivial
  · show pos0 ≤ moveToToken t true ∧ moveToToken t true ≤ env.s.length ∧
      ArgResT env.s pos0 (moveToToken t true) (.node (Node.chars t.pos t.pos (psInfo f) []))
    have hmv : moveToToken t true = t.pos := by simp [moveToToken, hpre]
    rw [hmv]
    exact ⟨by omega, by omega, argResT_node (by show pos0 ≤ t.pos; omega) (Nat.le_refl _)
      (allNT_chars _ _ _ _ (Nat.le_refl _) (by omega))⟩
  · exact exprLeaf_postT ht h0 f sk _ rfl rfl rfl
  · refine exprErrPast_T ht h0 _ _ _ _ ?_ ?_ ?_ <;> (split <;> rfl)
  · refine exprErrPast_T ht h0 _ _ _ _ ?_ ?_ ?_ <;> (split <;> rfl)
  · trivial

theorem exprTok_postT (htol : env.tol = true) (ih : ∀ t, GoodT env.s cs t (rec t)) {ap : Bool} {sk : List Node}
    {f : PSFields} {pos0 pos : Nat} {t : Token} (hf : FOk cs f) (ht : TokInfoT env.s pos t)
    (h0 : pos0 ≤ pos) (hsk : SkOkT sk pos0 pos) :
    ExprPostT env.s pos0 (exprTok env rec ap sk f t) := by
  have h1 := ht.pos_eq
  have h2 := ht.le
  have h3 := ht.in_range
  unfold exprTok
  dsimp only
  split
  · split
    · exact exprLeaf_postT ht h0 f sk _ rfl rfl rfl
    · exact exprLeaf_postT ht h0 f sk _ rfl rfl rfl
  · split
    · exact exprLeaf_postT ht h0 f sk _ rfl rfl rfl
    · split
      · split
        · exact ih (.expr ap _ f t.pos) hf (by omega) pos0 (by omega)
            ((hsk.mono (by omega)).snoc ⟨by show pos0 ≤ t.pos - _; omega, by show t.pos - _ ≤ t.pos; omega,
              Nat.le_refl _, rfl⟩)
        · exact ih (.expr ap sk f t.posEnd) hf h3 pos0 (by omega) (hsk.mono (by omega))
      · rename_i hcond
        have hpre : t.pre = [] := by
          cases hp : t.pre with
          | nil => rfl
          | cons a b => rw [hp] at hcond; simp at hcond
        exact exprOnTok_postT htol ih hf ht hpre h0 hsk

theorem exprStep_goodT (htol : env.tol = true) (ih : ∀ t, GoodT env.s cs t (rec t)) (ap : Bool) (sk : List Node)
    (f : PSFields) (pos : Nat) : GoodT env.s cs (.expr ap sk f pos) (exprStep env rec ap sk f pos) := by
  intro hf hpos pos0 h0 hsk
  unfold exprStep
  dsimp only
  rw [htol]
  cases hpk : peekTok true (mkPS ({ f with enEnvs := false } : PSFields).normalize) env.s pos with
  | err w ep t r => exact absurd hpk peekTok_tol_no_err
  | eos fs =>
    simp only [if_true]
    exact exprFinish_T f hsk h0 hpos
  | tok t =>
    have ht := tokInfoT_of_peek hf.noEnvs hpk
    exact exprTok_postT (ap := ap) (sk := sk) htol ih hf ht h0 hsk

theorem rawMarker_postT (htol : env.tol = true) {c : Char} {fl ap : Bool} {f : PSFields} {pos : Nat}
    (hf : FOk cs f) (hpos : pos ≤ env.s.length) :
    RawPostT env.s (.marker c fl ap) pos (rawMarker env c fl ap f pos) := by
  have hnone : PostT env.s (.marker c fl ap) pos (.ok .none pos) :=
    ⟨Nat.le_refl _, hpos, argResT_none (Nat.le_refl _)⟩
  unfold rawMarker
  rw [htol]
  cases hpk : peekTok true (mkPS f) env.s pos with
  | eos fs => exact hnone
  | err w ep t r => exact absurd hpk peekTok_tol_no_err
  | tok t =>
    have ht := tokInfoT_of_peek hf hpk
    have h1 := ht.pos_eq
    have h2 := ht.le
    have h3 := ht.in_range
    dsimp only
    split
    · exact hnone
    · split
      · have hn : AllNT env.s [Node.chars t.pos t.posEnd (psInfo f) [c]] := allNT_chars _ _ _ _ h2 h3
        have hch : Chain [Node.chars t.pos t.posEnd (psInfo f) [c]] pos t.posEnd :=
          Chain.single (by show pos ≤ t.pos; omega) h2 (Nat.le_refl _)
        refine ⟨by omega, h3, ?_⟩
        cases fl
        · exact ⟨hch, hn⟩
        · exact ⟨hch, hn⟩
      · split
        · exact hnone
        · exact hnone

theorem rawVerbatim_postT {delims : Option (Char × Char)} {f : PSFields} {pos : Nat} (hpos : pos ≤ env.s.length) :
    RawPostT env.s (.verbatim delims) pos (rawVerbatim env delims f pos) := by
  have hsp := spaceRun_length_le env.s pos
  unfold rawVerbatim
  dsimp only
  split
  · exact ⟨by omega, by omega, argResT_none (by omega)⟩
  · rename_i first hfirst
    have hlt := getElem?_lt _ _ _ hfirst
    split
    · exact ⟨by show pos ≤ pos + _ + 1; omega, by show pos + _ + 1 ≤ _; omega,
        argResT_none (by show pos ≤ pos + _ + 1; omega)⟩
    · rename_i o c _
      split
      · rename_i e he
        obtain ⟨g1, g2⟩ := verbScan_spec _ _ _ _ _ _ he
        simp only [List.length_drop] at g2
        have hcn : AllNT env.s [Node.chars (pos + (spaceRun env.s pos).length + 1) e (psInfo f)
            (slice env.s (pos + (spaceRun env.s pos).length + 1) e)] := allNT_chars _ _ _ _ g1 (by omega)
        refine ⟨by omega, by omega, argResT_node (by show pos ≤ pos + _; omega) (Nat.le_refl _) ?_⟩
        rw [allNT_single]
        refine ⟨⟨by show pos + _ ≤ e + 1; omega, by show e + 1 ≤ _; omega, ?_⟩, hcn⟩
        exact Chain.single (by show pos + _ ≤ pos + _ + 1; omega) g1 (by show e ≤ e + 1; omega)
      · show PostT env.s _ pos (.ok (.node (Node.chars (pos + (spaceRun env.s pos).length + 1) env.s.length (psInfo f)
            (slice env.s (pos + (spaceRun env.s pos).length + 1) env.s.length))) env.s.length)
        exact ⟨hpos, Nat.le_refl _, argResT_node (by show pos ≤ pos + _ + 1; omega) (Nat.le_refl _)
          (allNT_chars _ _ _ _ (by omega) (Nat.le_refl _))⟩

end singleT

/-! ### the step function, the fuel induction, the theorems -/

section mainT
variable {env : Env} {cs : Str}

theorem postT_of_callRawT {s : Str} {p : Parser} {pos tpos : Nat} {raw : Raw} (h : CallRawT s tpos pos raw)
    (hg : ∀ p' res, ArgResT s tpos p' res → ResGoodT s p pos p' res) : RawPostT s p pos raw := by
  cases raw with
  | eos q => exact h.elim
  | ret r =>
    cases r with
    | ok res p' => exact ⟨h.1, h.2.1, hg _ _ h.2.2⟩
    | perr e => exact h.elim
    | loopEnd _ => trivial
    | crash _ => trivial
    | fuel => trivial

theorem step_goodT (htol : env.tol = true) {rec : Task → Ret} (ih : ∀ t, GoodT env.s cs t (rec t)) :
    ∀ t, GoodT env.s cs t (step env rec t) := by
  intro t
  cases t with
  | loop f stop child st => exact loopStep_goodT htol ih f stop child st
  | expr ap sk f pos => exact exprStep_goodT htol ih ap sk f pos
  | pc p f pos =>
    intro hf hpos hpre
    unfold step
    rw [htol]
    apply parseContent_postT
    unfold rawParse
    cases p with
    | general stop require child => exact rawGeneral_postT ih hf hpre hpos
    | group d o a => exact rawGroup_postT htol ih hf hpos
    | math d => exact rawMath_postT htol ih hf hpos
    | envBody n => exact rawEnvBody_postT ih hf hpos
    | macroCall t a =>
      exact postT_of_callRawT
        (rawCall_postT (mk := fun e args => Node.mac t.pos e (psInfo f) t.arg t.post args) (a := a) ih hf hpos hpre
          (fun e args => ⟨rfl, rfl, rfl⟩)) (fun _ _ h => h)
    | specialsCall t a =>
      exact postT_of_callRawT
        (rawCall_postT (mk := fun e args => Node.specials t.pos e (psInfo f) t.arg args) (a := a) ih hf hpos hpre
          (fun e args => ⟨rfl, rfl, rfl⟩)) (fun _ _ h => h)
    | envCall t a bm => exact rawEnvCall_postT ih hf hpos hpre
    | arguments a => exact rawArguments_postT htol ih hf hpos
    | expression ap =>
      have := ih (.expr ap [] f pos) hf hpos pos (Nat.le_refl _) (skOkT_nil _ _)
      show RawPostT env.s _ pos (.ret (rec (.expr ap [] f pos)))
      generalize rec (.expr ap [] f pos) = r at this ⊢
      cases r with
      | ok res p' => exact this
      | perr e => exact this
      | loopEnd _ => trivial
      | crash _ => trivial
      | fuel => trivial
    | marker c fl ap => exact rawMarker_postT htol hf hpos
    | verbatim d => exact rawVerbatim_postT hpos

theorem goodT_fuel (s cs : Str) : ∀ t, GoodT s cs t .fuel := by
  intro t
  cases t with
  | pc p f pos => intro _ _ _; trivial
  | loop f stop child st => intro _ _ _ _ _; trivial
  | expr ap sk f pos => intro _ _ _ _ _; trivial

theorem run_goodT (htol : env.tol = true) : ∀ n t, GoodT env.s cs t (run env n t) := by
  intro n
  induction n with
  | zero => intro t; exact goodT_fuel _ _ t
  | succ n ih => intro t; exact step_goodT htol ih t

end mainT

/-! ### C01, tolerant clause -/

/-- **C01 (tolerant), strongest form.**  The only fact about the starting state that the proof uses is that its
    math delimiters are non-empty strings.  The reader ends inside the input, the top-level nodes are chained
    (in document order, without overlap) between the start and the final reader position, and every node of
    the tree is inside the input with its children chained inside its span. -/
theorem C01_tolerant_of_delims (ctx : Ctx) (s : Str) (f : PSFields) (hd : DelimsOk f) (n : Nat)
    (p e : Option Nat) (ns : List Node) (pos : Nat)
    (h : run { tol := true, ctx := ctx, s := s } n (topTask f) = .ok (.list p e ns) pos) :
    (∀ x ∈ subnodesList ns, NodeNested s x) ∧ Chain ns 0 pos ∧ pos ≤ s.length := by
  have := run_goodT (env := { tol := true, ctx := ctx, s := s }) (cs := f.commentStart) rfl n (topTask f)
    ⟨rfl, hd⟩ (Nat.zero_le _) trivial
  rw [h] at this
  obtain ⟨_, h2, h3, h4⟩ := this
  exact ⟨h4, h3, h2⟩

/-- **C01 (tolerant).**  For every amount of fuel and every input: every node of the tree the tolerant parser
    returns lies inside the input (`pos ≤ posEnd ≤ len`) and its children (arguments before body, in document
    order) lie inside its span without overlapping; the top-level nodes are chained inside the input. -/
theorem C01_tolerant (ctx : Ctx) (s : Str) (f : PSFields) (hf : StartOk ctx f) (n : Nat)
    (p e : Option Nat) (ns : List Node) (pos : Nat)
    (h : run { tol := true, ctx := ctx, s := s } n (topTask f) = .ok (.list p e ns) pos) :
    (∀ x ∈ subnodesList ns, NodeNested s x) ∧ Chain ns 0 s.length :=
  have h' := C01_tolerant_of_delims ctx s f hf.mathDelims n p e ns pos h
  ⟨h'.1, h'.2.1.weaken (Nat.le_refl _) h'.2.2⟩

/-- **C01 (tolerant, top).**  The instance for `parseTop` (fuel `fuelFor s`). -/
theorem C01_tolerant_top (ctx : Ctx) (s : Str) (f : PSFields) (hf : StartOk ctx f)
    (p e : Option Nat) (ns : List Node) (pos : Nat)
    (h : parseTop { tol := true, ctx := ctx, s := s } f = .ok (.list p e ns) pos) :
    (∀ x ∈ subnodesList ns, NodeNested s x) ∧ Chain ns 0 s.length :=
  C01_tolerant ctx s f hf (fuelFor s) p e ns pos h

/-- **C01 (nesting, both modes).**  The in-range / nesting part of C01 holds for the result of a parse in
    either mode. -/
theorem C01_nested (tol : Bool) (ctx : Ctx) (s : Str) (f : PSFields) (hf : StartOk ctx f) (n : Nat)
    (p e : Option Nat) (ns : List Node) (pos : Nat)
    (h : run { tol := tol, ctx := ctx, s := s } n (topTask f) = .ok (.list p e ns) pos) :
    (∀ x ∈ subnodesList ns, NodeNested s x) ∧ Chain ns 0 s.length := by
  cases tol with
  | true => exact C01_tolerant ctx s f hf n p e ns pos h
  | false =>
    obtain ⟨h1, _, h3⟩ := C01_strict ctx s f hf n p e ns pos h
    exact ⟨fun x hx => ⟨(h3 x hx).1, (h3 x hx).2.1, (h3 x hx).2.2.1⟩, h1.toChain (Nat.le_refl _) (Nat.le_refl _)⟩

/-- the results of sub-parses satisfy the same statement (every `parse_content` call of a tolerant run):
    the contract `GoodT` holds for every task and every amount of fuel -/
theorem C01_tolerant_contract (ctx : Ctx) (s : Str) (cs : Str) (n : Nat) (t : Task) :
    GoodT s cs t (run { tol := true, ctx := ctx, s := s } n t) :=
  run_goodT (env := { tol := true, ctx := ctx, s := s }) rfl n t

/-! ### non-vacuity -/

def c01tExFields : PSFields := { specials := Gen.defaultCtx.specials.map (·.1) }

/-- the walker's default state for the default context satisfies the hypothesis -/
example : StartOk Gen.defaultCtx c01tExFields :=
  { hasCtx := rfl, specials := rfl, mathDelims := by decide, groupDelims := by decide,
    comment := by decide, normal := rfl }

/-- a tolerant parse with the default context that goes through two recoveries: `\textbf` followed by `$`
    (expression error, recovery node spanning the math delimiter, reader moved past it) inside an optional
    argument `[` … that is never closed (required stop condition not met, partial list kept); the result is one
    macro node `\sqrt` spanning the whole input: the hypotheses of `C01_tolerant_top` are satisfiable -/
example : ∃ p e ns, parseTop { tol := true, ctx := Gen.defaultCtx, s := "\\sqrt[x \\textbf $ y".toList } c01tExFields
    = .ok (.list p e ns) 19 ∧ ns.length = 1 :=
  isOkList_spec (by decide)

/-- a small context without a fallback for unknown macros -/
def c01tSmallCtx : Ctx := { macros := [("textbf".toList, .std [{ kind := .m }])] }

example : StartOk c01tSmallCtx {} :=
  { hasCtx := rfl, specials := rfl, mathDelims := by decide, groupDelims := by decide,
    comment := by decide, normal := rfl }

/-- the unknown macro `\unk` is skipped (gap in the node list), `\textbf` meets a closing brace (recovery:
    empty chars node, reader rewound to the brace), the stray brace ends the parse (recovery: reader moved past
    it): two top-level nodes, final reader position 14; with explicit fuel (hypothesis of `C01_tolerant`) -/
example : ∃ p e ns, run { tol := true, ctx := c01tSmallCtx, s := "a\\unk \\textbf}".toList } 12 (topTask {})
    = .ok (.list p e ns) 14 ∧ ns.length = 2 :=
  isOkList_spec (by decide)

end Pylx
