/-
  C03SX — the *exact* position-free tree of a node list (`XNode`, `erase`), the exact tree a document is written with
  (`exactOf`), and the collector's bookkeeping for the exact round trip (the analogue of `C02Loop` with `XNode` in
  place of `Doc.Shape`).

  `erase s` forgets positions and parsing states of a node tree parsed from the source `s` and keeps everything the
  renderer `Pylx.L2T` looks at: the characters of *every* chars node (whitespace-only ones included), comment text and
  post-space, macro post-space, delimiters, argument lists with their `none` slots and — for math and environment
  nodes, the only nodes whose positions the renderer uses (`math_mode='verbatim'`) — the source slice the node spans.
-/
import PylxProofs.C02
import PylxProofs.C03
namespace Pylx.L2T.C03S
open Pylx Pylx.Doc Pylx.C02

/-! ### exact position-free trees -/

mutual
inductive XNode where
  | chars (c : Str)
  | comment (c post : Str)
  | group (dopen dclose : Str) (body : Option (List XNode))
  | mac (name post : Str) (args : Option (List XArg))
  /-- `verb` = the source slice of the node -/
  | env (verb name : Str) (args : Option (List XArg)) (body : Option (List XNode))
  | specials (c : Str) (args : Option (List XArg))
  /-- `verb` = the source slice of the node -/
  | math (verb : Str) (display : Bool) (dopen dclose : Str) (body : Option (List XNode))
inductive XArg where
  | absent
  | node (n : XNode)
  | list (ns : List XNode)
end

instance : Inhabited XNode := ⟨.chars []⟩
instance : Inhabited XArg := ⟨.absent⟩

mutual
/-- forget positions and parsing states (`s` = the source the positions refer to) -/
def erase (s : Str) : Node → XNode
  | .chars _ _ _ c => .chars c
  | .comment _ _ _ c p => .comment c p
  | .group _ _ _ o c b => .group o c (eraseBody s b)
  | .mac _ _ _ n p a => .mac n p (eraseArgs s a)
  | .env p e _ n a b => .env (slice s p e) n (eraseArgs s a) (eraseBody s b)
  | .specials _ _ _ c a => .specials c (eraseArgs s a)
  | .math p e _ d o c b => .math (slice s p e) d o c (eraseBody s b)
def eraseBody (s : Str) : Option (List Node) → Option (List XNode)
  | none => none
  | some ns => some (eraseNodes s ns)
def eraseNodes (s : Str) : List Node → List XNode
  | [] => []
  | n :: ns => erase s n :: eraseNodes s ns
def eraseArgs (s : Str) : Option (List Arg) → Option (List XArg)
  | none => none
  | some l => some (eraseArgList s l)
def eraseArgList (s : Str) : List Arg → List XArg
  | [] => []
  | a :: l => eraseArg s a :: eraseArgList s l
def eraseArg (s : Str) : Arg → XArg
  | .absent => .absent
  | .node n => .node (erase s n)
  | .list _ _ ns => .list (eraseNodes s ns)
end

def XNode.isChars : XNode → Bool
  | .chars _ => true
  | _ => false

/-- merge adjacent chars nodes (the collector never produces two chars nodes in a row) -/
def mergeX : List XNode → List XNode
  | [] => []
  | .chars a :: tl =>
    match mergeX tl with
    | .chars b :: r => .chars (a ++ b) :: r
    | r => .chars a :: r
  | x :: tl => x :: mergeX tl

mutual
/-- the exact nodes a derivation is written with, item by item (before the merging of adjacent chars nodes);
    `prev` = the tail of the preceding item when that was a comment.  Mirror of `Doc.treeRaw` that keeps whitespace,
    post-spaces and `none` slots. -/
def exactRaw (ctx : Ctx) : Option Str → List Item → List XNode
  | _, [] => []
  | _, .T t :: tl => .chars t :: exactRaw ctx none tl
  | prev, .W w :: tl =>
    match prev with
    | some _ => exactRaw ctx none tl          -- whitespace after a comment's newline is the comment's post-space
    | none => .chars w :: exactRaw ctx none tl
  | prev, .P w :: tl =>
    (if parSpec ctx then XNode.specials ['\n', '\n'] (some []) else .chars (prev.getD [] ++ w)) :: exactRaw ctx none tl
  | _, .G b :: tl => .group ['{'] ['}'] (some (mergeX (exactRaw ctx none b))) :: exactRaw ctx none tl
  | _, .M name post args :: tl => .mac name post (some (exactArgs ctx args)) :: exactRaw ctx none tl
  | _, .E name args body :: tl =>
    .env (beginStr name ++ (unparseArgs args ++ (unparseItems body ++ endStr name))) name (some (exactArgs ctx args))
      (some (mergeX (exactRaw ctx none body))) :: exactRaw ctx none tl
  | _, .F k b :: tl =>
    .math (k.opener ++ (unparseItems b ++ k.closer)) k.display k.opener k.closer (some (mergeX (exactRaw ctx none b))) ::
      exactRaw ctx none tl
  | _, .C text tail :: tl => .comment text (C03.commentPost tail tl) :: exactRaw ctx (some tail) tl
  | _, .S name args :: tl => .specials name (some (exactArgs ctx args)) :: exactRaw ctx none tl
  | _, .V _ text :: tl => .mac "verb".toList [] (some [.node (.chars text)]) :: exactRaw ctx none tl
  | _, .VE name _ _ _ :: tl => .env [] name none none :: exactRaw ctx none tl     -- outside the fragment
def exactArgs (ctx : Ctx) : List ArgVal → List XArg
  | [] => []
  | .absent :: tl => .absent :: exactArgs ctx tl
  | .star :: tl => .node (.chars ['*']) :: exactArgs ctx tl
  | .marker c :: tl => .list [.chars [c]] :: exactArgs ctx tl
  | .br b :: tl => .node (.group ['['] [']'] (some (mergeX (exactRaw ctx none b)))) :: exactArgs ctx tl
  | .grp b :: tl => .node (.group ['{'] ['}'] (some (mergeX (exactRaw ctx none b)))) :: exactArgs ctx tl
  | .tok c :: tl => .node (.chars [c]) :: exactArgs ctx tl
  | .del o c b :: tl => .node (.group [o] [c] (some (mergeX (exactRaw ctx none b)))) :: exactArgs ctx tl
  | .verb _ _ _ :: tl => .absent :: exactArgs ctx tl                               -- outside the fragment
end

/-- **the exact tree a document is written with** -/
def exactOf (ctx : Ctx) (d : List Item) : List XNode := mergeX (exactRaw ctx none d)

/-! ### `mergeX` -/

def consX : XNode → List XNode → List XNode
  | .chars a, .chars b :: r => .chars (a ++ b) :: r
  | x, r => x :: r

theorem mergeX_cons (x : XNode) (tl : List XNode) : mergeX (x :: tl) = consX x (mergeX tl) := by
  cases x with
  | chars a =>
    simp only [mergeX]
    generalize mergeX tl = M
    cases M with
    | nil => rfl
    | cons y r => cases y <;> rfl
  | _ => simp only [mergeX, consX]

theorem consX_chars_chars (a b : Str) (X : List XNode) :
    consX (.chars (a ++ b)) X = consX (.chars a) (consX (.chars b) X) := by
  cases X with
  | nil => rfl
  | cons y r =>
    cases y with
    | chars c => simp only [consX, List.append_assoc]
    | _ => rfl

theorem mergeX_consX (x : XNode) (M l2 : List XNode) :
    mergeX (consX x M ++ l2) = consX x (mergeX (M ++ l2)) := by
  cases x with
  | chars a =>
    cases M with
    | nil => simp only [consX, List.cons_append, List.nil_append, mergeX_cons]
    | cons y r =>
      cases y with
      | chars b =>
        simp only [consX, List.cons_append, mergeX_cons]
        exact consX_chars_chars a b _
      | _ => simp only [consX, List.cons_append, mergeX_cons]
  | _ => simp only [consX, List.cons_append, mergeX_cons]

theorem mergeX_merge_append (l1 l2 : List XNode) : mergeX (mergeX l1 ++ l2) = mergeX (l1 ++ l2) := by
  induction l1 with
  | nil => rfl
  | cons x tl ih => rw [mergeX_cons, mergeX_consX, ih, List.cons_append, mergeX_cons]

theorem mergeX_append_left {a b : List XNode} (h : mergeX a = mergeX b) (l : List XNode) :
    mergeX (a ++ l) = mergeX (b ++ l) := by
  rw [← mergeX_merge_append a, ← mergeX_merge_append b, h]

theorem mergeX_append_right (l : List XNode) {a b : List XNode} (h : mergeX a = mergeX b) :
    mergeX (l ++ a) = mergeX (l ++ b) := by
  induction l with
  | nil => exact h
  | cons x l ih => rw [List.cons_append, List.cons_append, mergeX_cons, mergeX_cons, ih]

theorem mergeX_idem (l : List XNode) : mergeX (mergeX l) = mergeX l := by
  have := mergeX_merge_append l []
  simpa using this

/-- a node that is not a chars node is a barrier for the merging -/
theorem mergeX_nonchars (x : XNode) (hx : x.isChars = false) (Z : List XNode) : mergeX (x :: Z) = x :: mergeX Z := by
  rw [mergeX_cons]
  cases x <;> first | rfl | cases hx

theorem mergeX_chars_nonchars (a : Str) (x : XNode) (hx : x.isChars = false) (Z : List XNode) :
    mergeX (.chars a :: x :: Z) = .chars a :: x :: mergeX Z := by
  rw [mergeX_cons, mergeX_nonchars x hx]
  cases x <;> first | rfl | cases hx

/-! ### exact trees of collector states -/

theorem eraseNodes_append (s : Str) (a b : List Node) : eraseNodes s (a ++ b) = eraseNodes s a ++ eraseNodes s b := by
  induction a with
  | nil => rfl
  | cons x a ih => simp only [List.cons_append, eraseNodes, ih]

/-- the pending characters as a node -/
def pendX (pd : Str) : List XNode := if pd.isEmpty then [] else [.chars pd]

theorem pendX_ne {w : Str} (h : w.isEmpty = false) : pendX w = [.chars w] := by
  unfold pendX; rw [h]; rfl

theorem mergeX_pendX (pd : Str) : mergeX (pendX pd) = pendX pd := by
  unfold pendX
  split <;> rfl

/-- the nodes a collector state stands for: nodes pushed so far, then the pending characters -/
def shX (s : Str) (st : LoopSt) : List XNode := eraseNodes s st.acc ++ pendX st.pend

/-- the accumulated nodes are a barrier for the merging: no two adjacent chars nodes, and the last node is not a chars
    node (pending characters never merge into an accumulated node) -/
def Canon (s : Str) (st : LoopSt) : Prop :=
  ∀ Z, mergeX (eraseNodes s st.acc ++ Z) = eraseNodes s st.acc ++ mergeX Z

theorem canon_start (s : Str) (pos : Nat) : Canon s { pos := pos } := fun _ => rfl

theorem canon_shX {s : Str} {st : LoopSt} (h : Canon s st) : mergeX (shX s st) = shX s st := by
  unfold shX
  rw [h, mergeX_pendX]

theorem shX_flush (s : Str) (f : PSFields) (st : LoopSt) :
    eraseNodes s (st.flush f).acc = shX s st ∧ (st.flush f).pend = [] ∧ (st.flush f).pos = st.pos := by
  unfold LoopSt.flush
  by_cases h : st.pend.isEmpty = true
  · rw [if_pos h]
    refine ⟨?_, List.isEmpty_iff.mp h, rfl⟩
    unfold shX pendX; rw [if_pos h, List.append_nil]
  · rw [if_neg h]
    refine ⟨?_, rfl, rfl⟩
    show eraseNodes s (st.acc ++ [_]) = _
    rw [eraseNodes_append]; unfold shX pendX; rw [if_neg h]; rfl

theorem pendX_append (pd t : Str) (ht : t ≠ []) :
    mergeX (pendX (pd ++ t)) = mergeX (pendX pd ++ [.chars t]) := by
  unfold pendX
  cases pd with
  | nil =>
    cases t with
    | nil => exact absurd rfl ht
    | cons c t => rfl
  | cons a pd => rfl

theorem pendX_append' (a b : Str) : mergeX (pendX (a ++ b)) = mergeX (pendX a ++ pendX b) := by
  cases b with
  | nil => simp [pendX]
  | cons c b =>
    rw [pendX_append a (c :: b) (by simp)]
    rfl

/-- flushing in front of a non-char token, exactly: the pending characters and the token's leading whitespace become
    one chars node -/
theorem erase_flushBefore (s : Str) (f : PSFields) (st : LoopSt) (t : Token) :
    eraseNodes s (st.flushBefore f t).acc = eraseNodes s st.acc ++ pendX (st.pend ++ t.pre) ∧
      (st.flushBefore f t).pend = [] := by
  unfold LoopSt.flushBefore
  by_cases h : st.pend.isEmpty = true
  · have h1 : (!st.pend.isEmpty) = false := by rw [h]; rfl
    have hp : st.pend = [] := List.isEmpty_iff.mp h
    rw [h1]
    simp only [Bool.false_eq_true, if_false]
    by_cases h2 : t.pre.isEmpty = true
    · have h3 : (!t.pre.isEmpty) = false := by rw [h2]; rfl
      rw [h3]
      simp only [Bool.false_eq_true, if_false]
      refine ⟨?_, hp⟩
      rw [hp, List.nil_append]
      unfold pendX; rw [if_pos h2, List.append_nil]
    · have h3 : (!t.pre.isEmpty) = true := by
        cases hh : t.pre.isEmpty with
        | true => exact absurd hh h2
        | false => rfl
      rw [h3]
      simp only [if_true]
      refine ⟨?_, hp⟩
      rw [eraseNodes_append, hp, List.nil_append]
      unfold pendX; rw [if_neg h2]
      rfl
  · have h1 : (!st.pend.isEmpty) = true := by
      cases hh : st.pend.isEmpty with
      | true => exact absurd hh h
      | false => rfl
    rw [h1]
    simp only [if_true]
    have := shX_flush s f ({ st with pend := st.pend ++ t.pre } : LoopSt)
    refine ⟨?_, this.2.1⟩
    rw [this.1]
    rfl

theorem shX_flushBefore (s : Str) (f : PSFields) (st : LoopSt) (t : Token) :
    mergeX (eraseNodes s (st.flushBefore f t).acc) = mergeX (shX s st ++ pendX t.pre) := by
  rw [(erase_flushBefore s f st t).1]
  show _ = mergeX ((eraseNodes s st.acc ++ pendX st.pend) ++ pendX t.pre)
  rw [List.append_assoc]
  exact mergeX_append_right _ (pendX_append' _ _)

/-- pushing characters -/
theorem shX_push (s : Str) (st : LoopSt) (cs : Str) (p q : Nat) :
    mergeX (shX s ({ (st.push cs p) with pos := q } : LoopSt)) = mergeX (shX s st ++ pendX cs) := by
  show mergeX (eraseNodes s st.acc ++ pendX (st.pend ++ cs)) = mergeX ((eraseNodes s st.acc ++ pendX st.pend) ++ pendX cs)
  rw [List.append_assoc]
  exact mergeX_append_right _ (pendX_append' _ _)

theorem canon_push {s : Str} {st : LoopSt} (h : Canon s st) (cs : Str) (p q : Nat) :
    Canon s ({ (st.push cs p) with pos := q } : LoopSt) := h

/-- after a node that is not a chars node has been pushed the state is canonical again -/
theorem canon_dispatch {s : Str} {f : PSFields} {st : LoopSt} (h : Canon s st) (t : Token) (nd : Node) (p : Nat)
    (hnd : (erase s nd).isChars = false) :
    Canon s ({ (st.flushBefore f t) with pos := p, acc := (st.flushBefore f t).acc ++ [nd] } : LoopSt) := by
  intro Z
  show mergeX (eraseNodes s ((st.flushBefore f t).acc ++ [nd]) ++ Z) = eraseNodes s ((st.flushBefore f t).acc ++ [nd]) ++ mergeX Z
  rw [eraseNodes_append, (erase_flushBefore s f st t).1]
  simp only [eraseNodes, List.append_assoc, List.cons_append, List.nil_append]
  rw [h]
  congr 1
  unfold pendX
  split
  · exact mergeX_nonchars _ hnd Z
  · exact mergeX_chars_nonchars _ _ hnd Z

/-! ### reaching a later collector state -/

/-- from `st` the collector gets to some `st'`, `n` characters further, having produced the exact nodes `tr` (up to the
    merging of adjacent chars nodes), whatever comes afterwards; a canonical state stays canonical -/
def ReachesX (env : Pylx.Env) (f : PSFields) (stop : StopTok) (child : ChildPS) (st : LoopSt) (tr : List XNode) (n : Nat) : Prop :=
  ∃ st' : LoopSt, st'.pos = st.pos + n ∧ mergeX (shX env.s st') = mergeX (shX env.s st ++ tr) ∧
    (Canon env.s st → Canon env.s st') ∧
    ∀ R, Ev env (.loop f stop child st') R → Ev env (.loop f stop child st) R

theorem ReachesX.refl (env : Pylx.Env) (f : PSFields) (stop : StopTok) (child : ChildPS) (st : LoopSt) :
    ReachesX env f stop child st [] 0 :=
  ⟨st, rfl, by rw [List.append_nil], fun h => h, fun _ h => h⟩

theorem ReachesX.trans {env : Pylx.Env} {f : PSFields} {stop : StopTok} {child : ChildPS} {st : LoopSt}
    {tr1 tr2 : List XNode} {n1 n2 : Nat} (h1 : ReachesX env f stop child st tr1 n1)
    (h2 : ∀ st1 : LoopSt, st1.pos = st.pos + n1 → ReachesX env f stop child st1 tr2 n2) :
    ReachesX env f stop child st (tr1 ++ tr2) (n1 + n2) := by
  obtain ⟨st1, hp1, hs1, hc1, hk1⟩ := h1
  obtain ⟨st2, hp2, hs2, hc2, hk2⟩ := h2 st1 hp1
  refine ⟨st2, by omega, ?_, fun h => hc2 (hc1 h), fun R h => hk1 R (hk2 R h)⟩
  rw [hs2, ← List.append_assoc]
  exact mergeX_append_left hs1 tr2

theorem ReachesX.congr {env : Pylx.Env} {f : PSFields} {stop : StopTok} {child : ChildPS} {st : LoopSt} {tr tr' : List XNode} {n : Nat}
    (h : mergeX tr = mergeX tr') (hr : ReachesX env f stop child st tr n) : ReachesX env f stop child st tr' n := by
  obtain ⟨st', h1, h2, hc, h3⟩ := hr
  exact ⟨st', h1, by rw [h2]; exact mergeX_append_right _ h, hc, h3⟩

section generic
variable {env : Pylx.Env} {f : PSFields} {stop : StopTok} {child : ChildPS} {st : LoopSt}

/-- a `char` token: its leading whitespace and its characters become pending characters -/
theorem reachX_charTok (htol : env.tol = false) {tk : Token} (hpk : peekImpl (mkPS f) env.s st.pos = .tok tk)
    (hkind : tk.kind = .char) (hpos : st.pos ≤ tk.posEnd) :
    ReachesX env f stop child st (pendX tk.pre ++ pendX tk.arg) (tk.posEnd - st.pos) := by
  refine ⟨{ (st.push (tk.pre ++ tk.arg) (tk.pos - tk.pre.length)) with pos := tk.posEnd }, ?_, ?_, ?_, ?_⟩
  · show tk.posEnd = _; omega
  · rw [shX_push]
    exact mergeX_append_right _ (pendX_append' _ _)
  · intro h
    exact canon_push h _ _ _
  · intro R h
    refine Ev.of_tail (fun rec => ?_) h
    show loopStep env rec _ stop child st = _
    rw [loopStep_tok htol hpk, stop_test_char stop _ (Or.inl hkind)]
    have : (tk.kind == TokKind.char) = true := by rw [hkind]; rfl
    rw [this]
    rfl

/-- a token that makes the collector start a sub-parse (or push a node directly) and go on behind it -/
theorem reachX_dispatch (htol : env.tol = false) {tk : Token} {nd : Node} {x : XNode} {p : Nat}
    (hpk : peekImpl (mkPS f) env.s st.pos = .tok tk) (hstop : stop.test tk = false) (hkind : (tk.kind == TokKind.char) = false)
    (hpos : st.pos ≤ p)
    (hd : ∀ st0 : LoopSt, st0.pos = tk.posEnd → ∃ N, ∀ k, N ≤ k →
      loopDispatch env (run env k) f stop child st0 { tk with pre := [] } =
        run env k (.loop f stop child { st0 with pos := p, acc := st0.acc ++ [nd] }))
    (hx : erase env.s nd = x) (hnc : x.isChars = false) :
    ReachesX env f stop child st (pendX tk.pre ++ [x]) (p - st.pos) := by
  have hf1 := shX_flushBefore env.s f st tk
  have hf2 := (erase_flushBefore env.s f st tk).2
  obtain ⟨N, hN⟩ := hd { (st.flushBefore f tk) with pos := tk.posEnd } rfl
  subst hx
  refine ⟨{ (st.flushBefore f tk) with pos := p, acc := (st.flushBefore f tk).acc ++ [nd] },
    by show p = st.pos + (p - st.pos); omega, ?_, ?_, ?_⟩
  · show mergeX (eraseNodes env.s ((st.flushBefore f tk).acc ++ [nd]) ++ pendX (st.flushBefore f tk).pend) = _
    rw [eraseNodes_append, hf2]
    simp only [eraseNodes, pendX, List.isEmpty_nil, if_true, List.append_nil]
    rw [← List.append_assoc]
    exact mergeX_append_left hf1 _
  · intro h
    exact canon_dispatch h tk nd p hnc
  · intro R h
    obtain ⟨n2, h2⟩ := h
    refine Ev.of_step ⟨max N n2, fun k hk => ?_⟩
    show loopStep env (run env k) _ stop child st = R
    rw [loopStep_tok htol hpk, hstop, hkind]
    simp only [Bool.false_eq_true, if_false]
    rw [hN k (by omega)]
    exact h2 k (by omega)

/-- the collector in front of the token it was asked to stop at -/
theorem loopX_stop (htol : env.tol = false) {tk : Token} (hpk : peekImpl (mkPS f) env.s st.pos = .tok tk)
    (hs : stop.test tk = true) :
    ∃ e : LoopEnd, Ev env (.loop f stop child st) (.loopEnd e) ∧
      mergeX (eraseNodes env.s e.nodes) = mergeX (shX env.s st ++ pendX tk.pre) ∧
      (Canon env.s st → mergeX (eraseNodes env.s e.nodes) = eraseNodes env.s e.nodes) ∧
      e.err = none ∧ e.stopTok = some tk := by
  let st1 : LoopSt := { (st.push tk.pre (tk.pos - tk.pre.length)) with pos := tk.pos }
  refine ⟨{ nodes := (st1.flush f).acc, pos := (st1.flush f).pos, stopTok := some tk, err := none },
    Ev.of_const (fun rec => ?_), ?_, ?_, rfl, rfl⟩
  · show loopStep env rec _ _ child st = _
    rw [loopStep_tok htol hpk, hs]
    simp only [if_true]
    unfold loopFinish
    rfl
  · show mergeX (eraseNodes env.s (st1.flush f).acc) = _
    rw [(shX_flush env.s f st1).1]
    exact shX_push env.s st tk.pre _ _
  · intro h
    show mergeX (eraseNodes env.s (st1.flush f).acc) = eraseNodes env.s (st1.flush f).acc
    rw [(shX_flush env.s f st1).1]
    exact canon_shX (canon_push h _ _ _)

/-- the collector at the end of the input -/
theorem loopX_eos (htol : env.tol = false) (f : PSFields) {st : LoopSt} (hd : env.s.drop st.pos = []) :
    ∃ e : LoopEnd, Ev env (.loop f stop child st) (.loopEnd e) ∧
      eraseNodes env.s e.nodes = shX env.s st ∧ e.err = none ∧ e.stopTok = none ∧ e.pos = st.pos := by
  have hpk := peek_eos (mkPS f) hd
  refine ⟨{ nodes := (st.flush f).acc, pos := (st.flush f).pos, stopTok := none, err := none },
    Ev.of_const (fun rec => ?_), (shX_flush env.s f st).1, rfl, rfl, (shX_flush env.s f st).2.2⟩
  show loopStep env rec _ _ child st = _
  rw [loopStep_eos htol hpk]
  unfold loopFinish
  rfl

/-- the collector in front of whitespace that runs to the end of the input -/
theorem loopX_eos_ws (htol : env.tol = false) (f : PSFields) {st : LoopSt} {w : Str} (hd : env.s.drop st.pos = w)
    (hw : isWs w = true) (hnl : countNl w < 2) :
    ∃ e : LoopEnd, Ev env (.loop f .none child st) (.loopEnd e) ∧
      mergeX (eraseNodes env.s e.nodes) = mergeX (shX env.s st ++ pendX w) ∧
      (Canon env.s st → mergeX (eraseNodes env.s e.nodes) = eraseNodes env.s e.nodes) ∧
      e.err = none ∧ e.stopTok = none ∧ e.pos = st.pos + w.length := by
  cases w with
  | nil =>
    obtain ⟨e, h1, h2, h3, h4, h5⟩ := loopX_eos (stop := .none) (child := child) htol f hd
    refine ⟨e, h1, by rw [h2]; simp [pendX], ?_, h3, h4, by simpa using h5⟩
    intro hc
    rw [h2]
    exact canon_shX hc
  | cons c w =>
    have hpk : peekImpl (mkPS f) env.s st.pos = .eos (c :: w) := peekImpl_ws_eos hd hw hnl
    let st2 : LoopSt := { (st.push ((c :: w) ++ []) (st.pos + (c :: w).length - (c :: w).length)) with pos := st.pos + (c :: w).length }
    have hd2 : env.s.drop st2.pos = [] := by
      show env.s.drop (st.pos + (c :: w).length) = []
      have := drop_add_of_drop (a := c :: w) (rest := []) (by rw [hd, List.append_nil])
      exact this
    obtain ⟨e, h1, h2, h3, h4, h5⟩ := loopX_eos (stop := .none) (child := child) htol f hd2
    refine ⟨e, ?_, ?_, ?_, h3, h4, h5⟩
    · refine Ev.of_tail (fun rec => ?_) h1
      show loopStep env rec _ _ child st = _
      unfold loopStep loopRead
      rw [htol, peekTok_false, hpk]
      rfl
    · rw [h2]
      have := shX_push env.s st ((c :: w) ++ []) (st.pos + (c :: w).length - (c :: w).length) (st.pos + (c :: w).length)
      have e : pendX ((c :: w) ++ []) = pendX (c :: w) := by rw [List.append_nil]
      rw [e] at this
      exact this
    · intro hc
      rw [h2]
      exact canon_shX (canon_push hc _ _ _)

end generic

/-- a body: the collector reaches the stop token; the nodes are exactly the merged exact nodes -/
theorem bodyX_runs {env : Pylx.Env} {f : PSFields} {stop : StopTok} {child : ChildPS} {pos n : Nat} {tr : List XNode} {tk : Token}
    (htol : env.tol = false) (hr : ReachesX env f stop child { pos := pos } tr n)
    (hpk : peekImpl (mkPS f) env.s (pos + n) = .tok tk) (hs : stop.test tk = true) (hsome : stop.isSome = true) :
    ∃ a b ns, Ev env (.pc (.general stop true child) f pos) (.ok (.list a b ns) tk.posEnd) ∧
      eraseNodes env.s ns = mergeX (tr ++ pendX tk.pre) := by
  obtain ⟨st', hp, hs', hc, hk⟩ := hr
  have hp' : st'.pos = pos + n := hp
  obtain ⟨e, he, hsh, hcan, herr, hst⟩ := loopX_stop (child := child) htol (st := st') (by rw [hp']; exact hpk) hs
  have := general_of_loop_stop htol (hk _ he) herr hst hsome
  refine ⟨_, _, e.nodes, this, ?_⟩
  rw [← hcan (hc (canon_start env.s pos)), hsh]
  have : mergeX (shX env.s st') = mergeX tr := by rw [hs']; rfl
  exact mergeX_append_left this _

/-! ### source slices -/

theorem slice_of_drop {s : Str} {p : Nat} {A R : Str} (h : s.drop p = A ++ R) : slice s p (p + A.length) = A :=
  slice_of_prefix s A p ⟨R, h.symm⟩

/-- two positions in front of the same non-empty tail -/
theorem pos_of_drops {s : Str} {a b : Nat} {B w T : Str} (ha : s.drop a = B ++ T) (hb : s.drop b = w ++ T) (hT : T ≠ []) :
    a + B.length = b + w.length := by
  have h1 : (s.drop a).length = (B ++ T).length := by rw [ha]
  have h2 : (s.drop b).length = (w ++ T).length := by rw [hb]
  simp only [List.length_drop, List.length_append] at h1 h2
  have : 0 < T.length := List.length_pos_iff.mpr hT
  omega

end Pylx.L2T.C03S
