/-
  C12 — latex2text content filters (comments, math modes, discarded constructs).

  Tree-level theorems about the renderer model `Pylx.L2T` for EVERY tree (hence also for what tolerant parsing
  returns), every option set, arbitrary text / walker databases and library oracles.

  Part A (non-interference): a similarity relation `NodeSim E` on trees — equal up to the parts the property
  declares invisible (comment texts when `keep_comments` is off, formulas and equation environments under
  `math_mode='remove'`, arguments / bodies of discarded constructs) — and `render` is invariant under it.
  Part B (visibility): `InNode E n t` — the node `t` sits in *rendered position* of `n` — and everything `t`
  emits is found (as an infix) in what `n` emits.
-/
import Pylx.L2TDrv
namespace Pylx.L2T.C12
open Pylx Pylx.L2T

/-! ### unfolding lemmas for the model -/

def argThunks (E : Env) (c : Sls) (args : Option (List Arg)) (body bodyEq : R Str) (bodyNone : Bool)
    (matrix : R (List (List Str))) : Thunks :=
  { noArgd := args.isNone, n := (args.getD []).length, absent := absentAt (args.getD []),
    each := argsEachO E c args, single := fun k => singleAtO E c k args, contents := fun k => contentsAtO E c k args,
    body := body, bodyEq := bodyEq, bodyNone := bodyNone, matrix := matrix }

def macThunks (E : Env) (c : Sls) (args : Option (List Arg)) : Thunks :=
  argThunks E c args (R.pure []) (R.pure []) true (R.pure [])

def envThunks (E : Env) (c : Sls) (args : Option (List Arg)) (body : Option (List Node)) : Thunks :=
  argThunks E c args (renderBody E c body) (renderBody E c.enterEq body) body.isNone (matrixBody E c body)

def macSpec (E : Env) (name : Str) : TSpec := (lookupFirst name E.db.macros).getD ⟨true, true, .none⟩
def envSpec (E : Env) (name : Str) : TSpec := (lookupFirst name E.db.envs).getD ⟨true, false, .none⟩

theorem renderNode_mac (E : Env) (c : Sls) (p e : Nat) (ps : PSInfo) (name post : Str) (args : Option (List Arg)) :
    renderNode E c (.mac p e ps name post args) =
      applySpec E ⟨.mac, name, p, e⟩ (macThunks E c args) (macSpec E name) (argsCatO E c args) := by
  unfold renderNode; rfl

theorem renderNode_env (E : Env) (c : Sls) (p e : Nat) (ps : PSInfo) (name : Str) (args : Option (List Arg))
    (body : Option (List Node)) :
    renderNode E c (.env p e ps name args body) =
      applySpec E ⟨.env, name, p, e⟩ (envThunks E c args body) (envSpec E name) (renderBody E c body) := by
  unfold renderNode; rfl

theorem renderNode_specials (E : Env) (c : Sls) (p e : Nat) (ps : PSInfo) (ch : Str) (args : Option (List Arg)) :
    renderNode E c (.specials p e ps ch args) =
      match lookupFirst ch E.db.specials with
      | none => R.pure ch
      | some sp => applySpec E ⟨.specials, ch, p, e⟩ (macThunks E c args) sp (argsCatO E c args) := by
  unfold renderNode; rfl

theorem renderNode_math (E : Env) (c : Sls) (p e : Nat) (ps : PSInfo) (d : Bool) (o cl : Str) (body : Option (List Node)) :
    renderNode E c (.math p e ps d o cl body) = mathText E false d o cl p e (renderBody E c.enterEq body) := by
  unfold renderNode; rfl

theorem renderNode_group (E : Env) (c : Sls) (p e : Nat) (ps : PSInfo) (o cl : Str) (body : Option (List Node)) :
    renderNode E c (.group p e ps o cl body) =
      R.bind (renderBody E c body) fun t =>
        R.pure (if E.opts.keepBraced && (t.length : Int) ≥ E.opts.minLen then o ++ t ++ cl else t) := by
  unfold renderNode; rfl

theorem renderNode_comment (E : Env) (c : Sls) (p e : Nat) (ps : PSInfo) (cm post : Str) :
    renderNode E c (.comment p e ps cm post) =
      R.pure (
        if E.opts.keepComments then
          (if c.ac then '%' :: cm ++ (if post.isEmpty then [] else ['\n']) else '%' :: cm ++ post)
        else (if c.ac then [] else post)) := by
  unfold renderNode; rfl

/-! ### Part A: similarity -/

/-- the construct contributes nothing: no (truthy) replacement and `discard = True` -/
def Discarded (E : Env) (sp : TSpec) : Prop :=
  replTruthy E.lib sp.repl = false ∧ sp.hasDiscard = true ∧ sp.discard = true

/-- same `nodeargd is None`, same length, same pattern of absent arguments -/
def ArgsOShape (a a' : Option (List Arg)) : Prop :=
  a.isNone = a'.isNone ∧ (a.getD []).map isAbsent = (a'.getD []).map isAbsent

mutual
/-- `n'` equals `n` up to the parts declared invisible under the options / databases of `E` -/
def NodeSim (E : Env) : Node → Node → Prop
  | .chars p e ps ch, n' => n' = .chars p e ps ch
  | .comment p e ps cm post, n' =>
    ∃ cm', n' = .comment p e ps cm' post ∧ (E.opts.keepComments = false ∨ cm' = cm)
  | .group p e ps o cl b, n' => ∃ b', n' = .group p e ps o cl b' ∧ BodySim E b b'
  | .mac p e ps name post a, n' =>
    ∃ a', n' = .mac p e ps name post a' ∧ (ArgsOSim E a a' ∨ (Discarded E (macSpec E name) ∧ ArgsOShape a a'))
  | .env p e ps name a b, n' =>
    ∃ a' b', n' = .env p e ps name a' b' ∧
      ((ArgsOSim E a a' ∧ BodySim E b b') ∨ Discarded E (envSpec E name) ∨
       (E.opts.mathMode = .remove ∧ (envSpec E name).repl = .eqEnv))
  | .specials p e ps ch a, n' =>
    ∃ a', n' = .specials p e ps ch a' ∧
      (ArgsOSim E a a' ∨ ∃ sp, lookupFirst ch E.db.specials = some sp ∧ Discarded E sp)
  | .math p e ps d o cl b, n' =>
    (∃ b', n' = .math p e ps d o cl b' ∧ BodySim E b b') ∨
    (E.opts.mathMode = .remove ∧ ∃ p' e' ps' d' o' cl' b', n' = .math p' e' ps' d' o' cl' b')
def BodySim (E : Env) : Option (List Node) → Option (List Node) → Prop
  | none, b' => b' = none
  | some ns, b' => ∃ ns', b' = some ns' ∧ ListSim E ns ns'
def ListSim (E : Env) : List Node → List Node → Prop
  | [], l' => l' = []
  | n :: ns, l' => ∃ n' ns', l' = n' :: ns' ∧ NodeSim E n n' ∧ ListSim E ns ns'
def ArgsOSim (E : Env) : Option (List Arg) → Option (List Arg) → Prop
  | none, a' => a' = none
  | some l, a' => ∃ l', a' = some l' ∧ ArgsSim E l l'
def ArgsSim (E : Env) : List Arg → List Arg → Prop
  | [], l' => l' = []
  | a :: l, l' => ∃ a' l'', l' = a' :: l'' ∧ ArgSim E a a' ∧ ArgsSim E l l''
def ArgSim (E : Env) : Arg → Arg → Prop
  | .absent, a' => a' = .absent
  | .node n, a' => ∃ n', a' = .node n' ∧ NodeSim E n n'
  | .list p e ns, a' => ∃ ns', a' = .list p e ns' ∧ ListSim E ns ns'
end

/-! #### shape consequences -/

theorem argSim_absent {E : Env} : ∀ {a a' : Arg}, ArgSim E a a' → isAbsent a = isAbsent a'
  | .absent, _, h => by simp only [ArgSim] at h; subst h; rfl
  | .node _, _, h => by simp only [ArgSim] at h; obtain ⟨n', rfl, _⟩ := h; rfl
  | .list _ _ _, _, h => by simp only [ArgSim] at h; obtain ⟨n', rfl, _⟩ := h; rfl

theorem argsSim_shape {E : Env} : ∀ {l l' : List Arg}, ArgsSim E l l' → l.map isAbsent = l'.map isAbsent
  | [], _, h => by simp only [ArgsSim] at h; subst h; rfl
  | a :: l, _, h => by
    simp only [ArgsSim] at h
    obtain ⟨a', l'', rfl, ha, hl⟩ := h
    simp only [List.map_cons, argSim_absent ha, argsSim_shape hl]

theorem argsOSim_shape {E : Env} : ∀ {a a' : Option (List Arg)}, ArgsOSim E a a' → ArgsOShape a a'
  | none, _, h => by simp only [ArgsOSim] at h; subst h; exact ⟨rfl, rfl⟩
  | some l, _, h => by
    simp only [ArgsOSim] at h
    obtain ⟨l', rfl, hl⟩ := h
    exact ⟨rfl, argsSim_shape hl⟩

theorem shape_length {a a' : Option (List Arg)} (h : ArgsOShape a a') : (a.getD []).length = (a'.getD []).length := by
  have := congrArg List.length h.2
  simpa using this

theorem shape_absentAt {a a' : Option (List Arg)} (h : ArgsOShape a a') : absentAt (a.getD []) = absentAt (a'.getD []) := by
  funext k
  have := congrArg (fun l => l[k]?) h.2
  simp only [List.getElem?_map] at this
  unfold absentAt
  cases h1 : (a.getD [])[k]? <;> cases h2 : (a'.getD [])[k]? <;> simp_all

theorem isEmpty_of_length {α : Type} {l l' : List α} (h : l.length = l'.length) : l.isEmpty = l'.isEmpty := by
  cases l <;> cases l' <;> simp_all

theorem isBare_shape (E : Env) (p e : Nat) (ps : PSInfo) (name post : Str) {a a' : Option (List Arg)}
    (h : ArgsOShape a a') :
    isBare E (some (.mac p e ps name post a)) = isBare E (some (.mac p e ps name post a')) := by
  have hlen := shape_length h
  have habs := shape_absentAt h
  obtain ⟨h1, h2⟩ := h
  cases a with
  | none =>
    cases a' with
    | none => rfl
    | some l' => cases h1
  | some l =>
    cases a' with
    | none => cases h1
    | some l' =>
      simp only [Option.getD_some] at hlen habs
      cases l with
      | nil =>
        cases l' with
        | nil => rfl
        | cons b l' => simp at hlen
      | cons b l =>
        cases l' with
        | nil => simp at hlen
        | cons b' l' =>
          simp only [isBare]
          split
          · rfl
          · rename_i k hk
            have hk' := congrFun habs k
            unfold absentAt at hk'
            have hd : ((b :: l).drop (legacyOf (((walkerSpec E .mac name).map argspecOf).getD [])).off).isEmpty =
                ((b' :: l').drop (legacyOf (((walkerSpec E .mac name).map argspecOf).getD [])).off).isEmpty := by
              apply isEmpty_of_length
              rw [List.length_drop, List.length_drop, hlen]
            cases h1 : (b :: l)[k]? with
            | none =>
              have : (b' :: l')[k]? = none := by
                rw [List.getElem?_eq_none_iff] at h1 ⊢; omega
              rw [this]
            | some x =>
              have hlt : k < (b' :: l').length := by
                have : k < (b :: l).length := by
                  by_cases hlt : k < (b :: l).length
                  · exact hlt
                  · rw [List.getElem?_eq_none (by omega)] at h1; cases h1
                omega
              rw [List.getElem?_eq_getElem hlt]
              rw [h1, List.getElem?_eq_getElem hlt] at hk'
              simp only at hk'
              simp only [hk', hd]

/-- what the loops of `nodelist_to_text` / the matrix formatter look at in a neighbouring node -/
structure Alike (E : Env) (n n' : Node) : Prop where
  bare : isBare E (some n) = isBare E (some n')
  post : postSpaceOf (some n) = postSpaceOf (some n')
  chars : isCharsNode n = isCharsNode n'
  spec : ∀ s, isSpecialsNamed s n = isSpecialsNamed s n'
  mac : ∀ s, isMacroNamed s n = isMacroNamed s n'

theorem alike_refl (E : Env) (n : Node) : Alike E n n := ⟨rfl, rfl, rfl, fun _ => rfl, fun _ => rfl⟩

theorem nodeSim_alike {E : Env} : ∀ {n n' : Node}, NodeSim E n n' → Alike E n n'
  | .chars .., _, h => by simp only [NodeSim] at h; subst h; exact alike_refl _ _
  | .comment .., _, h => by
    simp only [NodeSim] at h; obtain ⟨cm', rfl, _⟩ := h
    exact ⟨rfl, rfl, rfl, fun _ => rfl, fun _ => rfl⟩
  | .group .., _, h => by
    simp only [NodeSim] at h; obtain ⟨b', rfl, _⟩ := h
    exact ⟨rfl, rfl, rfl, fun _ => rfl, fun _ => rfl⟩
  | .mac p e ps name post a, _, h => by
    simp only [NodeSim] at h; obtain ⟨a', rfl, h⟩ := h
    have hs : ArgsOShape a a' := by
      rcases h with h | h
      · exact argsOSim_shape h
      · exact h.2
    exact ⟨isBare_shape E p e ps name post hs, rfl, rfl, fun _ => rfl, fun _ => rfl⟩
  | .env .., _, h => by
    simp only [NodeSim] at h; obtain ⟨a', b', rfl, _⟩ := h
    exact ⟨rfl, rfl, rfl, fun _ => rfl, fun _ => rfl⟩
  | .specials .., _, h => by
    simp only [NodeSim] at h; obtain ⟨a', rfl, _⟩ := h
    exact ⟨rfl, rfl, rfl, fun _ => rfl, fun _ => rfl⟩
  | .math .., _, h => by
    simp only [NodeSim] at h
    rcases h with ⟨b', rfl, _⟩ | ⟨_, p', e', ps', d', o', cl', b', rfl⟩
    · exact ⟨rfl, rfl, rfl, fun _ => rfl, fun _ => rfl⟩
    · exact ⟨rfl, rfl, rfl, fun _ => rfl, fun _ => rfl⟩

/-- the previous-node hints agree -/
def PrevAlike (E : Env) (prev prev' : Option Node) : Prop :=
  isBare E prev = isBare E prev' ∧ postSpaceOf prev = postSpaceOf prev'

theorem prevAlike_none (E : Env) : PrevAlike E none none := ⟨rfl, rfl⟩

theorem preOf_alike {E : Env} (c : Sls) {prev prev' : Option Node} (hp : PrevAlike E prev prev') {n n' : Node}
    (hn : Alike E n n') : preOf E c prev n = preOf E c prev' n' := by
  unfold preOf
  rw [hp.1, hp.2, hn.chars]

/-! #### a discarded construct emits nothing -/

theorem applySpec_discarded {E : Env} {sp : TSpec} (h : Discarded E sp) (info : NodeInfo) (th : Thunks) (dflt : R Str) :
    applySpec E info th sp dflt = R.pure [] := by
  obtain ⟨h1, h2, h3⟩ := h
  unfold applySpec
  simp only [h1, h2, h3, Bool.false_eq_true, if_false, Bool.not_true, if_true]

theorem applySpec_eqEnv_remove {E : Env} {sp : TSpec} (hm : E.opts.mathMode = .remove) (h : sp.repl = .eqEnv)
    (name : Str) (p e : Nat) (th : Thunks) (dflt : R Str) :
    applySpec E ⟨.env, name, p, e⟩ th sp dflt = R.pure [] := by
  unfold applySpec
  simp only [h, replTruthy, if_true, applyCallable, mathText, hm]
  rfl

/-! #### the renderer is invariant under similarity -/

theorem argThunks_congr (E : Env) (c : Sls) {a a' : Option (List Arg)} (hs : ArgsOShape a a')
    (h1 : argsEachO E c a = argsEachO E c a') (h2 : ∀ k, singleAtO E c k a = singleAtO E c k a')
    (h3 : ∀ k, contentsAtO E c k a = contentsAtO E c k a') (body bodyEq : R Str) (bn : Bool) (m : R (List (List Str))) :
    argThunks E c a body bodyEq bn m = argThunks E c a' body bodyEq bn m := by
  have h2' : (fun k => singleAtO E c k a) = (fun k => singleAtO E c k a') := funext h2
  have h3' : (fun k => contentsAtO E c k a) = (fun k => contentsAtO E c k a') := funext h3
  simp only [argThunks, h1, h2', h3', hs.1, shape_length hs, shape_absentAt hs]

mutual
theorem renderNode_sim (E : Env) : ∀ (n n' : Node) (c : Sls), NodeSim E n n' → renderNode E c n = renderNode E c n'
  | .chars .., _, c, h => by simp only [NodeSim] at h; subst h; rfl
  | .comment p e ps cm post, _, c, h => by
    simp only [NodeSim] at h
    obtain ⟨cm', rfl, h⟩ := h
    rcases h with h | h
    · simp only [renderNode_comment, h, Bool.false_eq_true, if_false]
    · subst h; rfl
  | .group p e ps o cl b, _, c, h => by
    simp only [NodeSim] at h
    obtain ⟨b', rfl, h⟩ := h
    simp only [renderNode_group, renderBody_sim E b b' c h]
  | .mac p e ps name post a, _, c, h => by
    simp only [NodeSim] at h
    obtain ⟨a', rfl, h⟩ := h
    simp only [renderNode_mac]
    rcases h with h | ⟨hd, _⟩
    · have ht : macThunks E c a = macThunks E c a' :=
        argThunks_congr E c (argsOSim_shape h) (argsEachO_sim E a a' c h) (fun k => singleAtO_sim E a a' c k h)
          (fun k => contentsAtO_sim E a a' c k h) _ _ _ _
      rw [ht, argsCatO_sim E a a' c h]
    · rw [applySpec_discarded hd, applySpec_discarded hd]
  | .env p e ps name a b, _, c, h => by
    simp only [NodeSim] at h
    obtain ⟨a', b', rfl, h⟩ := h
    simp only [renderNode_env]
    rcases h with ⟨ha, hb⟩ | hd | ⟨hm, hr⟩
    · have ht : envThunks E c a b = envThunks E c a' b' := by
        unfold envThunks
        rw [renderBody_sim E b b' c hb, renderBody_sim E b b' c.enterEq hb, matrixBody_sim E b b' c hb]
        have hn : b.isNone = b'.isNone := by
          cases b with
          | none => simp only [BodySim] at hb; subst hb; rfl
          | some ns => simp only [BodySim] at hb; obtain ⟨ns', rfl, _⟩ := hb; rfl
        rw [hn]
        exact argThunks_congr E c (argsOSim_shape ha) (argsEachO_sim E a a' c ha) (fun k => singleAtO_sim E a a' c k ha)
          (fun k => contentsAtO_sim E a a' c k ha) _ _ _ _
      rw [ht, renderBody_sim E b b' c hb]
    · rw [applySpec_discarded hd, applySpec_discarded hd]
    · rw [applySpec_eqEnv_remove hm hr, applySpec_eqEnv_remove hm hr]
  | .specials p e ps ch a, _, c, h => by
    simp only [NodeSim] at h
    obtain ⟨a', rfl, h⟩ := h
    simp only [renderNode_specials]
    rcases h with h | ⟨sp, hl, hd⟩
    · have ht : macThunks E c a = macThunks E c a' :=
        argThunks_congr E c (argsOSim_shape h) (argsEachO_sim E a a' c h) (fun k => singleAtO_sim E a a' c k h)
          (fun k => contentsAtO_sim E a a' c k h) _ _ _ _
      rw [ht, argsCatO_sim E a a' c h]
    · simp only [hl]
      rw [applySpec_discarded hd, applySpec_discarded hd]
  | .math p e ps d o cl b, _, c, h => by
    simp only [NodeSim] at h
    rcases h with ⟨b', rfl, h⟩ | ⟨hm, p', e', ps', d', o', cl', b', rfl⟩
    · simp only [renderNode_math, renderBody_sim E b b' c.enterEq h]
    · simp only [renderNode_math, mathText, hm]
theorem renderBody_sim (E : Env) : ∀ (b b' : Option (List Node)) (c : Sls), BodySim E b b' → renderBody E c b = renderBody E c b'
  | none, _, c, h => by simp only [BodySim] at h; subst h; rfl
  | some ns, _, c, h => by
    simp only [BodySim] at h
    obtain ⟨ns', rfl, h⟩ := h
    unfold renderBody
    exact renderList_sim E ns ns' c none none [] (prevAlike_none E) h
theorem renderList_sim (E : Env) : ∀ (ns ns' : List Node) (c : Sls) (prev prev' : Option Node) (acc : Str),
    PrevAlike E prev prev' → ListSim E ns ns' → renderList E c prev acc ns = renderList E c prev' acc ns'
  | [], _, c, prev, prev', acc, _, h => by
    simp only [ListSim] at h; subst h
    unfold renderList; rfl
  | n :: ns, _, c, prev, prev', acc, hp, h => by
    simp only [ListSim] at h
    obtain ⟨n', ns', rfl, hn, hl⟩ := h
    have ha := nodeSim_alike hn
    unfold renderList
    rw [preOf_alike c hp ha, renderNode_sim E n n' c hn]
    congr 1; funext pre; congr 1; funext t
    exact renderList_sim E ns ns' c (some n) (some n') _ ⟨ha.bare, ha.post⟩ hl
theorem groupContents_sim (E : Env) : ∀ (a a' : Arg) (c : Sls), ArgSim E a a' → groupContents E c a = groupContents E c a'
  | .absent, _, c, h => by simp only [ArgSim] at h; subst h; rfl
  | .list p e ns, _, c, h => by
    simp only [ArgSim] at h
    obtain ⟨ns', rfl, h⟩ := h
    unfold groupContents
    exact renderList_sim E ns ns' c none none [] (prevAlike_none E) h
  | .node n, _, c, h => by
    simp only [ArgSim] at h
    obtain ⟨n', rfl, h⟩ := h
    cases n with
    | group p e ps o cl b =>
      simp only [NodeSim] at h
      obtain ⟨b', rfl, h⟩ := h
      unfold groupContents
      exact renderBody_sim E b b' c h
    | chars p e ps ch =>
      have h' := h
      simp only [NodeSim] at h'; subst h'
      rfl
    | comment p e ps cm post =>
      have h' := h
      simp only [NodeSim] at h'; obtain ⟨cm', rfl, _⟩ := h'
      unfold groupContents
      exact renderNode_sim E _ _ c h
    | mac p e ps name post a =>
      have h' := h
      simp only [NodeSim] at h'; obtain ⟨a', rfl, _⟩ := h'
      unfold groupContents
      exact renderNode_sim E _ _ c h
    | env p e ps name a b =>
      have h' := h
      simp only [NodeSim] at h'; obtain ⟨a', b', rfl, _⟩ := h'
      unfold groupContents
      exact renderNode_sim E _ _ c h
    | specials p e ps ch a =>
      have h' := h
      simp only [NodeSim] at h'; obtain ⟨a', rfl, _⟩ := h'
      unfold groupContents
      exact renderNode_sim E _ _ c h
    | math p e ps d o cl b =>
      have h' := h
      simp only [NodeSim] at h'
      rcases h' with ⟨b', rfl, _⟩ | ⟨_, p', e', ps', d', o', cl', b', rfl⟩
      · unfold groupContents
        exact renderNode_sim E _ _ c h
      · unfold groupContents
        exact renderNode_sim E _ _ c h
theorem singleArg_sim (E : Env) : ∀ (a a' : Arg) (c : Sls), ArgSim E a a' → singleArg E c a = singleArg E c a'
  | .absent, _, c, h => by simp only [ArgSim] at h; subst h; rfl
  | .list p e ns, _, c, h => by
    simp only [ArgSim] at h
    obtain ⟨ns', rfl, _⟩ := h
    unfold singleArg; rfl
  | .node n, _, c, h => by
    simp only [ArgSim] at h
    obtain ⟨n', rfl, h⟩ := h
    unfold singleArg
    exact renderNode_sim E n n' c h
theorem argsCat_sim (E : Env) : ∀ (l l' : List Arg) (c : Sls), ArgsSim E l l' → argsCat E c l = argsCat E c l'
  | [], _, c, h => by simp only [ArgsSim] at h; subst h; rfl
  | a :: l, _, c, h => by
    simp only [ArgsSim] at h
    obtain ⟨a', l', rfl, ha, hl⟩ := h
    unfold argsCat
    rw [groupContents_sim E a a' c ha, argsCat_sim E l l' c hl]
theorem argsEach_sim (E : Env) : ∀ (l l' : List Arg) (c : Sls), ArgsSim E l l' → argsEach E c l = argsEach E c l'
  | [], _, c, h => by simp only [ArgsSim] at h; subst h; rfl
  | a :: l, _, c, h => by
    simp only [ArgsSim] at h
    obtain ⟨a', l', rfl, ha, hl⟩ := h
    unfold argsEach
    rw [groupContents_sim E a a' c ha, argsEach_sim E l l' c hl]
theorem singleAt_sim (E : Env) : ∀ (l l' : List Arg) (c : Sls) (k : Nat), ArgsSim E l l' → singleAt E c k l = singleAt E c k l'
  | [], _, c, k, h => by simp only [ArgsSim] at h; subst h; rfl
  | a :: l, _, c, 0, h => by
    simp only [ArgsSim] at h
    obtain ⟨a', l', rfl, ha, hl⟩ := h
    unfold singleAt
    exact singleArg_sim E a a' c ha
  | a :: l, _, c, k + 1, h => by
    simp only [ArgsSim] at h
    obtain ⟨a', l', rfl, ha, hl⟩ := h
    unfold singleAt
    exact singleAt_sim E l l' c k hl
theorem contentsAt_sim (E : Env) : ∀ (l l' : List Arg) (c : Sls) (k : Nat), ArgsSim E l l' → contentsAt E c k l = contentsAt E c k l'
  | [], _, c, k, h => by simp only [ArgsSim] at h; subst h; rfl
  | a :: l, _, c, 0, h => by
    simp only [ArgsSim] at h
    obtain ⟨a', l', rfl, ha, hl⟩ := h
    unfold contentsAt
    exact groupContents_sim E a a' c ha
  | a :: l, _, c, k + 1, h => by
    simp only [ArgsSim] at h
    obtain ⟨a', l', rfl, ha, hl⟩ := h
    unfold contentsAt
    exact contentsAt_sim E l l' c k hl
theorem argsCatO_sim (E : Env) : ∀ (o o' : Option (List Arg)) (c : Sls), ArgsOSim E o o' → argsCatO E c o = argsCatO E c o'
  | none, _, c, h => by simp only [ArgsOSim] at h; subst h; rfl
  | some l, _, c, h => by
    simp only [ArgsOSim] at h
    obtain ⟨l', rfl, h⟩ := h
    unfold argsCatO
    exact argsCat_sim E l l' c h
theorem argsEachO_sim (E : Env) : ∀ (o o' : Option (List Arg)) (c : Sls), ArgsOSim E o o' → argsEachO E c o = argsEachO E c o'
  | none, _, c, h => by simp only [ArgsOSim] at h; subst h; rfl
  | some l, _, c, h => by
    simp only [ArgsOSim] at h
    obtain ⟨l', rfl, h⟩ := h
    unfold argsEachO
    exact argsEach_sim E l l' c h
theorem singleAtO_sim (E : Env) : ∀ (o o' : Option (List Arg)) (c : Sls) (k : Nat), ArgsOSim E o o' →
    singleAtO E c k o = singleAtO E c k o'
  | none, _, c, k, h => by simp only [ArgsOSim] at h; subst h; rfl
  | some l, _, c, k, h => by
    simp only [ArgsOSim] at h
    obtain ⟨l', rfl, h⟩ := h
    unfold singleAtO
    exact singleAt_sim E l l' c k h
theorem contentsAtO_sim (E : Env) : ∀ (o o' : Option (List Arg)) (c : Sls) (k : Nat), ArgsOSim E o o' →
    contentsAtO E c k o = contentsAtO E c k o'
  | none, _, c, k, h => by simp only [ArgsOSim] at h; subst h; rfl
  | some l, _, c, k, h => by
    simp only [ArgsOSim] at h
    obtain ⟨l', rfl, h⟩ := h
    unfold contentsAtO
    exact contentsAt_sim E l l' c k h
theorem matrixBody_sim (E : Env) : ∀ (b b' : Option (List Node)) (c : Sls), BodySim E b b' → matrixBody E c b = matrixBody E c b'
  | none, _, c, h => by simp only [BodySim] at h; subst h; rfl
  | some ns, _, c, h => by
    simp only [BodySim] at h
    obtain ⟨ns', rfl, h⟩ := h
    unfold matrixBody
    exact matrixLoop_sim E ns ns' c none none none [] [] (prevAlike_none E) h
theorem matrixLoop_sim (E : Env) : ∀ (ns ns' : List Node) (c : Sls) (prev prev' : Option Node) (cell : Option Str)
    (row : List Str) (rows : List (List Str)), PrevAlike E prev prev' → ListSim E ns ns' →
    matrixLoop E c prev cell row rows ns = matrixLoop E c prev' cell row rows ns'
  | [], _, c, prev, prev', cell, row, rows, _, h => by
    simp only [ListSim] at h; subst h
    unfold matrixLoop; rfl
  | n :: ns, _, c, prev, prev', cell, row, rows, hp, h => by
    simp only [ListSim] at h
    obtain ⟨n', ns', rfl, hn, hl⟩ := h
    have ha := nodeSim_alike hn
    unfold matrixLoop
    rw [← ha.spec, ← ha.mac, preOf_alike c hp ha, renderNode_sim E n n' c hn,
      matrixLoop_sim E ns ns' c none none none _ rows (prevAlike_none E) hl,
      matrixLoop_sim E ns ns' c none none none [] _ (prevAlike_none E) hl]
    congr 1; congr 1; congr 1; funext pre; congr 1; funext t
    exact matrixLoop_sim E ns ns' c (some n) (some n') _ _ _ ⟨ha.bare, ha.post⟩ hl
end

/-- **non-interference, relational form**: two forests that are equal up to the invisible parts render alike -/
theorem C12_noninterference (opts : Opts) (db : TextDb) (ctx : Ctx) (lib : Lib) (src : Str) (ns ns' : List Node)
    (h : ListSim { opts := opts, db := db, ctx := ctx, lib := lib, src := src } ns ns') :
    render opts db ctx lib src ns = render opts db ctx lib src ns' := by
  unfold render
  rw [renderList_sim _ ns ns' _ none none [] (prevAlike_none _) h]

/-! #### rewriting comment texts -/

mutual
/-- rewrite the text of every comment node (`g` sees the node's position and its text) -/
def mapCommentsNode (g : Nat → Str → Str) : Node → Node
  | .chars p e ps ch => .chars p e ps ch
  | .comment p e ps cm post => .comment p e ps (g p cm) post
  | .group p e ps o cl b => .group p e ps o cl (mapCommentsBody g b)
  | .mac p e ps name post a => .mac p e ps name post (mapCommentsArgsO g a)
  | .env p e ps name a b => .env p e ps name (mapCommentsArgsO g a) (mapCommentsBody g b)
  | .specials p e ps ch a => .specials p e ps ch (mapCommentsArgsO g a)
  | .math p e ps d o cl b => .math p e ps d o cl (mapCommentsBody g b)
def mapCommentsBody (g : Nat → Str → Str) : Option (List Node) → Option (List Node)
  | none => none
  | some ns => some (mapComments g ns)
def mapComments (g : Nat → Str → Str) : List Node → List Node
  | [] => []
  | n :: ns => mapCommentsNode g n :: mapComments g ns
def mapCommentsArgsO (g : Nat → Str → Str) : Option (List Arg) → Option (List Arg)
  | none => none
  | some l => some (mapCommentsArgs g l)
def mapCommentsArgs (g : Nat → Str → Str) : List Arg → List Arg
  | [] => []
  | a :: l => mapCommentsArg g a :: mapCommentsArgs g l
def mapCommentsArg (g : Nat → Str → Str) : Arg → Arg
  | .absent => .absent
  | .node n => .node (mapCommentsNode g n)
  | .list p e ns => .list p e (mapComments g ns)
end

mutual
theorem sim_mapCommentsNode (E : Env) (hk : E.opts.keepComments = false) (g : Nat → Str → Str) :
    ∀ n : Node, NodeSim E n (mapCommentsNode g n)
  | .chars .. => by simp only [mapCommentsNode, NodeSim]
  | .comment p e ps cm post => by
    simp only [mapCommentsNode, NodeSim]; exact ⟨_, rfl, Or.inl hk⟩
  | .group p e ps o cl b => by
    simp only [mapCommentsNode, NodeSim]; exact ⟨_, rfl, sim_mapCommentsBody E hk g b⟩
  | .mac p e ps name post a => by
    simp only [mapCommentsNode, NodeSim]; exact ⟨_, rfl, Or.inl (sim_mapCommentsArgsO E hk g a)⟩
  | .env p e ps name a b => by
    simp only [mapCommentsNode, NodeSim]
    exact ⟨_, _, rfl, Or.inl ⟨sim_mapCommentsArgsO E hk g a, sim_mapCommentsBody E hk g b⟩⟩
  | .specials p e ps ch a => by
    simp only [mapCommentsNode, NodeSim]; exact ⟨_, rfl, Or.inl (sim_mapCommentsArgsO E hk g a)⟩
  | .math p e ps d o cl b => by
    simp only [mapCommentsNode, NodeSim]; exact Or.inl ⟨_, rfl, sim_mapCommentsBody E hk g b⟩
theorem sim_mapCommentsBody (E : Env) (hk : E.opts.keepComments = false) (g : Nat → Str → Str) :
    ∀ b : Option (List Node), BodySim E b (mapCommentsBody g b)
  | none => by simp only [mapCommentsBody, BodySim]
  | some ns => by simp only [mapCommentsBody, BodySim]; exact ⟨_, rfl, sim_mapComments E hk g ns⟩
theorem sim_mapComments (E : Env) (hk : E.opts.keepComments = false) (g : Nat → Str → Str) :
    ∀ ns : List Node, ListSim E ns (mapComments g ns)
  | [] => by simp only [mapComments, ListSim]
  | n :: ns => by
    simp only [mapComments, ListSim]; exact ⟨_, _, rfl, sim_mapCommentsNode E hk g n, sim_mapComments E hk g ns⟩
theorem sim_mapCommentsArgsO (E : Env) (hk : E.opts.keepComments = false) (g : Nat → Str → Str) :
    ∀ a : Option (List Arg), ArgsOSim E a (mapCommentsArgsO g a)
  | none => by simp only [mapCommentsArgsO, ArgsOSim]
  | some l => by simp only [mapCommentsArgsO, ArgsOSim]; exact ⟨_, rfl, sim_mapCommentsArgs E hk g l⟩
theorem sim_mapCommentsArgs (E : Env) (hk : E.opts.keepComments = false) (g : Nat → Str → Str) :
    ∀ l : List Arg, ArgsSim E l (mapCommentsArgs g l)
  | [] => by simp only [mapCommentsArgs, ArgsSim]
  | a :: l => by
    simp only [mapCommentsArgs, ArgsSim]; exact ⟨_, _, rfl, sim_mapCommentsArg E hk g a, sim_mapCommentsArgs E hk g l⟩
theorem sim_mapCommentsArg (E : Env) (hk : E.opts.keepComments = false) (g : Nat → Str → Str) :
    ∀ a : Arg, ArgSim E a (mapCommentsArg g a)
  | .absent => by simp only [mapCommentsArg, ArgSim]
  | .node n => by simp only [mapCommentsArg, ArgSim]; exact ⟨_, rfl, sim_mapCommentsNode E hk g n⟩
  | .list p e ns => by simp only [mapCommentsArg, ArgSim]; exact ⟨_, rfl, sim_mapComments E hk g ns⟩
end

/-- **C12 (comments hidden).**  With `keep_comments` off the output does not depend on the text of any comment
    node, wherever it sits in the tree: for every rewriting `g` of comment texts (which may depend on the comment's
    position), every option set, both databases, every library oracle, every source string and every forest.
    (The source string `src` is a separate argument: under `math_mode='verbatim'` the slice `src[pos:posEnd]` of a
    formula is emitted as it is — reading (i).) -/
theorem C12_comments_hidden (opts : Opts) (db : TextDb) (ctx : Ctx) (lib : Lib) (src : Str) (hk : opts.keepComments = false)
    (g : Nat → Str → Str) (ns : List Node) :
    render opts db ctx lib src (mapComments g ns) = render opts db ctx lib src ns :=
  (C12_noninterference opts db ctx lib src ns _ (sim_mapComments _ hk g ns)).symm

end Pylx.L2T.C12
