/-
  C13, lexical part — the predicate `Inert` (whole text) and `ChunkSafe` (one chunk of encoder
  output) with their composition lemmas.
-/
import Pylx.EncBuiltin
import PylxProofs.C04
namespace Pylx.C13
open Pylx Pylx.EncB

/-! ### The lexical predicate -/

/-- state of the lexical scan: `esc` = the previous character was an unescaped backslash,
    `depth` = number of open unescaped `{`, `math` = an odd number of unescaped `$` so far -/
structure LexSt where
  esc : Bool
  depth : Nat
  math : Bool
deriving DecidableEq, Repr

/-- one character; `none` = an unescaped `}` without partner or an unescaped `%` -/
def lexStep (st : LexSt) (c : Char) : Option LexSt :=
  if st.esc then some { st with esc := false }
  else if c == '\\' then some { st with esc := true }
  else if c == '{' then some { st with depth := st.depth + 1 }
  else if c == '}' then (if st.depth = 0 then none else some { st with depth := st.depth - 1 })
  else if c == '%' then none
  else if c == '$' then some { st with math := !st.math }
  else some st

def lexScan : LexSt → Str → Option LexSt
  | st, [] => some st
  | st, c :: cs =>
    match lexStep st c with
    | some st' => lexScan st' cs
    | none => none

def st0 : LexSt := ⟨false, 0, false⟩

/-- the scan of the whole text succeeds and ends where it started: every `{` `}` that is not
    part of a `\{` `\}` escape is balanced and the depth never goes negative, no `%` occurs outside
    a `\%` escape (no comment can start), the unescaped `$` pair up, and the text does not end in
    the middle of a backslash escape -/
def lexOk (t : Str) : Bool := decide (lexScan st0 t = some st0)

/-- no backslash is directly followed by `begin` or `end` (no environment token can start) -/
def envFree : Str → Bool
  | [] => true
  | c :: r => !(c == '\\' && ("begin".toList.isPrefixOf r || "end".toList.isPrefixOf r)) && envFree r

/-- **the lexical predicate of C13.**  It speaks about the text only: it is insensitive to the
    *names* of control words (so to the fusion of a control word with following letters under
    protection scheme `none`). -/
def Inert (t : Str) : Prop := lexOk t = true ∧ envFree t = true

instance (t : Str) : Decidable (Inert t) := by unfold Inert; infer_instance

/-- what follows the last backslash is not an initial segment of `begin` / `end`: appending text
    cannot complete an environment word -/
def tailOk (t : Str) : Bool :=
  match afterLast '\\' t with
  | none => true
  | some w => !(w.isPrefixOf "begin".toList) && !(w.isPrefixOf "end".toList)

/-- a chunk (one `+=` of the encoder) that is inert whatever precedes and follows it -/
def chunkSafe (c : Str) : Bool := lexOk c && envFree c && tailOk c

def ChunkSafe (c : Str) : Prop := chunkSafe c = true

/-- characters that the scan passes over without a state change -/
def plainChar (c : Char) : Bool := c != '\\' && c != '{' && c != '}' && c != '%' && c != '$'

/-! ### Composition lemmas -/

theorem lexScan_append (st : LexSt) (a b : Str) :
    lexScan st (a ++ b) = (lexScan st a).bind (fun st' => lexScan st' b) := by
  induction a generalizing st with
  | nil => simp [lexScan]
  | cons c cs ih =>
    simp only [List.cons_append, lexScan]
    cases lexStep st c with
    | none => simp
    | some st' => simp [ih]

theorem lexOk_iff {t : Str} : lexOk t = true ↔ lexScan st0 t = some st0 := by
  simp [lexOk]

theorem lexOk_append {a b : Str} (ha : lexOk a = true) (hb : lexOk b = true) : lexOk (a ++ b) = true := by
  rw [lexOk_iff] at *
  rw [lexScan_append, ha]
  simpa using hb

theorem lexStep_plain {st : LexSt} {c : Char} (he : st.esc = false) (hp : plainChar c = true) :
    lexStep st c = some st := by
  simp only [plainChar, Bool.and_eq_true, bne_iff_ne, ne_eq] at hp
  obtain ⟨⟨⟨⟨h1, h2⟩, h3⟩, h4⟩, h5⟩ := hp
  simp [lexStep, he, h1, h2, h3, h4, h5]

theorem lexScan_plain {st : LexSt} {l : Str} (he : st.esc = false) (hp : ∀ c ∈ l, plainChar c = true) :
    lexScan st l = some st := by
  induction l with
  | nil => rfl
  | cons c cs ih =>
    simp only [lexScan, lexStep_plain he (hp c (by simp))]
    exact ih (fun d hd => hp d (by simp [hd]))

theorem mem_of_afterLast {c : Char} {r t : Str} (h : afterLast c r = some t) : c ∈ r := by
  induction r generalizing t with
  | nil => simp [afterLast] at h
  | cons x xs ih =>
    simp only [afterLast] at h
    cases hx : afterLast c xs with
    | some t' => exact List.mem_cons_of_mem _ (ih hx)
    | none =>
      rw [hx] at h
      simp only at h
      split at h
      · rename_i hxc; simp at hxc; simp [hxc]
      · cases h

theorem afterLast_none_of_not_mem {c : Char} {r : Str} (h : c ∉ r) : afterLast c r = none := by
  cases hx : afterLast c r with
  | none => rfl
  | some t => exact absurd (mem_of_afterLast hx) h

theorem tailOk_of_cons {c : Char} {r : Str} (h : tailOk (c :: r) = true) : tailOk r = true := by
  unfold tailOk at *
  simp only [afterLast] at h
  cases hx : afterLast '\\' r with
  | none => rfl
  | some t => rw [hx] at h; exact h

theorem isPrefixOf_append_cases {w r b : Str} (h : w.isPrefixOf (r ++ b) = true) :
    w.isPrefixOf r = true ∨ r.isPrefixOf w = true := by
  rw [List.isPrefixOf_iff_prefix] at h
  have h2 : r <+: r ++ b := List.prefix_append r b
  rcases List.prefix_or_prefix_of_prefix h h2 with h3 | h3
  · left; exact List.isPrefixOf_iff_prefix.mpr h3
  · right; exact List.isPrefixOf_iff_prefix.mpr h3

theorem word_not_completed {w r b : Str} (hw : '\\' ∉ w) (h1 : w.isPrefixOf r = false)
    (h2 : afterLast '\\' r = none → r.isPrefixOf w = false) : w.isPrefixOf (r ++ b) = false := by
  cases h : w.isPrefixOf (r ++ b) with
  | false => rfl
  | true =>
    rcases isPrefixOf_append_cases h with h3 | h3
    · rw [h1] at h3; cases h3
    · cases hx : afterLast '\\' r with
      | none => rw [h2 hx] at h3; cases h3
      | some t =>
        have hm := mem_of_afterLast hx
        have hp : r <+: w := List.isPrefixOf_iff_prefix.mp h3
        exact absurd (hp.subset hm) hw

theorem envFree_append {a b : Str} (ha : envFree a = true) (ht : tailOk a = true) (hb : envFree b = true) :
    envFree (a ++ b) = true := by
  induction a with
  | nil => simpa using hb
  | cons c r ih =>
    have htr := tailOk_of_cons ht
    simp only [envFree, Bool.and_eq_true] at ha
    obtain ⟨hhead, hrest⟩ := ha
    simp only [List.cons_append, envFree, Bool.and_eq_true]
    refine ⟨?_, ih hrest htr⟩
    by_cases hc : c = '\\'
    · subst hc
      simp only [beq_self_eq_true, Bool.true_and, Bool.not_eq_true', Bool.or_eq_false_iff] at hhead ⊢
      have hnone : afterLast '\\' r = none →
          r.isPrefixOf "begin".toList = false ∧ r.isPrefixOf "end".toList = false := by
        intro hx
        unfold tailOk at ht
        simp only [afterLast, hx] at ht
        simpa using ht
      exact ⟨word_not_completed (by decide) hhead.1 (fun hx => (hnone hx).1),
             word_not_completed (by decide) hhead.2 (fun hx => (hnone hx).2)⟩
    · simp [hc]

/-- the concatenation of safe chunks is inert -/
theorem inert_flatten (cs : List Str) (h : ∀ c ∈ cs, chunkSafe c = true) : Inert cs.flatten := by
  induction cs with
  | nil => exact ⟨by decide, by decide⟩
  | cons c cs ih =>
    have hc := h c (by simp)
    simp only [chunkSafe, Bool.and_eq_true] at hc
    obtain ⟨⟨h1, h2⟩, h3⟩ := hc
    obtain ⟨i1, i2⟩ := ih (fun d hd => h d (by simp [hd]))
    exact ⟨by simpa using lexOk_append h1 i1, by simpa using envFree_append h2 h3 i2⟩

theorem chunkSafe_plain {c : Char} (hp : plainChar c = true) : chunkSafe [c] = true := by
  have hl : lexOk [c] = true := lexOk_iff.mpr (lexScan_plain rfl (by simpa using hp))
  have hne : c ≠ '\\' := by
    simp only [plainChar, Bool.and_eq_true, bne_iff_ne, ne_eq] at hp
    exact hp.1.1.1.1
  have he : envFree [c] = true := by simp [envFree]
  have ht : tailOk [c] = true := by simp [tailOk, afterLast, hne]
  simp [chunkSafe, hl, he, ht]

end Pylx.C13
