/-
  C10 — token-level lemmas for the dollar runs: what `peekImpl` returns at a letter, at `$` / `$$` in text
  mode, at the expected closing delimiter in math mode, and at the end of the input.
-/
import PylxProofs.C10Lemmas4
namespace Pylx
namespace C10

/-! ### characters -/

theorem alpha_range (c : Char) (h : isAsciiAlpha c = true) : 65 ≤ c.toNat ∧ c.toNat ≤ 122 := by
  simp only [isAsciiAlpha, Bool.or_eq_true, Bool.and_eq_true, decide_eq_true_eq] at h
  simp only [Char.le_def, UInt32.le_iff_toNat_le] at h
  have e : c.toNat = c.val.toNat := rfl
  rw [e]
  rcases h with h | h
  · have h1 := h.1; have h2 := h.2
    simp at h1 h2
    omega
  · have h1 := h.1; have h2 := h.2
    simp at h1 h2
    omega

theorem alpha_not_space (c : Char) (h : isAsciiAlpha c = true) : isPySpace c = false := by
  have := alpha_range c h
  simp only [isPySpace]
  simp
  omega

theorem alpha_ne (c d : Char) (h : isAsciiAlpha c = true) (hd : isAsciiAlpha d = false) :
    (d == c) = false ∧ (c == d) = false := by
  constructor
  · simp; intro e; subst e; rw [h] at hd; cases hd
  · simp; intro e; subst e; rw [h] at hd; cases hd

/-! ### reading at a non-space character -/

theorem drop_head {s : Str} {p : Nat} {c : Char} {rest : Str} (h : s.drop p = c :: rest) : s[p]? = some c := by
  have := List.getElem?_drop (xs := s) (i := p) (j := 0)
  rw [h] at this
  simpa using this.symm

theorem drop_succ {s : Str} {p : Nat} {c : Char} {rest : Str} (h : s.drop p = c :: rest) : s.drop (p + 1) = rest := by
  have : s.drop (p + 1) = (s.drop p).drop 1 := by rw [List.drop_drop]
  rw [this, h]; rfl

theorem drop_add {s : Str} {p : Nat} (w rest : Str) (h : s.drop p = w ++ rest) : s.drop (p + w.length) = rest := by
  have : s.drop (p + w.length) = (s.drop p).drop w.length := by rw [List.drop_drop]
  rw [this, h]; simp

theorem spaceRun_nilX {s : Str} {p : Nat} {c : Char} {rest : Str} (h : s.drop p = c :: rest) (hc : isPySpace c = false) :
    spaceRun s p = [] := by
  unfold spaceRun; rw [h]; simp [List.takeWhile, hc]

theorem peekImpl_at (ps : PState) {s : Str} {p : Nat} {c : Char} {rest : Str} (h : s.drop p = c :: rest)
    (hc : isPySpace c = false) : peekImpl ps s p = peekAtChar ps s p c [] := by
  unfold peekImpl
  simp only [spaceRun_nilX h hc, countNl, List.count_nil, List.length_nil, Nat.add_zero, drop_head h]
  simp

theorem peekImpl_eos (ps : PState) {s : Str} {p : Nat} (h : s.drop p = []) : peekImpl ps s p = .eos [] := by
  have hlen : s.length ≤ p := by
    have := congrArg List.length h
    simp at this; omega
  unfold peekImpl
  have hsp : spaceRun s p = [] := by unfold spaceRun; rw [h]; rfl
  simp only [hsp, countNl, List.count_nil, List.length_nil, Nat.add_zero]
  have : s[p]? = none := List.getElem?_eq_none hlen
  simp [this]

theorem startsWith_of_drop {s : Str} {p : Nat} (d rest : Str) (h : s.drop p = d ++ rest) : startsWithAt s d p = true := by
  unfold startsWithAt; rw [h]; exact List.isPrefixOf_iff_prefix.2 (List.prefix_append d rest)

theorem drop_of_startsWith {s : Str} {p : Nat} (d : Str) (h : startsWithAt s d p = true) : ∃ rest, s.drop p = d ++ rest := by
  unfold startsWithAt at h
  obtain ⟨rest, hr⟩ := List.isPrefixOf_iff_prefix.1 h
  exact ⟨rest, hr.symm⟩

/-! ### the expected closing delimiter wins -/

/-- in math mode, where the source continues with the expected closing delimiter `d`, the token is that
    delimiter with the kind of the open formula — whatever follows it -/
theorem peek_close (ps : PState) (s : Str) (p : Nat) (d : Str) (disp : Bool) (c0 : Char) (dt rest : Str)
    (hd : d = c0 :: dt) (hdrop : s.drop p = d ++ rest) (hsp : isPySpace c0 = false)
    (hms : ps.t.mathStart.contains c0 = true) (hen : ps.f.enMath = true) (him : ps.f.inMath = true)
    (hec : ps.t.expectClose = some (d, disp)) : peekImpl ps s p = .tok (mathTok p [] d disp) := by
  have h1 : s.drop p = c0 :: (dt ++ rest) := by rw [hdrop, hd]; rfl
  rw [peekImpl_at ps h1 hsp]
  unfold peekAtChar
  simp only [hms, hen, Bool.and_self, if_true]
  unfold readMath
  simp only [him, if_true, hec, startsWith_of_drop d rest hdrop]

/-! ### `$` and `$$` in text mode -/

def defaultMathAll : List (Str × Bool) :=
  [(['\\', '('], false), (['\\', ')'], false), (['$', '$'], true), (['\\', '['], true), (['\\', ']'], true),
   (['$'], false)]

theorem peek_text_display (ps : PState) (s : Str) (p : Nat) (rest : Str) (hdrop : s.drop p = '$' :: '$' :: rest)
    (hms : ps.t.mathStart.contains '$' = true) (hen : ps.f.enMath = true) (him : ps.f.inMath = false)
    (hall : ps.t.mathAll = defaultMathAll) : peekImpl ps s p = .tok (mathTok p [] ['$', '$'] true) := by
  rw [peekImpl_at ps hdrop (by decide)]
  unfold peekAtChar
  simp only [hms, hen, Bool.and_self, if_true]
  unfold readMath readMathGeneral
  simp [him, hall, defaultMathAll, startsWithAt, hdrop, List.find?, List.isPrefixOf]

theorem peek_text_inline (ps : PState) (s : Str) (p : Nat) (c : Char) (rest : Str) (hdrop : s.drop p = '$' :: c :: rest)
    (hc : c ≠ '$')
    (hms : ps.t.mathStart.contains '$' = true) (hen : ps.f.enMath = true) (him : ps.f.inMath = false)
    (hall : ps.t.mathAll = defaultMathAll) : peekImpl ps s p = .tok (mathTok p [] ['$'] false) := by
  rw [peekImpl_at ps hdrop (by decide)]
  unfold peekAtChar
  simp only [hms, hen, Bool.and_self, if_true]
  unfold readMath readMathGeneral
  have hc' : ('$' == c) = false := by simp; exact fun e => hc e.symm
  simp [him, hall, defaultMathAll, startsWithAt, hdrop, List.find?, List.isPrefixOf, hc']

/-! ### a letter is a one-character `char` token -/

/-- what the letter lemma needs of a parsing state (decidable on concrete states) -/
structure LetterPS (ps : PState) : Prop where
  mathStart : ps.t.mathStart.all (fun d => !isAsciiAlpha d) = true
  escape : isAsciiAlpha ps.f.escapeChar = false
  comment : ps.f.commentStart = ['%']
  groupOpen : ps.t.groupByOpen = [(['{'], ['}'])]
  groupClose : ps.t.groupClose = [['}']]
  specials : ps.f.specials =
    [['\n', '\n'], ['&'], ['~'], ['`', '`'], ['\'', '\''], ['-', '-'], ['-', '-', '-'], ['!', '`'], ['?', '`']]
  forbidden : ps.f.forbidden = []

theorem contains_alpha_false (l : Str) (c : Char) (hl : l.all (fun d => !isAsciiAlpha d) = true)
    (hc : isAsciiAlpha c = true) : l.contains c = false := by
  induction l with
  | nil => rfl
  | cons x xs ih =>
    simp only [List.all_cons, Bool.and_eq_true, Bool.not_eq_true'] at hl
    simp only [List.contains_cons, Bool.or_eq_false_iff]
    exact ⟨(alpha_ne c x hc hl.1).2, ih hl.2⟩

def charTok (c : Char) (p : Nat) : Token := { kind := .char, arg := [c], pos := p, posEnd := p + 1, pre := [] }

theorem testSpecials_letter (ps : PState) (hps : LetterPS ps) (s : Str) (p : Nat) (c : Char) (rest : Str)
    (hdrop : s.drop p = c :: rest) (hc : isAsciiAlpha c = true) : testSpecials ps.f.specials s p = none := by
  have h1 := (alpha_ne c '\n' hc (by decide)).1
  have h2 := (alpha_ne c '&' hc (by decide)).1
  have h3 := (alpha_ne c '~' hc (by decide)).1
  have h4 := (alpha_ne c '`' hc (by decide)).1
  have h5 := (alpha_ne c '\'' hc (by decide)).1
  have h6 := (alpha_ne c '-' hc (by decide)).1
  have h7 := (alpha_ne c '!' hc (by decide)).1
  have h8 := (alpha_ne c '?' hc (by decide)).1
  rw [hps.specials]
  simp [testSpecials, specialsStep, startsWithAt, hdrop, List.isPrefixOf, h1, h2, h3, h4, h5, h6, h7, h8]

theorem peek_letter (ps : PState) (hps : LetterPS ps) (s : Str) (p : Nat) (c : Char) (rest : Str)
    (hdrop : s.drop p = c :: rest) (hc : isAsciiAlpha c = true) :
    peekImpl ps s p = .tok { kind := .char, arg := [c], pos := p, posEnd := p + 1, pre := [] } := by
  rw [peekImpl_at ps hdrop (alpha_not_space c hc)]
  have hesc : (c == ps.f.escapeChar) = false := (alpha_ne c _ hc hps.escape).2
  have hpc := (alpha_ne c '%' hc (by decide)).1
  have hob := (alpha_ne c '{' hc (by decide)).1
  have hcb := (alpha_ne c '}' hc (by decide)).1
  have hspec : (if (ps.f.hasCtx && ps.f.enSpecials) = true then testSpecials ps.f.specials s p else none) = none := by
    split
    · exact testSpecials_letter ps hps s p c rest hdrop hc
    · rfl
  have hsc : peekSpecialsOrChar ps s p c [] = .tok { kind := .char, arg := [c], pos := p, posEnd := p + 1, pre := [] } := by
    unfold peekSpecialsOrChar
    rw [hspec]
    simp [charToken, hps.forbidden]
  have hg : peekGroups ps s p c [] = .tok { kind := .char, arg := [c], pos := p, posEnd := p + 1, pre := [] } := by
    unfold peekGroups
    rw [hps.groupOpen, hps.groupClose, hsc]
    simp [hob, hcb]
  unfold peekAtChar
  simp only [contains_alpha_false _ c hps.mathStart hc, Bool.false_and]
  unfold peekEscape
  simp only [hesc]
  unfold peekComment
  rw [hps.comment, hg]
  simp [startsWithAt, hdrop, List.isPrefixOf, hpc]

end C10
end Pylx
