/-
  C11 — the tokenizer is lossless, always advances, and peeking has no effect.
  Theorems about `Pylx.peekImpl` / `Pylx.peekTok` (model of LatexTokenReader).
-/
import PylxProofs.BasicLemmas
namespace Pylx

/-- What the real code assumes of a parsing state's tables: math delimiters are non-empty strings. -/
def TablesOk (ps : PState) : Prop :=
  (∀ d ∈ ps.t.mathAll, d.1 ≠ []) ∧ (∀ c d, ps.t.expectClose = some (c, d) → c ≠ [])

/-- A token read with the reader at `p0` sits exactly where the source says. -/
structure TokSpan (s : Str) (p0 : Nat) (t : Token) : Prop where
  pos_eq : t.pos = p0 + t.pre.length
  pre_eq : slice s p0 t.pos = t.pre
  nonempty : t.pos < t.posEnd
  in_range : t.posEnd ≤ s.length
  post_le : t.post.length ≤ t.posEnd - t.pos
  post_eq : slice s (t.posEnd - t.post.length) t.posEnd = t.post

/-- the situation after the leading whitespace has been skipped -/
structure AtChar (s : Str) (p0 : Nat) (pre : Str) (p : Nat) (c : Char) : Prop where
  hpre : pre = spaceRun s p0
  hp : p = p0 + pre.length
  hc : s[p]? = some c

namespace AtChar
variable {s : Str} {p0 p : Nat} {pre : Str} {c : Char}

theorem lt (h : AtChar s p0 pre p c) : p < s.length := getElem?_lt _ _ _ h.hc

theorem pre_slice (h : AtChar s p0 pre p c) : slice s p0 p = pre := by
  rw [h.hp, h.hpre]; exact slice_of_prefix _ _ _ (spaceRun_prefix s p0)

/-- a token that starts at `p`, carries `pre`, has no post-space and ends at `e` -/
theorem simpleTok (h : AtChar s p0 pre p c) (k : TokKind) (a : Str) (e : Nat) (h1 : p < e) (h2 : e ≤ s.length) :
    TokSpan s p0 { kind := k, arg := a, pos := p, posEnd := e, pre := pre } :=
  { pos_eq := h.hp, pre_eq := h.pre_slice, nonempty := h1, in_range := h2,
    post_le := by simp, post_eq := by simp [slice] }
end AtChar

/-! ### the pieces -/

theorem firstNl_le (l : Str) : firstNl l ≤ l.length := List.findIdx_le_length

theorem lastNlEnd_le (l : Str) : lastNlEnd l ≤ l.length := by
  induction l with
  | nil => simp [lastNlEnd]
  | cons c l ih =>
    unfold lastNlEnd
    split
    · simp; omega
    · split <;> simp

theorem lastNlEnd_pos (l : Str) (h : '\n' ∈ l) : firstNl l < lastNlEnd l := by
  induction l with
  | nil => cases h
  | cons c l ih =>
    unfold lastNlEnd firstNl
    rw [List.findIdx_cons]
    by_cases hm : '\n' ∈ l
    · have := ih hm
      have hpos : lastNlEnd l > 0 := by omega
      rw [if_pos hpos]
      unfold firstNl at this
      cases (c == '\n') <;> simp <;> omega
    · have hc : c = '\n' := by
        rcases List.mem_cons.mp h with h | h
        · exact h.symm
        · exact absurd h hm
      subst hc
      simp
      split <;> omega

theorem postSpaceAt_prefix (s : Str) (e : Nat) : postSpaceAt s e <+: s.drop e := by
  unfold postSpaceAt
  dsimp only
  split
  · exact (List.take_prefix _ _).trans (spaceRun_prefix s e)
  · exact spaceRun_prefix s e

theorem findCharFrom_spec (s : Str) (c : Char) (p i : Nat) (h : findCharFrom s c p = some i) :
    p ≤ i ∧ i < s.length := by
  unfold findCharFrom at h
  split at h
  · rename_i j hj
    cases h
    have := (List.findIdx?_eq_some_iff_getElem.mp hj).1
    simp at this
    omega
  · cases h

theorem testSpecials_fold (keys : List Str) (s : Str) (p : Nat) :
    ∀ (init : Option Str), (∀ b, init = some b → b ≠ [] ∧ startsWithAt s b p = true) →
      ∀ b, keys.foldl (specialsStep s p) init = some b → b ≠ [] ∧ startsWithAt s b p = true := by
  induction keys with
  | nil => intro init hinit b hb; exact hinit b hb
  | cons x xs ih =>
    intro init hinit b hb
    rw [List.foldl_cons] at hb
    refine ih _ ?_ b hb
    intro b' hb'
    unfold specialsStep at hb'
    by_cases hcond : (decide (x.length > bestLen init) && startsWithAt s x p) = true
    · rw [if_pos hcond] at hb'
      cases hb'
      simp only [Bool.and_eq_true, decide_eq_true_eq] at hcond
      refine ⟨?_, hcond.2⟩
      intro hx
      rw [hx] at hcond
      simp at hcond
    · rw [if_neg hcond] at hb'
      exact hinit b' hb'

theorem testSpecials_spec (keys : List Str) (s : Str) (p : Nat) (k : Str) (h : testSpecials keys s p = some k) :
    k ≠ [] ∧ startsWithAt s k p = true :=
  testSpecials_fold keys s p none (by intro b hb; cases hb) k h

/-! ### every reader returns a well-placed token -/

/-- outcome-level statement: tokens and recovery placeholders are well placed; end of stream reports all
    remaining input as final space -/
def ResOk (s : Str) (p0 : Nat) : PeekRes → Prop
  | .tok t => TokSpan s p0 t
  | .err _ ep t r => TokSpan s p0 t ∧ r = t.posEnd ∧ t.pos ≤ ep ∧ ep ≤ t.posEnd
  | .eos f => f = s.drop p0 ∨ s.length < p0

section readers
variable {ps : PState} {s : Str} {p0 p : Nat} {pre : Str} {c : Char}

theorem charToken_ok (h : AtChar s p0 pre p c) : ResOk s p0 (charToken ps c p pre) := by
  have hlt := h.lt
  unfold charToken
  split
  · exact ⟨h.simpleTok _ _ _ (by omega) (by omega), rfl, Nat.le_refl _, by simp⟩
  · exact h.simpleTok _ _ _ (by omega) (by omega)

theorem peekSpecialsOrChar_ok (h : AtChar s p0 pre p c) : ResOk s p0 (peekSpecialsOrChar ps s p c pre) := by
  unfold peekSpecialsOrChar
  split
  · rename_i k hk
    split at hk
    · obtain ⟨hne, hsw⟩ := testSpecials_spec _ _ _ _ hk
      have hl := startsWithAt_length s k p hsw
      have : 0 < k.length := List.length_pos_iff.mpr hne
      exact h.simpleTok _ _ _ (by omega) (by rcases hl with hl | hl; exact hl; exact absurd hl hne)
    · cases hk
  · exact charToken_ok h

theorem peekGroups_ok (h : AtChar s p0 pre p c) : ResOk s p0 (peekGroups ps s p c pre) := by
  have hlt := h.lt
  unfold peekGroups
  split
  · split
    · exact h.simpleTok _ _ _ (by omega) (by omega)
    · split
      · exact h.simpleTok _ _ _ (by omega) (by omega)
      · exact peekSpecialsOrChar_ok h
  · exact peekSpecialsOrChar_ok h

theorem readComment_ok (h : AtChar s p0 pre p c)
    (hcs : startsWithAt s ps.f.commentStart p = true) (hne : ps.f.commentStart ≠ []) :
    ResOk s p0 (readComment ps s p pre) := by
  have hlt := h.lt
  have hl := startsWithAt_length s _ p hcs
  have hcl : 0 < ps.f.commentStart.length := List.length_pos_iff.mpr hne
  have hin : p + ps.f.commentStart.length ≤ s.length := by
    rcases hl with hl | hl
    · exact hl
    · exact absurd hl hne
  unfold readComment
  dsimp only
  split
  · exact h.simpleTok _ _ _ (by omega) (Nat.le_refl _)
  · rename_i nl hnl
    obtain ⟨h1, h2⟩ := findCharFrom_spec _ _ _ _ hnl
    have hpp := postSpaceAt_prefix s nl
    have hpl := prefix_length_le _ _ _ hpp
    exact { pos_eq := h.hp, pre_eq := h.pre_slice,
            nonempty := by show p < nl + _; omega,
            in_range := by show nl + _ ≤ _; omega,
            post_le := by show (postSpaceAt s nl).length ≤ nl + (postSpaceAt s nl).length - p; omega,
            post_eq := by
              show slice s (nl + (postSpaceAt s nl).length - (postSpaceAt s nl).length) (nl + (postSpaceAt s nl).length) = _
              rw [Nat.add_sub_cancel]; exact slice_of_prefix _ _ _ hpp }

theorem peekComment_ok (h : AtChar s p0 pre p c) : ResOk s p0 (peekComment ps s p c pre) := by
  unfold peekComment
  split
  · rename_i hc
    simp only [Bool.and_eq_true, Bool.not_eq_eq_eq_not, Bool.not_true, List.isEmpty_eq_false_iff] at hc
    exact readComment_ok h hc.1.2 hc.2
  · exact peekGroups_ok h

theorem readMacro_ok (h : AtChar s p0 pre p c) : ResOk s p0 (readMacro ps s p pre) := by
  have hlt := h.lt
  unfold readMacro
  split
  · rename_i hnone
    have hlen : s.length = p + 1 := by
      rcases Nat.lt_or_ge (p + 1) s.length with h1 | h1
      · rw [List.getElem?_eq_getElem h1] at hnone; cases hnone
      · omega
    exact ⟨h.simpleTok _ _ _ (by omega) (by omega), hlen, by show p ≤ p + 1; omega, by show p + 1 ≤ p + 1; omega⟩
  · rename_i d hd
    have hd1 : p + 1 < s.length := getElem?_lt _ _ _ hd
    split
    · have hr := prefix_length_le s _ (p+2) (takeWhile_prefix_drop s (p+2) (fun x => ps.f.macroAlpha.contains x))
      generalize hrest : List.takeWhile (fun x => ps.f.macroAlpha.contains x) (List.drop (p + 2) s) = rest at hr
      have hpp := postSpaceAt_prefix s (p + 2 + rest.length)
      have hpl := prefix_length_le _ _ _ hpp
      exact { pos_eq := h.hp, pre_eq := h.pre_slice,
              nonempty := by show p < p + 2 + rest.length + _; omega,
              in_range := by show p + 2 + rest.length + _ ≤ _; omega,
              post_le := by
                show (postSpaceAt s (p + 2 + rest.length)).length ≤ p + 2 + rest.length + (postSpaceAt s (p + 2 + rest.length)).length - p
                omega,
              post_eq := by
                show slice s (p + 2 + rest.length + (postSpaceAt s (p + 2 + rest.length)).length - (postSpaceAt s (p + 2 + rest.length)).length) _ = _
                rw [Nat.add_sub_cancel]; exact slice_of_prefix _ _ _ hpp }
    · exact h.simpleTok _ _ _ (by omega) (by omega)

theorem readEnvName_spec (s : Str) (q : Nat) (name : Str) (e : Nat) (h : readEnvName s q = some (name, e)) :
    q < e ∧ e ≤ s.length := by
  unfold readEnvName at h
  dsimp only at h
  split at h
  · split at h
    · cases h
    · split at h
      · rename_i hb
        have := getElem?_lt _ _ _ hb
        cases h
        omega
      · cases h
  · cases h

theorem envWordAt_spec (h : envWordAt ps s p = some b) : startsWithAt s (envWordStr b) (p+1) = true := by
  unfold envWordAt at h
  cases hw : envWord ps s p with
  | none => rw [hw] at h; cases h
  | some b' =>
    rw [hw] at h
    dsimp only at h
    by_cases hn : notFollowedByAlpha ps s (p + 1 + envWordLen b') = true
    · rw [if_pos hn] at h
      cases h
      unfold envWord at hw
      by_cases he : ps.f.enEnvs = true
      · rw [if_pos he] at hw
        by_cases h1 : startsWithAt s "begin".toList (p+1) = true
        · rw [if_pos h1] at hw; cases hw; exact h1
        · rw [if_neg h1] at hw
          by_cases h2 : startsWithAt s "end".toList (p+1) = true
          · rw [if_pos h2] at hw; cases hw; exact h2
          · rw [if_neg h2] at hw; cases hw
      · rw [if_neg he] at hw; cases hw
    · rw [if_neg hn] at h; cases h

theorem envWordStr_length (b : Bool) : (envWordStr b).length = envWordLen b := by cases b <;> rfl

theorem readEnvironment_ok (h : AtChar s p0 pre p c) (b : Bool)
    (hw : startsWithAt s (envWordStr b) (p+1) = true) :
    ResOk s p0 (readEnvironment ps s p b pre) := by
  have hlt := h.lt
  have hwl := startsWithAt_length s _ (p+1) hw
  rw [envWordStr_length] at hwl
  have hwlen : p + 1 + envWordLen b ≤ s.length := by
    rcases hwl with hwl | hwl
    · exact hwl
    · cases b <;> simp [envWordStr] at hwl
  have hpos : 0 < envWordLen b := by cases b <;> simp [envWordLen]
  unfold readEnvironment
  cases hrn : readEnvName s (p + 1 + envWordLen b) with
  | none =>
    exact ⟨h.simpleTok _ _ _ (by omega) (by omega), rfl, Nat.le_refl _, by show p ≤ p + (1 + envWordLen b); omega⟩
  | some r =>
    obtain ⟨name, e⟩ := r
    obtain ⟨h1, h2⟩ := readEnvName_spec _ _ _ _ hrn
    exact h.simpleTok _ _ _ (by omega) h2

theorem peekEscape_ok (h : AtChar s p0 pre p c) : ResOk s p0 (peekEscape ps s p c pre) := by
  unfold peekEscape
  split
  · split
    · rename_i b hb
      exact readEnvironment_ok h b (envWordAt_spec hb)
    · split
      · exact readMacro_ok h
      · exact peekComment_ok h
  · exact peekComment_ok h

theorem mathTok_ok (h : AtChar s p0 pre p c) (d : Str) (disp : Bool) (hne : d ≠ [])
    (hsw : startsWithAt s d p = true) : TokSpan s p0 (mathTok p pre d disp) := by
  have hl := startsWithAt_length s d p hsw
  have : 0 < d.length := List.length_pos_iff.mpr hne
  exact h.simpleTok _ _ _ (by omega) (by rcases hl with hl | hl; exact hl; exact absurd hl hne)

theorem readMathGeneral_ok (hok : TablesOk ps) (h : AtChar s p0 pre p c) (t : Token)
    (ht : readMathGeneral ps s p pre = some t) : TokSpan s p0 t := by
  unfold readMathGeneral at ht
  cases hf : ps.t.mathAll.find? (fun d => startsWithAt s d.1 p) with
  | none => rw [hf] at ht; cases ht
  | some d =>
    rw [hf] at ht
    simp only [Option.map_some, Option.some.injEq] at ht
    subst ht
    have hsw : startsWithAt s d.1 p = true := by
      have := List.find?_some hf
      simpa using this
    exact mathTok_ok h d.1 d.2 (hok.1 _ (List.mem_of_find?_eq_some hf)) hsw

theorem readMath_ok (hok : TablesOk ps) (h : AtChar s p0 pre p c) (t : Token) (ht : readMath ps s p pre = some t) :
    TokSpan s p0 t := by
  unfold readMath at ht
  by_cases hm : ps.f.inMath = true
  · rw [if_pos hm] at ht
    cases hec : ps.t.expectClose with
    | none => rw [hec] at ht; exact readMathGeneral_ok hok h t ht
    | some cd =>
      rw [hec] at ht
      dsimp only at ht
      by_cases hsw : startsWithAt s cd.1 p = true
      · rw [if_pos hsw] at ht
        cases ht
        exact mathTok_ok h cd.1 cd.2 (hok.2 cd.1 cd.2 (by rw [hec])) hsw
      · rw [if_neg hsw] at ht
        exact readMathGeneral_ok hok h t ht
  · rw [if_neg hm] at ht
    exact readMathGeneral_ok hok h t ht

theorem peekAtChar_ok (hok : TablesOk ps) (h : AtChar s p0 pre p c) : ResOk s p0 (peekAtChar ps s p c pre) := by
  unfold peekAtChar
  split
  · split
    · rename_i t ht
      exact readMath_ok hok h t ht
    · exact peekEscape_ok h
  · exact peekEscape_ok h

end readers

theorem peekPar_ok (ps : PState) (s : Str) (p0 : Nat) (hn : countNl (spaceRun s p0) ≥ 2) :
    ResOk s p0 (peekPar ps s p0 (spaceRun s p0)) := by
  have hpre := spaceRun_prefix s p0
  have hlen := spaceRun_length_le s p0
  generalize spaceRun s p0 = pre at *
  have hmem : '\n' ∈ pre := List.count_pos_iff.mp (by unfold countNl at hn; omega)
  have h1 := lastNlEnd_pos pre hmem
  have h2 := lastNlEnd_le pre
  have h3 := firstNl_le pre
  have hspan : ∀ k a, TokSpan s p0 { kind := k, arg := a, pos := p0 + firstNl pre, posEnd := p0 + lastNlEnd pre,
                                     pre := pre.take (firstNl pre) } := by
    intro k a
    exact { pos_eq := by simp [List.length_take]; omega,
            pre_eq := slice_of_prefix_take _ _ _ _ hpre h3,
            nonempty := by show p0 + _ < p0 + _; omega,
            in_range := by show p0 + _ ≤ _; omega,
            post_le := by simp, post_eq := by simp [slice] }
  unfold peekPar
  split
  · exact hspan _ _
  · exact hspan _ _

/-- Every outcome of `impl_peek_token` is well placed. -/
theorem peekImpl_ok (ps : PState) (hok : TablesOk ps) (s : Str) (p0 : Nat) : ResOk s p0 (peekImpl ps s p0) := by
  unfold peekImpl
  simp only
  split
  · rename_i hc
    simp only [Bool.and_eq_true, decide_eq_true_eq] at hc
    exact peekPar_ok ps s p0 hc.2
  · split
    · rename_i hnone
      rcases Nat.lt_or_ge s.length p0 with hlt | hge
      · right; exact hlt
      · left
        have hlen := spaceRun_length_le s p0
        have hge2 : s.length ≤ p0 + (spaceRun s p0).length := by
          rcases Nat.lt_or_ge (p0 + (spaceRun s p0).length) s.length with h | h
          · rw [List.getElem?_eq_getElem h] at hnone; cases hnone
          · exact h
        have heq : (spaceRun s p0).length = (s.drop p0).length := by simp; omega
        exact (spaceRun_prefix s p0).eq_of_length heq
    · rename_i c hc
      exact peekAtChar_ok hok ⟨rfl, rfl, hc⟩

/-! ### the property theorems -/

/-- **C11 (span).** A token returned by a read at `p` starts right after its leading whitespace, which is
    exactly the source text `s[p : t.pos]`; its span is non-empty and inside the input; its post-space is
    the tail of its span. For every parsing-state configuration with non-empty math delimiters. -/
theorem C11_span (ps : PState) (hok : TablesOk ps) (s : Str) (p : Nat) (t : Token)
    (h : peekImpl ps s p = .tok t) : TokSpan s p t := by
  have := peekImpl_ok ps hok s p
  rw [h] at this
  exact this

/-- **C11 (tolerant).** The same holds for what the tolerant reader returns instead of a token error
    (the recovery placeholder), whose end is the recovery position. -/
theorem C11_tolerant_span (ps : PState) (hok : TablesOk ps) (s : Str) (p : Nat) (t : Token)
    (h : peekTok true ps s p = .tok t) : TokSpan s p t := by
  have hr := peekImpl_ok ps hok s p
  unfold peekTok at h
  split at h
  · rename_i w ep t' r heq
    rw [heq] at hr
    simp at h
    cases h
    exact hr.1
  · rename_i r hne
    rw [h] at hr
    exact hr

/-- **C11 (progress).** A successful read (strict or tolerant) leaves the reader strictly further. -/
theorem C11_progress (tol : Bool) (ps : PState) (hok : TablesOk ps) (s : Str) (p : Nat) (t : Token)
    (h : peekTok tol ps s p = .tok t) : p < movePastToken t true ∧ movePastToken t true ≤ s.length := by
  have hs : TokSpan s p t := by
    have hr := peekImpl_ok ps hok s p
    unfold peekTok at h
    split at h
    · rename_i w ep t' r heq
      rw [heq] at hr
      split at h
      · cases h; exact hr.1
      · cases h
    · rw [h] at hr; exact hr
  have := hs.pos_eq
  have := hs.nonempty
  have := hs.in_range
  simp [movePastToken]; omega

/-- **C11 (rewind).** Going back to a token (with its leading whitespace) and reading again gives the same token;
    peeking is a function of the position only. -/
theorem C11_rewind (tol : Bool) (ps : PState) (hok : TablesOk ps) (s : Str) (p : Nat) (t : Token)
    (h : peekTok tol ps s p = .tok t) : peekTok tol ps s (moveToToken t true) = .tok t := by
  have hs : TokSpan s p t := by
    have hr := peekImpl_ok ps hok s p
    unfold peekTok at h
    split at h
    · rename_i w ep t' r heq
      rw [heq] at hr
      split at h
      · cases h; exact hr.1
      · cases h
    · rw [h] at hr; exact hr
  have : moveToToken t true = p := by simp [moveToToken, hs.pos_eq]
  rw [this]; exact h

/-- reading tokens one after another from `p` until the end of the stream (or a token error in strict mode) -/
inductive Reads (tol : Bool) (ps : PState) (s : Str) : Nat → List Token → Option Str → Prop where
  | eos (p : Nat) (fin : Str) : peekTok tol ps s p = .eos fin → Reads tol ps s p [] (some fin)
  | err (p : Nat) (w : TokErr) (ep : Nat) (t : Token) (r : Nat) : peekTok tol ps s p = .err w ep t r → Reads tol ps s p [] none
  | tok (p : Nat) (t : Token) (ts : List Token) (fin : Option Str) :
      peekTok tol ps s p = .tok t → Reads tol ps s (movePastToken t true) ts fin → Reads tol ps s p (t :: ts) fin

/-- what the tokens of a reading spell out -/
def spell (s : Str) (ts : List Token) : Str := ts.flatMap (fun t => t.pre ++ slice s t.pos t.posEnd)

theorem span_of_peekTok (tol : Bool) (ps : PState) (hok : TablesOk ps) (s : Str) (p : Nat) (t : Token)
    (h : peekTok tol ps s p = .tok t) : TokSpan s p t := by
  have hr := peekImpl_ok ps hok s p
  unfold peekTok at h
  split at h
  · rename_i w ep t' r heq
    rw [heq] at hr
    split at h
    · cases h; exact hr.1
    · cases h
  · rw [h] at hr; exact hr

/-- **C11 (lossless).** Leading whitespace plus source slice of each token, in order, followed by the final
    whitespace reported at the end of the stream, reproduce the input from the starting position; if reading
    stops at a token error (strict mode), they reproduce the input up to where reading stopped. -/
theorem C11_lossless (tol : Bool) (ps : PState) (hok : TablesOk ps) (s : Str) (p : Nat) (hp : p ≤ s.length)
    (ts : List Token) (fin : Option Str) (h : Reads tol ps s p ts fin) :
    (∀ f, fin = some f → spell s ts ++ f = s.drop p) ∧
    (fin = none → ∃ q, p ≤ q ∧ q ≤ s.length ∧ spell s ts = slice s p q) := by
  induction h with
  | eos p fin hpk =>
    have hr := peekImpl_ok ps hok s p
    have : peekImpl ps s p = .eos fin := by
      unfold peekTok at hpk
      split at hpk
      · split at hpk <;> cases hpk
      · exact hpk
    rw [this] at hr
    constructor
    · intro f hf; cases hf
      rcases hr with hr | hr
      · simp [spell, hr]
      · omega
    · intro hf; cases hf
  | err p w ep t r hpk =>
    constructor
    · intro f hf; cases hf
    · intro _; exact ⟨p, Nat.le_refl _, hp, by simp [spell, slice_self]⟩
  | tok p t ts fin hpk _ ih =>
    have hs := span_of_peekTok tol ps hok s p t hpk
    have hpe : movePastToken t true = t.posEnd := by simp [movePastToken]
    rw [hpe] at ih
    have ih := ih hs.in_range
    have hle1 : p ≤ t.pos := by have := hs.pos_eq; omega
    have hle2 : t.pos ≤ t.posEnd := Nat.le_of_lt hs.nonempty
    have hhead : t.pre ++ slice s t.pos t.posEnd = slice s p t.posEnd := by
      rw [← hs.pre_eq]; exact slice_slice_append s p t.pos t.posEnd hle1 hle2
    constructor
    · intro f hf
      have := ih.1 f hf
      simp only [spell, List.flatMap_cons] at this ⊢
      rw [List.append_assoc, this, hhead]
      rw [← slice_drop_end s t.posEnd, slice_slice_append s p t.posEnd s.length (by omega) hs.in_range, slice_drop_end]
    · intro hf
      obtain ⟨q, hq1, hq2, hq3⟩ := ih.2 hf
      refine ⟨q, by omega, hq2, ?_⟩
      simp only [spell, List.flatMap_cons] at hq3 ⊢
      rw [hq3, hhead]
      exact slice_slice_append s p t.posEnd q (by omega) hq1

/-- **C11 (bounded).** Tokenizing from `p` takes at most `len(s) - p` successful reads. -/
theorem C11_reads_bounded (tol : Bool) (ps : PState) (hok : TablesOk ps) (s : Str) (p : Nat)
    (ts : List Token) (fin : Option Str) (h : Reads tol ps s p ts fin) : p + ts.length ≤ max p s.length := by
  induction h with
  | eos p fin _ => simp only [List.length_nil, Nat.add_zero]; exact Nat.le_max_left _ _
  | err p w ep t r _ => simp only [List.length_nil, Nat.add_zero]; exact Nat.le_max_left _ _
  | tok p t ts fin hpk _ ih =>
    have hpr := C11_progress tol ps hok s p t hpk
    simp only [List.length_cons]
    omega

/-! ### `TablesOk` follows from the fields -/

/-- the configured math delimiters are non-empty strings -/
def DelimsOk (f : PSFields) : Prop := ∀ pr ∈ f.inlineDelims ++ f.displayDelims, pr.1 ≠ [] ∧ pr.2 ≠ []

theorem mem_insertDesc (x y : Str × Bool) (l : List (Str × Bool)) (h : y ∈ insertDesc x l) : y = x ∨ y ∈ l := by
  induction l with
  | nil => simp [insertDesc] at h; left; exact h
  | cons z l ih =>
    unfold insertDesc at h
    split at h
    · rcases List.mem_cons.mp h with h | h
      · right; rw [h]; exact List.mem_cons_self
      · rcases ih h with h | h
        · left; exact h
        · right; exact List.mem_cons_of_mem _ h
    · rcases List.mem_cons.mp h with h | h
      · left; exact h
      · right; exact h

theorem mem_sortDesc_aux (l acc : List (Str × Bool)) (y : Str × Bool)
    (h : y ∈ l.foldl (fun acc x => insertDesc x acc) acc) : y ∈ l ∨ y ∈ acc := by
  induction l generalizing acc with
  | nil => right; exact h
  | cons x l ih =>
    rw [List.foldl_cons] at h
    rcases ih _ h with h | h
    · left; exact List.mem_cons_of_mem _ h
    · rcases mem_insertDesc _ _ _ h with h | h
      · left; rw [h]; exact List.mem_cons_self
      · right; exact h

theorem mem_sortDesc (l : List (Str × Bool)) (y : Str × Bool) (h : y ∈ sortDesc l) : y ∈ l := by
  rcases mem_sortDesc_aux l [] y h with h | h
  · exact h
  · cases h

theorem mem_dedup (l : List Str) (x : Str) (h : x ∈ dedup l) : x ∈ l := by
  induction l with
  | nil => cases h
  | cons a l ih =>
    unfold dedup at h
    rcases List.mem_cons.mp h with h | h
    · rw [h]; exact List.mem_cons_self
    · exact List.mem_cons_of_mem _ (ih (List.mem_filter.mp h).1)

theorem mem_flattenPairs (l : Pairs) (x : Str) (h : x ∈ flattenPairs l) : ∃ pr ∈ l, x = pr.1 ∨ x = pr.2 := by
  unfold flattenPairs at h
  obtain ⟨pr, hpr, hx⟩ := List.mem_flatMap.mp h
  refine ⟨pr, hpr, ?_⟩
  simp at hx
  exact hx

theorem lookupLast_mem {β : Type} (k : Str) (l : List (Str × β)) (v : β) (h : lookupLast k l = some v) : (k, v) ∈ l := by
  induction l with
  | nil => cases h
  | cons a l ih =>
    obtain ⟨a1, a2⟩ := a
    unfold lookupLast at h
    cases hl : lookupLast k l with
    | some r =>
      rw [hl] at h
      cases h
      exact List.mem_cons_of_mem _ (ih hl)
    | none =>
      rw [hl] at h
      dsimp only at h
      split at h
      · rename_i heq
        cases h
        have : a1 = k := by simpa using heq
        rw [this]; exact List.mem_cons_self
      · cases h

/-- **Every** freshly built parsing state whose configured math delimiters are non-empty strings has good tables. -/
theorem tablesOk_of_fields (f : PSFields) (hf : DelimsOk f) : TablesOk (mkPS f) := by
  have hn : DelimsOk f.normalize := by
    unfold PSFields.normalize
    split
    · exact hf
    · exact hf
  generalize hg : f.normalize = g at hn
  have hps : mkPS f = { f := g, t := computeTables g } := by simp [mkPS, PState.fresh, hg]
  rw [hps]
  constructor
  · intro d hd
    simp only [computeTables, mathTables] at hd
    have hd := mem_sortDesc _ _ hd
    rcases List.mem_append.mp hd with hd | hd
    · obtain ⟨x, hx, rfl⟩ := List.mem_map.mp hd
      obtain ⟨pr, hpr, hx⟩ := mem_flattenPairs _ _ (mem_dedup _ _ hx)
      have := hn pr (List.mem_append_left _ hpr)
      rcases hx with hx | hx <;> simp [hx, this]
    · obtain ⟨x, hx, rfl⟩ := List.mem_map.mp hd
      obtain ⟨pr, hpr, hx⟩ := mem_flattenPairs _ _ (mem_dedup _ _ hx)
      have := hn pr (List.mem_append_right _ hpr)
      rcases hx with hx | hx <;> simp [hx, this]
  · intro c d hcd
    simp only [computeTables, mathTables, expectCloseOf] at hcd
    split at hcd
    · cases hcd
    · split at hcd
      · cases hcd
      · rename_i dl hdl
        have hm := lookupLast_mem _ _ _ hcd
        rcases List.mem_append.mp hm with hm | hm
        · obtain ⟨pr, hpr, he⟩ := List.mem_map.mp hm
          have := hn pr (List.mem_append_left _ hpr)
          simp at he
          rw [← he.2.1]; exact this.2
        · obtain ⟨pr, hpr, he⟩ := List.mem_map.mp hm
          have := hn pr (List.mem_append_right _ hpr)
          simp at he
          rw [← he.2.1]; exact this.2

theorem tablesOk_default : TablesOk (mkPS {}) := tablesOk_of_fields {} (by
  intro pr hpr
  have : pr ∈ [((['$'], ['$']) : Str × Str), (['\\', '('], ['\\', ')']), (['$', '$'], ['$', '$']), (['\\', '['], ['\\', ']'])] := hpr
  simp only [List.mem_cons, List.not_mem_nil, or_false] at this
  rcases this with h | h | h | h <;> subst h <;> simp)

/-- Non-vacuity: a reading of a concrete string under the default configuration. -/
example : peekImpl (mkPS {}) "  \\alpha  x".toList 0 =
    .tok { kind := .macro, arg := "alpha".toList, pos := 2, posEnd := 10, pre := "  ".toList, post := "  ".toList } := by
  decide
example : peekImpl (mkPS { specials := [['\n','\n']] }) "a \n \n b".toList 1 =
    .tok { kind := .specials, arg := ['\n','\n'], pos := 2, posEnd := 5, pre := [' '] } := by decide
example : peekTok true (mkPS {}) "\\begin x".toList 0 =
    .tok { kind := .char, arg := "\\begin".toList, pos := 0, posEnd := 6 } := by decide

end Pylx
