/-
  C10 — the parser on runs of letters between dollar signs (default state, default context).
-/
import PylxProofs.C10Lemmas5
import Pylx.Gen.WalkerDb
namespace Pylx
namespace C10

/-- the walker's default parsing state for the default context -/
def f₀ : PSFields := { specials := Gen.defaultCtx.specials.map (·.1) }

/-- parsing of `s` with the default context -/
def denv (tol : Bool) (s : Str) : Env := { tol := tol, ctx := Gen.defaultCtx, s := s }

@[simp] theorem denv_tol (tol : Bool) (s : Str) : (denv tol s).tol = tol := rfl
@[simp] theorem denv_s (tol : Bool) (s : Str) : (denv tol s).s = s := rfl

/-- a non-empty run of ASCII letters -/
def PlainX (a : Str) : Prop := a ≠ [] ∧ ∀ c ∈ a, isAsciiAlpha c = true

/-- the two dollar delimiters with their kind -/
def Dollar (d : Str) (disp : Bool) : Prop := (d = ['$'] ∧ disp = false) ∨ (d = ['$', '$'] ∧ disp = true)

/-! ### closed facts about the three states involved -/

theorem letterPS_f₀ : LetterPS (mkPS f₀) := ⟨by decide, by decide, rfl, rfl, rfl, by decide, rfl⟩
theorem letterPS_math {d : Str} {disp : Bool} (h : Dollar d disp) : LetterPS (mkPS (mathFields f₀ d)) := by
  rcases h with ⟨rfl, rfl⟩ | ⟨rfl, rfl⟩
  · exact ⟨by decide, by decide, rfl, rfl, rfl, by decide, rfl⟩
  · exact ⟨by decide, by decide, rfl, rfl, rfl, by decide, rfl⟩

theorem expectClose_dollar {d : Str} {disp : Bool} (h : Dollar d disp) :
    (mkPS (mathFields f₀ d)).t.expectClose = some (d, disp) := by
  rcases h with ⟨rfl, rfl⟩ | ⟨rfl, rfl⟩ <;> decide

theorem stop_char (stop : StopTok) (t : Token) (h : t.kind = .char) : stop.test t = false := by
  cases stop with
  | none => rfl
  | braceClose c => rw [StopTok.test, h]; rfl
  | mathClose d c => cases d <;> (rw [StopTok.test, h]; rfl)
  | endEnv n => rw [StopTok.test, h]; rfl

/-- where the pending characters start after the run `w` has been pushed at `p` -/
def pendAfter (pp : Option Nat) (p : Nat) : Str → Option Nat
  | [] => pp
  | _ :: _ => some (pp.getD p)

theorem run_succ (env : Env) (n : Nat) (t : Task) : run env (n + 1) t = step env (run env n) t := rfl

/-! ### a run of letters in the collector -/

theorem letters_loop (tol : Bool) (s : Str) (f : PSFields) (hps : LetterPS (mkPS f)) (stop : StopTok) (child : ChildPS) :
    ∀ (w : Str) (p : Nat) (acc : List Node) (pd : Str) (pp : Option Nat) (rest : Str) (n : Nat),
      (∀ c ∈ w, isAsciiAlpha c = true) → s.drop p = w ++ rest →
      run (denv tol s) (n + w.length) (.loop f stop child { pos := p, acc := acc, pend := pd, pendPos := pp }) =
      run (denv tol s) n
        (.loop f stop child { pos := p + w.length, acc := acc, pend := pd ++ w, pendPos := pendAfter pp p w }) := by
  intro w
  induction w with
  | nil => intro p acc pd pp rest n _ _; simp [pendAfter]
  | cons c w ih =>
    intro p acc pd pp rest n hw hdrop
    have hc : isAsciiAlpha c = true := hw c (by simp)
    have hdrop' : s.drop p = c :: (w ++ rest) := hdrop
    have e : n + (c :: w).length = (n + w.length) + 1 := by simp only [List.length_cons]; omega
    rw [e, run_succ]
    have hpk : peekTok tol (mkPS f) s p = .tok { kind := .char, arg := [c], pos := p, posEnd := p + 1, pre := [] } := by
      unfold peekTok; rw [peek_letter (mkPS f) hps s p c _ hdrop' hc]
    have hr : loopRead (denv tol s) f { pos := p, acc := acc, pend := pd, pendPos := pp } =
        .inl { kind := .char, arg := [c], pos := p, posEnd := p + 1, pre := [] } := by
      unfold loopRead; simp only [denv_tol, denv_s]; rw [hpk]
    simp only [step]
    unfold loopStep
    rw [hr]
    have hst : stop.test { kind := .char, arg := [c], pos := p, posEnd := p + 1, pre := [] } = false :=
      stop_char stop _ rfl
    have hkc : (TokKind.char == TokKind.char) = true := rfl
    simp only [hst, Bool.false_eq_true, if_false, hkc, if_true]
    have ih2 := ih (p + 1) acc (pd ++ [c]) (some (pp.getD p)) rest n (fun x hx => hw x (by simp [hx]))
      (drop_succ hdrop')
    have e1 : ({ pos := p, acc := acc, pend := pd, pendPos := pp } : LoopSt).push ([] ++ [c]) (p - ([] : Str).length) =
        { pos := p, acc := acc, pend := pd ++ [c], pendPos := some (pp.getD p) } := by
      cases pp <;> simp [LoopSt.push]
    rw [e1]
    simp only
    rw [ih2]
    congr 2
    have e2 : p + 1 + w.length = p + (c :: w).length := by simp only [List.length_cons]; omega
    rw [e2, List.append_assoc]
    cases w <;> simp [pendAfter]

/-! ### the body of a formula -/

theorem mathTok_stop {d : Str} {disp : Bool} (h : Dollar d disp) (p : Nat) :
    (StopTok.mathClose disp d).test (mathTok p [] d disp) = true := by
  rcases h with ⟨rfl, rfl⟩ | ⟨rfl, rfl⟩ <;> rfl

theorem body_loop (tol : Bool) (s : Str) {d : Str} {disp : Bool} (hd : Dollar d disp) (a : Str) (ha : PlainX a) (p : Nat) (rest : Str)
    (hdrop : s.drop p = a ++ (d ++ rest)) (n : Nat) (hn : a.length + 1 ≤ n) :
    run (denv tol s) n (.loop (mathFields f₀ d) (.mathClose disp d) .same { pos := p }) =
      .loopEnd { nodes := [Node.chars p (p + a.length) (mathInfo d) a], pos := p + a.length,
                 stopTok := some (mathTok (p + a.length) [] d disp), err := none } := by
  obtain ⟨m, rfl⟩ : ∃ m, n = (m + 1) + a.length := ⟨n - a.length - 1, by omega⟩
  rw [letters_loop tol s _ (letterPS_math hd) _ _ a p [] [] none (d ++ rest) (m + 1) ha.2 hdrop, run_succ]
  have hpend : pendAfter none p a = some p := by
    cases a with
    | nil => exact absurd rfl ha.1
    | cons x xs => rfl
  rw [hpend]
  have hd2 := drop_add a (d ++ rest) hdrop
  have hpk : peekTok tol (mkPS (mathFields f₀ d)) s (p + a.length) = .tok (mathTok (p + a.length) [] d disp) := by
    unfold peekTok
    rcases hd with ⟨rfl, rfl⟩ | ⟨rfl, rfl⟩
    · rw [peek_close _ s _ ['$'] false '$' [] rest rfl hd2 (by decide) (by decide) (by decide) (by decide) (by decide)]
    · rw [peek_close _ s _ ['$', '$'] true '$' ['$'] rest rfl hd2 (by decide) (by decide) (by decide) (by decide)
        (by decide)]
  have hr : loopRead (denv tol s) (mathFields f₀ d) { pos := p + a.length, acc := [], pend := [] ++ a, pendPos := some p } =
      .inl (mathTok (p + a.length) [] d disp) := by
    unfold loopRead; simp only [denv_tol, denv_s]; rw [hpk]
  simp only [step]
  unfold loopStep
  rw [hr]
  simp only [mathTok_stop hd, if_true]
  simp [loopFinish, LoopSt.flush, LoopSt.push, mathTok, ha.1, psInfo_mathFields]

/-- the general-nodes parser on the body of a formula -/
theorem body_pc (tol : Bool) (s : Str) {d : Str} {disp : Bool} (hd : Dollar d disp) (a : Str) (ha : PlainX a) (p : Nat) (rest : Str)
    (hdrop : s.drop p = a ++ (d ++ rest)) (n : Nat) (hn : a.length + 2 ≤ n) :
    run (denv tol s) n (.pc (.general (.mathClose disp d) true .same) (mathFields f₀ d) p) =
      .ok (.list (some p) (some (p + a.length)) [Node.chars p (p + a.length) (mathInfo d) a])
        (p + a.length + d.length) := by
  obtain ⟨m, rfl⟩ : ∃ m, n = m + 1 := ⟨n - 1, by omega⟩
  rw [run_succ]
  simp only [step, rawParse]
  unfold rawGeneral
  rw [body_loop tol s hd a ha p rest hdrop m (by omega)]
  simp [retOfLoop, listOf, parseContent, StopTok.isSome, movePastToken, mathTok, Node.pos, Node.posEnd]

/-! ### a formula -/

theorem mathTok_cond {d : Str} {disp : Bool} (h : Dollar d disp) (p : Nat) :
    ((mathTok p [] d disp).pre.isEmpty && ((mathTok p [] d disp).kind == .mathInline ||
      (mathTok p [] d disp).kind == .mathDisplay) && (mathTok p [] d disp).arg == d) = true := by
  rcases h with ⟨rfl, rfl⟩ | ⟨rfl, rfl⟩ <;> rfl

/-- the node of the formula `d a d` at `p` -/
def formula (p : Nat) (d : Str) (disp : Bool) (a : Str) : Node :=
  Node.math p (p + a.length + 2 * d.length) {} disp d d
    (some [Node.chars (p + d.length) (p + d.length + a.length) (mathInfo d) a])

theorem math_pc (tol : Bool) (s : Str) {d : Str} {disp : Bool} (hd : Dollar d disp) (a : Str) (ha : PlainX a) (p : Nat) (rest : Str)
    (hdrop : s.drop p = d ++ (a ++ (d ++ rest)))
    (hopen : peekImpl (mkPS f₀) s p = .tok (mathTok p [] d disp)) (n : Nat) (hn : a.length + 3 ≤ n) :
    run (denv tol s) n (.pc (.math d) f₀ p) = .ok (.node (formula p d disp a)) (p + a.length + 2 * d.length) := by
  obtain ⟨m, rfl⟩ : ∃ m, n = m + 1 := ⟨n - 1, by omega⟩
  rw [run_succ]
  simp only [step, rawParse]
  unfold rawMath
  have hpk : peekTok (denv tol s).tol (mkPS f₀) (denv tol s).s p = .tok (mathTok p [] d disp) := by
    simp only [denv_tol, denv_s]; unfold peekTok; rw [hopen]
  rw [hpk]
  simp only
  unfold rawMathTok
  rw [mathTok_cond hd]
  simp only [if_true]
  have harg : (mathTok p [] d disp).arg = d := rfl
  have hend : (mathTok p [] d disp).posEnd = p + d.length := rfl
  have hpos : (mathTok p [] d disp).pos = p := rfl
  have hkind : ((mathTok p [] d disp).kind == TokKind.mathDisplay) = disp := mathTok_kindX _ _ _ _
  rw [harg, hend, hpos, hkind, expectClose_dollar hd]
  simp only
  rw [body_pc tol s hd a ha (p + d.length) rest (drop_add d _ hdrop) m (by omega)]
  simp only [bindOk, parseContent, bodyOf, formula]
  have e : p + d.length + a.length + d.length = p + a.length + 2 * d.length := by omega
  rw [e]
  rfl

/-! ### the top-level collector -/

theorem byOpen_dollar {d : Str} {disp : Bool} (h : Dollar d disp) :
    ((mkPS f₀).t.mathByOpen.any fun x => x.1 == d) = true := by
  rcases h with ⟨rfl, rfl⟩ | ⟨rfl, rfl⟩ <;> decide

theorem top_formula (tol : Bool) (s : Str) {d : Str} {disp : Bool} (hd : Dollar d disp) (a : Str) (ha : PlainX a) (p : Nat) (rest : Str)
    (acc : List Node)
    (hdrop : s.drop p = d ++ (a ++ (d ++ rest)))
    (hopen : peekImpl (mkPS f₀) s p = .tok (mathTok p [] d disp)) (n : Nat) (hn : a.length + 3 ≤ n) :
    run (denv tol s) (n + 1) (.loop f₀ .none .same { pos := p, acc := acc }) =
      run (denv tol s) n (.loop f₀ .none .same { pos := p + a.length + 2 * d.length, acc := acc ++ [formula p d disp a] }) := by
  rw [run_succ]
  simp only [step]
  unfold loopStep
  have hpk : peekTok tol (mkPS f₀) s p = .tok (mathTok p [] d disp) := by unfold peekTok; rw [hopen]
  have hr : loopRead (denv tol s) f₀ { pos := p, acc := acc } = .inl (mathTok p [] d disp) := by
    unfold loopRead; simp only [denv_tol, denv_s]; rw [hpk]
  rw [hr]
  have hk : ((mathTok p [] d disp).kind == TokKind.char) = false := by cases disp <;> rfl
  simp only [StopTok.test, Bool.false_eq_true, if_false, hk]
  have hfb : ({ pos := p, acc := acc } : LoopSt).flushBefore f₀ (mathTok p [] d disp) = { pos := p, acc := acc } := by
    simp [LoopSt.flushBefore, mathTok]
  rw [hfb]
  unfold loopDispatch
  have hm := math_pc tol s hd a ha p rest hdrop hopen n hn
  cases disp with
  | false =>
    simp only [mathTok, Bool.false_eq_true, if_false, byOpen_dollar hd, if_true, ChildPS.get]
    rw [hm]
    simp only [afterChild]
  | true =>
    simp only [mathTok, if_true, byOpen_dollar hd, ChildPS.get]
    rw [hm]
    simp only [afterChild]

theorem top_eos (tol : Bool) (s : Str) (p : Nat) (acc : List Node) (h : s.drop p = []) (n : Nat) :
    run (denv tol s) (n + 1) (.loop f₀ .none .same { pos := p, acc := acc }) =
      .loopEnd { nodes := acc, pos := p, stopTok := none, err := none } := by
  rw [run_succ]
  simp only [step]
  unfold loopStep
  have hr : loopRead (denv tol s) f₀ { pos := p, acc := acc } =
      .inr (.loopEnd { nodes := acc, pos := p, stopTok := none, err := none }) := by
    unfold loopRead; simp only [denv_tol, denv_s]; unfold peekTok; rw [peekImpl_eos _ h]
    simp [loopFinish, LoopSt.flush]
  rw [hr]

end C10
end Pylx
