/-
  C06 — the monotonicity contract: every `parse_content` call returns with the reader at or after the
  position it was started at (in both modes, including tolerant recovery), a collector loop ends at or after
  its start, and the delimited-group / math parsers return a node only after strictly advancing.
-/
import PylxProofs.ParseSpec
import PylxProofs.C06Tok
namespace Pylx

/-! ### search helpers -/

theorem findStrFromAux_ge (t : Str) : ∀ (l : Str) (p e : Nat), findStrFromAux t l p = some e → p ≤ e
  | [], p, e, h => by
    unfold findStrFromAux at h
    split at h
    · cases h; exact Nat.le_refl _
    · cases h
  | c :: cs, p, e, h => by
    unfold findStrFromAux at h
    split at h
    · cases h; exact Nat.le_refl _
    · have := findStrFromAux_ge t cs (p+1) e h
      omega

theorem findStrFrom_ge (s t : Str) (p e : Nat) (h : findStrFrom s t p = some e) : p ≤ e := by
  unfold findStrFrom at h
  split at h
  · cases h
  · exact findStrFromAux_ge t _ p e h

theorem verbScan_ge (o c : Char) : ∀ (l : Str) (depth i e : Nat), verbScan o c l depth i = some e → i ≤ e
  | [], _, _, _, h => by unfold verbScan at h; cases h
  | ch :: rest, depth, i, e, h => by
    unfold verbScan at h
    split at h
    · split at h
      · cases h; exact Nat.le_refl _
      · have := verbScan_ge o c rest _ _ e h; omega
    · split at h
      · have := verbScan_ge o c rest _ _ e h; omega
      · have := verbScan_ge o c rest _ _ e h; omega

/-! ### the field invariant: configured math delimiters are non-empty -/

theorem delimsOk_of_eq {f g : PSFields} (h1 : g.inlineDelims = f.inlineDelims) (h2 : g.displayDelims = f.displayDelims)
    (h : DelimsOk f) : DelimsOk g := by
  unfold DelimsOk at *
  rw [h1, h2]; exact h

theorem delimsOk_normalize {f : PSFields} (h : DelimsOk f) : DelimsOk f.normalize := by
  unfold PSFields.normalize
  split
  · exact h
  · exact delimsOk_of_eq rfl rfl h

theorem delimsOk_applyDelta {f : PSFields} (d : Delta) (h : DelimsOk f) : DelimsOk (applyDelta f d) := by
  cases d
  · exact h
  · exact delimsOk_normalize (delimsOk_of_eq rfl rfl h)
  · exact delimsOk_normalize (delimsOk_of_eq rfl rfl h)

theorem delimsOk_mathFields {f : PSFields} (d : Str) (h : DelimsOk f) : DelimsOk (mathFields f d) :=
  delimsOk_normalize (delimsOk_of_eq rfl rfl h)

theorem delimsOk_exprFields {f : PSFields} (h : DelimsOk f) :
    DelimsOk ({ f with enEnvs := false } : PSFields).normalize :=
  delimsOk_normalize (delimsOk_of_eq rfl rfl h)

theorem delimsOk_groupState {d : GroupDelims} {f g : PSFields} (hg : groupState d f = some g) (h : DelimsOk f) :
    DelimsOk g := by
  unfold groupState at hg
  split at hg
  · split at hg
    · cases hg; exact h
    · cases hg
  · split at hg
    · cases hg; exact h
    · cases hg; exact delimsOk_of_eq rfl rfl h

def ChildPS.Ok : ChildPS → Prop
  | .same => True
  | .group _ c o => DelimsOk c ∧ DelimsOk o

def Parser.Ok : Parser → Prop
  | .general _ _ ch => ch.Ok
  | _ => True

def Task.Ok : Task → Prop
  | .pc p f _ => p.Ok ∧ DelimsOk f
  | .loop f _ ch _ => ch.Ok ∧ DelimsOk f
  | .expr _ _ f _ => DelimsOk f

theorem ChildPS.get_ok {c : ChildPS} {f : PSFields} (t : Token) (hc : c.Ok) (hf : DelimsOk f) : DelimsOk (c.get f t) := by
  cases c with
  | same => exact hf
  | group o a b =>
    unfold ChildPS.get
    dsimp only
    split
    · exact hc.1
    · exact hc.2

/-! ### the contract -/

/-- where tolerant recovery puts the reader -/
def recPos (e : PErr) : Nat :=
  match e.recAt with
  | some t => moveToToken t true
  | none => match e.recPast with
    | some t => movePastToken t true
    | none => e.rpos

theorem parseContent_perr_true (e : PErr) : parseContent true (.ret (.perr e)) = .ok e.recNodes (recPos e) := rfl
theorem parseContent_perr_false (e : PErr) : parseContent false (.ret (.perr e)) = .perr e := rfl

/-- what a `parse_content` call started at `pos` promises about the result `res` and the new position `q` -/
def PQ (s : Str) : Parser → Nat → Res → Nat → Prop
  | .group _ _ _, pos, res, q => pos ≤ q ∧ ∀ n, res = .node n → pos < q ∧ n.posEnd = q
  | .math _, pos, res, q => pos ≤ q ∧ (∀ n, res = .node n → pos < q) ∧ (res = .none → EosAt s pos)
  | _, pos, _, q => pos ≤ q

theorem PQ_le {s : Str} {p : Parser} {pos : Nat} {res : Res} {q : Nat} (h : PQ s p pos res q) : pos ≤ q := by
  cases p <;> first | exact h | exact h.1

def PcAdv (env : Env) (p : Parser) (pos : Nat) : Ret → Prop
  | .ok res q => PQ env.s p pos res q
  | .perr _ => env.tol = false
  | _ => True

def ExprAdv (env : Env) (pos : Nat) : Ret → Prop
  | .ok _ q => pos ≤ q
  | .perr e => env.tol = true → pos ≤ recPos e
  | _ => True

def LoopAdv (p0 : Nat) : Ret → Prop
  | .loopEnd e => p0 ≤ e.pos ∧ ∀ t, e.stopTok = some t → p0 < t.posEnd
  | _ => True

def Adv (env : Env) : Task → Ret → Prop
  | .pc p _ pos, r => PcAdv env p pos r
  | .loop _ _ _ st, r => LoopAdv st.pos r
  | .expr _ _ _ pos, r => ExprAdv env pos r

def RawAdv (env : Env) (p : Parser) (pos : Nat) : Raw → Prop
  | .eos q => PQ env.s p pos .none q
  | .ret (.ok res q) => PQ env.s p pos res q
  | .ret (.perr e) => env.tol = true → PQ env.s p pos e.recNodes (recPos e)
  | .ret _ => True

theorem parseContent_adv {env : Env} {p : Parser} {pos : Nat} {raw : Raw} (h : RawAdv env p pos raw) :
    PcAdv env p pos (parseContent env.tol raw) := by
  cases raw with
  | eos q => exact h
  | ret r =>
    cases r with
    | ok res q => exact h
    | perr e =>
      cases ht : env.tol with
      | true => rw [parseContent_perr_true]; exact h ht
      | false => rw [parseContent_perr_false]; exact ht
    | loopEnd e => trivial
    | crash k => trivial
    | fuel => trivial

theorem LoopAdv.mono {p0 p1 : Nat} {r : Ret} (h01 : p0 ≤ p1) (h : LoopAdv p1 r) : LoopAdv p0 r := by
  cases r with
  | loopEnd e => exact ⟨Nat.le_trans h01 h.1, fun t ht => Nat.lt_of_le_of_lt h01 (h.2 t ht)⟩
  | _ => trivial

theorem ExprAdv.mono {env : Env} {p0 p1 : Nat} {r : Ret} (h01 : p0 ≤ p1) (h : ExprAdv env p1 r) : ExprAdv env p0 r := by
  cases r with
  | ok res q => exact Nat.le_trans h01 h
  | perr e => exact fun ht => Nat.le_trans h01 (h ht)
  | _ => trivial

/-! ### the collector -/

theorem flush_pos (f : PSFields) (st : LoopSt) : (st.flush f).pos = st.pos := by
  unfold LoopSt.flush; split <;> rfl

theorem flushBefore_pos (f : PSFields) (st : LoopSt) (t : Token) : (st.flushBefore f t).pos = st.pos := by
  unfold LoopSt.flushBefore
  split
  · rw [flush_pos]
  · split <;> rfl

theorem loopFinish_adv (f : PSFields) (st : LoopSt) (stopTok : Option Token) (err : Option PErr) (p0 : Nat)
    (h1 : p0 ≤ st.pos) (h2 : ∀ t, stopTok = some t → p0 < t.posEnd) : LoopAdv p0 (loopFinish f st stopTok err) := by
  unfold loopFinish
  exact ⟨by rw [flush_pos]; exact h1, h2⟩

section withRec
variable {env : Env} {rec : Task → Ret} (hrec : ∀ t, t.Ok → Adv env t (rec t))
include hrec

theorem afterChild_adv {f : PSFields} {stop : StopTok} {child : ChildPS} {st : LoopSt} {noneOk : Bool} {r : Ret}
    (hch : child.Ok) (hf : DelimsOk f) (p0 : Nat) (hst : p0 ≤ st.pos) (hq : ∀ res q, r = .ok res q → p0 ≤ q) :
    LoopAdv p0 (afterChild rec f stop child st noneOk r) := by
  unfold afterChild
  cases r with
  | ok res q =>
    have hq' := hq res q rfl
    cases res with
    | node n => exact LoopAdv.mono hq' (hrec (.loop f stop child _) ⟨hch, hf⟩)
    | none =>
      dsimp only
      split
      · exact LoopAdv.mono hq' (hrec (.loop f stop child _) ⟨hch, hf⟩)
      · trivial
    | list a b c => trivial
    | args a b c => trivial
  | perr e => exact loopFinish_adv f st none _ p0 hst (fun t ht => by cases ht)
  | loopEnd e => trivial
  | crash k => trivial
  | fuel => trivial

theorem loopDispatch_adv {f : PSFields} {stop : StopTok} {child : ChildPS} {st : LoopSt} {t : Token}
    (hch : child.Ok) (hf : DelimsOk f) (p0 : Nat) (hst : p0 ≤ st.pos) (ht : p0 ≤ t.pos) :
    LoopAdv p0 (loopDispatch env rec f stop child st t) := by
  have hcf := ChildPS.get_ok t hch hf
  have fin : ∀ e, LoopAdv p0 (loopFinish f st none e) := fun e => loopFinish_adv f st none e p0 hst (fun t ht => by cases ht)
  have lp : ∀ st' : LoopSt, st'.pos = st.pos → LoopAdv p0 (rec (.loop f stop child st')) := fun st' h =>
    LoopAdv.mono (by rw [h]; exact hst) (hrec (.loop f stop child st') ⟨hch, hf⟩)
  have ch : ∀ (P : Parser) (start : Nat) (b : Bool), P.Ok → p0 ≤ start →
      LoopAdv p0 (afterChild rec f stop child st b (rec (.pc P (child.get f t) start))) := by
    intro P start b hP hs
    apply afterChild_adv hrec hch hf p0 hst
    intro res q hr
    have := hrec (.pc P (child.get f t) start) ⟨hP, hcf⟩
    rw [hr] at this
    exact Nat.le_trans hs (PQ_le this)
  unfold loopDispatch
  cases hk : t.kind <;> simp only
  · trivial
  · split
    · split
      · exact lp st rfl
      · exact fin _
    · exact ch _ _ _ trivial hst
  · split
    · split
      · exact lp st rfl
      · exact fin _
    · exact ch _ _ _ trivial hst
  · exact fin _
  · exact lp _ rfl
  · exact ch _ _ _ trivial ht
  · exact fin _
  · split
    · exact ch _ _ _ trivial ht
    · exact fin _
  · split
    · exact ch _ _ _ trivial ht
    · exact fin _
  · split
    · trivial
    · exact ch _ _ _ trivial hst

end withRec


/-! ### reading a token in the collector -/

/-- what the collector knows about the token it works on (read at `p0`, or the synthesised final-space token) -/
structure LTok (s : Str) (p0 : Nat) (t : Token) : Prop where
  pos_eq : t.pos = p0 + t.pre.length
  adv : p0 < t.posEnd
  le : t.pos ≤ t.posEnd
  in_range : t.posEnd ≤ s.length
  math : isMathKind t.kind = true → ¬ EosAt s t.pos

theorem LTok.of_peek {tol : Bool} {g : PSFields} (hg : DelimsOk g) {s : Str} {p : Nat} {t : Token}
    (h : peekTok tol (mkPS g) s p = .tok t) : LTok s p t := by
  have hs := span_of_fields tol g hg s p t h
  have h1 := hs.pos_eq
  have h2 := hs.nonempty
  exact ⟨h1, by omega, by omega, hs.in_range, peekTok_math_not_eos tol _ s p t h⟩

theorem loopRead_inl {env : Env} {f : PSFields} {st : LoopSt} {t : Token} (hf : DelimsOk f)
    (h : loopRead env f st = .inl t) : LTok env.s st.pos t := by
  unfold loopRead at h
  split at h
  · rename_i t' ht'
    cases h
    exact LTok.of_peek hf ht'
  · rename_i fs hfs
    split at h
    · cases h
    · rename_i hne
      cases h
      obtain ⟨h1, _⟩ := peekTok_eos_spec _ _ _ _ _ hfs
      have hl := spaceRun_length_le env.s st.pos
      rw [← h1] at hl
      have hpos : 0 < fs.length := by
        cases fs with
        | nil => simp at hne
        | cons a l => simp
      exact ⟨rfl, by show st.pos < st.pos + fs.length; omega, Nat.le_refl _, by show st.pos + fs.length ≤ _; omega,
             by intro hk; cases hk⟩
  · cases h

theorem loopRead_inr {env : Env} {f : PSFields} {st : LoopSt} {r : Ret} (h : loopRead env f st = .inr r) :
    ∃ err, r = loopFinish f st none err := by
  unfold loopRead at h
  split at h
  · cases h
  · split at h
    · cases h; exact ⟨_, rfl⟩
    · cases h
  · cases h; exact ⟨_, rfl⟩

section withRec2
variable {env : Env} {rec : Task → Ret} (hrec : ∀ t, t.Ok → Adv env t (rec t))
include hrec

theorem loopStep_adv {f : PSFields} {stop : StopTok} {child : ChildPS} {st : LoopSt}
    (hch : child.Ok) (hf : DelimsOk f) : LoopAdv st.pos (loopStep env rec f stop child st) := by
  unfold loopStep
  cases hr : loopRead env f st with
  | inr r =>
    obtain ⟨err, rfl⟩ := loopRead_inr hr
    exact loopFinish_adv f st none err st.pos (Nat.le_refl _) (fun t ht => by cases ht)
  | inl t =>
    have lt := loopRead_inl hf hr
    have h1 := lt.pos_eq
    have h2 := lt.adv
    have h3 := lt.le
    dsimp only
    split
    · apply loopFinish_adv
      · show st.pos ≤ t.pos; omega
      · intro t' ht'; cases ht'; exact h2
    · split
      · exact LoopAdv.mono (show st.pos ≤ t.posEnd by omega) (hrec (.loop f stop child _) ⟨hch, hf⟩)
      · apply loopDispatch_adv hrec hch hf
        · show st.pos ≤ t.posEnd; omega
        · show st.pos ≤ t.pos; omega

/-! ### the parsers -/

omit hrec in
theorem bindOk_adv {p : Parser} {pos : Nat} {r : Ret} {k : Res → Nat → Raw}
    (hperr : ∀ e, r = .perr e → env.tol = false)
    (hk : ∀ res q, r = .ok res q → RawAdv env p pos (k res q)) : RawAdv env p pos (bindOk r k) := by
  unfold bindOk
  cases r with
  | ok res q => exact hk res q rfl
  | perr e =>
    intro ht
    rw [hperr e rfl] at ht; cases ht
  | loopEnd e => trivial
  | crash k => trivial
  | fuel => trivial

theorem pc_perr {P : Parser} {g : PSFields} {start : Nat} (hP : P.Ok) (hg : DelimsOk g) :
    ∀ e, rec (.pc P g start) = .perr e → env.tol = false := by
  intro e he
  have := hrec (.pc P g start) ⟨hP, hg⟩
  rw [he] at this
  exact this

theorem pc_ok {P : Parser} {g : PSFields} {start : Nat} (hP : P.Ok) (hg : DelimsOk g) :
    ∀ res q, rec (.pc P g start) = .ok res q → PQ env.s P start res q := by
  intro res q he
  have := hrec (.pc P g start) ⟨hP, hg⟩
  rw [he] at this
  exact this

theorem rawGeneral_adv {stop : StopTok} {require : Bool} {child : ChildPS} {f : PSFields} {pos : Nat}
    (hch : child.Ok) (hf : DelimsOk f) :
    RawAdv env (.general stop require child) pos (rawGeneral rec stop require child f pos) := by
  unfold rawGeneral retOfLoop
  have h := hrec (.loop f stop child { pos := pos }) ⟨hch, hf⟩
  cases hr : rec (.loop f stop child { pos := pos }) with
  | loopEnd e =>
    rw [hr] at h
    obtain ⟨h1, h2⟩ := h
    have h1 : pos ≤ e.pos := h1
    dsimp only
    cases he : e.err with
    | some pe => intro _; exact h1
    | none =>
      dsimp only
      split
      · intro _; exact h1
      · cases hs : e.stopTok with
        | none => exact h1
        | some t =>
          have := h2 t hs
          show pos ≤ _
          split
          · show pos ≤ movePastToken t true
            simp only [movePastToken, if_true]
            exact Nat.le_of_lt this
          · exact h1
  | ok a b => trivial
  | perr e => trivial
  | crash k => trivial
  | fuel => trivial

theorem rawGroupTok_adv {delims : GroupDelims} {optional allowPre : Bool} {f g : PSFields} {t : Token} {pos : Nat}
    (hg : DelimsOk g) (hf : DelimsOk f) (ht : LTok env.s pos t) :
    RawAdv env (.group delims optional allowPre) pos (rawGroupTok rec delims optional allowPre f g t) := by
  have h1 := ht.pos_eq
  have h2 := ht.adv
  have h3 := ht.le
  unfold rawGroupTok
  split
  · split
    · trivial
    · rename_i c hc
      have hP : (Parser.general (.braceClose c) true (.group delims.opener g f)).Ok := ⟨hg, hf⟩
      apply bindOk_adv (pc_perr hrec hP hg)
      intro res q hr
      have := PQ_le (pc_ok hrec hP hg res q hr)
      show pos ≤ q ∧ ∀ n, Res.node _ = Res.node n → pos < q ∧ n.posEnd = q
      refine ⟨by omega, ?_⟩
      intro n hn
      cases hn
      exact ⟨by omega, rfl⟩
  · split
    · show pos ≤ moveToToken t true ∧ _
      simp only [moveToToken, if_true]
      exact ⟨by omega, fun n hn => by cases hn⟩
    · intro _
      show pos ≤ recPos (notFoundErr t) ∧ ∀ n, (notFoundErr t).recNodes = Res.node n → _
      simp only [recPos, notFoundErr, moveToToken, if_true]
      exact ⟨by omega, fun n hn => by cases hn⟩

theorem rawGroup_adv {delims : GroupDelims} {optional allowPre : Bool} {f : PSFields} {pos : Nat} (hf : DelimsOk f) :
    RawAdv env (.group delims optional allowPre) pos (rawGroup env rec delims optional allowPre f pos) := by
  unfold rawGroup
  cases hgs : groupState delims f with
  | none => trivial
  | some g =>
    have hg := delimsOk_groupState hgs hf
    dsimp only
    cases hp : peekTok env.tol (mkPS g) env.s pos with
    | eos fs => exact ⟨Nat.le_refl _, fun n hn => by cases hn⟩
    | err w ep t r =>
      intro _
      exact ⟨Nat.le_refl _, fun n hn => by cases hn⟩
    | tok t => exact rawGroupTok_adv hrec hg hf (LTok.of_peek hg hp)

theorem rawMathTok_adv {delim : Str} {f : PSFields} {t : Token} {pos : Nat}
    (hf : DelimsOk f) (ht : LTok env.s pos t) :
    RawAdv env (.math delim) pos (rawMathTok rec delim f t) := by
  have h1 := ht.pos_eq
  have h2 := ht.adv
  have h3 := ht.le
  unfold rawMathTok
  split
  · split
    · trivial
    · rename_i cd hcd
      have hg := delimsOk_mathFields t.arg hf
      have hP : (Parser.general (.mathClose (t.kind == .mathDisplay) cd.1) true .same).Ok := trivial
      apply bindOk_adv (pc_perr hrec hP hg)
      intro res q hr
      have := PQ_le (pc_ok hrec hP hg res q hr)
      show pos ≤ q ∧ (∀ n, Res.node _ = Res.node n → pos < q) ∧ (Res.node _ = Res.none → _)
      exact ⟨by omega, (fun n _ => by omega), (fun hn => by cases hn)⟩
  · intro _
    show pos ≤ recPos (notFoundErr t) ∧ (∀ n, (notFoundErr t).recNodes = Res.node n → _) ∧
      ((notFoundErr t).recNodes = Res.none → _)
    simp only [recPos, notFoundErr, moveToToken, if_true]
    exact ⟨by omega, (fun n hn => by cases hn), (fun hn => by cases hn)⟩

theorem rawMath_adv {delim : Str} {f : PSFields} {pos : Nat} (hf : DelimsOk f) :
    RawAdv env (.math delim) pos (rawMath env rec delim f pos) := by
  unfold rawMath
  cases hp : peekTok env.tol (mkPS f) env.s pos with
  | eos fs => exact ⟨Nat.le_refl _, (fun n hn => by cases hn), (fun _ => (peekTok_eos_spec _ _ _ _ _ hp).2)⟩
  | err w ep t r =>
    intro ht
    exfalso
    rw [ht] at hp
    unfold peekTok at hp
    split at hp
    · simp at hp
    · rename_i hne; exact hne _ _ _ _ hp
  | tok t => exact rawMathTok_adv hrec hf (LTok.of_peek hf hp)

theorem rawEnvBody_adv {name : Str} {f : PSFields} {pos : Nat} (hf : DelimsOk f) :
    RawAdv env (.envBody name) pos (rawEnvBody rec name f pos) := by
  unfold rawEnvBody
  have hP : (Parser.general (.endEnv name) true .same).Ok := trivial
  apply bindOk_adv (pc_perr hrec hP hf)
  intro res q hr
  have := PQ_le (pc_ok hrec hP hf res q hr)
  split <;> exact this

theorem rawCall_adv {P : Parser} {mk : Nat → Option (List Arg) → Node} {a : ArgsP} {f : PSFields} {pos : Nat}
    (hPQ : ∀ res q, pos ≤ q → PQ env.s P pos res q) (hf : DelimsOk f) :
    RawAdv env P pos (rawCall rec mk a f pos) := by
  unfold rawCall
  have hP : (Parser.arguments a).Ok := trivial
  apply bindOk_adv (pc_perr hrec hP hf)
  intro res q hr
  exact hPQ _ _ (PQ_le (pc_ok hrec hP hf res q hr))

theorem rawEnvCall_adv {t : Token} {a : ArgsP} {bm : Bool} {f : PSFields} {pos : Nat} (hf : DelimsOk f) :
    RawAdv env (.envCall t a bm) pos (rawEnvCall rec t a bm f pos) := by
  unfold rawEnvCall
  have hP : (Parser.arguments a).Ok := trivial
  apply bindOk_adv (pc_perr hrec hP hf)
  intro ares q hr
  have h1 := PQ_le (pc_ok hrec hP hf ares q hr)
  dsimp only
  have hbf : DelimsOk (if bm = true then applyDelta f .enterMath else f) := by
    split
    · exact delimsOk_applyDelta _ hf
    · exact hf
  have hP2 : (Parser.envBody t.arg).Ok := trivial
  apply bindOk_adv (pc_perr hrec hP2 hbf)
  intro bres q2 hr2
  have h2 := PQ_le (pc_ok hrec hP2 hbf bres q2 hr2)
  exact Nat.le_trans h1 h2

omit hrec in
theorem rawLegacyVerb_adv {f : PSFields} {pos : Nat} {a : ArgsP} :
    RawAdv env (.arguments a) pos (rawLegacyVerb env f pos) := by
  unfold rawLegacyVerb
  dsimp only
  split
  · intro _; exact Nat.le_refl _
  · split
    · intro _; exact Nat.le_refl _
    · rename_i e he
      have := (findCharFrom_spec _ _ _ _ he).1
      show pos ≤ e + 1
      omega

omit hrec in
theorem legacyVerbEnvFinish_adv {name : Str} {f : PSFields} {pos : Nat} {pre : List Arg} {p : Nat} {a : ArgsP}
    (hp : pos ≤ p) : RawAdv env (.arguments a) pos (legacyVerbEnvFinish env name f pos pre p) := by
  unfold legacyVerbEnvFinish
  split
  · intro _; exact Nat.le_refl _
  · rename_i e he
    have := findStrFrom_ge _ _ _ _ he
    show pos ≤ e
    omega

theorem rawLegacyVerbEnv_adv {name : Str} {optArg : Bool} {f : PSFields} {pos : Nat} {a : ArgsP} (hf : DelimsOk f) :
    RawAdv env (.arguments a) pos (rawLegacyVerbEnv env rec name optArg f pos) := by
  unfold rawLegacyVerbEnv
  split
  · exact legacyVerbEnvFinish_adv (Nat.le_refl _)
  · split
    · exact legacyVerbEnvFinish_adv (Nat.le_refl _)
    · have hP : (Parser.group (.pair ['['] [']']) true false).Ok := trivial
      apply bindOk_adv (pc_perr hrec hP hf)
      intro res q hr
      have h := pc_ok hrec hP hf res q hr
      split
      · rename_i n
        obtain ⟨h1, h2⟩ := h
        have := (h2 n rfl).2
        exact legacyVerbEnvFinish_adv (by omega)
      · exact legacyVerbEnvFinish_adv (Nat.le_refl _)

omit hrec in
theorem argParser_ok (k : ArgKind) : (argParser k).Ok := by cases k <;> trivial

theorem argsLoop_adv {f : PSFields} (hf : DelimsOk f) :
    ∀ (l : List ArgSpec) (acc : List Arg) (pos : Nat), ExprAdv env pos (argsLoop env rec f l acc pos)
  | [], acc, pos => by unfold argsLoop; exact Nat.le_refl _
  | a :: rest, acc, pos => by
    unfold argsLoop
    split
    · intro _; exact Nat.le_refl _
    · have hg := delimsOk_applyDelta a.delta hf
      have h := hrec (.pc (argParser a.kind) (applyDelta f a.delta) pos) ⟨argParser_ok _, hg⟩
      cases hr : rec (.pc (argParser a.kind) (applyDelta f a.delta) pos) with
      | ok res q =>
        rw [hr] at h
        exact ExprAdv.mono (PQ_le h) (argsLoop_adv hf rest _ q)
      | perr e =>
        rw [hr] at h
        intro ht
        have h : env.tol = false := h
        rw [h] at ht; cases ht
      | loopEnd e => trivial
      | crash k => trivial
      | fuel => trivial

omit hrec in
theorem rawAdv_of_expr {P : Parser} {pos : Nat} {r : Ret} (hPQ : ∀ res q, pos ≤ q → PQ env.s P pos res q)
    (h : ExprAdv env pos r) : RawAdv env P pos (.ret r) := by
  cases r with
  | ok res q => exact hPQ _ _ h
  | perr e => exact fun ht => hPQ _ _ (h ht)
  | loopEnd e => trivial
  | crash k => trivial
  | fuel => trivial

theorem rawArguments_adv {a : ArgsP} {f : PSFields} {pos : Nat} (hf : DelimsOk f) :
    RawAdv env (.arguments a) pos (rawArguments env rec a f pos) := by
  unfold rawArguments
  cases a with
  | std l => exact rawAdv_of_expr (fun _ _ h => h) (argsLoop_adv hrec hf l [] pos)
  | legacyVerb => exact rawLegacyVerb_adv
  | legacyVerbEnv name optArg => exact rawLegacyVerbEnv_adv hrec hf
  | unknown => trivial

omit hrec in
theorem exprFinish_adv {f : PSFields} {nodes : List Node} {pos q : Nat} (h : pos ≤ q) :
    ExprAdv env pos (exprFinish f nodes q) := by
  unfold exprFinish
  split <;> exact h

theorem exprOnTok_adv {allowPre : Bool} {skipped : List Node} {f : PSFields} {t : Token} {pos : Nat}
    (hf : DelimsOk f) (hp : pos ≤ t.pos - t.pre.length) (h3 : t.pos ≤ t.posEnd) :
    ExprAdv env pos (exprOnTok env rec allowPre skipped f t) := by
  have hp2 : pos ≤ t.pos := by omega
  have hp3 : pos ≤ t.posEnd := by omega
  have ex : ∀ sk, ExprAdv env pos (rec (.expr allowPre sk f t.posEnd)) := fun sk =>
    ExprAdv.mono hp3 (hrec (.expr allowPre sk f t.posEnd) hf)
  unfold exprOnTok
  cases hk : t.kind <;> simp only
  · exact exprFinish_adv hp3
  · trivial
  · trivial
  · trivial
  · split
    · exact ex _
    · split
      · exact ex _
      · intro _; exact hp3
  · have hP : (Parser.group (.auto t.arg) false false).Ok := trivial
    have h := hrec (.pc (.group (.auto t.arg) false false) f t.pos) ⟨hP, hf⟩
    cases hr : rec (.pc (.group (.auto t.arg) false false) f t.pos) with
    | ok res q =>
      rw [hr] at h
      have h : PQ env.s (.group (.auto t.arg) false false) t.pos res q := h
      have := PQ_le h
      cases res with
      | node n => exact exprFinish_adv (by omega)
      | none => trivial
      | list a b c => trivial
      | args a b c => trivial
    | perr e =>
      rw [hr] at h
      intro ht
      have h : env.tol = false := h
      rw [h] at ht; cases ht
    | loopEnd e => trivial
    | crash k => trivial
    | fuel => trivial
  · intro _
    show pos ≤ moveToToken t true
    simp only [moveToToken, if_true]
    exact hp
  · intro _
    show pos ≤ movePastToken t true
    simp only [movePastToken, if_true]
    exact hp3
  · intro _
    show pos ≤ movePastToken t true
    simp only [movePastToken, if_true]
    exact hp3
  · trivial

theorem exprTok_adv {allowPre : Bool} {skipped : List Node} {f : PSFields} {t : Token} {pos : Nat}
    (hf : DelimsOk f) (ht : LTok env.s pos t) :
    ExprAdv env pos (exprTok env rec allowPre skipped f t) := by
  have h1 := ht.pos_eq
  have h2 := ht.adv
  have h3 := ht.le
  have hp3 : pos ≤ t.posEnd := by omega
  unfold exprTok
  dsimp only
  split
  · split
    · split
      · exact exprFinish_adv hp3
      · intro _; exact hp3
    · exact exprFinish_adv hp3
  · split
    · exact exprFinish_adv hp3
    · split
      · split
        · exact ExprAdv.mono (by omega) (hrec (.expr allowPre _ f t.pos) hf)
        · split
          · exact ExprAdv.mono hp3 (hrec (.expr allowPre _ f t.posEnd) hf)
          · intro _; exact hp3
      · exact exprOnTok_adv hrec hf (by omega) h3

theorem exprStep_adv {allowPre : Bool} {skipped : List Node} {f : PSFields} {pos : Nat} (hf : DelimsOk f) :
    ExprAdv env pos (exprStep env rec allowPre skipped f pos) := by
  unfold exprStep
  dsimp only
  have hef := delimsOk_exprFields hf
  cases hp : peekTok env.tol (mkPS ({ f with enEnvs := false } : PSFields).normalize) env.s pos with
  | err w ep t r => intro _; exact Nat.le_refl _
  | eos fs =>
    dsimp only
    split
    · exact exprFinish_adv (Nat.le_refl _)
    · intro _; exact Nat.le_refl _
  | tok t => exact exprTok_adv hrec hf (LTok.of_peek hef hp)

omit hrec in
theorem rawMarker_adv {c : Char} {fl ap : Bool} {f : PSFields} {pos : Nat} (hf : DelimsOk f) :
    RawAdv env (.marker c fl ap) pos (rawMarker env c fl ap f pos) := by
  unfold rawMarker
  cases hp : peekTok env.tol (mkPS f) env.s pos with
  | eos fs => exact Nat.le_refl _
  | err w ep t r => intro _; exact Nat.le_refl _
  | tok t =>
    have lt := LTok.of_peek hf hp
    have := lt.adv
    dsimp only
    split
    · exact Nat.le_refl _
    · split
      · show pos ≤ t.posEnd; omega
      · split
        · exact Nat.le_refl _
        · exact Nat.le_refl _

omit hrec in
theorem rawVerbatim_adv {d : Option (Char × Char)} {f : PSFields} {pos : Nat} :
    RawAdv env (.verbatim d) pos (rawVerbatim env d f pos) := by
  unfold rawVerbatim
  dsimp only
  split
  · show pos ≤ _; omega
  · rename_i first hfirst
    have hlt := getElem?_lt _ _ _ hfirst
    split
    · intro _
      show pos ≤ pos + (spaceRun env.s pos).length + 1; omega
    · rename_i o c _
      split
      · rename_i e he
        have := verbScan_ge _ _ _ _ _ _ he
        show pos ≤ e + 1
        omega
      · intro _
        show pos ≤ env.s.length
        omega

theorem rawParse_adv {p : Parser} {f : PSFields} {pos : Nat} (hP : p.Ok) (hf : DelimsOk f) :
    RawAdv env p pos (rawParse env rec p f pos) := by
  unfold rawParse
  cases p with
  | general stop require child => exact rawGeneral_adv hrec hP hf
  | group d o a => exact rawGroup_adv hrec hf
  | math d => exact rawMath_adv hrec hf
  | envBody n => exact rawEnvBody_adv hrec hf
  | macroCall t a => exact rawCall_adv hrec (fun _ _ h => h) hf
  | specialsCall t a => exact rawCall_adv hrec (fun _ _ h => h) hf
  | envCall t a bm => exact rawEnvCall_adv hrec hf
  | arguments a => exact rawArguments_adv hrec hf
  | expression ap => exact rawAdv_of_expr (fun _ _ h => h) (hrec (.expr ap [] f pos) hf)
  | marker c fl ap => exact rawMarker_adv hf
  | verbatim d => exact rawVerbatim_adv

theorem step_adv (t : Task) (ht : t.Ok) : Adv env t (step env rec t) := by
  cases t with
  | pc p f pos => exact parseContent_adv (rawParse_adv hrec ht.1 ht.2)
  | loop f stop child st => exact loopStep_adv hrec ht.1 ht.2
  | expr ap sk f pos => exact exprStep_adv hrec ht

end withRec2

theorem adv_fuel (env : Env) (t : Task) : Adv env t .fuel := by cases t <;> trivial

/-- **Monotonicity.** In both modes, every task's result respects the contract `Adv`: a `parse_content` call
    never leaves the reader before the position it was started at (even when tolerant recovery rewinds to a
    token), and a collector loop ends at or after its start. -/
theorem run_adv (env : Env) : ∀ (n : Nat) (t : Task), t.Ok → Adv env t (run env n t)
  | 0, t, _ => adv_fuel env t
  | n + 1, t, ht => step_adv (rec := run env n) (fun t' ht' => run_adv env n t' ht') t ht

end Pylx

